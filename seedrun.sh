#!/bin/bash
# seedrun.sh <seed id> <Cxx> [tier]: apply seeded/<id>/patch.diff to /repo, run the check, undo.
id=$1; prop=$2; tier=${3:-quick}
cd /repo && git diff --quiet || { echo "/repo has uncommitted changes"; exit 2; }
git apply /verif/seeded/$id/patch.diff || exit 2
cd /verif && VERIF_ONLY=1 ./run.sh $prop $tier > /var/tmp/seedrun-$id-$prop.log 2>&1; rc=$?
git -C /repo checkout -- .
echo "seed=$id check=$prop tier=$tier exit=$rc"; grep -E "violation kinds|^$prop " /var/tmp/seedrun-$id-$prop.log | cut -c1-300
