// Package c44: alert states follow the for / keep_firing_for semantics (reference state machine).
//
// The real rules.AlertingRule is evaluated (directly through AlertingRule.Eval, or through
// Group.Eval against a real TSDB) with a scripted QueryFunc and generated timestamps; after
// every evaluation all alert instances of the rule are read back and compared with a reference
// state machine written from the property statement and docs/configuration/alerting_rules.md,
// recording_rules.md ("Limiting alerts and series") and the flag help texts of
// --rules.alert.for-outage-tolerance / --rules.alert.for-grace-period.
//
// Where the statement leaves the outcome open the reference keeps a SET of allowed outcomes and
// re-synchronises on the observed one:
//   - keep_firing_for: "within keep_firing_for" is decided only where both readings of the anchor
//     (last evaluation at which the condition was met / first evaluation at which it was not)
//     agree; equality is never decisive.
//   - an alert that is firing although ts-ActiveAt < for (hold duration grew on reload, restore
//     moved ActiveAt forward) may stay firing or fall back to pending.
//   - limit: exceeded for sure if the result alone has more elements than the limit, not exceeded
//     for sure if result + alerts possibly kept firing fit; otherwise both.
//   - restore: second truncation of the stored sample time and window/grace boundaries give
//     candidate sets.
package c44

import (
	"context"
	"errors"
	"fmt"
	"math"
	"math/rand/v2"
	"sort"
	"strings"
	"time"

	"github.com/prometheus/prometheus/model/labels"
	"github.com/prometheus/prometheus/model/value"
	"github.com/prometheus/prometheus/promql"
	"github.com/prometheus/prometheus/promql/parser"
	"github.com/prometheus/prometheus/rules"
	"github.com/prometheus/prometheus/tsdb"

	"verif/internal/core"
	"verif/internal/gen"
	"verif/internal/tsdbx"
)

// Violation kinds (one per failure mechanism).
const (
	kUnexpectedAlert    = "alert-present-not-in-reference"
	kPendingNotDropped  = "pending-alert-not-dropped-when-absent"
	kResolvedNotExpired = "resolved-alert-kept-beyond-retention"
	kResolvedLost       = "resolved-alert-not-retained"
	kAlertMissing       = "active-alert-missing"
	kNotFiring          = "not-firing-after-for-duration"
	kFiredEarly         = "firing-before-for-duration"
	kResolvedInKFF      = "resolved-within-keep-firing-for"
	kKeptBeyondKFF      = "still-firing-beyond-keep-firing-for"
	kWrongState         = "wrong-alert-state"
	kActiveAt           = "wrong-active-at"
	kResolvedAt         = "wrong-resolved-at"
	kFiredAt            = "wrong-fired-at"
	kValue              = "wrong-alert-value"
	kActiveList         = "active-alerts-list-inconsistent"
	kSeries             = "alerts-series-mismatch"
	kSeriesTemplate     = "alerts-series-carry-unexpanded-template-label"
	kStaleMissing       = "alerts-series-not-marked-stale"
	kFailedEvalChanged  = "failed-evaluation-changed-state"
	kLimit              = "limit-handling"
	kDupNotRejected     = "duplicate-labelset-not-rejected"
	kEvalErr            = "unexpected-eval-error"
	kErrExpected        = "query-error-not-propagated"
	kRestoreActiveAt    = "restore-wrong-active-at"
	kRestoreFlag        = "restore-not-marked-restored"
	kNotify             = "notified-alert-inconsistent"
)

const retention = 15 * time.Minute // "resolved-retention period" (rules: resolvedRetention)

func init() {
	core.Register(&core.Prop{
		ID:        "C44",
		Title:     "Alert states follow the for and keep_firing_for semantics",
		Level:     "exploration",
		Technique: "runtime monitor with a reference state machine per alert label set: real AlertingRule.Eval / Group.Eval / Group.CopyState / Group.RestoreForState on generated evaluation timelines with a scripted QueryFunc and explicit timestamps",
		LevelText: "Each case is one generated timeline of 20-60 evaluations of one alerting rule (for and keep_firing_for in {0, <interval, =k*interval, >interval}, irregular and exactly aligned evaluation times, gaps around the 15 min resolved retention, 2-5 flapping result series with hostile values, templated/overriding rule labels, query offset, limits, query errors, duplicate label sets, reloads that change for/keep_firing_for through Group.CopyState, restarts followed by two evaluations and Group.RestoreForState against a real TSDB holding the ALERTS_FOR_STATE samples of the previous life or generated ones). After every evaluation every alert instance (ForEachActiveAlert and ActiveAlerts: state, ActiveAt, FiredAt, ResolvedAt, Value), the returned ALERTS/ALERTS_FOR_STATE vector (direct mode) or the samples stored at the evaluation time incl. staleness markers (group mode), and the alerts handed to NotifyFunc are compared with the reference. No wall clock is involved. Held on the observed timelines only.",
		LevelNote: "Reductions w.r.t. the plan (statement leaves these open, so the reference accepts both outcomes): keep_firing_for is decisive only where 'time since the condition was last met' and 'time since the first absent evaluation' give the same verdict (strictly inside/outside); a firing alert whose ActiveAt+for moved into the future (hold duration grown at reload, restore) may stay firing or become pending; retention and window boundaries are not decisive at exact equality; for an alert that was already firing when the server went down only 'ActiveAt <= restore time - for' is required. Failed evaluations (query error, duplicate label set) are treated as not being part of the evaluation sequence: the alert state must be unaffected by them. Limit semantics are taken from docs/configuration/recording_rules.md. ALERTS series are not checked before the restore has run (statement: 'once the for-state restore has run'). Notifications are used as an observation channel only (state/ActiveAt/ResolvedAt of each notified alert must agree with the reference), not checked for completeness. Trusted: TSDB append/query (C01) for the group mode, the Go template engine for '{{ $labels.x }}'.",
		DesignRef: "DESIGN.md §5 C44",
		Rule:      "case = one timeline; non-trivial iff at least 5 successful evaluations were compared, at least one alert was observed firing and at least one alert left the active set (pending dropped or firing resolved); distinct by the digest of rule parameters and the full script (times, result sets, operations)",
		Assumptions: []string{
			"alert identity = result labels without the metric name, overridden by the (template-expanded) rule labels, plus alertname",
			"resolved-retention period = 15 minutes of evaluation time",
			"ALERTS_FOR_STATE carries the activation time in unix seconds (what RestoreForState consumes)",
		},
		Cases: func(variant string, tier core.Tier) int {
			if variant != "default" {
				return 0
			}
			if tier == core.Thorough {
				return 60000
			}
			return 3000
		},
		Run:            run,
		MinNontrivial:  func(t core.Tier) int { return 1000 },
		CaseTimeoutSec: 120,
	})
}

// ---------------------------------------------------------------- rule parameters

type tmplLabel struct{ name, pre, ref, post string }

func (t tmplLabel) text() string {
	if t.ref == "" {
		return t.pre
	}
	return t.pre + "{{ $labels." + t.ref + " }}" + t.post
}

func (t tmplLabel) expand(series labels.Labels) string {
	if t.ref == "" {
		return t.pre
	}
	return t.pre + series.Get(t.ref) + t.post
}

type ruleParams struct {
	name       string
	hold, kff  time.Duration
	ruleLabels []tmplLabel
	offset     time.Duration
	limit      int
	interval   time.Duration
	ot, gp     time.Duration
}

func (p *ruleParams) labelsRaw() labels.Labels {
	b := labels.NewBuilder(labels.EmptyLabels())
	for _, t := range p.ruleLabels {
		b.Set(t.name, t.text())
	}
	return b.Labels()
}

// alertLabels is the documented identity of an alert instance: the element's labels without the
// metric name, rule labels overwrite conflicting ones (templates expanded), plus alertname.
func (p *ruleParams) alertLabels(series labels.Labels) labels.Labels {
	b := labels.NewBuilder(series)
	b.Del(labels.MetricName)
	for _, t := range p.ruleLabels {
		b.Set(t.name, t.expand(series))
	}
	b.Set("alertname", p.name)
	return b.Labels()
}

// ---------------------------------------------------------------- reference

const (
	sPending  = "pending"
	sFiring   = "firing"
	sResolved = "resolved"
	sAbsent   = "absent"
)

type refAlert struct {
	lbls        labels.Labels
	state       string
	activeAt    time.Time
	firedAt     time.Time
	resolvedAt  time.Time
	lastPresent time.Time
	firstAbsent time.Time
	value       float64
	present     bool
}

type present struct {
	lbls labels.Labels
	v    float64
}

type obsAlert struct {
	state      string
	activeAt   time.Time
	firedAt    time.Time
	resolvedAt time.Time
	kfs        time.Time
	value      float64
	lbls       labels.Labels
}

func obsState(a *rules.Alert) string {
	switch a.State {
	case rules.StatePending:
		return sPending
	case rules.StateFiring:
		return sFiring
	case rules.StateInactive:
		return sResolved
	}
	return "unknown"
}

type env struct {
	c     *core.Case
	r     *rand.Rand
	p     ruleParams
	group bool // group mode (real TSDB) vs direct AlertingRule.Eval
	db    *tsdb.DB
	opts  *rules.ManagerOptions
	rule  *rules.AlertingRule
	grp   *rules.Group
	expr  parser.Expr

	curVec promql.Vector
	curErr error

	notified []*rules.Alert

	ref         map[string]*refAlert
	prevSnap    map[string]obsAlert
	prevWritten map[string]bool // series written (non-stale) by the previous successful evaluation of this life
	restored    bool

	script strings.Builder

	nEvalOK, nFired, nLeft int
	tmplReported, failed   bool
}

// viol records a violation; the known template mechanism is reported once per case and does not
// end the timeline.
func (e *env) viol(kind, format string, args ...any) {
	if kind == kSeriesTemplate {
		if e.tmplReported {
			return
		}
		e.tmplReported = true
	} else {
		e.failed = true
	}
	e.c.Violatef(kind, format, args...)
}

var errScripted = errors.New("scripted query failure")

func (e *env) queryFunc(_ context.Context, _ string, _ time.Time) (promql.Vector, error) {
	if e.curErr != nil {
		return nil, e.curErr
	}
	out := make(promql.Vector, len(e.curVec))
	copy(out, e.curVec)
	return out, nil
}

func (e *env) notify(_ context.Context, _ string, alerts ...*rules.Alert) {
	e.notified = append(e.notified, alerts...)
}

func (e *env) newRule(restored bool) {
	e.rule = rules.NewAlertingRule(e.p.name, e.expr, e.p.hold, e.p.kff, e.p.labelsRaw(), labels.FromStrings("summary", "v={{ $value }}"), labels.EmptyLabels(), "", restored, tsdbx.NopLogger())
	off := e.p.offset
	e.grp = rules.NewGroup(rules.GroupOptions{
		Name: "g", File: "f.yml", Interval: e.p.interval, Limit: e.p.limit,
		Rules: []rules.Rule{e.rule}, ShouldRestore: !restored, Opts: e.opts, QueryOffset: &off,
	})
}

func (e *env) snapshot() map[string]obsAlert {
	m := map[string]obsAlert{}
	dup := false
	e.rule.ForEachActiveAlert(func(a *rules.Alert) {
		k := a.Labels.String()
		if _, ok := m[k]; ok {
			dup = true
		}
		m[k] = obsAlert{state: obsState(a), activeAt: a.ActiveAt, firedAt: a.FiredAt, resolvedAt: a.ResolvedAt, kfs: a.KeepFiringSince, value: a.Value, lbls: a.Labels.Copy()}
	})
	if dup {
		e.viol(kActiveList, "two alert instances with the same label set in the rule's alert list")
	}
	// ActiveAlerts() must be exactly the non-resolved instances.
	act := map[string]bool{}
	for _, a := range e.rule.ActiveAlerts() {
		act[a.Labels.String()] = true
		o, ok := m[a.Labels.String()]
		if !ok || o.state == sResolved {
			e.viol(kActiveList, "ActiveAlerts() returns %s which is resolved or unknown to ForEachActiveAlert", a.Labels)
		}
	}
	for k, o := range m {
		if o.state != sResolved && !act[k] {
			e.viol(kActiveList, "alert %s is %s but missing from ActiveAlerts()", k, o.state)
		}
		if (o.state == sResolved) != !o.resolvedAt.IsZero() {
			e.viol(kActiveList, "alert %s: state %s but ResolvedAt=%v", k, o.state, o.resolvedAt)
		}
	}
	return m
}

func sameSnap(a, b map[string]obsAlert) string {
	for k, x := range a {
		y, ok := b[k]
		if !ok {
			return "alert " + k + " disappeared"
		}
		if x.state != y.state || !x.activeAt.Equal(y.activeAt) || !x.resolvedAt.Equal(y.resolvedAt) || !x.firedAt.Equal(y.firedAt) || !x.kfs.Equal(y.kfs) {
			return fmt.Sprintf("alert %s changed: %+v -> %+v", k, x, y)
		}
	}
	for k := range b {
		if _, ok := a[k]; !ok {
			return "alert " + k + " appeared"
		}
	}
	return ""
}

func ms(t time.Time) int64 { return t.UnixMilli() }

// derive is the state of an alert that counts as active at ts (present, or kept firing).
func (e *env) derive(ra *refAlert, ts time.Time) map[string]bool {
	if ts.Sub(ra.activeAt) >= e.p.hold {
		return map[string]bool{sFiring: true}
	}
	if ra.state == sFiring {
		// firing although the (new) hold duration has not elapsed: statement is silent.
		e.c.Seen("transitions", "firing-with-unelapsed-for(either)")
		return map[string]bool{sPending: true, sFiring: true}
	}
	return map[string]bool{sPending: true}
}

func keys[M ~map[string]V, V any](m M) []string {
	ks := make([]string, 0, len(m))
	for k := range m {
		ks = append(ks, k)
	}
	sort.Strings(ks)
	return ks
}

func setStr(m map[string]bool) string { return strings.Join(keys(m), "|") }

// evalStep runs one evaluation at ts and checks it.
func (e *env) evalStep(ts time.Time, series []labels.Labels, vals []float64, qerr bool) {
	c := e.c
	qt := ts.Add(-e.p.offset)
	e.curVec = e.curVec[:0]
	for i, s := range series {
		e.curVec = append(e.curVec, promql.Sample{Metric: s, T: ms(qt), F: vals[i]})
	}
	e.curErr = nil
	if qerr {
		e.curErr = errScripted
	}
	e.notified = nil
	fmt.Fprintf(&e.script, "E%d:%v:%v:%x;", ms(ts), qerr, series, vals)

	var vec promql.Vector
	var err error
	if e.group {
		e.grp.Eval(context.Background(), ts)
		err = e.rule.LastError()
	} else {
		vec, err = e.rule.Eval(context.Background(), e.p.offset, ts, e.queryFunc, nil, e.p.limit)
	}
	snap := e.snapshot()
	defer func() { e.prevSnap = snap }()

	// ---- failed evaluations
	if qerr {
		if err == nil {
			e.viol(kErrExpected, "query failed at %v but the evaluation reported no error", ts)
		}
		if d := sameSnap(e.prevSnap, snap); d != "" {
			e.viol(kFailedEvalChanged, "query error at %v: %s", ts, d)
		}
		c.Seen("transitions", "query-error")
		c.Count("evals_failed", 1)
		return
	}
	pres := map[string]present{}
	dupKey := ""
	for i, s := range series {
		al := e.p.alertLabels(s)
		k := al.String()
		if _, ok := pres[k]; ok {
			dupKey = k
		}
		pres[k] = present{al, vals[i]}
	}
	if dupKey != "" {
		if !errors.Is(err, rules.ErrDuplicateAlertLabelSet) {
			e.viol(kDupNotRejected, "result at %v has two elements with alert labels %s; error=%v", ts, dupKey, err)
		}
		if d := sameSnap(e.prevSnap, snap); d != "" {
			e.viol(kFailedEvalChanged, "duplicate-labelset error at %v: %s", ts, d)
		}
		c.Seen("transitions", "duplicate-error")
		c.Count("evals_failed", 1)
		return
	}

	// ---- reference step: allowed outcome per label set
	allowed := map[string]map[string]bool{}
	why := map[string]string{}
	prevState := map[string]string{}
	kmax := len(pres)
	for _, k := range keys(pres) {
		p := pres[k]
		ra := e.ref[k]
		if ra == nil || ra.state == sResolved {
			prevState[k] = sAbsent
			if ra != nil {
				prevState[k] = sResolved
				c.Seen("transitions", "resolved->new-pending-period")
			}
			ra = &refAlert{lbls: p.lbls, state: sPending, activeAt: ts}
			e.ref[k] = ra
		} else {
			prevState[k] = ra.state
		}
		ra.present = true
		ra.lastPresent = ts
		ra.firstAbsent = time.Time{}
		ra.value = p.v
		allowed[k] = e.derive(ra, ts)
		why[k] = fmt.Sprintf("present; ActiveAt=%v for=%v ts-ActiveAt=%v", ra.activeAt, e.p.hold, ts.Sub(ra.activeAt))
	}
	for _, k := range keys(e.ref) {
		ra := e.ref[k]
		if _, ok := pres[k]; ok {
			continue
		}
		ra.present = false
		prevState[k] = ra.state
		switch ra.state {
		case sPending:
			allowed[k] = map[string]bool{sAbsent: true}
			why[k] = "pending and absent from the result: dropped"
		case sFiring:
			if ra.firstAbsent.IsZero() {
				ra.firstAbsent = ts
			}
			mustKeep := e.p.kff > 0 && ts.Sub(ra.lastPresent) < e.p.kff
			mustResolve := e.p.kff == 0 || ts.Sub(ra.firstAbsent) > e.p.kff
			switch {
			case mustKeep:
				allowed[k] = e.derive(ra, ts)
				kmax++
			case mustResolve:
				allowed[k] = map[string]bool{sResolved: true}
			default:
				a := e.derive(ra, ts)
				a[sResolved] = true
				allowed[k] = a
				kmax++
				c.Seen("transitions", "keep-firing-boundary(either)")
			}
			why[k] = fmt.Sprintf("firing and absent; keep_firing_for=%v lastPresent=%v firstAbsent=%v ts=%v", e.p.kff, ra.lastPresent, ra.firstAbsent, ts)
		case sResolved:
			age := ts.Sub(ra.resolvedAt)
			switch {
			case age < retention:
				allowed[k] = map[string]bool{sResolved: true}
			case age > retention:
				allowed[k] = map[string]bool{sAbsent: true}
			default:
				allowed[k] = map[string]bool{sResolved: true, sAbsent: true}
			}
			why[k] = fmt.Sprintf("resolved at %v, age %v, retention %v", ra.resolvedAt, age, retention)
		}
	}

	// ---- limit (docs: evaluation fails, all alerts of the rule are cleared)
	if e.p.limit > 0 {
		mustFail := len(pres) > e.p.limit
		mustOK := kmax <= e.p.limit
		if mustFail && err == nil {
			e.viol(kLimit, "result has %d elements, limit %d, but the evaluation succeeded", len(pres), e.p.limit)
			return
		}
		if mustOK && err != nil {
			e.viol(kLimit, "at most %d alerts active, limit %d, but the evaluation failed: %v", kmax, e.p.limit, err)
			return
		}
		if err != nil {
			if len(snap) != 0 {
				e.viol(kLimit, "limit exceeded at %v (%v) but %d alerts are still held (docs: all alerts are cleared)", ts, err, len(snap))
			}
			if len(vec) != 0 {
				e.viol(kLimit, "limit exceeded at %v but %d samples were returned", ts, len(vec))
			}
			if e.group {
				e.checkStored(ts, nil, false)
			}
			e.ref = map[string]*refAlert{}
			c.Seen("transitions", "limit-exceeded")
			c.Count("evals_failed", 1)
			return
		}
	}
	if err != nil {
		e.viol(kEvalErr, "evaluation at %v failed unexpectedly: %v", ts, err)
		return
	}
	e.nEvalOK++
	c.Count("evals_compared", 1)

	// ---- compare
	all := map[string]bool{}
	for k := range allowed {
		all[k] = true
	}
	for k := range snap {
		all[k] = true
	}
	for _, k := range keys(all) {
		al := allowed[k]
		o, seen := snap[k]
		got := sAbsent
		if seen {
			got = o.state
		}
		if al == nil {
			e.viol(kUnexpectedAlert, "ts=%v: alert %s is %s but the reference has no such alert", ts, k, got)
			continue
		}
		if !al[got] {
			kind := kWrongState
			switch {
			case got == sAbsent && len(al) == 1 && al[sResolved]:
				kind = kResolvedLost
			case got == sAbsent:
				kind = kAlertMissing
			case len(al) == 1 && al[sAbsent] && prevState[k] == sPending:
				kind = kPendingNotDropped
			case len(al) == 1 && al[sAbsent] && prevState[k] == sResolved:
				kind = kResolvedNotExpired
			case len(al) == 1 && al[sFiring] && got == sPending:
				kind = kNotFiring
			case len(al) == 1 && al[sPending] && got == sFiring:
				kind = kFiredEarly
			case !al[sResolved] && got == sResolved && prevState[k] == sFiring:
				kind = kResolvedInKFF
			case len(al) == 1 && al[sResolved] && got != sResolved:
				kind = kKeptBeyondKFF
			}
			e.viol(kind, "ts=%v alert %s: observed %s, allowed {%s} (%s; previous state %s; for=%v keep_firing_for=%v)", ts, k, got, setStr(al), why[k], prevState[k], e.p.hold, e.p.kff)
			// resync as well as possible
		}
		ra := e.ref[k]
		if ra == nil {
			continue
		}
		if got == sAbsent {
			switch prevState[k] {
			case sPending:
				c.Seen("transitions", "pending->dropped")
				e.nLeft++
			case sResolved:
				c.Seen("transitions", "resolved->expired")
			}
			delete(e.ref, k)
			continue
		}
		// field checks
		if got != sResolved && !o.activeAt.Equal(ra.activeAt) {
			e.viol(kActiveAt, "ts=%v alert %s (%s): ActiveAt=%v, reference %v", ts, k, got, o.activeAt, ra.activeAt)
		}
		if ra.present && got != sResolved && math.Float64bits(o.value) != math.Float64bits(ra.value) {
			e.viol(kValue, "ts=%v alert %s: Value=%v (%x), result element has %v (%x)", ts, k, o.value, math.Float64bits(o.value), ra.value, math.Float64bits(ra.value))
		}
		switch got {
		case sFiring:
			if ra.state != sFiring {
				ra.firedAt = ts
				e.nFired++
				c.Seen("transitions", prevState[k]+"->firing")
			} else if !ra.present {
				c.Seen("transitions", "firing->kept-firing")
			}
			if !o.firedAt.Equal(ra.firedAt) {
				e.viol(kFiredAt, "ts=%v alert %s: FiredAt=%v, reference %v", ts, k, o.firedAt, ra.firedAt)
			}
		case sPending:
			if ra.state == sFiring {
				c.Seen("transitions", "firing->pending(hold grew)")
			}
		case sResolved:
			if ra.state != sResolved {
				ra.resolvedAt = ts
				e.nLeft++
				c.Seen("transitions", "firing->resolved")
			}
			if !o.resolvedAt.Equal(ra.resolvedAt) {
				e.viol(kResolvedAt, "ts=%v alert %s: ResolvedAt=%v, reference %v", ts, k, o.resolvedAt, ra.resolvedAt)
			}
		}
		ra.state = got
	}

	// ---- ALERTS / ALERTS_FOR_STATE
	if e.restored {
		want := map[string]float64{}
		for k, ra := range e.ref {
			if ra.state != sPending && ra.state != sFiring {
				continue
			}
			_ = k
			b := labels.NewBuilder(ra.lbls)
			b.Set(labels.MetricName, "ALERTS")
			b.Set("alertstate", ra.state)
			want[b.Labels().String()] = 1
			b = labels.NewBuilder(ra.lbls)
			b.Set(labels.MetricName, "ALERTS_FOR_STATE")
			want[b.Labels().String()] = float64(ra.activeAt.Unix())
		}
		if e.group {
			e.checkStored(ts, want, true)
		} else {
			got := map[string]float64{}
			for _, s := range vec {
				if s.T != ms(qt) {
					e.viol(kSeries, "ts=%v: returned sample %s has T=%d, want %d", ts, s.Metric, s.T, ms(qt))
				}
				if _, ok := got[s.Metric.String()]; ok {
					e.viol(kSeries, "ts=%v: returned vector has %s twice", ts, s.Metric)
				}
				got[s.Metric.String()] = s.F
			}
			e.compareSeries(ts, want, got)
		}
	} else {
		c.Count("evals_before_restore(series unchecked)", 1)
	}

	// ---- notifications as a second observation channel
	for _, a := range e.notified {
		k := a.Labels.String()
		ra := e.ref[k]
		st := obsState(a)
		if ra == nil || ra.state != st || (st != sResolved && !a.ActiveAt.Equal(ra.activeAt)) || (st == sResolved && !a.ResolvedAt.Equal(ra.resolvedAt)) {
			e.viol(kNotify, "ts=%v: notified alert %s state=%s ActiveAt=%v ResolvedAt=%v disagrees with reference %+v", ts, k, st, a.ActiveAt, a.ResolvedAt, ra)
		}
		c.Count("alerts_notified", 1)
	}
}

func (e *env) compareSeries(ts time.Time, want, got map[string]float64) {
	c := e.c
	// Known mechanism with its own narrow kind: a rule label whose template expanded to "" is
	// (correctly) absent from the alert's labels but shows up on the series with the raw template
	// text as value.  Such a series is mapped back to the expected one for the remaining checks.
	for _, k := range keys(got) {
		if _, ok := want[k]; ok || !strings.Contains(k, "{{") {
			continue
		}
		if w := e.templateExtraOf(k); w != "" {
			if _, taken := got[w]; !taken {
				e.viol(kSeriesTemplate, "ts=%v: stored/returned series %s carries the unexpanded template text of a rule label that expanded to the empty string; the alert's label set (and the expected series) is %s", ts, k, w)
				got[w] = got[k]
				delete(got, k)
			}
		}
	}
	for _, k := range keys(want) {
		g, ok := got[k]
		if !ok {
			e.viol(kSeries, "ts=%v: series %s expected (value %v) but missing; got %v", ts, k, want[k], keys(got))
			continue
		}
		if strings.Contains(k, "ALERTS_FOR_STATE") {
			if math.Abs(g-want[k]) >= 1 {
				e.viol(kSeries, "ts=%v: %s = %v, reference ActiveAt in unix seconds is %v", ts, k, g, want[k])
			}
		} else if g != 1 {
			e.viol(kSeries, "ts=%v: %s = %v, want 1", ts, k, g)
		}
	}
	for _, k := range keys(got) {
		if _, ok := want[k]; !ok {
			e.viol(kSeries, "ts=%v: series %s (value %v) does not correspond to any pending/firing alert of the reference; expected %v", ts, k, got[k], keys(want))
		}
	}
	c.Count("series_compared", int64(len(want)))
}

// templateExtraOf: if series k equals the ALERTS / ALERTS_FOR_STATE series of some pending or
// firing reference alert plus labels whose values are the raw template texts of rule labels that
// expanded to the empty string for that alert, the expected series is returned.
func (e *env) templateExtraOf(k string) string {
	for _, rk := range keys(e.ref) {
		ra := e.ref[rk]
		if ra.state != sPending && ra.state != sFiring {
			continue
		}
		for _, name := range []string{"ALERTS", "ALERTS_FOR_STATE"} {
			b := labels.NewBuilder(ra.lbls)
			b.Set(labels.MetricName, name)
			if name == "ALERTS" {
				b.Set("alertstate", ra.state)
			}
			w := b.Labels().String()
			extra := false
			for _, t := range e.p.ruleLabels {
				if t.ref != "" && ra.lbls.Get(t.name) == "" {
					b.Set(t.name, t.text())
					extra = true
				}
			}
			if extra && b.Labels().String() == k {
				return w
			}
		}
	}
	return ""
}

// checkStored reads the samples stored at the evaluation's sample time.
func (e *env) checkStored(ts time.Time, want map[string]float64, ok bool) {
	t := ms(ts.Add(-e.p.offset))
	q, err := e.db.Querier(t, t)
	core.Must(err, "querier")
	defer q.Close()
	d, _, err := tsdbx.DumpQuerier(q, labels.MustNewMatcher(labels.MatchRegexp, labels.MetricName, "ALERTS|ALERTS_FOR_STATE"))
	core.Must(err, "dump")
	got := map[string]float64{}
	stale := map[string]bool{}
	for k, smp := range d {
		for _, s := range smp {
			if s.T != t || s.Kind != "f" {
				continue
			}
			if value.IsStaleNaN(s.F) {
				stale[k] = true
			} else {
				got[k] = s.F
			}
		}
	}
	if !ok {
		// failed evaluation: nothing may be stored for it
		if len(got) != 0 {
			e.viol(kSeries, "ts=%v: failed evaluation stored samples %v", ts, keys(got))
		}
		return
	}
	written := map[string]bool{}
	for k := range got {
		written[k] = true
	}
	e.compareSeries(ts, want, got)
	for _, k := range keys(e.prevWritten) {
		if !written[k] && !stale[k] {
			e.viol(kStaleMissing, "ts=%v: series %s was written by the previous evaluation, is not written now, but has no staleness marker at %d", ts, k, t)
		}
	}
	e.prevWritten = written
}

// ---------------------------------------------------------------- reload / restart

func (e *env) reload() {
	r := e.r
	old := e.grp
	I := e.p.interval
	if r.IntN(3) != 0 {
		e.p.hold = pickHold(r, I)
	}
	if r.IntN(3) != 0 {
		e.p.kff = pickKFF(r, I)
	}
	fmt.Fprintf(&e.script, "R%v/%v;", e.p.hold, e.p.kff)
	e.newRule(true)
	e.grp.CopyState(old)
	e.c.Seen("transitions", "reload")
	// CopyState must carry every alert instance over unchanged.
	snap := e.snapshot()
	if d := sameSnap(e.prevSnap, snap); d != "" {
		e.viol(kFailedEvalChanged, "reload (CopyState) changed the alert instances: %s", d)
	}
}

type fsSample struct {
	t     int64
	v     float64
	stale bool
}

// forStateSamples returns, per alert label set, the ALERTS_FOR_STATE samples in [lo,hi].
func (e *env) forStateSamples(lo, hi int64) map[string][]fsSample {
	q, err := e.db.Querier(lo, hi)
	core.Must(err, "querier")
	defer q.Close()
	ss := q.Select(context.Background(), true, nil, labels.MustNewMatcher(labels.MatchEqual, labels.MetricName, "ALERTS_FOR_STATE"))
	out := map[string][]fsSample{}
	for ss.Next() {
		key := ss.At().Labels().DropMetricName().String()
		smp, err := tsdbx.IterSamples(ss.At().Iterator(nil))
		core.Must(err, "iterate")
		for _, x := range smp {
			if x.Kind != "f" || x.T < lo || x.T > hi {
				continue
			}
			out[key] = append(out[key], fsSample{x.T, x.F, value.IsStaleNaN(x.F)})
		}
	}
	core.Must(ss.Err(), "select")
	return out
}

type cand struct {
	exact   bool
	at      time.Time // exact candidate
	atMost  time.Time // otherwise: ActiveAt <= atMost
	comment string
}

// restoreCandidates: allowed ActiveAt values after restoring at ts (from the flag docs):
// no usable sample within the outage tolerance, or for < grace period → unchanged; alert was
// firing at the last sample → fires right away (ActiveAt <= ts-for); otherwise the pending time
// already served is kept (ActiveAt shifted by the outage) but the alert fires no earlier than
// grace period after the restore.
func (e *env) restoreCandidates(ra *refAlert, ts time.Time, smp []fsSample) []cand {
	p := e.p
	unchanged := cand{exact: true, at: ra.activeAt, comment: "unchanged"}
	var out []cand
	if p.hold <= p.gp {
		out = append(out, unchanged)
		if p.hold < p.gp {
			return out
		}
	}
	lo := ms(ts.Add(-p.ot))
	// the last sample inside the window; a sample exactly on the window edge may or may not count
	var lasts []*fsSample
	var in, inStrict *fsSample
	for i := range smp {
		if smp[i].t >= lo && smp[i].t <= ms(ts) {
			in = &smp[i]
		}
		if smp[i].t > lo && smp[i].t <= ms(ts) {
			inStrict = &smp[i]
		}
	}
	lasts = append(lasts, in)
	if inStrict != in {
		lasts = append(lasts, inStrict)
	}
	for _, l := range lasts {
		if l == nil {
			out = append(out, cand{exact: true, at: ra.activeAt, comment: "no sample within outage tolerance"})
			continue
		}
		if l.stale {
			out = append(out, cand{exact: true, at: ra.activeAt, comment: "last sample is a staleness marker"})
			continue
		}
		stored := time.Unix(int64(l.v), 0).UTC()
		for _, downAt := range []time.Time{time.UnixMilli(l.t).UTC(), time.Unix(l.t/1000, 0).UTC()} {
			spent := downAt.Sub(stored)
			remaining := p.hold - spent
			switch {
			case remaining <= 0:
				out = append(out, cand{atMost: ts.Add(-p.hold), comment: "was firing when the server went down"})
			case remaining < p.gp:
				out = append(out, cand{exact: true, at: ts.Add(p.gp).Add(-p.hold), comment: "grace period"})
			default:
				out = append(out, cand{exact: true, at: stored.Add(ts.Sub(downAt)), comment: "shifted by the outage"})
			}
		}
	}
	return out
}

func (e *env) restore(ts time.Time) {
	c := e.c
	fmt.Fprintf(&e.script, "X%d;", ms(ts))
	smp := e.forStateSamples(ms(ts.Add(-e.p.ot))-5000, ms(ts))
	e.grp.RestoreForState(ts)
	snap := e.snapshot()
	if !e.rule.Restored() {
		e.viol(kRestoreFlag, "RestoreForState(%v) returned but the rule is not marked restored", ts)
	}
	e.restored = true
	for _, k := range keys(e.ref) {
		ra := e.ref[k]
		o, ok := snap[k]
		if !ok {
			e.viol(kAlertMissing, "restore at %v: alert %s vanished", ts, k)
			continue
		}
		if o.state != ra.state {
			e.viol(kWrongState, "restore at %v changed the state of %s from %s to %s", ts, k, ra.state, o.state)
		}
		if ra.state == sResolved {
			continue
		}
		cands := e.restoreCandidates(ra, ts, smp[k])
		match := ""
		var descr []string
		for _, cd := range cands {
			if cd.exact {
				descr = append(descr, fmt.Sprintf("%v (%s)", cd.at, cd.comment))
				if o.activeAt.Equal(cd.at) {
					match = cd.comment
				}
			} else {
				descr = append(descr, fmt.Sprintf("<=%v (%s)", cd.atMost, cd.comment))
				if !o.activeAt.After(cd.atMost) {
					match = cd.comment
				}
			}
		}
		if match == "" {
			e.viol(kRestoreActiveAt, "restore at %v (for=%v grace=%v tolerance=%v): alert %s has ActiveAt=%v (before restore %v); allowed: %v; stored samples %v", ts, e.p.hold, e.p.gp, e.p.ot, k, o.activeAt, ra.activeAt, descr, smp[k])
		} else {
			c.Seen("restore", match)
			if match != "unchanged" && match != "no sample within outage tolerance" && match != "last sample is a staleness marker" {
				c.Count("restores_shifting_active_at", 1)
			}
		}
		ra.activeAt = o.activeAt
	}
	e.prevSnap = snap
}

// ---------------------------------------------------------------- generation

func pickHold(r *rand.Rand, I time.Duration) time.Duration {
	return gen.Pick(r, []time.Duration{0, 0, I / 2, I, I, 2 * I, 3 * I, 3*I + time.Millisecond, 5 * I, 10 * I, 20 * I})
}

func pickKFF(r *rand.Rand, I time.Duration) time.Duration {
	return gen.Pick(r, []time.Duration{0, 0, 0, I / 2, I, 2 * I, 2 * I, 3 * I, 5 * I, 20 * time.Minute})
}

type flap struct {
	pOn, pOff float64
	on        bool
}

func run(c *core.Case) {
	r := c.Rng
	e := &env{c: c, r: r, ref: map[string]*refAlert{}, prevSnap: map[string]obsAlert{}, prevWritten: map[string]bool{}}
	e.group = r.IntN(3) == 0
	I := gen.Pick(r, []time.Duration{5 * time.Second, 15 * time.Second, 30 * time.Second, time.Minute})
	e.p = ruleParams{
		name: gen.Pick(r, []string{"HighLatency", "Down", "a b"}), interval: I,
		hold: pickHold(r, I), kff: pickKFF(r, I),
		ot: gen.Pick(r, []time.Duration{time.Hour, 10 * time.Minute, 2 * time.Minute}),
		gp: gen.Pick(r, []time.Duration{0, 10 * time.Second, time.Minute, 10 * time.Minute}),
	}
	if r.IntN(4) == 0 {
		e.p.offset = gen.Pick(r, []time.Duration{time.Second, I / 2, I, 2500 * time.Millisecond})
	}
	if r.IntN(6) == 0 {
		e.p.limit = 1 + r.IntN(3)
	}
	restarts := 0
	if e.group {
		restarts = r.IntN(3)
		if restarts > 0 && r.IntN(4) != 0 {
			// make the restore interesting: long hold, grace period not above it
			e.p.hold = gen.Pick(r, []time.Duration{5 * I, 10 * I, 20 * I, 10 * time.Minute})
			if e.p.gp > e.p.hold && r.IntN(3) != 0 {
				e.p.gp = gen.Pick(r, []time.Duration{0, I, e.p.hold})
			}
		}
	}
	// rule labels
	for _, n := range []string{"severity", "b", "tag"} {
		if r.IntN(3) != 0 {
			continue
		}
		t := tmplLabel{name: n, pre: gen.Pick(r, []string{"page", "x", "v-"})}
		if r.IntN(3) == 0 {
			t.ref = gen.Pick(r, []string{"a", "a", "b", "zz"})
			t.post = gen.Pick(r, []string{"", "!"})
			if t.ref == "zz" && r.IntN(2) == 0 {
				t.pre, t.post = "", "" // expands to the empty string: the label is absent
			}
		}
		e.p.ruleLabels = append(e.p.ruleLabels, t)
	}
	// universe of result series with pairwise distinct alert labels, plus one collider
	var univ []labels.Labels
	seen := map[string]bool{}
	n := 2 + r.IntN(4)
	for tries := 0; len(univ) < n && tries < 100; tries++ {
		b := labels.NewBuilder(labels.EmptyLabels())
		b.Set(labels.MetricName, gen.Pick(r, []string{"m", "m2", "job:lat:rate5m"}))
		b.Set("a", gen.Pick(r, []string{"x", "y", "z", "日本"}))
		if r.IntN(3) != 0 {
			b.Set("b", gen.Pick(r, []string{"1", "2"}))
		}
		if r.IntN(6) == 0 {
			b.Set("alertname", "from-series")
		}
		if r.IntN(6) == 0 {
			b.Set("severity", "info")
		}
		ls := b.Labels()
		k := e.p.alertLabels(ls).String()
		if seen[k] {
			continue
		}
		seen[k] = true
		univ = append(univ, ls)
	}
	collider := labels.NewBuilder(univ[0]).Set(labels.MetricName, "other_name").Labels()
	flaps := make([]flap, len(univ))
	for i := range flaps {
		flaps[i] = gen.Pick(r, []flap{{0.9, 0.03, false}, {0.4, 0.4, false}, {0.15, 0.5, false}, {0.15, 0.1, false}, {0.6, 0.15, false}})
	}
	vals := make([]float64, len(univ))
	for i := range vals {
		vals[i] = float64(r.IntN(100))
	}

	e.opts = &rules.ManagerOptions{
		QueryFunc: e.queryFunc, NotifyFunc: e.notify, Context: context.Background(), Logger: tsdbx.NopLogger(),
		OutageTolerance: e.p.ot, ForGracePeriod: e.p.gp, ResendDelay: gen.Pick(r, []time.Duration{0, I, time.Minute}),
		Metrics: rules.NewGroupMetrics(nil),
	}
	var err error
	e.expr, err = parser.NewParser(parser.Options{}).ParseExpr(`m > 0`)
	core.Must(err, "parse expr")

	msMode := r.IntN(3) == 0
	ts := time.Unix(1_600_000_000+r.Int64N(100_000_000), 0).UTC()
	if msMode {
		ts = ts.Add(time.Duration(r.IntN(1000)) * time.Millisecond)
	}
	jitter := func() time.Duration {
		if msMode {
			return time.Duration(r.Int64N(int64(I/5/time.Millisecond))-int64(I/10/time.Millisecond)) * time.Millisecond
		}
		return time.Duration(r.Int64N(int64(I/5/time.Second)+1)-int64(I/10/time.Second)) * time.Second
	}
	nextDelta := func() time.Duration {
		switch r.IntN(14) {
		case 0:
			d := I + jitter()
			if d <= 0 {
				d = I
			}
			return d
		case 1:
			return time.Duration(2+r.IntN(3)) * I
		case 2:
			return gen.Pick(r, []time.Duration{14 * time.Minute, 15 * time.Minute, 15*time.Minute + time.Second, 16 * time.Minute, 30 * time.Minute, e.p.kff, e.p.kff + I})
		}
		return I
	}

	startRestored := true
	preload := false
	if e.group {
		opts := tsdb.DefaultOptions()
		opts.MinBlockDuration = int64(30 * 24 * time.Hour / time.Millisecond)
		opts.MaxBlockDuration = opts.MinBlockDuration
		opts.RetentionDuration = 0
		opts.NoLockfile = true
		db, err := tsdb.Open(c.TempDir(), tsdbx.NopLogger(), nil, opts, nil)
		core.Must(err, "open tsdb")
		defer db.Close()
		e.db = db
		e.opts.Appendable = db
		e.opts.Queryable = db
		if restarts > 0 && r.IntN(2) == 0 {
			// a previous life is simulated by generated ALERTS_FOR_STATE samples
			preload = true
			startRestored = false
			app := db.Appender(context.Background())
			last := ts
			for i, s := range univ {
				if r.IntN(4) == 0 {
					continue
				}
				al := e.p.alertLabels(s)
				ls := labels.NewBuilder(al).Set(labels.MetricName, "ALERTS_FOR_STATE").Labels()
				act := ts.Add(-time.Duration(r.IntN(30)) * I)
				t := act
				ns := 1 + r.IntN(5)
				for j := 0; j < ns; j++ {
					_, err := app.Append(0, ls, ms(t), float64(act.Unix()))
					core.Must(err, "preload append")
					t = t.Add(I)
				}
				if r.IntN(5) == 0 {
					_, err := app.Append(0, ls, ms(t), math.Float64frombits(value.StaleNaN))
					core.Must(err, "preload append")
					t = t.Add(I)
				}
				if t.After(last) {
					last = t
				}
				_ = i
			}
			core.Must(app.Commit(), "preload commit")
			fmt.Fprintf(&e.script, "P;")
			down := gen.Pick(r, []time.Duration{I, 2 * I, 3 * I, 5 * I, e.p.hold / 2, e.p.ot - 2*I, e.p.ot - I, e.p.ot, e.p.ot + 3*I, 2 * e.p.ot})
			if down <= 0 {
				down = I
			}
			ts = last.Add(down)
			restarts--
		}
	}
	e.restored = startRestored
	e.newRule(startRestored)

	steps := 20 + r.IntN(41)
	pendingRestore := 0 // >0: evaluations left before RestoreForState is called
	if preload {
		pendingRestore = 2
	}
	for step := 0; step < steps && !e.failed; step++ {
		// operations between evaluations
		if pendingRestore == 0 && step > 3 {
			switch {
			case r.IntN(25) == 0:
				e.reload()
			case e.group && restarts > 0 && e.restored && r.IntN(12) == 0:
				restarts--
				down := gen.Pick(r, []time.Duration{I, 2 * I, 3 * I, 5 * I, e.p.hold / 2, e.p.ot - 2*I, e.p.ot - I, e.p.ot, e.p.ot + 3*I, 2 * e.p.ot, e.p.hold})
				if down <= 0 {
					down = I
				}
				ts = ts.Add(down).Add(time.Millisecond * time.Duration(r.IntN(2)*r.IntN(1000)))
				fmt.Fprintf(&e.script, "D%v;", down)
				e.ref = map[string]*refAlert{}
				e.prevSnap = map[string]obsAlert{}
				e.prevWritten = map[string]bool{}
				e.restored = false
				e.newRule(false)
				pendingRestore = 2
				c.Seen("transitions", "restart")
			}
		}
		// result set of this evaluation
		var series []labels.Labels
		var vs []float64
		for i := range univ {
			f := &flaps[i]
			if f.on {
				if r.Float64() < f.pOff {
					f.on = false
				}
			} else if r.Float64() < f.pOn {
				f.on = true
			}
			if f.on {
				switch r.IntN(6) {
				case 0:
					vals[i] = gen.Float(r, false)
				case 1:
					vals[i] = float64(r.IntN(1000)) / 8
				}
				series = append(series, univ[i])
				vs = append(vs, vals[i])
			}
		}
		if r.IntN(25) == 0 {
			series = append(series, univ[0], collider)
			vs = append(vs, 1, 2)
			if r.IntN(2) == 0 { // the collider alone is a legal element
				series = series[:len(series)-2]
				vs = vs[:len(vs)-2]
				series = append(series, collider)
				vs = append(vs, 3)
				// make sure univ[0] itself is not also present
				for i := 0; i < len(series)-1; i++ {
					if labels.Equal(series[i], univ[0]) {
						series = append(series[:i], series[i+1:]...)
						vs = append(vs[:i], vs[i+1:]...)
						break
					}
				}
			}
		}
		qerr := r.IntN(30) == 0
		e.evalStep(ts, series, vs, qerr)
		if pendingRestore > 0 {
			pendingRestore--
			if pendingRestore == 0 {
				rt := ts.Add(gen.Pick(r, []time.Duration{0, 500 * time.Millisecond, time.Second, I / 2}))
				e.restore(rt)
				d := nextDelta()
				if !ts.Add(d).After(rt) {
					d = rt.Sub(ts) + I
				}
				ts = ts.Add(d)
				continue
			}
		}
		d := nextDelta()
		if d <= 0 {
			d = I
		}
		ts = ts.Add(d)
	}

	c.Seen("mode", map[bool]string{true: "group+tsdb", false: "direct"}[e.group])
	c.Seen("for", e.p.hold.String())
	c.Seen("keep_firing_for", e.p.kff.String())
	if e.nEvalOK >= 5 && e.nFired > 0 && e.nLeft > 0 {
		c.Nontrivial(e.p.name, e.p.hold, e.p.kff, e.p.labelsRaw().String(), e.p.offset, e.p.limit, e.p.gp, e.p.ot, e.script.String())
	}
	if c.Idx < 3 {
		sc := e.script.String()
		if len(sc) > 1500 {
			sc = sc[:1500] + "…"
		}
		c.Sample(map[string]any{
			"mode": map[bool]string{true: "group+tsdb", false: "direct"}[e.group], "for": e.p.hold.String(), "keep_firing_for": e.p.kff.String(),
			"interval": I.String(), "rule_labels": e.p.labelsRaw().String(), "limit": e.p.limit, "query_offset": e.p.offset.String(),
			"grace_period": e.p.gp.String(), "outage_tolerance": e.p.ot.String(),
			"evals_ok": e.nEvalOK, "became_firing": e.nFired, "left_active_set": e.nLeft, "script(E<ms>:<queryErr>:<result>:<values>; R=reload D=down X=restore P=preload)": sc,
		})
	}
}
