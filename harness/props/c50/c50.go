// Package c50: `promtool tsdb create-blocks-from openmetrics` writes exactly the input samples
// into blocks aligned to the block duration (black-box monitor on the real binary).
package c50

import (
	"bytes"
	"context"
	"errors"
	"fmt"
	"math"
	"os"
	"os/exec"
	"path/filepath"
	"sort"
	"strconv"
	"strings"
	"time"

	"github.com/prometheus/prometheus/model/labels"
	"github.com/prometheus/prometheus/tsdb"

	"verif/internal/core"
	"verif/internal/tsdbx"
)

const hour = int64(3600 * 1000)

func init() {
	core.Register(&core.Prop{
		ID:        "C50",
		Title:     "Backfilled blocks contain exactly the input samples",
		Level:     "exploration",
		Technique: "black-box monitor: the promtool binary built from /repo runs on generated OpenMetrics files; the written blocks are opened and compared sample by sample with the input, block metas against the window grid",
		LevelText: "Generated OpenMetrics inputs (1–3 gauge/unknown families, 2–40 interleaved series with hostile label values, timestamps spanning 1–6 windows of the chosen block duration around 0, far negative, far positive and present-day origins, samples exactly on k·d−1, k·d, k·d+1, NaN/±Inf values, optionally >5000 samples in one window, optional --label and --max-block-duration, optionally one sample without timestamp) are imported by the real `promtool tsdb create-blocks-from openmetrics`. Oracle: exit code 0 and the union of all blocks equals the input samples exactly (labels plus custom labels, value bitwise, every (series,t) in exactly one block); every block's [MinTime,MaxTime) lies in one window [k·d,(k+1)·d) with floor alignment and no two blocks share a window; an input with a missing timestamp is rejected (non-zero exit) and leaves no block. Held on the generated inputs only.",
		LevelNote: "Trusted: tsdb block reader (OpenDBReadOnly/NewBlockQuerier) for reading the result. The chosen duration d is taken as the largest TSDB block range 2h·3^k not above max(2h, --max-block-duration) (documented: 'a suitable block duration no larger than this', values below 2h are ignored). Inputs keep each series' timestamps strictly increasing in file order and have no duplicate (series,t) – other inputs are rejected by design (plain head appender). In 4 of 5 inputs the millisecond timestamps are restricted to those whose decimal-seconds text survives float conversion with truncation (the parser's 1 ms loss is judged, with its own kind, on the remaining inputs only). Only float samples (OpenMetrics cannot carry native histograms); exemplars, _created lines and counter/histogram families are not generated.",
		DesignRef: "DESIGN.md §5 C50, §10 item 11",
		Rule:      "case = one generated input file and one promtool run; non-trivial iff the input had timestamps everywhere, spanned at least two windows and the run's output was compared; distinct by input text + flags",
		Variants:  []string{"promtool"},
		Cases: func(variant string, tier core.Tier) int {
			if variant != "default" {
				return 0 // "promtool" only makes run.sh build the binary
			}
			if tier == core.Thorough {
				return 1500
			}
			return 60
		},
		Run:            run,
		MinNontrivial:  func(t core.Tier) int { return 25 },
		CaseTimeoutSec: 180,
	})
}

func promtoolPath() string {
	dir := os.Getenv("VERIF_BIN_DIR")
	if dir == "" {
		dir = "/verif/bin"
	}
	return filepath.Join(dir, "promtool")
}

type sample struct {
	series int
	t      int64
	v      float64
	noTS   bool
}

func fmtValue(v float64) string {
	switch {
	case math.IsNaN(v):
		return "NaN"
	case math.IsInf(v, 1):
		return "+Inf"
	case math.IsInf(v, -1):
		return "-Inf"
	}
	return strconv.FormatFloat(v, 'g', -1, 64)
}

// fmtSeconds renders a millisecond timestamp as OpenMetrics seconds (exact to the millisecond).
func fmtSeconds(ms int64) string {
	neg := ms < 0
	a := ms
	if neg {
		a = -a
	}
	s := fmt.Sprintf("%d.%03d", a/1000, a%1000)
	if a%1000 == 0 && ms%7 == 0 {
		s = fmt.Sprintf("%d", a/1000) // sometimes without a fraction
	}
	if neg {
		s = "-" + s
	}
	return s
}

// fragile reports whether the decimal-seconds rendering of ms, read as a float64 and multiplied by
// 1000, does not give ms again when the fraction is cut off (e.g. 66812.400 → 66812399.99999999).
// Used only to choose inputs (see exactTimes in run), never by the oracle.
func fragile(ms int64) bool {
	f, err := strconv.ParseFloat(fmtSeconds(ms), 64)
	return err != nil || int64(f*1000) != ms
}

func escapeLabelValue(v string) string {
	v = strings.ReplaceAll(v, `\`, `\\`)
	v = strings.ReplaceAll(v, "\n", `\n`)
	v = strings.ReplaceAll(v, `"`, `\"`)
	return v
}

func floorDiv(a, b int64) int64 {
	q := a / b
	if a%b != 0 && (a < 0) != (b < 0) {
		q--
	}
	return q
}

func valKey(v float64) string {
	if math.IsNaN(v) {
		return "NaN"
	}
	return fmt.Sprintf("%016x", math.Float64bits(v))
}

func run(c *core.Case) {
	r := c.Rng
	bin := promtoolPath()
	if _, err := os.Stat(bin); err != nil {
		core.Must(err, "promtool binary (build variant 'promtool') not found")
	}

	// ---- flags and the block duration they select
	d := 2 * hour
	var args []string
	switch r.IntN(6) {
	case 0:
		args = append(args, "--max-block-duration=1h") // below 2h: ignored
	case 1:
		args = append(args, "--max-block-duration=2h")
	case 2:
		args = append(args, "--max-block-duration=6h")
		d = 6 * hour
	case 3:
		args = append(args, "--max-block-duration=7h30m") // largest block range not above it: 6h
		d = 6 * hour
	case 4:
		if r.IntN(2) == 0 {
			args = append(args, "--max-block-duration=18h")
			d = 18 * hour
		}
	}
	custom := map[string]string{}
	if r.IntN(3) == 0 {
		custom["source"] = "backfill"
		if r.IntN(2) == 0 {
			custom["env"] = "with space" // overrides an input label of the same name
		}
		var ks []string
		for k := range custom {
			ks = append(ks, k)
		}
		sort.Strings(ks)
		for _, k := range ks {
			args = append(args, "--label="+k+"="+custom[k])
		}
	}

	// ---- series
	families := []string{"m_a", "m_b", "x:colon_metric"}[:1+r.IntN(3)]
	nSeries := 2 + r.IntN(7)
	bigWindow := r.IntN(10) == 0
	if bigWindow {
		nSeries = 30 + r.IntN(11)
	}
	lvals := []string{"x", "prod", "with space", `q"uote`, "new\nline", `back\slash`, "日本", "a=b,c", "{}", "#"}
	type seriesDef struct {
		fam  string
		text string // name{labels} as written
		ls   labels.Labels
	}
	var series []seriesDef
	seen := map[string]bool{}
	for len(series) < nSeries {
		fam := families[r.IntN(len(families))]
		b := labels.NewBuilder(labels.EmptyLabels())
		b.Set("__name__", fam)
		var parts []string
		names := []string{"job", "instance", "env", "zone", "le"}
		r.Shuffle(len(names), func(i, j int) { names[i], names[j] = names[j], names[i] })
		nl := r.IntN(4)
		for _, n := range names[:nl] {
			v := lvals[r.IntN(len(lvals))]
			b.Set(n, v)
			parts = append(parts, n+`="`+escapeLabelValue(v)+`"`)
		}
		b.Set("id", fmt.Sprint(len(series)))
		parts = append(parts, `id="`+fmt.Sprint(len(series))+`"`)
		text := fam + "{" + strings.Join(parts, ",") + "}"
		for k, v := range custom {
			b.Set(k, v)
		}
		ls := b.Labels()
		if seen[ls.String()] {
			continue
		}
		seen[ls.String()] = true
		series = append(series, seriesDef{fam: fam, text: text, ls: ls})
	}

	// ---- timestamps: windows k0 … k0+nWin-1 of the grid
	var k0 int64
	originClass := ""
	switch r.IntN(8) {
	case 0, 1:
		k0, originClass = -int64(1+r.IntN(4)), "straddles-zero" // starts below zero, may cross it
	case 2:
		k0, originClass = -int64(100+r.IntN(100000)), "far-negative"
	case 3:
		k0, originClass = 0, "from-zero"
	case 4:
		k0, originClass = int64(1+r.IntN(50)), "small-positive"
	default:
		k0, originClass = floorDiv(1_700_000_000_000, d)+int64(r.IntN(1000)), "present-day"
	}
	nWin := 1 + r.IntN(6)
	// In 4 of 5 inputs every timestamp is chosen such that its decimal-seconds text converts back to
	// the same millisecond even under float truncation; the remaining inputs use arbitrary milliseconds.
	exactTimes := r.IntN(5) != 0
	lo, hi := k0*d, (k0+int64(nWin))*d-1
	var boundaries []int64
	for k := k0; k <= k0+int64(nWin); k++ {
		boundaries = append(boundaries, k*d-1, k*d, k*d+1)
	}
	perSeries := 1 + r.IntN(12)
	if bigWindow {
		perSeries = 150 + r.IntN(60) // > 5000 samples, many in one window: the appender is committed in between
	}
	var all []sample
	for si := range series {
		tset := map[int64]bool{}
		n := 1 + r.IntN(perSeries)
		if bigWindow {
			n = perSeries
		}
		for i := 0; i < n; i++ {
			var t int64
			switch {
			case bigWindow && r.IntN(10) != 0:
				t = lo + r.Int64N(d) // concentrate in the first window
			case r.IntN(3) == 0:
				t = boundaries[r.IntN(len(boundaries))]
			default:
				t = lo + r.Int64N(hi-lo+1)
			}
			if t < lo || t > hi {
				continue
			}
			if exactTimes && fragile(t) {
				continue
			}
			tset[t] = true
		}
		if !exactTimes {
			// keep a fragile timestamp only if its neighbour towards zero is free (otherwise a truncating
			// reader would see two samples with one timestamp and reject the input)
			for t := range tset {
				n := t - 1
				if t < 0 {
					n = t + 1
				}
				if fragile(t) && tset[n] {
					delete(tset, t)
				}
			}
		}
		var ts []int64
		for t := range tset {
			ts = append(ts, t)
		}
		sort.Slice(ts, func(i, j int) bool { return ts[i] < ts[j] })
		for _, t := range ts {
			var v float64
			switch r.IntN(12) {
			case 0:
				v = math.NaN()
			case 1:
				v = math.Inf(1)
			case 2:
				v = math.Inf(-1)
			case 3:
				v = 0
			case 4:
				v = math.Float64frombits(r.Uint64())
				if math.IsNaN(v) {
					v = 1
				}
			default:
				v = float64(r.IntN(100000)-500) / 8
			}
			all = append(all, sample{series: si, t: t, v: v})
		}
	}
	if len(all) == 0 {
		all = append(all, sample{series: 0, t: k0 * d, v: 1}) // a multiple of 2h in ms: whole seconds, never fragile
	}
	// file order: interleave the series, each series keeps its own (increasing) order
	queues := make([][]sample, len(series))
	for _, s := range all {
		queues[s.series] = append(queues[s.series], s)
	}
	var ordered []sample
	mode := r.IntN(3) // 0: series by series, 1: random interleaving, 2: globally by time
	switch mode {
	case 0:
		for _, q := range queues {
			ordered = append(ordered, q...)
		}
	case 1:
		for {
			var nonEmpty []int
			for i, q := range queues {
				if len(q) > 0 {
					nonEmpty = append(nonEmpty, i)
				}
			}
			if len(nonEmpty) == 0 {
				break
			}
			i := nonEmpty[r.IntN(len(nonEmpty))]
			take := 1 + r.IntN(3)
			for ; take > 0 && len(queues[i]) > 0; take-- {
				ordered = append(ordered, queues[i][0])
				queues[i] = queues[i][1:]
			}
		}
	default:
		ordered = append(ordered, all...)
		sort.SliceStable(ordered, func(i, j int) bool { return ordered[i].t < ordered[j].t })
	}
	missingTS := r.IntN(6) == 0
	if missingTS {
		// the later in the file, the more windows would already have been written by a one-pass tool
		i := r.IntN(len(ordered))
		if r.IntN(2) == 0 {
			i = len(ordered) - 1
		}
		ordered[i].noTS = true
	}

	var in bytes.Buffer
	for _, f := range families {
		typ := "gauge"
		if f == "m_b" {
			typ = "unknown"
		}
		fmt.Fprintf(&in, "# TYPE %s %s\n", f, typ)
		if f == "m_a" {
			fmt.Fprintf(&in, "# HELP %s generated by the C50 check\n", f)
		}
	}
	for _, s := range ordered {
		if s.noTS {
			fmt.Fprintf(&in, "%s %s\n", series[s.series].text, fmtValue(s.v))
		} else {
			fmt.Fprintf(&in, "%s %s %s\n", series[s.series].text, fmtValue(s.v), fmtSeconds(s.t))
		}
	}
	in.WriteString("# EOF\n")

	dir := c.TempDir()
	inPath := filepath.Join(dir, "input.om")
	outDir := filepath.Join(dir, "out")
	core.Must(os.WriteFile(inPath, in.Bytes(), 0o644), "writing the input file")

	// --max-block-duration belongs to create-blocks-from, --label to the openmetrics sub-command
	var pre, post []string
	for _, a := range args {
		if strings.HasPrefix(a, "--label=") {
			post = append(post, a)
		} else {
			pre = append(pre, a)
		}
	}
	cmdArgs := append([]string{"tsdb", "create-blocks-from"}, pre...)
	cmdArgs = append(cmdArgs, "openmetrics")
	cmdArgs = append(cmdArgs, post...)
	if r.IntN(2) == 0 {
		cmdArgs = append(cmdArgs, "-q")
	}
	cmdArgs = append(cmdArgs, inPath, outDir)
	ctx, cancel := context.WithTimeout(context.Background(), 150*time.Second)
	defer cancel()
	cmd := exec.CommandContext(ctx, bin, cmdArgs...)
	cmd.Dir = dir
	var stdout, stderr bytes.Buffer
	cmd.Stdout, cmd.Stderr = &stdout, &stderr
	err := cmd.Run()
	if ctx.Err() != nil {
		c.Inconclusive("promtool did not finish within 150 s (machine load?)")
		return
	}
	exit := 0
	if err != nil {
		var ee *exec.ExitError
		if errors.As(err, &ee) {
			exit = ee.ExitCode()
		} else {
			core.Must(err, "starting promtool")
		}
	}
	invocation := "promtool " + strings.Join(cmdArgs[:len(cmdArgs)-2], " ") + " <input> <out>"
	c.Count("promtool_runs", 1)
	c.Count("input_samples", int64(len(ordered)))
	c.Seen("origin", originClass)
	c.Seen("block_duration_h", fmt.Sprint(d/hour))
	if exactTimes {
		c.Count("inputs_with_exactly_convertible_timestamps", 1)
	}
	c.Seen("file_order", []string{"series-by-series", "interleaved", "by-time"}[mode])

	// ---- read the result
	type blockInfo struct {
		ulid       string
		mint, maxt int64
		content    map[string]map[int64]string
	}
	var blocks []blockInfo
	if _, statErr := os.Stat(outDir); statErr == nil {
		db, err := tsdb.OpenDBReadOnly(outDir, "", tsdbx.NopLogger())
		core.Must(err, "OpenDBReadOnly on the output directory")
		brs, err := db.Blocks()
		if err != nil {
			db.Close()
			c.Violatef("unreadable-output", "%s\nthe output directory cannot be opened as blocks: %v", invocation, err)
			return
		}
		for _, br := range brs {
			m := br.Meta()
			q, err := tsdb.NewBlockQuerier(br, math.MinInt64, math.MaxInt64)
			core.Must(err, "NewBlockQuerier")
			dump, _, err := tsdbx.DumpQuerier(q)
			q.Close()
			if err != nil {
				db.Close()
				c.Violatef("unreadable-output", "%s\nblock %s cannot be read: %v", invocation, m.ULID, err)
				return
			}
			bi := blockInfo{ulid: m.ULID.String(), mint: m.MinTime, maxt: m.MaxTime, content: map[string]map[int64]string{}}
			for k, ss := range dump {
				bi.content[k] = map[int64]string{}
				for _, s := range ss {
					if s.Kind != "f" {
						bi.content[k][s.T] = "non-float"
					} else {
						bi.content[k][s.T] = valKey(s.F)
					}
				}
			}
			blocks = append(blocks, bi)
		}
		db.Close()
	}
	c.Count("blocks_written", int64(len(blocks)))

	inputHead := in.String()
	if len(inputHead) > 1500 {
		inputHead = inputHead[:1500] + "…"
	}

	if missingTS {
		c.Count("inputs_with_missing_timestamp", 1)
		if exit == 0 {
			c.Violatef("missing-timestamp-accepted", "%s\nexit code 0 although a sample has no timestamp\ninput:\n%s", invocation, inputHead)
		}
		if len(blocks) > 0 {
			c.Violatef("blocks-written-despite-rejection", "%s\nthe input has a sample without timestamp (exit code %d) but %d block(s) were written", invocation, exit, len(blocks))
		}
		return
	}
	if exit != 0 {
		c.Violatef("tool-failed", "%s\nexit code %d on a valid input\nstderr: %s\ninput:\n%s", invocation, exit, tail(stderr.String(), 800), inputHead)
		return
	}

	// ---- samples: union of blocks == input, each (series,t) once
	type st struct {
		key string
		t   int64
	}
	want := map[st]string{}
	for _, s := range ordered {
		want[st{series[s.series].ls.String(), s.t}] = valKey(s.v)
	}
	got := map[st]string{}
	dup := ""
	for _, b := range blocks {
		for k, m := range b.content {
			for t, v := range m {
				if _, ok := got[st{k, t}]; ok && dup == "" {
					dup = fmt.Sprintf("%s t=%d", k, t)
				}
				got[st{k, t}] = v
			}
		}
	}
	var missing, extra, wrong []string
	missingAllNegative := true
	for k, v := range want {
		g, ok := got[k]
		switch {
		case !ok:
			missing = append(missing, fmt.Sprintf("%s t=%d", k.key, k.t))
			if k.t >= 0 {
				missingAllNegative = false
			}
		case g != v:
			wrong = append(wrong, fmt.Sprintf("%s t=%d: block has %s, input %s", k.key, k.t, g, v))
		}
	}
	for k := range got {
		if _, ok := want[k]; !ok {
			extra = append(extra, fmt.Sprintf("%s t=%d", k.key, k.t))
		}
	}
	// a lost (series,t) whose twin sits one millisecond closer to zero with the same value: the
	// timestamp text was converted with truncation (narrow kind, judged apart from everything else)
	truncated := 0
	truncExample := ""
	for k, v := range want {
		if _, ok := got[k]; ok || !fragile(k.t) {
			continue
		}
		n := st{k.key, k.t - 1}
		if k.t < 0 {
			n.t = k.t + 1
		}
		if _, inInput := want[n]; inInput {
			continue
		}
		if g, ok := got[n]; ok && g == v {
			truncated++
			if truncExample == "" {
				truncExample = fmt.Sprintf("%s input timestamp %s (= %d ms) stored as t=%d", k.key, fmtSeconds(k.t), k.t, n.t)
			}
			delete(want, k)
			delete(got, n)
		}
	}
	if truncated > 0 {
		c.Violatef("timestamp-truncated-1ms", "%s\n%d of %d sample(s) are stored one millisecond closer to zero than their input timestamp, e.g. %s", invocation, truncated, len(ordered), truncExample)
		missing, extra, wrong = nil, nil, nil
		missingAllNegative = true
		for k, v := range want {
			g, ok := got[k]
			switch {
			case !ok:
				missing = append(missing, fmt.Sprintf("%s t=%d", k.key, k.t))
				if k.t >= 0 {
					missingAllNegative = false
				}
			case g != v:
				wrong = append(wrong, fmt.Sprintf("%s t=%d: block has %s, input %s", k.key, k.t, g, v))
			}
		}
		for k := range got {
			if _, ok := want[k]; !ok {
				extra = append(extra, fmt.Sprintf("%s t=%d", k.key, k.t))
			}
		}
	}
	sort.Strings(missing)
	sort.Strings(extra)
	sort.Strings(wrong)
	blockList := func() string {
		var sb strings.Builder
		for _, b := range blocks {
			fmt.Fprintf(&sb, "  %s [%d,%d) windows %d…%d\n", b.ulid, b.mint, b.maxt, floorDiv(b.mint, d), floorDiv(b.maxt-1, d))
		}
		return sb.String()
	}
	if len(extra) > 0 {
		c.Violatef("unexpected-samples", "%s\n%d sample(s) in the blocks that are not in the input, e.g. %s\ninput:\n%s", invocation, len(extra), head(extra, 5), inputHead)
	}
	if len(wrong) > 0 {
		c.Violatef("value-mismatch", "%s\n%d sample(s) with a different value, e.g. %s", invocation, len(wrong), head(wrong, 5))
	}
	if dup != "" {
		c.Violatef("sample-in-two-blocks", "%s\n%s is stored in more than one block\nblocks:\n%s", invocation, dup, blockList())
	}
	if len(missing) > 0 {
		kind := "samples-missing"
		if missingAllNegative {
			// narrow predicate of the probed defect: exit code 0, and every lost sample has a negative timestamp
			kind = "negative-timestamp-samples-lost"
		}
		c.Violatef(kind, "%s\nexit code 0, d=%dh, input range [%d,%d]: %d of %d input sample(s) are in no block, e.g. %s\nblocks:\n%s", invocation, d/hour, ordered0(all), ordered1(all), len(missing), len(want), head(missing, 6), blockList())
	}

	// ---- alignment
	windows := map[int64]string{}
	for _, b := range blocks {
		w0, w1 := floorDiv(b.mint, d), floorDiv(b.maxt-1, d)
		if w0 != w1 {
			c.Violatef("block-misaligned", "%s\nblock %s [%d,%d) spans windows %d…%d of the %dh grid", invocation, b.ulid, b.mint, b.maxt, w0, w1, d/hour)
			continue
		}
		if other, ok := windows[w0]; ok {
			c.Violatef("blocks-share-window", "%s\nblocks %s and %s both lie in window %d of the %dh grid", invocation, other, b.ulid, w0, d/hour)
		}
		windows[w0] = b.ulid
		for k, m := range b.content {
			for t := range m {
				if t < b.mint || t >= b.maxt {
					c.Violatef("sample-outside-block-range", "%s\nblock %s [%d,%d) holds %s t=%d", invocation, b.ulid, b.mint, b.maxt, k, t)
				}
			}
		}
	}
	c.Seen("windows_with_samples", fmt.Sprint(len(windows)))
	if ordered0(all) < 0 {
		c.Count("inputs_with_negative_timestamps", 1)
	}
	if bigWindow {
		c.Count("inputs_over_5000_samples", 1)
	}
	spanned := floorDiv(ordered1(all), d) - floorDiv(ordered0(all), d) + 1
	if spanned >= 2 {
		c.Nontrivial(in.String(), args)
	}
	if c.Idx < 3 {
		c.Sample(map[string]any{"invocation": invocation, "input_head": tail2(in.String(), 600), "samples": len(ordered), "series": len(series), "blocks": len(blocks), "block_duration_h": d / hour, "exit": exit})
	}
}

func ordered0(all []sample) int64 {
	m := int64(math.MaxInt64)
	for _, s := range all {
		m = min(m, s.t)
	}
	return m
}

func ordered1(all []sample) int64 {
	m := int64(math.MinInt64)
	for _, s := range all {
		m = max(m, s.t)
	}
	return m
}

func head(xs []string, n int) string {
	if len(xs) > n {
		return strings.Join(xs[:n], "; ") + "; …"
	}
	return strings.Join(xs, "; ")
}

func tail(s string, n int) string {
	if len(s) > n {
		return "…" + s[len(s)-n:]
	}
	return s
}

func tail2(s string, n int) string {
	if len(s) > n {
		return s[:n] + "…"
	}
	return s
}
