// Package c19: merging series sets de-duplicates without losing data (reference-merge monitor).
package c19

import (
	"bytes"
	"fmt"
	"math"
	"math/rand/v2"
	"sort"
	"strings"

	"github.com/prometheus/prometheus/model/histogram"
	"github.com/prometheus/prometheus/model/labels"
	"github.com/prometheus/prometheus/storage"
	"github.com/prometheus/prometheus/tsdb/chunkenc"
	"github.com/prometheus/prometheus/tsdb/chunks"
	"github.com/prometheus/prometheus/util/annotations"

	"verif/internal/core"
	"verif/internal/gen"
	"verif/internal/tsdbx"
)

func init() {
	core.Register(&core.Prop{
		ID:        "C19",
		Title:     "Merging series sets de-duplicates without losing data",
		Level:     "exploration",
		Technique: "reference-model runtime monitor: storage.NewMergeSeriesSet / NewMergeChunkSeriesSet / ChainedSeriesMerge / compacting and concatenating chunk mergers vs a brute-force union merge, iterated with random Next/Seek",
		LevelText: "Each case generates 0-6 label-sorted input sets over a small label universe with overlapping timestamps, mixed float/histogram/float-histogram samples, equal timestamps across inputs (equal or conflicting values), identical duplicate chunks and >120-sample chunks. The real merge functions are run; every merged series is iterated once with plain Next and once with a random Next/Seek walk (incl. Seek backwards, to equal, between, beyond the end, after exhaustion, with iterator re-use). Oracle: label sets once each in labels.Compare order; timestamps = sorted union; each sample's (type,value) equals that of some input at that timestamp; Seek/Next follow the chunkenc.Iterator contract on the merged sequence. Chunk level (compacting merger): chunk metas time-ordered and non-overlapping, samples inside the meta range, decoded concatenation = the sample-level merge; an identical duplicate chunk that overlaps nothing else appears exactly once with its range and samples. Concatenating merger: decoded multiset equals the multiset of all input chunks. Held on the observed cases only.",
		LevelNote: "Trusted: chunkenc encode/decode (inputs are decoded again to build the expectation; C10/C11 check the codecs), labels.Compare as the definition of label order. Histogram counter-reset hints are not compared (the merge documents that it rewrites them). The series limit argument of the merge sets is not exercised (the statement does not cover it). Next/Seek after exhaustion are only issued when every input of the series is list-backed (chunkenc chunk iterators answer a backward Seek after exhaustion with their last sample again, which the merged iterator inherits; that contract belongs to the chunk iterators, not to the merge). Timestamp math.MinInt64 (the merge's internal 'no last timestamp' sentinel) is generated in 1/40 of the sample-level cases and as a Seek target in 1/10 of the seeks; both are judged under their own narrow kinds (known findings, see FINDINGS.md).",
		DesignRef: "DESIGN.md §5 C19",
		Rule:      "case = one generated collection of input sets, merged at sample level (two list-backed iterator flavours or chunk-backed inputs) and at chunk level (compacting + concatenating); non-trivial iff at least two inputs share a label set, some timestamp of such a series occurs in two inputs, and at least one Seek was executed on a merged iterator; distinct by a digest of the generated inputs",
		Cases: func(variant string, tier core.Tier) int {
			if variant != "default" {
				return 0
			}
			if tier == core.Thorough {
				return 200000
			}
			return 5000
		},
		Run:            run,
		MinNontrivial:  func(t core.Tier) int { return 1000 },
		CaseTimeoutSec: 120,
	})
}

// ---------------------------------------------------------------- samples

type smp struct {
	t  int64
	f  float64
	h  *histogram.Histogram
	fh *histogram.FloatHistogram
}

func (s smp) T() int64                      { return s.t }
func (s smp) ST() int64                     { return 0 }
func (s smp) F() float64                    { return s.f }
func (s smp) H() *histogram.Histogram       { return s.h }
func (s smp) FH() *histogram.FloatHistogram { return s.fh }
func (s smp) Type() chunkenc.ValueType {
	switch {
	case s.h != nil:
		return chunkenc.ValHistogram
	case s.fh != nil:
		return chunkenc.ValFloatHistogram
	}
	return chunkenc.ValFloat
}

func (s smp) Copy() chunks.Sample {
	c := smp{t: s.t, f: s.f}
	if s.h != nil {
		c.h = s.h.Copy()
	}
	if s.fh != nil {
		c.fh = s.fh.Copy()
	}
	return c
}

func (s smp) key() string {
	switch {
	case s.h != nil:
		return tsdbx.Sample{Kind: "h", H: s.h}.ValKey()
	case s.fh != nil:
		return tsdbx.Sample{Kind: "fh", FH: s.fh}.ValKey()
	}
	return tsdbx.Sample{Kind: "f", F: s.f}.ValKey()
}

func copySamples(in []smp) []chunks.Sample {
	out := make([]chunks.Sample, len(in))
	for i, s := range in {
		out[i] = s.Copy()
	}
	return out
}

// ---------------------------------------------------------------- second list flavour

// newCopySeries presents samples through storage.NewListSeriesIteratorWithCopy (the variant that
// copies histograms into the caller's buffer).
func newCopySeries(lset labels.Labels, in []smp) storage.Series {
	sl := chunks.SampleSlice(copySamples(in))
	return &storage.SeriesEntry{Lset: lset, SampleIteratorFn: func(chunkenc.Iterator) chunkenc.Iterator {
		return storage.NewListSeriesIteratorWithCopy(sl)
	}}
}

// ---------------------------------------------------------------- list-backed sets

type listSet struct {
	series []storage.Series
	i      int
}

func (l *listSet) Next() bool                      { l.i++; return l.i < len(l.series) }
func (l *listSet) At() storage.Series              { return l.series[l.i] }
func (*listSet) Err() error                        { return nil }
func (*listSet) Warnings() annotations.Annotations { return nil }

type listChunkSet struct {
	series []storage.ChunkSeries
	i      int
}

func (l *listChunkSet) Next() bool                      { l.i++; return l.i < len(l.series) }
func (l *listChunkSet) At() storage.ChunkSeries         { return l.series[l.i] }
func (*listChunkSet) Err() error                        { return nil }
func (*listChunkSet) Warnings() annotations.Annotations { return nil }

// ---------------------------------------------------------------- generated inputs

type inSeries struct {
	lset  labels.Labels
	segs  [][]smp       // chunk partition of the (strictly increasing) samples
	metas []chunks.Meta // encoded lazily (chunk-level inputs)
	dec   [][]tsdbx.Sample
}

func (s *inSeries) all() []smp {
	var out []smp
	for _, g := range s.segs {
		out = append(out, g...)
	}
	return out
}

type inSet struct {
	mode   string // "list" | "listcopy" | "chunk" (how the sample-level input is presented)
	series []*inSeries
}

func genValue(r *rand.Rand, t int64, lsetIdx int, replicate bool, pool []*gen.AbsHist) smp {
	vr := r
	if replicate {
		// replicated data: the value is a function of (series, t)
		vr = rand.New(rand.NewPCG(uint64(t)*2654435761+uint64(lsetIdx), 77))
	}
	switch vr.IntN(6) {
	case 0:
		return smp{t: t, h: pool[vr.IntN(len(pool))].Int(vr)}
	case 1:
		return smp{t: t, fh: pool[vr.IntN(len(pool))].Float(vr)}
	default:
		return smp{t: t, f: gen.Float(vr, true)}
	}
}

// genInputs draws the input collection.  minInt marks the special timestamp domain.
func genInputs(r *rand.Rand, minInt bool) ([]labels.Labels, []*inSet) {
	nl := 1 + r.IntN(6)
	universe := gen.SeriesSet(r, nl)
	sort.Slice(universe, func(i, j int) bool { return labels.Compare(universe[i], universe[j]) < 0 })
	k := r.IntN(7)
	// timestamp slots shared by all inputs so that collisions are common
	nslots := 4 + r.IntN(50)
	big := gen.Chance(r, 12)
	if big {
		nslots = 130 + r.IntN(200)
	}
	slots := make([]int64, nslots)
	t := int64(r.IntN(2000)) - 1000
	if gen.Chance(r, 10) {
		t = math.MaxInt64 - int64(nslots)*20 - 5
	}
	for i := range slots {
		slots[i] = t
		t += 1 + int64(r.IntN(15))
	}
	if minInt {
		slots[0] = math.MinInt64
		if gen.Chance(r, 2) {
			slots[1] = math.MinInt64 + 1
		}
	}
	pool := make([]*gen.AbsHist, 4)
	for i := range pool {
		pool[i] = gen.NewAbsHist(r, true)
	}
	replicate := r.IntN(3) != 0
	histFree := gen.Chance(r, 3)
	sets := make([]*inSet, k)
	for si := range sets {
		set := &inSet{mode: []string{"list", "listcopy", "chunk"}[r.IntN(3)]}
		if minInt && set.mode == "chunk" {
			set.mode = "list"
		}
		for li, ls := range universe {
			if r.IntN(3) == 0 {
				continue
			}
			s := &inSeries{lset: ls}
			// copy a chunk sub-range of an earlier input (identical duplicate chunks)
			if si > 0 && r.IntN(4) == 0 {
				var src *inSeries
				for _, prev := range sets[:si] {
					for _, ps := range prev.series {
						if labels.Equal(ps.lset, ls) && len(ps.segs) > 0 {
							src = ps
						}
					}
				}
				if src != nil {
					a := r.IntN(len(src.segs))
					b := a + 1 + r.IntN(len(src.segs)-a)
					if r.IntN(2) == 0 {
						a, b = 0, len(src.segs)
					}
					s.segs = src.segs[a:b]
					set.series = append(set.series, s)
					continue
				}
			}
			density := 1 + r.IntN(4)
			var all []smp
			lo, hi := 0, nslots
			if r.IntN(2) == 0 { // a time window of the slots: partial overlaps between inputs
				lo = r.IntN(nslots)
				hi = lo + r.IntN(nslots-lo+1)
			}
			for i := lo; i < hi; i++ {
				if r.IntN(4) >= density {
					continue
				}
				v := genValue(r, slots[i], li, replicate && r.IntN(8) != 0, pool)
				if histFree && (v.h != nil || v.fh != nil) {
					v = smp{t: slots[i], f: float64(i)}
				}
				all = append(all, v)
			}
			if r.IntN(25) == 0 {
				all = nil // a series without samples
			}
			// partition into chunk segments
			for len(all) > 0 {
				n := 1 + r.IntN(12)
				if big && r.IntN(3) == 0 {
					n = 100 + r.IntN(80)
				}
				if n > len(all) {
					n = len(all)
				}
				s.segs = append(s.segs, all[:n:n])
				all = all[n:]
			}
			set.series = append(set.series, s)
		}
		sets[si] = set
	}
	return universe, sets
}

// encode fills metas/dec of a series (chunk-level presentation) using the repo's encoder per
// segment; the decoded content is the model's truth for that chunk.
func (s *inSeries) encode() {
	if s.metas != nil || len(s.segs) == 0 {
		return
	}
	s.metas = []chunks.Meta{}
	for _, seg := range s.segs {
		it := storage.NewSeriesToChunkEncoder(storage.NewListSeries(s.lset, copySamples(seg))).Iterator(nil)
		for it.Next() {
			m := it.At()
			d, err := tsdbx.IterSamples(m.Chunk.Iterator(nil))
			core.Must(err, "decode of a freshly encoded input chunk")
			s.metas = append(s.metas, m)
			s.dec = append(s.dec, d)
		}
		core.Must(it.Err(), "encoding an input chunk")
	}
}

// ---------------------------------------------------------------- reference

type ref struct {
	lset    labels.Labels
	ts      []int64
	allowed map[int64]map[string]bool
	inputs  int  // number of inputs having this label set
	overlap bool // some timestamp in two inputs
	strict  bool // every input iterator keeps returning ValNone once exhausted (no chunkenc iterators)
}

func buildRef(universe []labels.Labels, sets []*inSet, fromChunks bool) []*ref {
	var out []*ref
	for _, ls := range universe {
		rf := &ref{lset: ls, allowed: map[int64]map[string]bool{}}
		for _, set := range sets {
			for _, s := range set.series {
				if !labels.Equal(s.lset, ls) || (fromChunks && len(s.segs) == 0) {
					continue
				}
				rf.inputs++
				add := func(t int64, k string) {
					m := rf.allowed[t]
					if m == nil {
						m = map[string]bool{}
						rf.allowed[t] = m
					} else {
						rf.overlap = true
					}
					m[k] = true
				}
				if fromChunks {
					for _, d := range s.dec {
						for _, x := range d {
							add(x.T, x.ValKey())
						}
					}
				} else {
					for _, x := range s.all() {
						add(x.t, x.key())
					}
				}
			}
		}
		if rf.inputs == 0 {
			continue
		}
		for t := range rf.allowed {
			rf.ts = append(rf.ts, t)
		}
		sort.Slice(rf.ts, func(i, j int) bool { return rf.ts[i] < rf.ts[j] })
		out = append(out, rf)
	}
	return out
}

// ---------------------------------------------------------------- iterator walks

func readAt(it chunkenc.Iterator, vt chunkenc.ValueType) (int64, string) {
	switch vt {
	case chunkenc.ValFloat:
		t, f := it.At()
		return t, tsdbx.Sample{Kind: "f", F: f}.ValKey()
	case chunkenc.ValHistogram:
		t, h := it.AtHistogram(nil)
		return t, tsdbx.Sample{Kind: "h", H: h}.ValKey()
	case chunkenc.ValFloatHistogram:
		t, fh := it.AtFloatHistogram(nil)
		return t, tsdbx.Sample{Kind: "fh", FH: fh}.ValKey()
	}
	return 0, "?"
}

type walkCtx struct {
	c      *core.Case
	what   string
	minInt bool
	reused bool
	// strictAfterEnd: all inputs of the merged series keep returning ValNone once exhausted, so the
	// merged iterator is required to do the same.
	strictAfterEnd bool
	tainted        bool // this walk started (before any sample was found) with Seek(math.MinInt64) on a re-used iterator object
	seeks          int
	trace          []string
}

func (w *walkCtx) tr(format string, a ...any) {
	if len(w.trace) < 60 {
		w.trace = append(w.trace, fmt.Sprintf(format, a...))
	}
}

// kindFor narrows the violation kind for the MinInt64 sentinel cases.
func (w *walkCtx) kindFor(base string, wantT int64, seekT *int64) string {
	if w.minInt && wantT == math.MinInt64 {
		return "minint64-sample-dropped"
	}
	if w.tainted {
		// a re-used iterator object whose first positioning operation in this walk was Seek(math.MinInt64)
		return "reused-iterator-seek-minint64"
	}
	return base
}

// check verifies that the iterator now stands on model index want (or is exhausted when want==len).
func (w *walkCtx) check(it chunkenc.Iterator, rf *ref, vt chunkenc.ValueType, want int, op string, seekT *int64) bool {
	if want >= len(rf.ts) {
		if vt != chunkenc.ValNone {
			t, k := readAt(it, vt)
			w.c.Violatef(w.kindFor("merge-extra-sample", math.MaxInt64, seekT), "%s series %s: after %s the merged sequence %v is exhausted, but the iterator returned %v at t=%d (%s); ops: %s", w.what, rf.lset, op, brief(rf.ts), vt, t, k, strings.Join(w.trace, " "))
			return false
		}
		if err := it.Err(); err != nil {
			w.c.Violatef("merge-error", "%s series %s: iterator error %v", w.what, rf.lset, err)
			return false
		}
		return true
	}
	wantT := rf.ts[want]
	if vt == chunkenc.ValNone {
		w.c.Violatef(w.kindFor("merge-missing-sample", wantT, seekT), "%s series %s: after %s expected sample at t=%d (index %d of %v) but the iterator is exhausted (err=%v); ops: %s", w.what, rf.lset, op, wantT, want, brief(rf.ts), it.Err(), strings.Join(w.trace, " "))
		return false
	}
	t, k := readAt(it, vt)
	if t != wantT || it.AtT() != wantT {
		kind := "merge-wrong-timestamp"
		if t > wantT {
			kind = "merge-missing-sample"
		} else if want > 0 && t <= rf.ts[want-1] {
			kind = "merge-duplicate-or-disorder"
		} else if rf.allowed[t] == nil {
			kind = "merge-extra-sample"
		}
		w.c.Violatef(w.kindFor(kind, wantT, seekT), "%s series %s: after %s expected t=%d (index %d of %v), got t=%d AtT=%d; ops: %s", w.what, rf.lset, op, wantT, want, brief(rf.ts), t, it.AtT(), strings.Join(w.trace, " "))
		return false
	}
	if !rf.allowed[wantT][k] {
		w.c.Violatef(w.kindFor("merge-wrong-value", math.MaxInt64, seekT), "%s series %s: at t=%d got %s which no input has there (inputs have %v); ops: %s", w.what, rf.lset, wantT, k, keys(rf.allowed[wantT]), strings.Join(w.trace, " "))
		return false
	}
	return true
}

// walk drives it with nOps random Next/Seek operations and then (unless abandon) drains it with
// Next.  Operations after exhaustion are only issued when strictAfterEnd is set (all inputs honour
// "exhausted stays exhausted"; chunkenc iterators do not, and that is not this property's concern).
func (w *walkCtx) walk(r *rand.Rand, it chunkenc.Iterator, rf *ref, nOps int, abandon bool) bool {
	n := len(rf.ts)
	pos := -1 // model position; n = exhausted
	w.trace = w.trace[:0]
	w.tainted = false
	for step := 0; step < nOps; step++ {
		if pos >= n && !(w.strictAfterEnd && r.IntN(2) == 0) {
			break
		}
		if r.IntN(3) != 0 {
			vt := it.Next()
			if pos < n {
				pos++
			}
			w.tr("N")
			if !w.check(it, rf, vt, pos, "Next", nil) {
				return false
			}
			continue
		}
		// Seek target
		var t int64
		switch r.IntN(10) {
		case 0:
			t = math.MinInt64
		case 1:
			t = math.MaxInt64
		case 2:
			if n > 0 {
				t = rf.ts[n-1]
				switch d := r.IntN(3); {
				case d == 0 && t > math.MinInt64:
					t--
				case d == 1 && t < math.MaxInt64:
					t++
				}
			}
		default:
			if n == 0 {
				t = int64(r.IntN(100))
			} else {
				j := pos - 2 + r.IntN(9)
				if j < 0 {
					j = 0
				}
				if j >= n {
					j = n - 1
				}
				t = rf.ts[j]
				switch d := r.IntN(4); {
				case d == 0 && t > math.MinInt64:
					t--
				case d == 1 && t < math.MaxInt64:
					t++
				}
			}
		}
		if w.reused && pos == -1 && t == math.MinInt64 {
			w.tainted = true
		}
		vt := it.Seek(t)
		w.seeks++
		w.tr("S(%d)", t)
		if pos >= n {
			// exhausted stays exhausted
		} else if pos >= 0 && rf.ts[pos] >= t {
			// no-op
		} else {
			pos = sort.Search(n, func(i int) bool { return rf.ts[i] >= t })
		}
		tt := t
		if !w.check(it, rf, vt, pos, fmt.Sprintf("Seek(%d)", t), &tt) {
			return false
		}
	}
	if abandon {
		return true
	}
	for pos < n {
		vt := it.Next()
		pos++
		w.tr("N")
		if !w.check(it, rf, vt, pos, "Next", nil) {
			return false
		}
	}
	return true
}

func brief(ts []int64) string {
	if len(ts) <= 24 {
		return fmt.Sprint(ts)
	}
	return fmt.Sprintf("%v…(%d more)…%v", ts[:10], len(ts)-16, ts[len(ts)-6:])
}

func keys(m map[string]bool) []string {
	var out []string
	for k := range m {
		if len(k) > 120 {
			k = k[:120] + "…"
		}
		out = append(out, k)
	}
	sort.Strings(out)
	return out
}

// ---------------------------------------------------------------- run

func sampleSets(sets []*inSet) []storage.SeriesSet {
	out := make([]storage.SeriesSet, len(sets))
	for i, set := range sets {
		switch set.mode {
		case "chunk":
			out[i] = storage.NewSeriesSetFromChunkSeriesSet(chunkSet(set))
		default:
			ls := &listSet{i: -1}
			for _, s := range set.series {
				if set.mode == "listcopy" {
					ls.series = append(ls.series, newCopySeries(s.lset, s.all()))
				} else {
					ls.series = append(ls.series, storage.NewListSeries(s.lset, copySamples(s.all())))
				}
			}
			out[i] = ls
		}
	}
	return out
}

func chunkSet(set *inSet) storage.ChunkSeriesSet {
	cs := &listChunkSet{i: -1}
	for _, s := range set.series {
		if len(s.segs) == 0 {
			continue // a chunk series without chunks is not presented (the chunk→sample adapter cannot represent it)
		}
		s.encode()
		metas := s.metas
		cs.series = append(cs.series, &storage.ChunkSeriesEntry{Lset: s.lset, ChunkIteratorFn: func(chunks.Iterator) chunks.Iterator {
			return storage.NewListChunkSeriesIterator(append([]chunks.Meta(nil), metas...)...)
		}})
	}
	return cs
}

func run(c *core.Case) {
	r := c.Rng
	minInt := gen.Chance(r, 40)
	universe, sets := genInputs(r, minInt)

	digest := describe(sets)
	if c.Idx < 3 {
		d := digest
		if len(d) > 1500 {
			d = d[:1500] + "…"
		}
		c.Sample(map[string]any{"inputs": len(sets), "labels": len(universe), "digest": d})
	}
	c.Seen("input_sets", fmt.Sprint(len(sets)))

	totalSeeks := 0
	sharedOverlap := false

	// ---------------- sample level (mixed presentations; "chunk" sets are decoded chunks)
	{
		// the model for chunk-presented sets is what their chunks decode to; since encoding is
		// trusted to round-trip, building it from the generated samples is equivalent, but
		// build from the decode for the chunk-mode sets to stay independent of that.
		refs := buildRefMixed(universe, sets)
		merged := storage.NewMergeSeriesSet(sampleSets(sets), 0, storage.ChainedSeriesMerge)
		w := &walkCtx{c: c, what: "NewMergeSeriesSet", minInt: minInt}
		ok := checkSeriesSet(c, r, merged, refs, w)
		totalSeeks += w.seeks
		for _, rf := range refs {
			if rf.inputs >= 2 && rf.overlap {
				sharedOverlap = true
			}
		}
		c.Count("sample_level_series", int64(len(refs)))
		if !ok {
			return
		}
		// direct ChainedSeriesMerge over the series of one label set
		for _, rf := range refs {
			var ser []storage.Series
			var raw [][]smp
			for _, set := range sets {
				for _, s := range set.series {
					if labels.Equal(s.lset, rf.lset) {
						if set.mode == "chunk" {
							continue
						}
						ser = append(ser, newCopySeries(s.lset, s.all()))
						raw = append(raw, s.all())
					}
				}
			}
			if len(ser) == 0 || r.IntN(2) == 0 {
				continue
			}
			// reference restricted to these inputs
			sub := subRef(rf.lset, raw)
			ms := storage.ChainedSeriesMerge(ser...)
			w := &walkCtx{c: c, what: "ChainedSeriesMerge", minInt: minInt}
			if !labels.Equal(ms.Labels(), rf.lset) {
				c.Violatef("merge-wrong-labels", "ChainedSeriesMerge labels %s, inputs have %s", ms.Labels(), rf.lset)
				return
			}
			w.strictAfterEnd = true
			it := ms.Iterator(nil)
			if !w.walk(r, it, sub, r.IntN(len(sub.ts)+3), r.IntN(2) == 0) {
				return
			}
			// re-use the (exhausted or abandoned) chain iterator for a second, random walk
			w.reused = true
			it = ms.Iterator(it)
			if !w.walk(r, it, sub, 3+r.IntN(12), false) {
				return
			}
			totalSeeks += w.seeks
			c.Count("chained_series_merges", 1)
		}
	}

	// ---------------- chunk level
	if !minInt {
		for _, set := range sets {
			for _, s := range set.series {
				s.encode()
			}
		}
		refs := buildRef(universe, sets, true)
		mk := func() []storage.ChunkSeriesSet {
			out := make([]storage.ChunkSeriesSet, len(sets))
			for i, set := range sets {
				out[i] = chunkSet(set)
			}
			return out
		}
		if !checkCompacting(c, storage.NewMergeChunkSeriesSet(mk(), 0, storage.NewCompactingChunkSeriesMerger(storage.ChainedSeriesMerge)), refs, sets) {
			return
		}
		if !checkConcatenating(c, storage.NewMergeChunkSeriesSet(mk(), 0, storage.NewConcatenatingChunkSeriesMerger()), refs, sets) {
			return
		}
		// chunk merge decoded back to samples and walked with Seek
		back := storage.NewSeriesSetFromChunkSeriesSet(storage.NewMergeChunkSeriesSet(mk(), 0, storage.NewCompactingChunkSeriesMerger(storage.ChainedSeriesMerge)))
		w := &walkCtx{c: c, what: "SeriesSetFromChunkSeriesSet(compacting merge)"}
		if !checkSeriesSet(c, r, back, refs, w) {
			return
		}
		totalSeeks += w.seeks
	}
	c.Count("seeks", int64(totalSeeks))
	if minInt {
		c.Count("cases_with_minint64_timestamp", 1)
	}
	if sharedOverlap && totalSeeks > 0 {
		c.Nontrivial(digest)
	}
}

// buildRefMixed: sample-level reference where chunk-presented sets contribute their decoded chunks.
func buildRefMixed(universe []labels.Labels, sets []*inSet) []*ref {
	var out []*ref
	for _, ls := range universe {
		rf := &ref{lset: ls, allowed: map[int64]map[string]bool{}, strict: true}
		for _, set := range sets {
			for _, s := range set.series {
				if !labels.Equal(s.lset, ls) || (set.mode == "chunk" && len(s.segs) == 0) {
					continue
				}
				rf.inputs++
				add := func(t int64, k string) {
					m := rf.allowed[t]
					if m == nil {
						m = map[string]bool{}
						rf.allowed[t] = m
					}
					m[k] = true
				}
				if set.mode == "chunk" {
					rf.strict = false
					s.encode()
					for _, d := range s.dec {
						for _, x := range d {
							add(x.T, x.ValKey())
						}
					}
				} else {
					for _, x := range s.all() {
						add(x.t, x.key())
					}
				}
			}
		}
		if rf.inputs == 0 {
			continue
		}
		// overlap: a timestamp present in two inputs
		cnt := map[int64]int{}
		for _, set := range sets {
			for _, s := range set.series {
				if labels.Equal(s.lset, ls) {
					for _, x := range s.all() {
						cnt[x.t]++
						if cnt[x.t] > 1 {
							rf.overlap = true
						}
					}
				}
			}
		}
		for t := range rf.allowed {
			rf.ts = append(rf.ts, t)
		}
		sort.Slice(rf.ts, func(i, j int) bool { return rf.ts[i] < rf.ts[j] })
		out = append(out, rf)
	}
	return out
}

func subRef(ls labels.Labels, ser [][]smp) *ref {
	rf := &ref{lset: ls, allowed: map[int64]map[string]bool{}, inputs: len(ser), strict: true}
	for _, s := range ser {
		for _, x := range s {
			m := rf.allowed[x.t]
			if m == nil {
				m = map[string]bool{}
				rf.allowed[x.t] = m
			} else {
				rf.overlap = true
			}
			m[x.key()] = true
		}
	}
	for t := range rf.allowed {
		rf.ts = append(rf.ts, t)
	}
	sort.Slice(rf.ts, func(i, j int) bool { return rf.ts[i] < rf.ts[j] })
	return rf
}

// checkSeriesSet verifies label order/uniqueness of a merged sample-level set and walks every series.
func checkSeriesSet(c *core.Case, r *rand.Rand, merged storage.SeriesSet, refs []*ref, w *walkCtx) bool {
	i := 0
	var reuse chunkenc.Iterator
	for merged.Next() {
		s := merged.At()
		if i >= len(refs) {
			c.Violatef("merge-extra-series", "%s: returned series %s beyond the %d expected label sets", w.what, s.Labels(), len(refs))
			return false
		}
		rf := refs[i]
		if !labels.Equal(s.Labels(), rf.lset) {
			c.Violatef("merge-series-order", "%s: position %d: got series %s, expected %s (each label set once, in label order)", w.what, i, s.Labels(), rf.lset)
			return false
		}
		i++
		w.reused = false
		w.strictAfterEnd = rf.strict
		it := s.Iterator(nil)
		if !w.walk(r, it, rf, 0, false) { // plain Next drain
			return false
		}
		// random walk, sometimes on a re-used iterator object, sometimes abandoned midway
		if r.IntN(2) == 0 && reuse != nil {
			w.reused = true
			it = s.Iterator(reuse)
		} else {
			w.reused = false
			it = s.Iterator(nil)
		}
		if !w.walk(r, it, rf, 2+r.IntN(2*len(rf.ts)+6), r.IntN(4) == 0) {
			return false
		}
		reuse = it
	}
	if err := merged.Err(); err != nil {
		c.Violatef("merge-error", "%s: set error %v", w.what, err)
		return false
	}
	if i != len(refs) {
		c.Violatef("merge-missing-series", "%s: returned %d series, expected %d; first missing %s", w.what, i, len(refs), refs[i].lset)
		return false
	}
	if merged.Next() {
		c.Violatef("merge-extra-series", "%s: Next returned true after it had returned false", w.what)
		return false
	}
	return true
}

type inChunk struct {
	min, max int64
	data     []byte
	dec      []tsdbx.Sample
}

func inputChunks(sets []*inSet, ls labels.Labels) []inChunk {
	var out []inChunk
	for _, set := range sets {
		for _, s := range set.series {
			if !labels.Equal(s.lset, ls) {
				continue
			}
			for i, m := range s.metas {
				out = append(out, inChunk{m.MinTime, m.MaxTime, m.Chunk.Bytes(), s.dec[i]})
			}
		}
	}
	return out
}

func sameDec(a, b []tsdbx.Sample) bool {
	if len(a) != len(b) {
		return false
	}
	for i := range a {
		if a[i].T != b[i].T || a[i].ValKey() != b[i].ValKey() {
			return false
		}
	}
	return true
}

func checkCompacting(c *core.Case, merged storage.ChunkSeriesSet, refs []*ref, sets []*inSet) bool {
	const what = "NewMergeChunkSeriesSet(compacting)"
	i := 0
	for merged.Next() {
		s := merged.At()
		if i >= len(refs) {
			c.Violatef("merge-extra-series", "%s: returned series %s beyond the %d expected", what, s.Labels(), len(refs))
			return false
		}
		rf := refs[i]
		if !labels.Equal(s.Labels(), rf.lset) {
			c.Violatef("merge-series-order", "%s: position %d: got %s, expected %s", what, i, s.Labels(), rf.lset)
			return false
		}
		i++
		it := s.Iterator(nil)
		type outChunk struct {
			min, max int64
			dec      []tsdbx.Sample
		}
		var outs []outChunk
		var flat []tsdbx.Sample
		for it.Next() {
			m := it.At()
			if m.Chunk == nil {
				c.Violatef("chunk-merge-nil-chunk", "%s series %s: nil chunk in output", what, rf.lset)
				return false
			}
			d, err := tsdbx.IterSamples(m.Chunk.Iterator(nil))
			if err != nil {
				c.Violatef("chunk-merge-undecodable", "%s series %s: output chunk [%d,%d] does not decode: %v", what, rf.lset, m.MinTime, m.MaxTime, err)
				return false
			}
			if len(outs) > 0 && m.MinTime <= outs[len(outs)-1].max {
				c.Violatef("chunk-merge-overlap", "%s series %s: output chunk [%d,%d] follows chunk [%d,%d]: not time-ordered / overlapping", what, rf.lset, m.MinTime, m.MaxTime, outs[len(outs)-1].min, outs[len(outs)-1].max)
				return false
			}
			if len(d) == 0 {
				c.Violatef("chunk-merge-empty-chunk", "%s series %s: empty output chunk [%d,%d]", what, rf.lset, m.MinTime, m.MaxTime)
				return false
			}
			if d[0].T < m.MinTime || d[len(d)-1].T > m.MaxTime {
				c.Violatef("chunk-merge-meta-range", "%s series %s: chunk meta [%d,%d] but samples span [%d,%d]", what, rf.lset, m.MinTime, m.MaxTime, d[0].T, d[len(d)-1].T)
				return false
			}
			outs = append(outs, outChunk{m.MinTime, m.MaxTime, d})
			flat = append(flat, d...)
		}
		if err := it.Err(); err != nil {
			c.Violatef("merge-error", "%s series %s: chunk iterator error %v", what, rf.lset, err)
			return false
		}
		// decoded concatenation = sample-level merge
		for j, x := range flat {
			if j >= len(rf.ts) {
				c.Violatef("merge-extra-sample", "%s series %s: %d decoded samples, expected %d (%v)", what, rf.lset, len(flat), len(rf.ts), brief(rf.ts))
				return false
			}
			if x.T != rf.ts[j] {
				kind := "merge-wrong-timestamp"
				if x.T > rf.ts[j] {
					kind = "merge-missing-sample"
				} else if j > 0 && x.T <= flat[j-1].T {
					kind = "merge-duplicate-or-disorder"
				}
				c.Violatef(kind, "%s series %s: decoded sample %d has t=%d, expected t=%d (expected %v)", what, rf.lset, j, x.T, rf.ts[j], brief(rf.ts))
				return false
			}
			if !rf.allowed[x.T][x.ValKey()] {
				c.Violatef("merge-wrong-value", "%s series %s: at t=%d got %s, inputs have %v", what, rf.lset, x.T, x.ValKey(), keys(rf.allowed[x.T]))
				return false
			}
		}
		if len(flat) < len(rf.ts) {
			c.Violatef("merge-missing-sample", "%s series %s: %d decoded samples, expected %d; first missing t=%d", what, rf.lset, len(flat), len(rf.ts), rf.ts[len(flat)])
			return false
		}
		// identical duplicate chunks that overlap nothing else appear exactly once
		ins := inputChunks(sets, rf.lset)
		for a, ca := range ins {
			dups, isolated := 0, true
			for b, cb := range ins {
				if a == b {
					continue
				}
				if ca.min == cb.min && ca.max == cb.max && bytes.Equal(ca.data, cb.data) {
					dups++
					continue
				}
				if cb.min <= ca.max && cb.max >= ca.min {
					isolated = false
					break
				}
			}
			if dups == 0 || !isolated {
				continue
			}
			c.Count("isolated_duplicate_chunks", 1)
			found := 0
			for _, o := range outs {
				if o.min == ca.min && o.max == ca.max && sameDec(o.dec, ca.dec) {
					found++
				}
			}
			if found != 1 {
				c.Violatef("chunk-merge-duplicate-not-collapsed", "%s series %s: input chunk [%d,%d] (%d samples) occurs %d times identically and overlaps nothing else; the output has %d chunks with that range and content (want exactly 1); output ranges %v", what, rf.lset, ca.min, ca.max, len(ca.dec), dups+1, found, func() [][2]int64 {
					var rr [][2]int64
					for _, o := range outs {
						rr = append(rr, [2]int64{o.min, o.max})
					}
					return rr
				}())
				return false
			}
		}
		c.Count("compacted_output_chunks", int64(len(outs)))
	}
	if err := merged.Err(); err != nil {
		c.Violatef("merge-error", "%s: set error %v", what, err)
		return false
	}
	if i != len(refs) {
		c.Violatef("merge-missing-series", "%s: returned %d series, expected %d", what, i, len(refs))
		return false
	}
	return true
}

func checkConcatenating(c *core.Case, merged storage.ChunkSeriesSet, refs []*ref, sets []*inSet) bool {
	const what = "NewMergeChunkSeriesSet(concatenating)"
	i := 0
	for merged.Next() {
		s := merged.At()
		if i >= len(refs) {
			c.Violatef("merge-extra-series", "%s: returned series %s beyond the %d expected", what, s.Labels(), len(refs))
			return false
		}
		rf := refs[i]
		if !labels.Equal(s.Labels(), rf.lset) {
			c.Violatef("merge-series-order", "%s: position %d: got %s, expected %s", what, i, s.Labels(), rf.lset)
			return false
		}
		i++
		want := map[string]int{}
		for _, ic := range inputChunks(sets, rf.lset) {
			for _, x := range ic.dec {
				want[fmt.Sprintf("%d=%s", x.T, x.ValKey())]++
			}
		}
		it := s.Iterator(nil)
		for it.Next() {
			m := it.At()
			d, err := tsdbx.IterSamples(m.Chunk.Iterator(nil))
			if err != nil {
				c.Violatef("chunk-merge-undecodable", "%s series %s: output chunk does not decode: %v", what, rf.lset, err)
				return false
			}
			for _, x := range d {
				k := fmt.Sprintf("%d=%s", x.T, x.ValKey())
				want[k]--
				if want[k] < 0 {
					c.Violatef("concat-extra-sample", "%s series %s: decoded sample %s occurs more often than in the inputs", what, rf.lset, trunc(k))
					return false
				}
			}
		}
		if err := it.Err(); err != nil {
			c.Violatef("merge-error", "%s series %s: chunk iterator error %v", what, rf.lset, err)
			return false
		}
		for k, n := range want {
			if n != 0 {
				c.Violatef("concat-missing-sample", "%s series %s: input sample %s missing %d times from the concatenation", what, rf.lset, trunc(k), n)
				return false
			}
		}
	}
	if err := merged.Err(); err != nil {
		c.Violatef("merge-error", "%s: set error %v", what, err)
		return false
	}
	if i != len(refs) {
		c.Violatef("merge-missing-series", "%s: returned %d series, expected %d", what, i, len(refs))
		return false
	}
	return true
}

func trunc(s string) string {
	if len(s) > 200 {
		return s[:200] + "…"
	}
	return s
}

// describe renders the inputs compactly (timestamps and types per chunk) – used as digest and sample.
func describe(sets []*inSet) string {
	var sb strings.Builder
	for i, set := range sets {
		fmt.Fprintf(&sb, "set%d(%s):", i, set.mode)
		for _, s := range set.series {
			fmt.Fprintf(&sb, " %s", s.lset.String())
			for _, g := range s.segs {
				sb.WriteString("[")
				for _, x := range g {
					ty := "f"
					if x.h != nil {
						ty = "h"
					} else if x.fh != nil {
						ty = "F"
					}
					fmt.Fprintf(&sb, "%d%s ", x.t, ty)
				}
				sb.WriteString("]")
			}
		}
		sb.WriteString("\n")
	}
	return sb.String()
}
