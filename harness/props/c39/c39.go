// Package c39: label sets behave as canonical sorted maps in every build (stringlabels default,
// slicelabels, dedupelabels).  Every build runs the same generated operation programs, checks each
// observation against a map+sort reference and emits a canonical transcript; Post compares the
// transcripts of the builds case by case.
package c39

import (
	"crypto/sha256"
	"encoding/json"
	"errors"
	"fmt"
	"math/rand/v2"
	"sort"
	"strconv"
	"strings"

	"github.com/prometheus/prometheus/model/labels"

	"verif/internal/core"
)

func init() {
	core.Register(&core.Prop{
		ID:        "C39",
		Title:     "Label sets behave as canonical sorted maps in every build",
		Level:     "exploration",
		Technique: "reference-model runtime monitor (map[string]string + sort) inside each of the three label implementations plus cross-build transcript comparison",
		LevelText: "Generated operation programs (Builder Reset/Set/Del/Keep/Get/Range/Range-with-mutation/Labels; ScratchBuilder Reset/Add/Sort/Assign/Labels/Overwrite with and without a shared symbol table; FromStrings/FromMap/New/EmptyLabels/Copy/CopyFrom; symbol-table rebuild as tsdb.RebuildSymbolTable does it; symbol tables pre-filled beyond 32768 entries) over names and values with shared prefixes, multi-byte UTF-8, empty values and lengths around 254/255/256, 1 KiB and 70 KB run in the stringlabels (default), slicelabels and dedupelabels builds (plus a -race/checkptr build of the default on a sample). In every build each produced label set is compared with the reference: Len/IsEmpty/Range order/Get/Has/Map/Validate/HasDuplicateLabelNames, WithoutEmpty, DropReserved/DropMetricName, MatchLabels, Copy, JSON round trip, Compare sign and Equal for all pairs of live sets, Bytes equality iff set equality, BytesWith/WithoutLabels and HashFor/WithoutLabels against the projected set, equal sets hash equally. The rendered transcript (including String()) must be byte-identical across the builds for the same case index. Held on the observed programs only.",
		LevelNote: "Reference written from the doc comments of model/labels; operations are only used inside their documented contracts: ScratchBuilder is Reset before each use, never given duplicate names, sorted (or filled in order) before Labels/Overwrite, and an Overwrite target is observed before the next Overwrite; FromStrings/New get unique names; Builder.Keep always lists the names Set since the last Reset (the comment 'removes all labels from the base' leaves the other case open); names are non-empty ('Prometheus does not store blank label names') and all strings are valid UTF-8 (the 0xff/0xfe separators of Bytes/Hash make byte forms ambiguous otherwise); MatchLabels is only judged on sets without empty values (the domain of the statement is non-empty values; slicelabels keeps empty-valued labels there while the Builder-based builds drop them - counted, not judged). Hash values are compared only as equalities inside one process. No ASan build (checkptr via -race only).",
		DesignRef: "DESIGN.md §5 C39",
		Rule:      "case = one generated program of 8-40 operations over up to 8 live label-set slots; non-trivial iff at least 3 label sets were produced, at least one of them by a Builder with pending deletes and additions and one by a ScratchBuilder, and at least one pair of distinct non-empty sets was compared; distinct by transcript hash",
		Assumptions: []string{
			"Compare orders label sets lexicographically by (name, value) pairs in name order, a proper prefix first (doc comments of Compare in all three files)",
		},
		Variants: []string{"slice", "dedupe", "race"},
		Cases: func(variant string, tier core.Tier) int {
			n := 5000
			if tier == core.Thorough {
				n = 100000
			}
			if variant == "race" { // checkptr sample of the default (stringlabels) build, ~10x slower per case
				n = n / 13
			}
			return n
		},
		Run:           run,
		Post:          post,
		MinNontrivial: func(t core.Tier) int { return 1500 },
	})
}

// ---------------------------------------------------------------- reference label sets

type rset []labels.Label // sorted by name, unique names, values may be empty

func (a rset) key() string {
	var sb strings.Builder
	for _, l := range a {
		fmt.Fprintf(&sb, "%d:%s=%d:%s,", len(l.Name), digestLong(l.Name), len(l.Value), digestLong(l.Value))
	}
	return sb.String()
}

func (a rset) get(n string) (string, bool) {
	for _, l := range a {
		if l.Name == n {
			return l.Value, true
		}
	}
	return "", false
}

func (a rset) hasEmpty() bool {
	for _, l := range a {
		if l.Value == "" {
			return true
		}
	}
	return false
}

func (a rset) filter(keep func(l labels.Label) bool) rset {
	out := rset{}
	for _, l := range a {
		if keep(l) {
			out = append(out, l)
		}
	}
	return out
}

func fromMap(m map[string]string) rset {
	out := make(rset, 0, len(m))
	for k, v := range m {
		out = append(out, labels.Label{Name: k, Value: v})
	}
	sort.Slice(out, func(i, j int) bool { return out[i].Name < out[j].Name })
	return out
}

func refCompare(a, b rset) int {
	for i := 0; i < len(a) && i < len(b); i++ {
		if a[i].Name != b[i].Name {
			if a[i].Name < b[i].Name {
				return -1
			}
			return 1
		}
		if a[i].Value != b[i].Value {
			if a[i].Value < b[i].Value {
				return -1
			}
			return 1
		}
	}
	switch {
	case len(a) < len(b):
		return -1
	case len(a) > len(b):
		return 1
	}
	return 0
}

func sign(x int) int {
	switch {
	case x < 0:
		return -1
	case x > 0:
		return 1
	}
	return 0
}

func digestLong(s string) string {
	if len(s) > 64 {
		h := sha256.Sum256([]byte(s))
		return string(h[:16])
	}
	return s
}

// q renders a string for transcripts and messages (long strings as length + digest).
func q(s string) string {
	if len(s) > 48 {
		h := sha256.Sum256([]byte(s))
		return fmt.Sprintf("«%d:%x»", len(s), h[:5])
	}
	return strconv.Quote(s)
}

func (a rset) render() string {
	var sb strings.Builder
	sb.WriteByte('{')
	for i, l := range a {
		if i > 0 {
			sb.WriteByte(',')
		}
		sb.WriteString(q(l.Name))
		sb.WriteByte('=')
		sb.WriteString(q(l.Value))
	}
	sb.WriteByte('}')
	return sb.String()
}

func observed(ls labels.Labels) rset {
	out := rset{}
	ls.Range(func(l labels.Label) { out = append(out, l) }) // not retained beyond the observation (Overwrite targets!)
	return out
}

func sameSeq(a, b rset) bool {
	if len(a) != len(b) {
		return false
	}
	for i := range a {
		if a[i] != b[i] {
			return false
		}
	}
	return true
}

// ---------------------------------------------------------------- string pools

var baseNames = []string{
	"a", "aa", "ab", "a_b", "b", "ba", "__name__", "__meta_x", "__meta_xy", "_x", "__", "A", "AB", "Z", "le", "job", "instance",
	"très", "日本", "日本語", "name-with-dash", "with space", "é", "z", "zz", "~", "0digit", "quantile", "__address__",
}
var baseValues = []string{
	"", "x", "y", "1", "10", "a", "ab", "abc", "job", "__name__", "prod", "q\"uote", "back\\slash", "new\nline", "日本", "très", "€", " ", "{}", "a=\"b\"", " ", "\U0001F600",
}

var longNames, longValues, extraNames []string

func init() {
	for _, n := range []int{254, 255, 256, 257, 1024, 1100} {
		longNames = append(longNames, strings.Repeat("n", n-1)+"a", strings.Repeat("n", n-1)+"b")
		longValues = append(longValues, strings.Repeat("v", n), strings.Repeat("v", n-1)+"w", strings.Repeat("é", n/2)+strings.Repeat("x", n%2))
	}
	longValues = append(longValues, strings.Repeat("L", 65535), strings.Repeat("L", 65536), strings.Repeat("Mm", 35000))
	for i := 0; i < 44; i++ {
		extraNames = append(extraNames, fmt.Sprintf("l%02d", i))
	}
}

func genNameOne(r *rand.Rand) string {
	switch r.IntN(12) {
	case 0:
		return longNames[r.IntN(len(longNames))]
	case 1, 2, 3:
		return extraNames[r.IntN(len(extraNames))]
	default:
		return baseNames[r.IntN(len(baseNames))]
	}
}

func genValue(r *rand.Rand, allowEmpty bool) string {
	for {
		var v string
		switch r.IntN(14) {
		case 0:
			v = longValues[r.IntN(len(longValues)-3)]
		case 1:
			if r.IntN(200) == 0 {
				v = longValues[len(longValues)-3+r.IntN(3)] // ≥ 64 KiB: 3-byte length prefix range of stringlabels
			} else {
				v = baseValues[r.IntN(len(baseValues))]
			}
		case 2:
			v = baseNames[r.IntN(len(baseNames))]
		default:
			v = baseValues[r.IntN(len(baseValues))]
		}
		if v != "" || allowEmpty {
			return v
		}
	}
}

// genPairs draws n distinct names with values (in random order).
func genPairs(r *rand.Rand, allowEmpty bool) []labels.Label {
	n := []int{0, 1, 1, 2, 2, 3, 3, 4, 5, 6, 8, 12, 17, 40}[r.IntN(14)]
	seen := map[string]bool{}
	var out []labels.Label
	for tries := 0; len(out) < n && tries < 20*n; tries++ {
		nm := genNameOne(r)
		if n > 20 {
			nm = extraNames[r.IntN(len(extraNames))]
			if r.IntN(4) == 0 {
				nm = genNameOne(r)
			}
		}
		if seen[nm] {
			continue
		}
		seen[nm] = true
		emptyOK := allowEmpty && r.IntN(6) == 0
		out = append(out, labels.Label{Name: nm, Value: genValue(r, emptyOK)})
	}
	return out
}

func sortedCopy(ps []labels.Label) rset {
	out := append(rset{}, ps...)
	sort.Slice(out, func(i, j int) bool { return out[i].Name < out[j].Name })
	return out
}

// ---------------------------------------------------------------- transcript

type transcript struct {
	sections []string
	names    []string
	cur      strings.Builder
}

func (t *transcript) begin(name string) {
	t.end()
	t.names = append(t.names, name)
	t.cur.Reset()
	t.cur.WriteString(name)
	t.cur.WriteByte('\n')
}

func (t *transcript) end() {
	if len(t.names) > len(t.sections) {
		t.sections = append(t.sections, t.cur.String())
	}
}

func (t *transcript) printf(format string, args ...any) {
	fmt.Fprintf(&t.cur, format, args...)
	t.cur.WriteByte('\n')
}

// ---------------------------------------------------------------- program state

type slot struct {
	real labels.Labels
	ref  rset
	src  string
}

type prog struct {
	c     *core.Case
	r     *rand.Rand
	tr    *transcript
	slots []*slot
	st    *labels.SymbolTable
	aux   *labels.ScratchBuilder

	bytesByKey map[string]string
	keyByBytes map[string]string
	hashByKey  map[string]uint64

	produced, byBuilderDirty, byScratch, pairsDistinct int
}

const maxSlots = 8

func (p *prog) fail(kind, format string, args ...any) {
	p.c.Violatef(kind, "[%s build, after %d ops: %s] %s", labels.ImplementationName, len(p.tr.names), lastOf(p.tr.names), fmt.Sprintf(format, args...))
}

func lastOf(s []string) string {
	if len(s) == 0 {
		return ""
	}
	return s[len(s)-1]
}

func (p *prog) put(real labels.Labels, ref rset, src string) {
	s := &slot{real: real, ref: ref, src: src}
	p.produced++
	if len(p.slots) < maxSlots {
		p.slots = append(p.slots, s)
	} else {
		p.slots[p.r.IntN(len(p.slots))] = s
	}
	p.observe(src, real, ref)
}

func (p *prog) pickSlot() *slot {
	if len(p.slots) == 0 {
		return &slot{real: labels.EmptyLabels(), ref: rset{}, src: "empty"}
	}
	return p.slots[p.r.IntN(len(p.slots))]
}

func probeNames(r *rand.Rand, ref rset) []string {
	out := []string{"", "a", "__name__", "zzzz", "n", "日"}
	for _, l := range ref {
		out = append(out, l.Name)
		if len(l.Name) > 1 && r.IntN(3) == 0 {
			out = append(out, l.Name[:len(l.Name)-1], l.Name+"x")
		}
	}
	for i := 0; i < 3; i++ {
		out = append(out, genNameOne(r))
	}
	return out
}

// observe checks one produced label set against its reference and appends its rendering to the transcript.
func (p *prog) observe(what string, ls labels.Labels, ref rset) {
	r := p.r
	tr := p.tr
	got := observed(ls)
	tr.printf("%s -> len=%d empty=%v %s", what, ls.Len(), ls.IsEmpty(), got.render())
	if !sameSeq(got, ref) {
		p.fail("iteration-mismatch", "%s: Range yields %s, reference (sorted map) is %s", what, got.render(), ref.render())
		return
	}
	if ls.Len() != len(ref) || ls.IsEmpty() != (len(ref) == 0) {
		p.fail("iteration-mismatch", "%s: Len()=%d IsEmpty()=%v for %s", what, ls.Len(), ls.IsEmpty(), ref.render())
	}
	for _, n := range probeNames(r, ref) {
		wv, wok := ref.get(n)
		gv, gok := ls.Get(n), ls.Has(n)
		tr.printf(" get %s=%s has=%v", q(n), q(gv), gok)
		if n == "" {
			continue // blank names are not stored; Get/Has("") special-cased by the implementation
		}
		if gv != wv || gok != wok {
			p.fail("lookup-mismatch", "%s: Get(%s)=%s Has=%v on %s, reference value %s present=%v", what, q(n), q(gv), gok, ref.render(), q(wv), wok)
			return
		}
	}
	m := ls.Map()
	if len(m) != len(ref) {
		p.fail("iteration-mismatch", "%s: Map() has %d entries for %s", what, len(m), ref.render())
	}
	for _, l := range ref {
		if v, ok := m[l.Name]; !ok || v != l.Value {
			p.fail("iteration-mismatch", "%s: Map()[%s]=%s for %s", what, q(l.Name), q(v), ref.render())
			break
		}
	}
	if n, dup := ls.HasDuplicateLabelNames(); dup || n != "" {
		p.fail("iteration-mismatch", "%s: HasDuplicateLabelNames()=(%s,%v) for %s", what, q(n), dup, ref.render())
	}
	s := ls.String()
	tr.printf(" string %s nospace %s", q(s), q(ls.StringNoSpace()))
	// Validate: stops at the first error and returns it
	if len(ref) > 0 {
		stopAt := r.IntN(len(ref) + 1)
		sentinel := errors.New("stop")
		visited := 0
		err := ls.Validate(func(l labels.Label) error {
			if visited < len(ref) && l != ref[visited] {
				visited = -1000
			}
			visited++
			if visited-1 == stopAt {
				return sentinel
			}
			return nil
		})
		wantVisited, wantErr := len(ref), error(nil)
		if stopAt < len(ref) {
			wantVisited, wantErr = stopAt+1, sentinel
		}
		if visited != wantVisited || err != wantErr {
			p.fail("iteration-mismatch", "%s: Validate with an error at label %d visited %d labels and returned %v on %s", what, stopAt, visited, err, ref.render())
		}
	}

	// byte form and hash: functions of the set, Bytes injective
	k := ref.key()
	var buf []byte
	if r.IntN(2) == 0 {
		buf = make([]byte, r.IntN(64), 64+r.IntN(2000))
	}
	raw := ls.Bytes(buf)
	bs := digestLong(string(raw))
	if string(raw) != string(ls.Bytes(nil)) {
		p.fail("bytes-mismatch", "%s: Bytes(buf) differs from Bytes(nil) for %s", what, ref.render())
	}
	if prev, ok := p.bytesByKey[k]; ok && prev != bs {
		p.fail("bytes-mismatch", "%s: two equal label sets %s have different Bytes()", what, ref.render())
	}
	if pk, ok := p.keyByBytes[bs]; ok && pk != k {
		p.fail("bytes-mismatch", "%s: different label sets share one Bytes() form: %s", what, ref.render())
	}
	p.bytesByKey[k], p.keyByBytes[bs] = bs, k
	h := ls.Hash()
	if prev, ok := p.hashByKey[k]; ok && prev != h {
		p.fail("hash-mismatch", "%s: two equal label sets %s hash to %x and %x", what, ref.render(), prev, h)
	}
	p.hashByKey[k] = h

	// derived sets
	we := ls.WithoutEmpty()
	wantWE := ref.filter(func(l labels.Label) bool { return l.Value != "" })
	if gotWE := observed(we); !sameSeq(gotWE, wantWE) {
		p.fail("derived-set-mismatch", "%s: WithoutEmpty() of %s gives %s", what, ref.render(), gotWE.render())
	}
	tr.printf(" withoutEmpty len=%d", we.Len())
	dropSet := map[string]bool{}
	for _, l := range ref {
		if strings.HasPrefix(l.Name, "_") && r.IntN(2) == 0 {
			dropSet[l.Name] = true
		}
	}
	dropSet["__absent"] = true
	calls := 0
	dr := ls.DropReserved(func(n string) bool { calls++; return dropSet[n] })
	wantDR := ref.filter(func(l labels.Label) bool { return !dropSet[l.Name] })
	if gotDR := observed(dr); !sameSeq(gotDR, wantDR) {
		p.fail("derived-set-mismatch", "%s: DropReserved(%v) of %s gives %s", what, keysOf(dropSet), ref.render(), gotDR.render())
	}
	dm := ls.DropMetricName()
	wantDM := ref.filter(func(l labels.Label) bool { return l.Name != "__name__" })
	if gotDM := observed(dm); !sameSeq(gotDM, wantDM) {
		p.fail("derived-set-mismatch", "%s: DropMetricName() of %s gives %s", what, ref.render(), gotDM.render())
	}
	tr.printf(" dropReserved %s dropMetricName %s", observed(dr).render(), observed(dm).render())
	if after := observed(ls); !sameSeq(after, ref) {
		p.fail("derived-set-mismatch", "%s: the receiver changed after WithoutEmpty/DropReserved: now %s, was %s", what, after.render(), ref.render())
		return
	}

	// projections
	var names []string
	for _, l := range ref {
		if r.IntN(2) == 0 {
			names = append(names, l.Name)
		}
	}
	for i := r.IntN(3); i > 0; i-- {
		names = append(names, genNameOne(r))
	}
	sort.Strings(names)
	names = dedupSorted(names)
	in := map[string]bool{}
	for _, n := range names {
		in[n] = true
	}
	with := ref.filter(func(l labels.Label) bool { return in[l.Name] })
	without := ref.filter(func(l labels.Label) bool { return !in[l.Name] })
	withL, withoutL := p.mk(with), p.mk(without)
	if b1, b2 := string(ls.BytesWithLabels(nil, names...)), string(withL.Bytes(nil)); b1 != b2 {
		p.fail("bytes-mismatch", "%s: BytesWithLabels(%s) of %s differs from Bytes() of the projected set %s", what, qs(names), ref.render(), with.render())
	}
	if b1, b2 := string(ls.BytesWithoutLabels(nil, names...)), string(withoutL.Bytes(nil)); b1 != b2 {
		p.fail("bytes-mismatch", "%s: BytesWithoutLabels(%s) of %s differs from Bytes() of the remaining set %s", what, qs(names), ref.render(), without.render())
	}
	h1, _ := ls.HashForLabels(nil, names...)
	h2, _ := withL.HashForLabels(make([]byte, 0, 8), names...)
	if h1 != h2 {
		p.fail("hash-mismatch", "%s: HashForLabels(%s) of %s is %x, of the projected set %s it is %x", what, qs(names), ref.render(), h1, with.render(), h2)
	}
	h3, _ := ls.HashWithoutLabels(nil, names...)
	h4, _ := withoutL.HashWithoutLabels(nil)
	if h3 != h4 {
		p.fail("hash-mismatch", "%s: HashWithoutLabels(%s) of %s is %x, of the remaining set %s it is %x", what, qs(names), ref.render(), h3, without.render(), h4)
	}
	// whether the metric name takes part in HashWithoutLabels is not stated in the doc comment: only
	// required to be the same in every build (transcript)
	withName := dedupSorted(sortedStrings(append(append([]string{}, names...), "__name__")))
	h5, _ := ls.HashWithoutLabels(nil, withName...)
	tr.printf(" hashWithout: name-independent=%v", h3 == h5)
	if !ref.hasEmpty() {
		on := observed(ls.MatchLabels(true, names...))
		off := observed(ls.MatchLabels(false, names...))
		wantOff := without.filter(func(l labels.Label) bool { return l.Name != "__name__" })
		if !sameSeq(on, with) || !sameSeq(off, wantOff) {
			p.fail("derived-set-mismatch", "%s: MatchLabels(on/off, %s) of %s gives %s / %s, reference %s / %s", what, qs(names), ref.render(), on.render(), off.render(), with.render(), wantOff.render())
		}
		tr.printf(" match %s on=%s off=%s", qs(names), on.render(), off.render())
	} else {
		p.c.Count("matchlabels_skipped_set_has_empty_value", 1)
	}

	// copies
	cp := ls.Copy()
	if !labels.Equal(cp, ls) || !sameSeq(observed(cp), ref) {
		p.fail("equal-mismatch", "%s: Copy() of %s is not equal to the original", what, ref.render())
	}
	var cf labels.Labels
	if r.IntN(2) == 0 {
		cf = p.mk(rset{{Name: "a", Value: "old"}, {Name: "zz", Value: "old"}})
	}
	cf.CopyFrom(ls)
	if !labels.Equal(cf, ls) || !sameSeq(observed(cf), ref) {
		p.fail("equal-mismatch", "%s: CopyFrom(%s) gives %s", what, ref.render(), observed(cf).render())
	}
	if r.IntN(4) == 0 && !ref.hasEmpty() {
		js, err := json.Marshal(ls)
		var back labels.Labels
		if err == nil {
			err = json.Unmarshal(js, &back)
		}
		if err != nil || !labels.Equal(back, ls) {
			p.fail("equal-mismatch", "%s: JSON round trip of %s gives %s (err %v)", what, ref.render(), observed(back).render(), err)
		}
		tr.printf(" json %s", q(string(js)))
	}
}

// mk builds a label set from sorted unique pairs over the program's shared symbol table (labels.New
// would create a 1024-entry symbol table per call in the dedupelabels build).
func (p *prog) mk(ref rset) labels.Labels {
	if p.aux == nil {
		b := labels.NewScratchBuilderWithSymbolTable(p.st, 8)
		p.aux = &b
	}
	p.aux.Reset()
	for _, l := range ref {
		p.aux.Add(l.Name, l.Value)
	}
	return p.aux.Labels()
}

func keysOf(m map[string]bool) []string {
	var ks []string
	for k := range m {
		ks = append(ks, k)
	}
	sort.Strings(ks)
	return ks
}

func sortedStrings(s []string) []string {
	sort.Strings(s)
	return s
}

func dedupSorted(s []string) []string {
	out := s[:0]
	for i, x := range s {
		if i == 0 || x != s[i-1] {
			out = append(out, x)
		}
	}
	return out
}

func qs(ss []string) string {
	parts := make([]string, len(ss))
	for i, s := range ss {
		parts[i] = q(s)
	}
	return "[" + strings.Join(parts, " ") + "]"
}

// comparePairs checks Compare/Equal on all pairs of live slots.
func (p *prog) comparePairs() {
	for i, a := range p.slots {
		for j, b := range p.slots {
			want := refCompare(a.ref, b.ref)
			got := labels.Compare(a.real, b.real)
			eq := labels.Equal(a.real, b.real)
			p.tr.printf(" cmp %d %d -> %d eq=%v hashEq=%v", i, j, sign(got), eq, a.real.Hash() == b.real.Hash())
			if sign(got) != want {
				p.fail("compare-mismatch", "Compare(%s, %s) = %d, reference order gives %d", a.ref.render(), b.ref.render(), got, want)
				return
			}
			if eq != (want == 0) {
				p.fail("equal-mismatch", "Equal(%s, %s) = %v, reference %v", a.ref.render(), b.ref.render(), eq, want == 0)
				return
			}
			if want != 0 && len(a.ref) > 0 && len(b.ref) > 0 {
				p.pairsDistinct++
			}
		}
	}
	p.c.Count("pairs_compared", int64(len(p.slots)*len(p.slots)))
}

// ---------------------------------------------------------------- builder model

type bmodel struct {
	m        map[string]string
	setSince map[string]bool // names Set since the last Reset and not deleted afterwards
	dels     int
	adds     int
}

func (p *prog) checkBuilder(b *labels.Builder, bm *bmodel, what string) bool {
	// Get on a few names, Range as a set
	for _, n := range probeNames(p.r, fromMap(bm.m))[1:] {
		if g := b.Get(n); g != bm.m[n] {
			p.fail("builder-mismatch", "%s: Builder.Get(%s)=%s, reference map has %s (map %s)", what, q(n), q(g), q(bm.m[n]), fromMap(bm.m).render())
			return false
		}
	}
	seen := map[string]string{}
	dup := ""
	b.Range(func(l labels.Label) {
		if _, ok := seen[l.Name]; ok {
			dup = l.Name
		}
		seen[l.Name] = l.Value
	})
	if dup != "" || !sameSeq(fromMap(seen), fromMap(bm.m)) {
		p.fail("builder-mismatch", "%s: Builder.Range yields %s (duplicate %s), reference map is %s", what, fromMap(seen).render(), q(dup), fromMap(bm.m).render())
		return false
	}
	return true
}

func (p *prog) builderEpisode() {
	r := p.r
	base := p.pickSlot()
	var b *labels.Builder
	switch r.IntN(3) {
	case 0:
		b = labels.NewBuilder(base.real)
	case 1:
		b = labels.NewBuilderWithSymbolTable(p.st)
		b.Reset(base.real)
	default:
		b = labels.NewBuilder(labels.FromStrings("stale", "1", "a", "zz"))
		b.Set("other", "x").Del("a")
		b.Reset(base.real)
	}
	bm := &bmodel{m: map[string]string{}, setSince: map[string]bool{}}
	for _, l := range base.ref {
		if l.Value != "" {
			bm.m[l.Name] = l.Value
		}
	}
	p.tr.begin(fmt.Sprintf("builder on %s", base.ref.render()))
	nops := 1 + r.IntN(10)
	for i := 0; i < nops; i++ {
		var what string
		switch r.IntN(12) {
		case 0, 1, 2, 3: // Set
			n := genNameOne(r)
			if len(base.ref) > 0 && r.IntN(2) == 0 {
				n = base.ref[r.IntN(len(base.ref))].Name
			}
			v := genValue(r, r.IntN(5) == 0)
			b.Set(n, v)
			if v == "" {
				delete(bm.m, n)
				delete(bm.setSince, n)
				bm.dels++
			} else {
				bm.m[n] = v
				bm.setSince[n] = true
				bm.adds++
			}
			what = fmt.Sprintf("Set(%s,%s)", q(n), q(v))
		case 4, 5: // Del
			var ns []string
			for k := 1 + r.IntN(3); k > 0; k-- {
				n := genNameOne(r)
				if len(base.ref) > 0 && r.IntN(3) != 0 {
					n = base.ref[r.IntN(len(base.ref))].Name
				}
				ns = append(ns, n)
				delete(bm.m, n)
				delete(bm.setSince, n)
			}
			b.Del(ns...)
			bm.dels++
			what = "Del" + qs(ns)
		case 6: // Keep (always lists the names Set since Reset, see LevelNote)
			keep := map[string]bool{}
			for n := range bm.setSince {
				keep[n] = true
			}
			for _, l := range base.ref {
				if r.IntN(2) == 0 {
					keep[l.Name] = true
				}
			}
			if r.IntN(3) == 0 {
				keep[genNameOne(r)] = true
			}
			ns := keysOf(keep)
			r.Shuffle(len(ns), func(i, j int) { ns[i], ns[j] = ns[j], ns[i] })
			b.Keep(ns...)
			for n := range bm.m {
				if !keep[n] {
					delete(bm.m, n)
				}
			}
			bm.dels++
			what = "Keep" + qs(ns)
		case 7: // Range with Set/Del from inside the callback (documented snapshot semantics)
			snap := map[string]string{}
			for k, v := range bm.m {
				snap[k] = v
			}
			visited := map[string]int{}
			b.Range(func(l labels.Label) {
				visited[l.Name]++
				if strings.HasPrefix(l.Name, "zz~") {
					return
				}
				switch (len(l.Name) + int(l.Name[0])) % 3 {
				case 0:
					b.Del(l.Name)
				case 1:
					b.Set("zz~"+l.Name, l.Value)
				}
			})
			for n, v := range snap {
				if visited[n] != 1 {
					p.fail("builder-mismatch", "Builder.Range with mutation in the callback visited %s %d times (snapshot %s)", q(n), visited[n], fromMap(snap).render())
					return
				}
				if strings.HasPrefix(n, "zz~") {
					continue
				}
				switch (len(n) + int(n[0])) % 3 {
				case 0:
					delete(bm.m, n)
					delete(bm.setSince, n)
					bm.dels++
				case 1:
					bm.m["zz~"+n] = v
					bm.setSince["zz~"+n] = true
					bm.adds++
				}
			}
			if len(visited) != len(snap) {
				p.fail("builder-mismatch", "Builder.Range with mutation in the callback visited %d names, the set before the call had %d (%s)", len(visited), len(snap), fromMap(snap).render())
				return
			}
			what = "RangeMutate"
		case 8, 9: // intermediate Labels()
			ref := fromMap(bm.m)
			what = "Labels()"
			p.tr.printf(" %s", what)
			if bm.adds > 0 && bm.dels > 0 {
				p.byBuilderDirty++
			}
			p.put(b.Labels(), ref, "builder.Labels")
		default: // Reset to another slot
			base = p.pickSlot()
			b.Reset(base.real)
			bm = &bmodel{m: map[string]string{}, setSince: map[string]bool{}}
			for _, l := range base.ref {
				if l.Value != "" {
					bm.m[l.Name] = l.Value
				}
			}
			what = "Reset(" + base.ref.render() + ")"
		}
		p.tr.printf(" %s", what)
		if !p.checkBuilder(b, bm, what) || p.c.Violated() {
			return
		}
	}
	if bm.adds > 0 && bm.dels > 0 {
		p.byBuilderDirty++
	}
	p.put(b.Labels(), fromMap(bm.m), "builder.Labels(final)")
	p.c.Count("builder_episodes", 1)
}

// ---------------------------------------------------------------- scratch builder

func (p *prog) scratchEpisode(sb *labels.ScratchBuilder) {
	r := p.r
	p.tr.begin("scratch")
	if r.IntN(4) == 0 {
		nb := labels.NewScratchBuilder(r.IntN(8))
		sb = &nb
	}
	sb.SetUnsafeAdd(r.IntN(3) == 0)
	if r.IntN(6) == 0 { // Assign
		src := p.pickSlot()
		sb.Reset()
		sb.Assign(src.real)
		p.tr.printf(" assign %s", src.ref.render())
		p.put(sb.Labels(), src.ref, "scratch.Assign.Labels")
		return
	}
	reps := 1 + r.IntN(3)
	var ow labels.Labels
	for k := 0; k < reps; k++ {
		pairs := genPairs(r, true)
		ref := sortedCopy(pairs)
		sb.Reset()
		if r.IntN(3) == 0 {
			for _, l := range ref { // added in order: Sort is optional
				sb.Add(l.Name, l.Value)
			}
			if r.IntN(2) == 0 {
				sb.Sort()
			}
		} else {
			for _, l := range pairs {
				sb.Add(l.Name, l.Value)
			}
			sb.Sort()
		}
		p.byScratch++
		if r.IntN(3) == 0 {
			sb.Overwrite(&ow)
			p.tr.printf(" overwrite")
			p.produced++
			p.observe("scratch.Overwrite", ow, ref) // must be observed before the next Overwrite
			p.c.Count("scratch_overwrites", 1)
		} else {
			ls := sb.Labels()
			if r.IntN(2) == 0 {
				if again := sb.Labels(); !labels.Equal(again, ls) {
					p.fail("equal-mismatch", "ScratchBuilder.Labels() called twice gives %s then %s", observed(ls).render(), observed(again).render())
				}
			}
			p.put(ls, ref, "scratch.Labels")
		}
		if p.c.Violated() {
			return
		}
	}
	p.c.Count("scratch_episodes", 1)
}

// ---------------------------------------------------------------- constructors / rebuild

func (p *prog) constructorOp() {
	r := p.r
	p.tr.begin("constructor")
	pairs := genPairs(r, true)
	ref := sortedCopy(pairs)
	switch r.IntN(5) {
	case 0:
		ss := make([]string, 0, 2*len(pairs))
		for _, l := range pairs {
			ss = append(ss, l.Name, l.Value)
		}
		p.put(labels.FromStrings(ss...), ref, "FromStrings")
	case 1:
		m := map[string]string{}
		for _, l := range pairs {
			m[l.Name] = l.Value
		}
		p.put(labels.FromMap(m), ref, "FromMap")
	case 2:
		in := append([]labels.Label{}, pairs...)
		p.put(labels.New(in...), ref, "New")
	case 3:
		p.put(labels.EmptyLabels(), rset{}, "EmptyLabels")
	default:
		src := p.pickSlot()
		p.put(src.real.Copy(), src.ref, "Copy")
	}
}

// rebuildSymbols re-creates every live label set over a fresh symbol table, the way
// tsdb.(*Head).RebuildSymbolTable does (a no-op table in the other two builds).
func (p *prog) rebuildSymbols(sb *labels.ScratchBuilder) {
	p.tr.begin("rebuild-symbol-table")
	st := labels.NewSymbolTable()
	b := labels.NewScratchBuilderWithSymbolTable(st, 0)
	for _, s := range p.slots {
		b.Reset()
		s.real.Range(func(l labels.Label) { b.Add(l.Name, l.Value) })
		s.real = b.Labels()
		p.observe("rebuilt", s.real, s.ref)
		if p.c.Violated() {
			return
		}
	}
	p.st = st
	p.aux = nil
	sb.SetSymbolTable(st)
	p.c.Count("symbol_table_rebuilds", 1)
}

// prefill pushes the shared symbol table beyond the 2-byte index range of dedupelabels.
func (p *prog) prefill() {
	b := labels.NewScratchBuilderWithSymbolTable(p.st, 1)
	n := 32760 - 2*p.r.IntN(40)
	for i := 0; i < n/2; i++ {
		b.Reset()
		b.Add("p"+strconv.Itoa(i), "s"+strconv.Itoa(i))
		_ = b.Labels()
	}
	p.c.Count("programs_with_large_symbol_table", 1)
}

// ---------------------------------------------------------------- the case

func run(c *core.Case) {
	r := c.Rng
	p := &prog{c: c, r: r, tr: &transcript{}, st: labels.NewSymbolTable(),
		bytesByKey: map[string]string{}, keyByBytes: map[string]string{}, hashByKey: map[string]uint64{}}
	if r.IntN(25) == 0 {
		p.prefill()
	}
	sbv := labels.NewScratchBuilderWithSymbolTable(p.st, 4)
	sb := &sbv
	nops := 8 + r.IntN(33)
	for i := 0; i < nops && !c.Violated(); i++ {
		switch r.IntN(12) {
		case 0, 1, 2, 3:
			p.builderEpisode()
		case 4, 5, 6:
			p.scratchEpisode(sb)
		case 7, 8:
			p.constructorOp()
		case 9:
			p.tr.begin("compare-all")
			p.comparePairs()
		case 10:
			if r.IntN(3) == 0 {
				p.rebuildSymbols(sb)
			}
		default:
			// a near-copy of a slot through a builder: long shared prefix for Compare
			src := p.pickSlot()
			if len(src.ref) == 0 {
				continue
			}
			p.tr.begin("near-copy")
			l := src.ref[r.IntN(len(src.ref))]
			b := labels.NewBuilder(src.real)
			m := map[string]string{}
			for _, x := range src.ref {
				if x.Value != "" {
					m[x.Name] = x.Value
				}
			}
			switch r.IntN(3) {
			case 0:
				nv := l.Value + "x"
				b.Set(l.Name, nv)
				m[l.Name] = nv
			case 1:
				b.Del(l.Name)
				delete(m, l.Name)
			default:
				nn := l.Name + "0"
				b.Set(nn, "v")
				m[nn] = "v"
			}
			p.put(b.Labels(), fromMap(m), "near-copy")
		}
	}
	if !c.Violated() {
		p.tr.begin("final-compare-all")
		p.comparePairs()
	}
	p.tr.end()

	// transcript: overall hash + one short hash per section
	full := sha256.New()
	var ops strings.Builder
	for i, s := range p.tr.sections {
		full.Write([]byte(s))
		h := sha256.Sum256([]byte(s))
		if i > 0 {
			ops.WriteByte(',')
		}
		fmt.Fprintf(&ops, "%x", h[:4])
	}
	sum := fmt.Sprintf("%x", full.Sum(nil)[:16])
	c.Emit("h", sum)
	c.Emit("ops", ops.String())
	c.Emit("names", strings.Join(shorten(p.tr.names), "|"))
	if c.Verbose {
		for _, s := range p.tr.sections {
			c.Logf("%s", s)
		}
	}
	c.Count("label_sets_produced", int64(p.produced))
	c.Seen("implementation", labels.ImplementationName)
	if p.produced >= 3 && p.byBuilderDirty > 0 && p.byScratch > 0 && p.pairsDistinct > 0 && !c.Violated() {
		c.Nontrivial(sum)
	}
	if c.Idx < 3 && len(p.tr.sections) > 0 {
		s := p.tr.sections[0]
		if len(s) > 700 {
			s = s[:700] + "…"
		}
		c.Sample(map[string]any{"implementation": labels.ImplementationName, "sections": len(p.tr.sections), "first_section": s, "transcript_hash": sum})
	}
}

func shorten(ss []string) []string {
	out := make([]string, len(ss))
	for i, s := range ss {
		if len(s) > 24 {
			s = s[:24]
		}
		out[i] = strings.ReplaceAll(s, "|", "/")
	}
	return out
}

// post compares the transcripts of the builds case by case.
func post(s *core.Summary) {
	type rec struct{ h, ops, names string }
	def := map[int]rec{}
	for _, r := range s.Results {
		if r.Variant == "default" && r.Emit != nil {
			def[r.Idx] = rec{r.Emit["h"], r.Emit["ops"], r.Emit["names"]}
		}
	}
	reported := 0
	for _, r := range s.Results {
		if r.Variant == "default" || r.Emit == nil {
			continue
		}
		d, ok := def[r.Idx]
		if !ok || d.h == "" || r.Emit["h"] == "" {
			continue
		}
		if r.Verdict != "held" {
			continue // already reported inside the build
		}
		s.PostCount("transcripts_compared_"+r.Variant, 1)
		if d.h == r.Emit["h"] {
			continue
		}
		a, b := strings.Split(d.ops, ","), strings.Split(r.Emit["ops"], ",")
		names := strings.Split(d.names, "|")
		at, name := -1, "?"
		for i := 0; i < len(a) && i < len(b); i++ {
			if a[i] != b[i] {
				at = i
				break
			}
		}
		if at < 0 {
			at = min(len(a), len(b))
		}
		if at < len(names) {
			name = names[at]
		}
		if reported < 8 {
			s.PostViolatef("cross-build-mismatch", "case %d: transcript of the %s build differs from the default (stringlabels) build, first at section %d (%s); %d vs %d sections; replay the case in both builds to see the texts", r.Idx, r.Variant, at, name, len(a), len(b))
		}
		reported++
	}
	if reported > 0 {
		s.PostCount("transcript_mismatches", int64(reported))
	}
}
