// Package c33: query evaluation never fails internally; results do not depend on concurrent queries.
package c33

import (
	"fmt"
	"math/rand/v2"
	"sort"
	"strings"
	"sync"
	"time"

	"github.com/prometheus/prometheus/promql"
	"github.com/prometheus/prometheus/promql/parser"

	"verif/internal/core"
	"verif/internal/pqgen"
)

func init() {
	core.Register(&core.Prop{
		ID:        "C33",
		Title:     "Query evaluation never fails internally; results do not depend on concurrently evaluated queries",
		Level:     "exploration",
		Technique: "runtime monitor of Result.Err / panics over generated hostile queries, data and time parameters; serial-vs-concurrent differential monitor on one engine (also on the -race build)",
		LevelText: "Part A: per case a TSDB with float, counter, histogram (int/float/custom-bucket), classic-bucket, info, NaN/±Inf/denormal, stale and mixed float-histogram series; generated type-correct queries over the whole function/aggregation/operator table incl. experimental functions, info(), @ start()/end(), start()/end()/range()/step(), hostile parameters (NaN/Inf/huge k and quantiles, invalid regexes and label names), type-incorrect queries and single-edit mutants; each runs as instant and as range query with hostile time parameters (epoch 0, negative, far past/future, start = end, 1 ms steps, up to 11000 steps, per-query lookback from 1 ms to 1 h, small sample limits). Verdict: no error that unwraps to runtime.Error or carries the evaluator's 'unexpected error' wrapper, no parser.ErrUnexpected, no escaping panic, no worker crash. Part B: 12 queries whose result is independent of the engine's internal series order are evaluated serially twice (baseline, self-check), then by 16 goroutines x 3 rounds in shuffled order on the same engine; every concurrent result must equal the baseline (series, bitwise floats with NaN=NaN, histograms by content, same success/failure). Part B also runs on the race build. Held on the observed executions only.",
		LevelNote: "Reductions: step <= 0 and end < start (rejected by the HTTP API) are not generated; the log scan for 'runtime panic during query evaluation' is replaced by the equivalent test on Result.Err; queries whose two serial runs differ are excluded from the concurrent comparison (counted as serial_rerun_differs) because the statement only speaks about concurrent interference; interleavings are whatever the Go scheduler produces (no schedule control).",
		DesignRef: "DESIGN.md §5 C33",
		Rule:      "case = one hostile dataset; part A: 40 generated queries, each as instant and range query; part B (every 2nd case, and every race-build case): 12 queries x (2 serial + 48 concurrent executions). Non-trivial: a part-A query that reached evaluation (accepted by the parser) and returned a result or a user-facing error, keyed by (query, time parameters); a part-B query with a non-empty successful baseline, keyed likewise",
		Cases: func(variant string, tier core.Tier) int {
			switch variant {
			case "default":
				if tier == core.Thorough {
					return 2500
				}
				return 100
			case "race":
				if tier == core.Thorough {
					return 150
				}
				return 20
			}
			return 0
		},
		Variants: []string{"race"},
		Run:      run,
		MinNontrivial: func(t core.Tier) int {
			if t == core.Thorough {
				return 30000
			}
			return 1500
		},
		CaseTimeoutSec: 900,
	})
}

func clip(s string, n int) string {
	if len(s) > n {
		return s[:n] + "…"
	}
	return s
}

func errClass(e string) string {
	// first words of the message without positions / label sets
	e = strings.TrimLeft(e, "0123456789: ")
	if i := strings.IndexAny(e, "{[\""); i > 0 {
		e = e[:i]
	}
	return clip(e, 48)
}

func run(c *core.Case) {
	r := c.Rng
	ds, err := pqgen.BuildDataset(r, c.TempDir(), true)
	core.Must(err, "build dataset")
	defer ds.Close()
	span := ds.T1 - ds.T0
	if c.Variant == "default" {
		partA(c, r, ds, span)
		if c.Idx%3 == 0 {
			partA2(c, c.SubRng("partA2"), ds, span)
		}
	}
	if c.Variant == "race" || c.Idx%2 == 0 {
		partB(c, c.SubRng("partB"), ds, span)
	}
}

var fullParser = parser.NewParser(pqgen.Features{Experimental: true, DurationExpr: true, Extended: true, Fill: true}.Options())

// subqueryStepBound returns an upper bound of the number of steps any subquery of the query is
// evaluated at: (query span + all ranges and offsets) / smallest subquery step.  0 without subquery.
func subqueryStepBound(qs string, spanMs, defaultStepMs int64) float64 {
	e, err := fullParser.ParseExpr(qs)
	if err != nil || e == nil {
		return 0
	}
	total := float64(spanMs)
	minStep := float64(0)
	parser.Inspect(e, func(n parser.Node, _ []parser.Node) error {
		switch x := n.(type) {
		case *parser.SubqueryExpr:
			st := float64(x.Step.Milliseconds())
			if x.Step == 0 {
				st = float64(defaultStepMs)
			}
			if x.StepExpr != nil || st < 1 {
				st = 1 // unknown until preprocessing: assume the worst
			}
			if minStep == 0 || st < minStep {
				minStep = st
			}
			total += float64(x.Range.Milliseconds())
			if x.RangeExpr != nil {
				total += 1e12
			}
		case *parser.MatrixSelector:
			total += float64(x.Range.Milliseconds())
		}
		return nil
	})
	if minStep == 0 {
		return 0
	}
	return total / minStep
}

func isExtendedMatrixSelector(qs string) bool {
	e, err := fullParser.ParseExpr(qs)
	for err == nil {
		p, ok := e.(*parser.ParenExpr)
		if !ok {
			break
		}
		e = p.Expr
	}
	if err != nil {
		return false
	}
	ms, ok := e.(*parser.MatrixSelector)
	if !ok {
		return false
	}
	vs, ok := ms.VectorSelector.(*parser.VectorSelector)
	return ok && (vs.Anchored || vs.Smoothed)
}

func histogramQuantilesEmptyLabel(qs string) bool {
	e, err := fullParser.ParseExpr(qs)
	if err != nil {
		return false
	}
	found := false
	parser.Inspect(e, func(n parser.Node, _ []parser.Node) error {
		if call, ok := n.(*parser.Call); ok && call.Func.Name == "histogram_quantiles" && len(call.Args) > 1 {
			if sl, ok := call.Args[1].(*parser.StringLiteral); ok && sl.Val == "" {
				found = true
			}
		}
		return nil
	})
	return found
}

// checkInternal records a violation if res carries an internal error.  Known failure
// mechanisms get their own kinds (predicates on the query and the error).
func checkInternal(c *core.Case, res *pqgen.Res, qs string, instant bool, what string) bool {
	if !res.Internal {
		return false
	}
	kind := "internal-error-in-evaluation"
	if res.Stage == "create" {
		kind = "internal-error-at-query-creation"
	}
	emptyIdx := strings.Contains(res.Err, "index out of range [-1]") || strings.Contains(res.Err, "index out of range [0] with length 0")
	switch {
	case res.Stage == "exec" && instant && emptyIdx && isExtendedMatrixSelector(qs):
		// a top-level anchored/smoothed matrix selector (instant query of type matrix) with a series that
		// has no float sample in the extended window: extendFloats indexes floats[-1] / floats[0]
		kind = "internal-error-extended-matrix-selector-empty-window"
	case res.Stage == "exec" && strings.Contains(res.Err, "index out of range [0] with length 0") && histogramQuantilesEmptyLabel(qs):
		// histogram_quantiles(v, "", …) creates a label with the empty name; Labels.DropReserved reads name[0]
		kind = "internal-error-histogram-quantiles-empty-label-name"
	}
	c.Violatef(kind, "%s: %s", what, res.Err)
	return true
}

func partA(c *core.Case, r *rand.Rand, ds *pqgen.Dataset, span int64) {
	maxSamples := []int{50_000_000, 50_000_000, 200_000, 1000}[r.IntN(4)]
	subqDefault := []int64{ds.Spacing, 1, 60000, 3600000}[r.IntN(4)]
	engLookback, dnr := []time.Duration{0, time.Second, 5 * time.Minute}[r.IntN(3)], r.IntN(2) == 0
	eng := pqgen.NewEngineMax(engLookback, subqDefault, dnr, maxSamples)
	defer eng.Close()
	base := ds.Cfg
	base.Allow = pqgen.Features{Experimental: true, DurationExpr: true, Extended: true, Fill: true}
	base.At, base.AtStartEnd, base.RangeRefs, base.TimeFuncs, base.NegOffset, base.Hostile, base.AnyTopType = true, true, true, true, true, true, true
	base.AtTimes = append(append([]int64{}, base.AtTimes...), 0, -1, 1<<53, -(1 << 53), 9223372036854775, -9223372036854775)
	var prev string
	for qi := 0; qi < 40; qi++ {
		cfg := base
		cfg.MaxDepth = 1 + r.IntN(5)
		class := "typed"
		if r.IntN(4) == 0 {
			cfg.IllTyped = 3 + r.IntN(10)
			class = "ill-typed"
		}
		g := pqgen.New(r, cfg)
		qs, _ := g.Query()
		if prev != "" && r.IntN(6) == 0 {
			qs = pqgen.Mutate(r, prev)
			class = "mutant"
		}
		prev = qs
		c.Count("queries_"+class, 1)

		var opts promql.QueryOpts
		env := fmt.Sprintf("[maxSamples=%d engine-lookback=%s default-subquery-step=%dms delayed-name-removal=%v query-lookback=default]", maxSamples, engLookback, subqDefault, dnr)
		if r.IntN(2) == 0 {
			perStep, lb := r.IntN(2) == 0, []time.Duration{time.Millisecond, time.Second, time.Minute, time.Hour, 0}[r.IntN(5)]
			opts = promql.NewPrometheusQueryOpts(perStep, lb)
			env = fmt.Sprintf("[maxSamples=%d engine-lookback=%s default-subquery-step=%dms delayed-name-removal=%v query-lookback=%s per-step-stats=%v]", maxSamples, engLookback, subqDefault, dnr, lb, perStep)
		}
		// instant
		var ts time.Time
		switch r.IntN(12) {
		case 0:
			ts = time.UnixMilli(0)
		case 1:
			ts = time.UnixMilli(-r.Int64N(1 << 40))
		case 2:
			ts = time.Date(3000, 1, 1, 0, 0, 0, 0, time.UTC) // beyond the UnixNano range
		case 3:
			ts = time.Date(1000, 1, 1, 0, 0, 0, 0, time.UTC)
		case 4:
			ts = time.UnixMilli(ds.T1 + r.Int64N(1<<36))
		case 5:
			ts = time.Unix(0, (ds.T0+r.Int64N(span+1))*1e6+r.Int64N(1e6)) // not on a millisecond
		default:
			ts = time.UnixMilli(ds.T0 - 60000 + r.Int64N(span+120000))
		}
		// step/nsteps of the range query (drawn here so that the skip below does not shift the random stream)
		step := []int64{1, 1000, 15000, 60000, 3600000, 86400000, 1234, ds.Spacing}[r.IntN(8)]
		nsteps := []int64{1, 2, 3, 10, 10, 100, 100, 1000, 11000}[r.IntN(9)]
		if step == 1 && nsteps > 1000 {
			nsteps = 1000
		}
		rangeStartKind, endExtra := r.IntN(10), r.IntN(4) == 0
		if b := subqueryStepBound(qs, (nsteps-1)*step, subqDefault); b > 2e6 {
			// The engine allocates per-step statistics for every subquery step up front
			// (util/stats NewChildWithStepTracking), independent of the sample limit: such queries
			// exhaust memory instead of failing (see FINDINGS.md).  A process crash cannot be given a
			// narrow kind, so these queries are not executed.
			c.Count("queries_skipped_subquery_step_count_above_2e6", 1)
			continue
		}
		ir := pqgen.InstantOpts(eng, ds.DB, opts, qs, ts)
		what := fmt.Sprintf("instant query %q at %s (ms=%d) %s", clip(qs, 1500), ts.UTC().Format(time.RFC3339Nano), ts.UnixMilli(), env)
		bad := checkInternal(c, &ir, qs, true, what)
		c.Count("instant_queries", 1)
		// range
		start := ds.T0 - 60000 + r.Int64N(span+120000)
		switch rangeStartKind {
		case 0:
			start = 0
		case 1:
			start = -r.Int64N(1 << 40)
		case 2:
			start = ds.T1 - (nsteps-1)*step // ends at the last sample
		}
		end := start + (nsteps-1)*step
		if endExtra {
			end += r.Int64N(step)
		}
		rr := pqgen.RangeOpts(eng, ds.DB, opts, qs, time.UnixMilli(start), time.UnixMilli(end), time.Duration(step)*time.Millisecond)
		what = fmt.Sprintf("range query %q start=%d end=%d step=%dms %s", clip(qs, 1500), start, end, step, env)
		bad = checkInternal(c, &rr, qs, false, what) || bad
		c.Count("range_queries", 1)
		for _, res := range []*pqgen.Res{&ir, &rr} {
			switch res.Stage {
			case "create":
				c.Count("rejected_at_creation", 1)
				c.Seen("creation_error_class", errClass(res.Err))
			case "exec":
				c.Count("user_facing_errors", 1)
				c.Seen("evaluation_error_class", errClass(res.Err))
			default:
				c.Count("succeeded", 1)
				if res.NPoints > 0 {
					c.Count("succeeded_nonempty", 1)
				}
				if res.Warn > 0 {
					c.Count("with_annotations", 1)
				}
			}
		}
		if !bad && (ir.Stage != "create" || rr.Stage != "create") {
			c.Nontrivial("A", c.Seed, c.Idx, qs, ts.UnixNano(), start, step, nsteps)
			for k := range g.Kinds {
				if class != "mutant" {
					c.Seen("node_kinds_evaluated", k)
				}
			}
		}
		if c.Idx < 3 && qi < 2 {
			c.Sample(map[string]any{"query": clip(qs, 300), "class": class, "instant": map[string]any{"stage": ir.Stage, "err": clip(ir.Err, 120), "points": ir.NPoints}, "range": map[string]any{"stage": rr.Stage, "err": clip(rr.Err, 120), "points": rr.NPoints, "start": start, "step_ms": step, "steps": nsteps}})
		}
	}
}

// partA2: every function with a matrix argument over a float, a histogram and a mixed-type metric,
// with ranges of 1.5–3.5 sample spacings, as range queries over the whole data span with a step
// of about one spacing: every composition of a small window (float after histograms, histogram
// after floats, a single sample, staleness markers inside) is met by every such function.
func partA2(c *core.Case, r *rand.Rand, ds *pqgen.Dataset, span int64) {
	eng := pqgen.NewEngineMax(5*time.Minute, ds.Spacing, r.IntN(2) == 0, 50_000_000)
	defer eng.Close()
	var names []string
	for n, f := range parser.Functions {
		for _, at := range f.ArgTypes {
			if at == parser.ValueTypeMatrix {
				names = append(names, n)
				break
			}
		}
	}
	sort.Strings(names)
	var metrics []string
	if ds.HasMixed {
		metrics = append(metrics, "mixed")
	}
	if len(ds.Cfg.HistMetrics) > 0 {
		metrics = append(metrics, ds.Cfg.HistMetrics[r.IntN(len(ds.Cfg.HistMetrics))])
	}
	if len(ds.Cfg.FloatMetrics) > 0 {
		metrics = append(metrics, ds.Cfg.FloatMetrics[r.IntN(len(ds.Cfg.FloatMetrics))])
	}
	step := ds.Spacing + r.Int64N(ds.Spacing/2+1) - ds.Spacing/4
	if step < 1 {
		step = 1
	}
	nsteps := span/step + 2
	if nsteps > 600 {
		nsteps = 600
	}
	start := ds.T0 - step + r.Int64N(step+1)
	for _, fn := range names {
		f := parser.Functions[fn]
		for _, m := range metrics {
			rng := ds.Spacing*int64(3+2*r.IntN(3))/2 + r.Int64N(3) - 1
			if rng < 1 {
				rng = 1
			}
			var args []string
			for _, at := range f.ArgTypes {
				switch at {
				case parser.ValueTypeMatrix:
					args = append(args, fmt.Sprintf("%s[%dms]", m, rng))
				case parser.ValueTypeScalar:
					args = append(args, []string{"0.5", "1", "0", "-1", "3"}[r.IntN(5)])
				case parser.ValueTypeString:
					args = append(args, `"x"`)
				default:
					args = append(args, m)
				}
			}
			if f.Variadic != 0 && len(args) > 1 && r.IntN(2) == 0 {
				args = args[:len(args)-1] // the optional trailing argument left out
			}
			qs := fn + "(" + strings.Join(args, ", ") + ")"
			rr := pqgen.RangeOpts(eng, ds.DB, nil, qs, time.UnixMilli(start), time.UnixMilli(start+(nsteps-1)*step), time.Duration(step)*time.Millisecond)
			what := fmt.Sprintf("range query %q start=%d end=%d step=%dms [systematic family: matrix functions over small windows]", qs, start, start+(nsteps-1)*step, step)
			bad := checkInternal(c, &rr, qs, false, what)
			c.Count("family_range_queries", 1)
			c.Seen("family_functions", fn)
			if rr.Stage == "" && rr.NPoints > 0 {
				c.Count("family_succeeded_nonempty", 1)
			}
			if !bad && rr.Stage != "create" {
				c.Nontrivial("A2", c.Seed, c.Idx, qs, start, step)
			}
		}
	}
}

type job struct {
	qs         string
	instant    bool
	start, end int64
	step       int64
}

func (j job) run(eng *promql.Engine, ds *pqgen.Dataset) pqgen.Res {
	if j.instant {
		return pqgen.Instant(eng, ds.DB, j.qs, j.start)
	}
	return pqgen.Range(eng, ds.DB, j.qs, j.start, j.end, time.Duration(j.step)*time.Millisecond)
}

func (j job) String() string {
	if j.instant {
		return fmt.Sprintf("instant %q at %d", clip(j.qs, 1200), j.start)
	}
	return fmt.Sprintf("range %q start=%d end=%d step=%dms", clip(j.qs, 1200), j.start, j.end, j.step)
}

func partB(c *core.Case, r *rand.Rand, ds *pqgen.Dataset, span int64) {
	eng := pqgen.NewEngine([]time.Duration{time.Minute, 5 * time.Minute}[r.IntN(2)], []int64{ds.Spacing, 60000}[r.IntN(2)], r.IntN(2) == 0)
	defer eng.Close()
	cfg := ds.Cfg
	cfg.Allow = pqgen.Features{Experimental: true, DurationExpr: true, Extended: true, Fill: true}
	cfg.At, cfg.TimeFuncs, cfg.NegOffset, cfg.Deterministic = true, true, true, true
	const nq = 12
	var jobs []job
	var baseline []pqgen.Res
	for len(jobs) < nq {
		cc := cfg
		cc.MaxDepth = 1 + r.IntN(4)
		qs, _ := pqgen.New(r, cc).Query()
		j := job{qs: qs, instant: r.IntN(3) == 0}
		j.start = ds.T0 - 30000 + r.Int64N(span+30000)
		if !j.instant {
			j.step = []int64{1000, 5000, 15000, 60000, ds.Spacing}[r.IntN(5)]
			j.end = j.start + int64([]int{2, 5, 20, 60, 200}[r.IntN(5)]-1)*j.step
		}
		a := j.run(eng, ds)
		b := j.run(eng, ds)
		c.Count("concurrency_serial_runs", 2)
		if checkInternal(c, &a, j.qs, j.instant, "serial "+j.String()) {
			return
		}
		if d := a.Equal(&b); d != "" {
			// not attributable to concurrency: excluded (see LevelNote)
			c.Count("serial_rerun_differs", 1)
			c.Logf("serial rerun differs: %s: %s", j, d)
			continue
		}
		jobs = append(jobs, j)
		baseline = append(baseline, a)
	}
	const workers, rounds = 16, 3
	for round := 0; round < rounds; round++ {
		var wg sync.WaitGroup
		for w := 0; w < workers; w++ {
			wr := c.SubRng(fmt.Sprintf("partB/r%d/w%d", round, w))
			order := wr.Perm(len(jobs))
			wg.Add(1)
			go func() {
				defer wg.Done()
				for _, i := range order {
					res := jobs[i].run(eng, ds)
					if res.Internal {
						c.Violatef("internal-error-in-concurrent-evaluation", "%s (round %d): %s", jobs[i], round, res.Err)
						continue
					}
					if d := baseline[i].Equal(&res); d != "" {
						c.Violatef("concurrent-result-differs-from-serial", "%s (round %d, 16 goroutines on one engine): serial baseline vs concurrent: %s", jobs[i], round, d)
					}
				}
			}()
		}
		wg.Wait()
		c.Count("concurrency_concurrent_runs", int64(workers*len(jobs)))
	}
	for i, j := range jobs {
		if baseline[i].OK() && baseline[i].NPoints > 0 {
			c.Nontrivial("B", c.Seed, c.Idx, j.String())
			c.Count("concurrency_queries_nontrivial", 1)
		} else if !baseline[i].OK() {
			c.Count("concurrency_queries_failing_baseline", 1)
		}
	}
	if c.Idx < 5 {
		c.Sample(map[string]any{"part": "B", "first_job": jobs[0].String(), "baseline_points": baseline[0].NPoints})
	}
}
