// Package c18: query sharding partitions series deterministically
// (partition laws on real queriers + StableHash compared across label builds and restarts).
package c18

import (
	"context"
	"crypto/sha256"
	"fmt"
	"math/rand/v2"
	"sort"
	"strings"

	"github.com/prometheus/prometheus/model/histogram"
	"github.com/prometheus/prometheus/model/labels"
	"github.com/prometheus/prometheus/storage"
	"github.com/prometheus/prometheus/tsdb"
	"github.com/prometheus/prometheus/tsdb/chunkenc"
	"github.com/prometheus/prometheus/tsdb/chunks"

	"verif/internal/core"
	"verif/internal/tsdbx"
)

func init() {
	core.Register(&core.Prop{
		ID:        "C18",
		Title:     "Query sharding partitions series deterministically",
		Level:     "exploration",
		Technique: "partition-law runtime monitor on DB.Querier with SelectHints.ShardCount/ShardIndex (disjoint, union = unsharded, membership = StableHash mod n), repeated after close/reopen, plus differential comparison of labels.StableHash and shard membership across the stringlabels / slicelabels / dedupelabels builds",
		LevelText: "Each case generates a series set (small label sets plus label sets whose encoded size straddles the 1 KiB switch inside StableHash: total 990-1060 bytes with the crossing at the first, a middle or the last label, and 2-4 KiB ones), stores it in a real TSDB with EnableSharding (head-only, block-only, or split over blocks and head) and runs, for three shard counts n from 1..64, the unsharded Select and all n sharded Selects: the shards must be pairwise disjoint, their union must be the unsharded result, and every returned series must satisfy labels.StableHash(lset) mod n = shard index. The DB is closed and re-opened (head rebuilt from the WAL) and one shard count is re-queried: membership must be unchanged. The same case index is executed by the three label-implementation builds on identical input; each emits the StableHash of every generated label set and the observed memberships, and the supervisor requires them to be equal across builds. Held on the observed cases only.",
		LevelNote: "Trusted: the unsharded Select as the reference set (C16 checks it), labels.String() as the series identity. 'Same in every build' is checked between the three binaries built from this tree, not against historic releases. ChunkQuerier is queried in a third of the cases.",
		DesignRef: "DESIGN.md §5 C18",
		Rule:      "case = one dataset with three shard counts; non-trivial iff for some n >= 2 at least two shards are non-empty and the unsharded result has at least 3 series; distinct by the digest of the generated label sets and shard counts (the same index in the slice/dedupe builds has the same digest)",
		Variants:  []string{"slice", "dedupe"},
		Cases: func(variant string, tier core.Tier) int {
			if tier == core.Thorough {
				return 5000
			}
			return 300
		},
		Run:            run,
		Post:           post,
		MinNontrivial:  func(t core.Tier) int { return 150 },
		CaseTimeoutSec: 120,
	})
}

type fsample struct {
	t int64
	f float64
}

func (s fsample) T() int64                      { return s.t }
func (s fsample) ST() int64                     { return 0 }
func (s fsample) F() float64                    { return s.f }
func (s fsample) H() *histogram.Histogram       { return nil }
func (s fsample) FH() *histogram.FloatHistogram { return nil }
func (s fsample) Type() chunkenc.ValueType      { return chunkenc.ValFloat }
func (s fsample) Copy() chunks.Sample           { return s }

type ser struct {
	pairs []string // name, value, ... (build-independent description)
	lset  labels.Labels
	key   string
	ts    []int64
}

var smallNames = []string{"job", "instance", "a", "b", "env", "le", "zone", "très"}
var smallValues = []string{"x", "y", "prod", "dev", "a", "ab", "1", "10", "foo-bar", "日本", "new\nline", "with space", "q\"uote"}

func fill(r *rand.Rand, n int) string {
	const alpha = "abcdefghijklmnopqrstuvwxyz0123456789-_/éß"
	rs := []rune(alpha)
	var sb strings.Builder
	for sb.Len() < n {
		c := rs[r.IntN(len(rs))]
		if sb.Len()+len(string(c)) > n {
			c = 'x'
		}
		sb.WriteRune(c)
	}
	return sb.String()
}

// genBig returns label pairs whose StableHash input size (sum of len(name)+len(value)+2) is
// `total`, with the label that crosses into the last bytes placed at position `cross`.
func genBig(r *rand.Rand, id int, total int, nl int, cross int) []string {
	type lv struct{ n, v string }
	ls := make([]lv, nl)
	// names sort as: __name__ < l0 < l1 ... ; __name__ is label 0
	ls[0] = lv{"__name__", fmt.Sprintf("big%d", id)}
	for i := 1; i < nl; i++ {
		ls[i] = lv{fmt.Sprintf("l%d", i), fill(r, 1+r.IntN(12))}
	}
	sum := 0
	for _, l := range ls {
		sum += len(l.n) + len(l.v) + 2
	}
	// the crossing label absorbs the remaining bytes
	rest := total - (sum - len(ls[cross].v))
	if rest < 1 {
		rest = 1
	}
	if cross == 0 {
		ls[0].v = fmt.Sprintf("big%d_", id) + fill(r, max(rest-len(fmt.Sprintf("big%d_", id)), 0))
	} else {
		ls[cross].v = fill(r, rest)
	}
	var out []string
	for _, l := range ls {
		out = append(out, l.n, l.v)
	}
	return out
}

type dataset struct {
	series []*ser
	nb     int
	head   bool
}

const regionLen = 1000

func genDataset(r *rand.Rand) *dataset {
	d := &dataset{}
	switch r.IntN(3) {
	case 0:
		d.nb, d.head = 0, true
	case 1:
		d.nb, d.head = 1+r.IntN(2), false
	default:
		d.nb, d.head = 1+r.IntN(2), true
	}
	regions := d.nb
	if d.head {
		regions++
	}
	seen := map[string]bool{}
	add := func(pairs []string) {
		ls := labels.FromStrings(pairs...)
		k := ls.String()
		if seen[k] || ls.IsEmpty() {
			return
		}
		seen[k] = true
		s := &ser{pairs: pairs, lset: ls, key: k}
		for reg := 0; reg < regions; reg++ {
			if r.IntN(3) == 0 {
				continue
			}
			s.ts = append(s.ts, int64(reg)*regionLen+int64(r.IntN(regionLen)))
		}
		if len(s.ts) == 0 {
			s.ts = []int64{int64(r.IntN(regions))*regionLen + int64(r.IntN(regionLen))}
		}
		d.series = append(d.series, s)
	}
	nsmall := 3 + r.IntN(40)
	for i := 0; i < nsmall; i++ {
		pairs := []string{"__name__", []string{"m", "metric_a", "up", "http_requests_total"}[r.IntN(4)]}
		names := r.Perm(len(smallNames))[:r.IntN(4)]
		sort.Ints(names)
		for _, ni := range names {
			pairs = append(pairs, smallNames[ni], smallValues[r.IntN(len(smallValues))])
		}
		if r.IntN(3) == 0 {
			pairs = append(pairs, "uniq", fmt.Sprint(i))
		}
		add(pairs)
	}
	nbig := r.IntN(7)
	for i := 0; i < nbig; i++ {
		nl := 1 + r.IntN(6)
		total := 990 + r.IntN(71)
		switch r.IntN(6) {
		case 0:
			total = 1022 + r.IntN(5) // right at the switch
		case 1:
			total = 2000 + r.IntN(2500)
		}
		cross := []int{0, nl / 2, nl - 1}[r.IntN(3)]
		add(genBig(r, i, total, nl, cross))
	}
	return d
}

func (d *dataset) open(dir string) *tsdb.DB {
	opts := tsdb.DefaultOptions()
	opts.StripeSize = 256
	opts.NoLockfile = true
	opts.EnableSharding = true
	db, err := tsdb.Open(dir, tsdbx.NopLogger(), nil, opts, nil)
	core.Must(err, "tsdb.Open")
	db.DisableCompactions()
	return db
}

func (d *dataset) build(dir string) *tsdb.DB {
	ctx := context.Background()
	for b := 0; b < d.nb; b++ {
		lo, hi := int64(b)*regionLen, int64(b+1)*regionLen
		var in []storage.Series
		for _, s := range d.series {
			var smp []chunks.Sample
			for _, t := range s.ts {
				if t >= lo && t < hi {
					smp = append(smp, fsample{t, 1})
				}
			}
			if len(smp) > 0 {
				in = append(in, storage.NewListSeries(s.lset, smp))
			}
		}
		if len(in) == 0 {
			continue
		}
		_, err := tsdb.CreateBlock(in, dir, 0, tsdbx.NopLogger())
		core.Must(err, "CreateBlock")
	}
	db := d.open(dir)
	if d.head {
		lo := int64(d.nb) * regionLen
		type pt struct {
			s *ser
			t int64
		}
		var pts []pt
		for _, s := range d.series {
			for _, t := range s.ts {
				if t >= lo {
					pts = append(pts, pt{s, t})
				}
			}
		}
		sort.SliceStable(pts, func(i, j int) bool { return pts[i].t < pts[j].t })
		app := db.Appender(ctx)
		for _, p := range pts {
			_, err := app.Append(0, p.s.lset, p.t, 1)
			core.Must(err, "head append")
		}
		core.Must(app.Commit(), "commit")
	}
	return db
}

// selectKeys runs one Select and returns the label strings of the returned series.
func selectKeys(c *core.Case, db *tsdb.DB, chunk bool, mint, maxt int64, hints *storage.SelectHints, ms []*labels.Matcher, what string) ([]string, []labels.Labels, bool) {
	ctx := context.Background()
	var keys []string
	var lsets []labels.Labels
	if chunk {
		q, err := db.ChunkQuerier(mint, maxt)
		core.Must(err, "ChunkQuerier")
		defer q.Close()
		ss := q.Select(ctx, true, hints, ms...)
		for ss.Next() {
			l := ss.At().Labels().Copy()
			keys = append(keys, l.String())
			lsets = append(lsets, l)
		}
		if err := ss.Err(); err != nil {
			c.Violatef("sharded-select-error", "%s: %v", what, err)
			return nil, nil, false
		}
		return keys, lsets, true
	}
	q, err := db.Querier(mint, maxt)
	core.Must(err, "Querier")
	defer q.Close()
	ss := q.Select(ctx, true, hints, ms...)
	for ss.Next() {
		l := ss.At().Labels().Copy()
		keys = append(keys, l.String())
		lsets = append(lsets, l)
	}
	if err := ss.Err(); err != nil {
		c.Violatef("sharded-select-error", "%s: %v", what, err)
		return nil, nil, false
	}
	return keys, lsets, true
}

func short(s string) string {
	if len(s) > 160 {
		return s[:80] + "…" + s[len(s)-60:]
	}
	return s
}

// shardQuery queries all n shards and checks the partition laws; returns membership key → shard.
func shardQuery(c *core.Case, db *tsdb.DB, chunk bool, mint, maxt int64, ms []*labels.Matcher, n uint64, phase string) (map[string]uint64, int, bool) {
	base := &storage.SelectHints{Start: mint, End: maxt}
	all, _, ok := selectKeys(c, db, chunk, mint, maxt, base, ms, phase+" unsharded")
	if !ok {
		return nil, 0, false
	}
	allSet := map[string]bool{}
	for _, k := range all {
		allSet[k] = true
	}
	member := map[string]uint64{}
	nonEmpty := 0
	for i := uint64(0); i < n; i++ {
		h := &storage.SelectHints{Start: mint, End: maxt, ShardCount: n, ShardIndex: i}
		what := fmt.Sprintf("%s shard %d/%d [%d,%d] chunk=%v", phase, i, n, mint, maxt, chunk)
		keys, lsets, ok := selectKeys(c, db, chunk, mint, maxt, h, ms, what)
		if !ok {
			return nil, 0, false
		}
		if len(keys) > 0 {
			nonEmpty++
		}
		for j, k := range keys {
			if prev, dup := member[k]; dup {
				c.Violatef("shards-not-disjoint", "%s: series %s is returned by shard %d and shard %d", what, short(k), prev, i)
				return nil, 0, false
			}
			member[k] = i
			if !allSet[k] {
				c.Violatef("shard-returns-foreign-series", "%s: series %s is not in the unsharded result (%d series)", what, short(k), len(all))
				return nil, 0, false
			}
			if want := labels.StableHash(lsets[j]) % n; want != i {
				c.Violatef("shard-membership-not-stable-hash", "%s: series %s (hash input %d bytes) returned by shard %d but StableHash mod %d = %d", what, short(k), hashInputLen(lsets[j]), i, n, want)
				return nil, 0, false
			}
		}
	}
	for _, k := range all {
		if _, ok := member[k]; !ok {
			c.Violatef("shard-union-incomplete", "%s n=%d [%d,%d] chunk=%v: series %s of the unsharded result is in no shard", phase, n, mint, maxt, chunk, short(k))
			return nil, 0, false
		}
	}
	c.Count("sharded_selects", int64(n))
	return member, nonEmpty, true
}

func hashInputLen(ls labels.Labels) int {
	n := 0
	ls.Range(func(l labels.Label) { n += len(l.Name) + len(l.Value) + 2 })
	return n
}

func run(c *core.Case) {
	r := c.Rng
	d := genDataset(r)
	ns := []uint64{uint64(1 + r.IntN(3)), uint64(4 + r.IntN(13)), uint64(17 + r.IntN(48))}
	chunk := r.IntN(3) == 0
	regions := int64(d.nb)
	if d.head {
		regions++
	}
	mint, maxt := int64(0), regions*regionLen
	if r.IntN(3) == 0 { // one region only
		reg := r.Int64N(regions)
		mint, maxt = reg*regionLen, (reg+1)*regionLen-1
	}
	var ms []*labels.Matcher
	switch r.IntN(3) {
	case 0:
		ms = []*labels.Matcher{labels.MustNewMatcher(labels.MatchRegexp, "__name__", ".+")}
	case 1:
		ms = []*labels.Matcher{labels.MustNewMatcher(labels.MatchNotEqual, "__name__", "up")}
	default:
		ms = []*labels.Matcher{labels.MustNewMatcher(labels.MatchEqual, "absent", "")}
	}

	// --- cross-build observations: stable hashes of the generated label sets
	inputH := sha256.New()
	var hashes []string
	bigCount := 0
	for _, s := range d.series {
		inputH.Write([]byte(strings.Join(s.pairs, "\x00") + "\x01"))
		hashes = append(hashes, fmt.Sprintf("%016x", labels.StableHash(s.lset)))
		// a label set rebuilt through other constructors must hash the same (depends only on the label set)
		b := labels.NewBuilder(labels.EmptyLabels())
		for i := len(s.pairs) - 2; i >= 0; i -= 2 {
			b.Set(s.pairs[i], s.pairs[i+1])
		}
		if h2 := labels.StableHash(b.Labels()); h2 != labels.StableHash(s.lset) {
			c.Violatef("stable-hash-depends-on-construction", "label set %s: StableHash %016x via FromStrings, %016x via Builder", short(s.key), labels.StableHash(s.lset), h2)
			return
		}
		if l := hashInputLen(s.lset); l >= 990 {
			bigCount++
			c.Seen("big_label_set_size_class", sizeClass(l))
		}
	}
	input := fmt.Sprintf("%x", inputH.Sum(nil)[:12])
	c.Emit("input", input)
	c.Emit("hashes", strings.Join(hashes, ","))
	c.Count("label_sets_hashed", int64(len(hashes)))
	c.Count("label_sets_near_1KiB_or_larger", int64(bigCount))

	dir := c.TempDir()
	db := d.build(dir)
	closed := false
	defer func() {
		if !closed {
			db.Close()
		}
	}()
	layout := "split"
	if d.nb == 0 {
		layout = "head-only"
	} else if !d.head {
		layout = "block-only"
	}
	c.Seen("layout", layout)

	var memberText []string
	nontrivial := false
	var first map[string]uint64
	for _, n := range ns {
		member, nonEmpty, ok := shardQuery(c, db, chunk, mint, maxt, ms, n, "before-restart")
		if !ok {
			return
		}
		if first == nil {
			first = member
		}
		if n >= 2 && nonEmpty >= 2 && len(member) >= 3 {
			nontrivial = true
		}
		// membership in generation order (build-independent rendering)
		var sb strings.Builder
		fmt.Fprintf(&sb, "n=%d:", n)
		for _, s := range d.series {
			if sh, ok := member[s.key]; ok {
				fmt.Fprintf(&sb, "%d,", sh)
			} else {
				sb.WriteString("-,")
			}
		}
		memberText = append(memberText, sb.String())
	}
	c.Emit("members", strings.Join(memberText, ";"))

	// --- restart: membership must not change
	n := ns[1+r.IntN(2)]
	before, _, ok := shardQuery(c, db, chunk, mint, maxt, ms, n, "before-restart")
	if !ok {
		return
	}
	core.Must(db.Close(), "close")
	closed = true
	db = d.open(dir)
	closed = false
	after, _, ok := shardQuery(c, db, chunk, mint, maxt, ms, n, "after-restart")
	if !ok {
		return
	}
	for k, sh := range before {
		if a, ok := after[k]; !ok || a != sh {
			c.Violatef("shard-changed-across-restart", "n=%d: series %s was in shard %d before the restart, after it: present=%v shard=%d", n, short(k), sh, ok, a)
			return
		}
	}
	if len(after) != len(before) {
		c.Violatef("shard-changed-across-restart", "n=%d: %d series before the restart, %d after", n, len(before), len(after))
		return
	}
	c.Count("restart_comparisons", 1)
	if nontrivial {
		c.Nontrivial(input, ns, chunk, mint, maxt)
	}
	if c.Idx < 2 {
		c.Sample(map[string]any{"layout": layout, "series": len(d.series), "big_label_sets": bigCount, "shard_counts": ns, "members": memberText, "first_hashes": hashes[:min(4, len(hashes))]})
	}
}

func sizeClass(l int) string {
	switch {
	case l < 1020:
		return "990-1019"
	case l <= 1026:
		return fmt.Sprint(l)
	case l <= 1060:
		return "1027-1060"
	default:
		return ">=2000"
	}
}

// post compares the emitted hashes and memberships of the same case index across the builds.
func post(s *core.Summary) {
	type obs struct{ variant, input, hashes, members string }
	byIdx := map[int][]obs{}
	for _, r := range s.Results {
		if r.Emit == nil || r.Emit["hashes"] == "" {
			continue
		}
		byIdx[r.Idx] = append(byIdx[r.Idx], obs{r.Variant, r.Emit["input"], r.Emit["hashes"], r.Emit["members"]})
	}
	var idxs []int
	for i := range byIdx {
		idxs = append(idxs, i)
	}
	sort.Ints(idxs)
	reported := 0
	for _, i := range idxs {
		os := byIdx[i]
		if len(os) < 2 {
			continue
		}
		s.PostCount("cases_compared_across_builds", 1)
		s.PostCount("build_pairs_compared", int64(len(os)-1))
		ref := os[0]
		for _, o := range os[1:] {
			if reported >= 8 {
				return
			}
			if o.input != ref.input {
				s.PostViolatef("cross-build-input-mismatch", "case %d: builds %s and %s generated different label sets (digest %s vs %s) – harness inputs must not depend on the build", i, ref.variant, o.variant, ref.input, o.input)
				reported++
				continue
			}
			if o.hashes != ref.hashes {
				a, b := strings.Split(ref.hashes, ","), strings.Split(o.hashes, ",")
				pos := -1
				for k := range a {
					if k >= len(b) || a[k] != b[k] {
						pos = k
						break
					}
				}
				s.PostViolatef("stable-hash-differs-across-builds", "case %d: labels.StableHash of generated label set #%d differs between build %s (%s) and build %s (%s)", i, pos, ref.variant, at(a, pos), o.variant, at(b, pos))
				reported++
				continue
			}
			if o.members != "" && ref.members != "" && o.members != ref.members {
				s.PostViolatef("shard-membership-differs-across-builds", "case %d: observed shard membership differs between build %s and build %s:\n%s\n%s", i, ref.variant, o.variant, short(ref.members), short(o.members))
				reported++
			}
		}
	}
}

func at(a []string, i int) string {
	if i < 0 || i >= len(a) {
		return "<none>"
	}
	return a[i]
}
