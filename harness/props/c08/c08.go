// Package c08: compaction planning yields only well-shaped plans, never mixes head-view
// classes, converges under a metadata-level compaction model, and merged metas carry the
// right hints.
package c08

import (
	"context"
	"encoding/json"
	"fmt"
	"math/rand/v2"
	"os"
	"path/filepath"
	"sort"
	"strings"

	"github.com/oklog/ulid/v2"

	"github.com/prometheus/prometheus/tsdb"

	"verif/internal/core"
	"verif/internal/tsdbx"
)

const (
	universeBlocks = 12 // 9 level-0 + 3 level-1 blocks
	universeSets   = 1 << universeBlocks
	exhaustiveN    = 2 * universeSets // every subset, overlapping compaction on and off
)

func genCases(t core.Tier) int {
	if t == core.Thorough {
		return 60000
	}
	return 2000
}

func init() {
	core.Register(&core.Prop{
		ID:        "C08",
		Title:     "Compaction planning converges and never mixes block classes",
		Level:     "exploration",
		Technique: "runtime monitor of LeveledCompactor.Plan / CompactBlockMetas on meta.json-only directories: plan-shape predicate from the statement, class predicate, hint rules, bounded plan/compact iteration",
		LevelText: "Generated block metadata sets (1-12 blocks: aligned, misaligned, negative, overlapping, nested and duplicate time ranges, Failed flags, tombstone/series ratios around the 5% and 'all deleted' borders, every combination of the three hints) are written as <ULID>/meta.json under generated range configurations with overlapping compaction on or off; additionally every subset of an aligned 3-level universe (9 blocks of 20 + 3 blocks of 60, ranges 20/60/180; 4096 subsets x 2 settings) is enumerated. After each real Plan(dir) call the plan must be empty, or (a) >=2 overlap-connected blocks with overlapping compaction enabled, or (b) >=2 pairwise non-overlapping blocks inside one aligned window of a configured range, without Failed blocks and without the newest block, or (c) one block with tombstones above the documented thresholds; all planned blocks must share a head-view class. The planned metas are merged by the real CompactBlockMetas (hint rules checked), the directory is updated (parents removed, child added without tombstones, or nothing added when the model declares the result empty) and Plan is called again until it returns nothing; more than 2*N*len(ranges)+2 steps is a violation. Held on the observed sets only.",
		LevelNote: "Necessary conditions only: the oracle never requires that something IS planned. Readings chosen to stay within the statement: 'within one configured range' = inside one window [k*r,(k+1)*r] of some configured r (splitByRange's documented alignment, r may be any configured range); 'newest block' = a block that has strictly the largest MinTime AND the largest MaxTime of the whole set (only then is it newest under every reading); 'tombstones warrant a rewrite' = NumTombstones>0 and more than 5% of NumSeries (size threshold and the '+1' of the implementation not demanded); a block carrying both partial-view hints counts as a member of both classes; the out-of-order hint is only checked in the 'only if' direction. Blocks always have MinTime<MaxTime. The compaction step is a metadata model (real CompactBlockMetas, modelled stats), not a real compaction. With overlapping compaction disabled and overlapping inputs the planner returns leveled groups that contain overlapping blocks; that contradicts the statement and is reported under its own narrow kind.",
		DesignRef: "DESIGN.md §5 C08",
		Rule:      "case = one block-meta set + range config + overlap setting, iterated plan/merge until the plan is empty; generated cases first, then the exhaustive universe (index - generated = subset bitmask, second half with overlapping compaction off); non-trivial iff the first Plan call returned a non-empty plan; distinct by canonical rendering of (ranges, setting, metas)",
		Assumptions: []string{
			"Plan reads nothing but <dir>/<ULID>/meta.json (as documented in NOTES-api.md)",
			"a real compaction's output meta equals CompactBlockMetas(plan) with NumTombstones=0, or no block at all when the result is empty",
		},
		Cases: func(variant string, tier core.Tier) int {
			if variant != "default" {
				return 0
			}
			return genCases(tier) + exhaustiveN
		},
		Run:            run,
		MinNontrivial:  func(t core.Tier) int { return 1500 },
		CaseTimeoutSec: 60,
		Exhaustive:     true,
	})
}

// ---------------------------------------------------------------- generation

var hintNames = []string{tsdb.CompactionHintFromOutOfOrder, tsdb.CompactionHintFromStaleSeries, tsdb.CompactionHintFromSelectedSeries}

func newULID(r *rand.Rand) ulid.ULID {
	var u ulid.ULID
	var e [10]byte
	for i := range e {
		e[i] = byte(r.UintN(256))
	}
	core.Must(u.SetTime(r.Uint64N(1<<40)), "ulid time")
	core.Must(u.SetEntropy(e[:]), "ulid entropy")
	return u
}

func newMeta(r *rand.Rand, mint, maxt int64) *tsdb.BlockMeta {
	m := &tsdb.BlockMeta{ULID: newULID(r), MinTime: mint, MaxTime: maxt, Version: 1}
	m.Compaction.Level = 1
	m.Compaction.Sources = []ulid.ULID{m.ULID}
	m.Stats.NumSeries = 10
	m.Stats.NumSamples = 100
	m.Stats.NumChunks = 10
	return m
}

func genRanges(r *rand.Rand) []int64 {
	switch r.IntN(8) {
	case 0: // single range: leveled compaction impossible
		return []int64{[]int64{10, 20, 50}[r.IntN(3)]}
	case 1: // non-multiples
		a := int64(5 + r.IntN(20))
		b := a + int64(1+r.IntN(40))
		c := b + int64(1+r.IntN(100))
		return [][]int64{{a, b}, {a, b, c}}[r.IntN(2)]
	case 2: // the shape of the upstream tests
		return []int64{20, 60, 180, 540, 1620}[:2+r.IntN(4)]
	default:
		return tsdb.ExponentialBlockRanges([]int64{10, 20, 7, 100}[r.IntN(4)], 2+r.IntN(4), 2+r.IntN(4))
	}
}

func floorDiv(a, b int64) int64 {
	q := a / b
	if a%b != 0 && (a < 0) != (b < 0) {
		q--
	}
	return q
}

func genMetas(r *rand.Rand, ranges []int64) []*tsdb.BlockMeta {
	n := 1 + r.IntN(12)
	r0 := ranges[0]
	var out []*tsdb.BlockMeta
	base := int64(r.IntN(30)-12) * r0 // negative, around zero and positive starts
	mode := r.IntN(6)
	slot := base
	for len(out) < n {
		var mint, maxt int64
		switch {
		case mode <= 2 || (mode == 3 && r.IntN(3) != 0): // aligned, mostly consecutive, some higher-level blocks
			if r.IntN(5) == 0 {
				slot += r0 * int64(1+r.IntN(4)) // gap
			}
			lvl := 0
			if len(ranges) > 1 && r.IntN(4) == 0 {
				lvl = 1 + r.IntN(len(ranges)-1)
			}
			iv := ranges[lvl]
			if lvl > 0 {
				slot = (floorDiv(slot, iv) + int64(r.IntN(2))) * iv
			}
			mint, maxt = slot, slot+iv
			if lvl > 0 && r.IntN(3) == 0 { // a compacted block that does not fill its range
				maxt = mint + 1 + r.Int64N(iv)
			}
			slot = maxt
			if lvl > 0 {
				slot = mint + iv
			}
			slot = floorDiv(slot+r0-1, r0) * r0
		default: // misaligned / arbitrary
			mint = base + int64(r.IntN(int(40*r0))) - 10*r0
			maxt = mint + 1 + r.Int64N(2*ranges[r.IntN(len(ranges))])
		}
		out = append(out, newMeta(r, mint, maxt))
		// overlap injection: nested, identical, chained
		if (mode == 4 || mode == 5 || r.IntN(12) == 0) && len(out) < n && r.IntN(3) == 0 {
			p := out[len(out)-1]
			var a, b int64
			switch r.IntN(4) {
			case 0:
				a, b = p.MinTime, p.MaxTime
			case 1:
				a = p.MinTime + r.Int64N(p.MaxTime-p.MinTime)
				b = a + 1 + r.Int64N(p.MaxTime-a)
			case 2:
				a = p.MaxTime - 1 - r.Int64N(min(p.MaxTime-p.MinTime, 3))
				b = a + 1 + r.Int64N(2*r0)
			default:
				a = p.MinTime - r.Int64N(2*r0)
				b = p.MaxTime + r.Int64N(2*r0)
			}
			out = append(out, newMeta(r, a, b))
		}
	}
	// flags and stats
	failProb := []int{0, 0, 12, 5}[r.IntN(4)]
	tombMode := r.IntN(4)
	for _, m := range out {
		if failProb > 0 && r.IntN(failProb) == 0 {
			m.Compaction.Failed = true
		}
		m.Stats.NumSeries = uint64([]int{0, 1, 10, 19, 20, 21, 100, 1000}[r.IntN(8)])
		if tombMode > 0 && r.IntN(4-tombMode+1) == 0 {
			s := m.Stats.NumSeries
			m.Stats.NumTombstones = []uint64{1, s / 20, s/20 + 1, (s + 1) / 20, (s+1)/20 + 1, s, s + 1, s / 2}[r.IntN(8)]
		}
		m.Compaction.Level = 1 + r.IntN(3)
	}
	// hints
	hintMode := r.IntN(8)
	for _, m := range out {
		switch hintMode {
		case 0, 1, 2: // all regular, sometimes out-of-order
			if r.IntN(6) == 0 {
				m.Compaction.SetOutOfOrder()
			}
		case 3: // mostly stale
			if r.IntN(4) != 0 {
				m.Compaction.SetStaleSeries()
			}
		case 4: // mostly selected
			if r.IntN(4) != 0 {
				m.Compaction.SetSelectedSeries()
			}
		case 5: // stale / selected / regular thirds
			switch r.IntN(3) {
			case 0:
				m.Compaction.SetStaleSeries()
			case 1:
				m.Compaction.SetSelectedSeries()
			}
			if r.IntN(4) == 0 {
				m.Compaction.SetOutOfOrder()
			}
		default: // every combination, in arbitrary (unsorted) order, plus an unknown hint now and then
			perm := r.Perm(3)
			for _, i := range perm {
				if r.IntN(2) == 0 {
					m.Compaction.Hints = append(m.Compaction.Hints, hintNames[i])
				}
			}
			if r.IntN(10) == 0 {
				m.Compaction.Hints = append(m.Compaction.Hints, "some-future-hint")
			}
		}
	}
	return out
}

// universe returns the aligned 3-level universe subset selected by mask.
func universe(r *rand.Rand, mask int) []*tsdb.BlockMeta {
	var out []*tsdb.BlockMeta
	for i := 0; i < 9; i++ {
		if mask&(1<<i) != 0 {
			out = append(out, newMeta(r, int64(i)*20, int64(i+1)*20))
		}
	}
	for i := 0; i < 3; i++ {
		if mask&(1<<(9+i)) != 0 {
			m := newMeta(r, int64(i)*60, int64(i+1)*60)
			m.Compaction.Level = 2
			out = append(out, m)
		}
	}
	return out
}

// ---------------------------------------------------------------- predicates (from the statement)

func overlaps(a, b *tsdb.BlockMeta) bool { return a.MinTime < b.MaxTime && b.MinTime < a.MaxTime }

func anyOverlap(ms []*tsdb.BlockMeta) bool {
	for i := range ms {
		for j := i + 1; j < len(ms); j++ {
			if overlaps(ms[i], ms[j]) {
				return true
			}
		}
	}
	return false
}

func overlapConnected(ms []*tsdb.BlockMeta) bool {
	if len(ms) == 0 {
		return true
	}
	seen := make([]bool, len(ms))
	stack := []int{0}
	seen[0] = true
	cnt := 1
	for len(stack) > 0 {
		i := stack[len(stack)-1]
		stack = stack[:len(stack)-1]
		for j := range ms {
			if !seen[j] && overlaps(ms[i], ms[j]) {
				seen[j] = true
				cnt++
				stack = append(stack, j)
			}
		}
	}
	return cnt == len(ms)
}

// sameClass: regular = neither partial-view hint; a block with both hints is a member of both
// partial-view classes.
func sameClass(ms []*tsdb.BlockMeta) bool {
	allReg, allStale, allSel := true, true, true
	for _, m := range ms {
		st, se := m.Compaction.FromStaleSeries(), m.Compaction.FromSelectedSeries()
		if st || se {
			allReg = false
		}
		if !st {
			allStale = false
		}
		if !se {
			allSel = false
		}
	}
	return allReg || allStale || allSel
}

func withinOneRange(ms []*tsdb.BlockMeta, ranges []int64) bool {
	lo, hi := ms[0].MinTime, ms[0].MaxTime
	for _, m := range ms {
		lo = min(lo, m.MinTime)
		hi = max(hi, m.MaxTime)
	}
	for _, iv := range ranges {
		t0 := floorDiv(lo, iv) * iv
		if hi <= t0+iv {
			return true
		}
	}
	return false
}

// newestOf returns the block that is the newest under every reading (strictly largest MinTime
// and largest MaxTime), or nil when there is no such block.
func newestOf(all []*tsdb.BlockMeta) *tsdb.BlockMeta {
	if len(all) < 2 {
		return nil
	}
	var best *tsdb.BlockMeta
	for _, m := range all {
		if best == nil || m.MinTime > best.MinTime {
			best = m
		}
	}
	for _, m := range all {
		if m == best {
			continue
		}
		if m.MinTime >= best.MinTime || m.MaxTime > best.MaxTime {
			return nil
		}
	}
	return best
}

func tombstonesWarrant(m *tsdb.BlockMeta) bool {
	t, s := m.Stats.NumTombstones, m.Stats.NumSeries
	return t > 0 && 20*t > s
}

func brief(ms []*tsdb.BlockMeta) string {
	cp := append([]*tsdb.BlockMeta(nil), ms...)
	sort.Slice(cp, func(i, j int) bool {
		if cp[i].MinTime != cp[j].MinTime {
			return cp[i].MinTime < cp[j].MinTime
		}
		if cp[i].MaxTime != cp[j].MaxTime {
			return cp[i].MaxTime < cp[j].MaxTime
		}
		return cp[i].ULID.Compare(cp[j].ULID) < 0
	})
	var sb strings.Builder
	for _, m := range cp {
		fmt.Fprintf(&sb, "[%d,%d)", m.MinTime, m.MaxTime)
		if m.Compaction.Failed {
			sb.WriteString("F")
		}
		if m.Stats.NumTombstones > 0 {
			fmt.Fprintf(&sb, "t%d/%d", m.Stats.NumTombstones, m.Stats.NumSeries)
		}
		if len(m.Compaction.Hints) > 0 {
			hs := append([]string(nil), m.Compaction.Hints...)
			sort.Strings(hs)
			for _, h := range hs {
				sb.WriteString("{" + strings.TrimPrefix(h, "from-") + "}")
			}
		}
		sb.WriteString(" ")
	}
	return strings.TrimSpace(sb.String())
}

// reporter records at most one violation per kind and case, so that a repeated shape violation
// cannot crowd out a later no-convergence verdict (core keeps 8 violations per case).
type reporter struct {
	c    *core.Case
	seen map[string]bool
}

func (r *reporter) Violatef(kind, format string, args ...any) {
	if r.seen[kind] {
		return
	}
	r.seen[kind] = true
	r.c.Violatef(kind, format, args...)
}

func (r *reporter) Count(name string, n int64) { r.c.Count(name, n) }

// checkPlan applies the statement's shape predicate; returns the plan type.
func checkPlan(c *reporter, plan, all []*tsdb.BlockMeta, ranges []int64, overlapEnabled bool) string {
	ctx := func() string {
		return fmt.Sprintf("ranges=%v overlapping_compaction=%v plan=%s blocks=%s", ranges, overlapEnabled, brief(plan), brief(all))
	}
	if len(plan) == 0 {
		return "empty"
	}
	if !sameClass(plan) {
		c.Violatef("mixed-classes", "plan mixes head-view classes: %s", ctx())
	}
	if len(plan) == 1 {
		if !tombstonesWarrant(plan[0]) {
			c.Violatef("single-block-plan-without-tombstone-reason", "single-block plan whose tombstones do not warrant a rewrite (tombstones=%d series=%d): %s", plan[0].Stats.NumTombstones, plan[0].Stats.NumSeries, ctx())
		}
		return "tombstones"
	}
	if anyOverlap(plan) {
		if overlapEnabled {
			if !overlapConnected(plan) {
				c.Violatef("plan-shape", "plan contains overlapping blocks but is not one overlap-connected group: %s", ctx())
			}
			return "overlapping"
		}
		// Overlapping compaction is disabled: the statement allows no plan with overlapping
		// members.  The narrow kind is given when the plan is otherwise a valid leveled group.
		leveledOtherwise := withinOneRange(plan, ranges) && sameClass(plan)
		for _, m := range plan {
			if m.Compaction.Failed {
				leveledOtherwise = false
			}
		}
		if nw := newestOf(all); nw != nil {
			for _, m := range plan {
				if m == nw {
					leveledOtherwise = false
				}
			}
		}
		if leveledOtherwise {
			c.Violatef("leveled-group-overlaps-while-overlapping-compaction-disabled", "overlapping compaction disabled, yet the plan (a leveled group inside one range) contains overlapping blocks and would be compacted vertically: %s", ctx())
		} else {
			c.Violatef("plan-shape", "overlapping compaction disabled but plan has overlapping blocks and is not a valid leveled group either: %s", ctx())
		}
		return "leveled-with-overlap(disabled)"
	}
	// >= 2 pairwise non-overlapping blocks: must be a leveled group.
	if !withinOneRange(plan, ranges) {
		c.Violatef("leveled-group-not-in-one-range", "non-overlapping plan does not lie within one aligned configured range: %s", ctx())
	}
	for _, m := range plan {
		if m.Compaction.Failed {
			c.Violatef("leveled-group-has-failed-block", "plan contains block [%d,%d) marked Failed: %s", m.MinTime, m.MaxTime, ctx())
			break
		}
	}
	if nw := newestOf(all); nw != nil {
		for _, m := range plan {
			if m == nw {
				c.Violatef("leveled-group-has-newest-block", "plan contains the newest block [%d,%d): %s", nw.MinTime, nw.MaxTime, ctx())
			}
		}
	}
	return "leveled"
}

// checkMerged applies the hint rules of the statement to CompactBlockMetas' output.
func checkMerged(c *reporter, merged *tsdb.BlockMeta, in []*tsdb.BlockMeta, isPlan bool) {
	allOOO, allStale, allSel, anyStale, anySel := true, true, true, false, false
	for _, m := range in {
		if !m.Compaction.FromOutOfOrder() {
			allOOO = false
		}
		if m.Compaction.FromStaleSeries() {
			anyStale = true
		} else {
			allStale = false
		}
		if m.Compaction.FromSelectedSeries() {
			anySel = true
		} else {
			allSel = false
		}
	}
	if merged.Compaction.FromOutOfOrder() && !allOOO {
		c.Violatef("ooo-hint-on-mixed-merge", "merged meta carries from-out-of-order although not every input does: inputs=%s", brief(in))
	}
	if merged.Compaction.FromOutOfOrder() {
		c.Count("merged_with_ooo_hint", 1)
	}
	if !isPlan {
		return
	}
	// partial-view hints of the (single) class of a planned group
	if allStale && !merged.Compaction.FromStaleSeries() {
		c.Violatef("partial-view-hint-lost", "all inputs carry from-stale-series, merged meta does not: inputs=%s merged hints=%v", brief(in), merged.Compaction.Hints)
	}
	if allSel && !merged.Compaction.FromSelectedSeries() {
		c.Violatef("partial-view-hint-lost", "all inputs carry from-selected-series, merged meta does not: inputs=%s merged hints=%v", brief(in), merged.Compaction.Hints)
	}
	if (merged.Compaction.FromStaleSeries() && !anyStale) || (merged.Compaction.FromSelectedSeries() && !anySel) {
		c.Violatef("partial-view-hint-invented", "merged meta carries a partial-view hint no input has: inputs=%s merged hints=%v", brief(in), merged.Compaction.Hints)
	}
	if merged.Compaction.FromStaleSeries() || merged.Compaction.FromSelectedSeries() {
		c.Count("merged_with_partial_view_hint", 1)
	}
}

// ---------------------------------------------------------------- driver

func writeMeta(root string, m *tsdb.BlockMeta) {
	d := filepath.Join(root, m.ULID.String())
	core.Must(os.MkdirAll(d, 0o777), "mkdir block dir")
	b, err := json.Marshal(m)
	core.Must(err, "marshal meta")
	core.Must(os.WriteFile(filepath.Join(d, "meta.json"), b, 0o666), "write meta.json")
}

func run(c *core.Case) {
	r := c.Rng
	var (
		ranges         []int64
		metas          []*tsdb.BlockMeta
		overlapEnabled bool
		origin         = "generated"
	)
	if g := genCases(c.Tier); c.Idx >= g {
		sub := c.Idx - g
		origin = "exhaustive"
		ranges = []int64{20, 60, 180}
		overlapEnabled = sub < universeSets
		metas = universe(r, sub%universeSets)
	} else {
		ranges = genRanges(r)
		overlapEnabled = r.IntN(3) != 0
		metas = genMetas(r, ranges)
	}
	comp, err := tsdb.NewLeveledCompactorWithOptions(context.Background(), nil, tsdbx.NopLogger(), ranges, nil,
		tsdb.LeveledCompactorOptions{EnableOverlappingCompaction: overlapEnabled})
	core.Must(err, "NewLeveledCompactorWithOptions")

	root := c.TempDir()
	// a non-block directory and a stray file must be ignored by Plan
	core.Must(os.MkdirAll(filepath.Join(root, "wal"), 0o777), "mkdir wal")
	core.Must(os.WriteFile(filepath.Join(root, "lock"), nil, 0o666), "write lock")
	cur := map[string]*tsdb.BlockMeta{}
	for _, m := range metas {
		writeMeta(root, m)
		cur[filepath.Join(root, m.ULID.String())] = m
	}
	key := fmt.Sprintf("%v|%v|%s", ranges, overlapEnabled, brief(metas))
	inputBrief := brief(metas)

	// CompactBlockMetas on an arbitrary subset: the out-of-order rule holds for any inputs.
	if len(metas) >= 2 && origin == "generated" {
		var sub []*tsdb.BlockMeta
		for _, m := range metas {
			if r.IntN(2) == 0 {
				sub = append(sub, m)
			}
		}
		if len(sub) >= 1 {
			checkMerged(&reporter{c: c, seen: map[string]bool{}}, tsdb.CompactBlockMetas(newULID(r), sub...), sub, false)
			c.Count("arbitrary_merges_checked", 1)
		}
	}

	rep := &reporter{c: c, seen: map[string]bool{}}
	bound := 2*len(metas)*len(ranges) + 2
	var trace []string
	for step := 0; ; step++ {
		dirs, err := comp.Plan(root)
		if err != nil {
			c.Violatef("plan-error", "Plan returned an error on well-formed meta files: %v (blocks=%s)", err, briefMap(cur))
			break
		}
		all := make([]*tsdb.BlockMeta, 0, len(cur))
		for _, m := range cur {
			all = append(all, m)
		}
		var plan []*tsdb.BlockMeta
		seen := map[string]bool{}
		bad := false
		for _, d := range dirs {
			m := cur[d]
			if m == nil || seen[d] {
				c.Violatef("plan-unknown-or-duplicate-dir", "Plan returned %q which is not a (distinct) block directory of the set; plan=%v", d, dirs)
				bad = true
				break
			}
			seen[d] = true
			plan = append(plan, m)
		}
		if bad {
			break
		}
		ptype := checkPlan(rep, plan, all, ranges, overlapEnabled)
		c.Seen("plan_type", ptype)
		c.Count("plans_checked", 1)
		trace = append(trace, fmt.Sprintf("%s:%s", ptype, brief(plan)))
		if step == 0 && len(plan) > 0 {
			c.Nontrivial(key)
			c.Seen("first_plan_type/"+origin, ptype)
		}
		if len(plan) == 0 {
			c.Seen("steps_to_empty_plan", fmt.Sprint(step))
			break
		}
		if step >= bound {
			c.Violatef("no-convergence", "plan still non-empty after %d plan/compact steps (bound 2*N*len(ranges)+2=%d): ranges=%v overlapping_compaction=%v input=%s trace(last)=%v", step, bound, ranges, overlapEnabled, inputBrief, trace[max(0, len(trace)-4):])
			break
		}
		// metadata-level compaction in the planner's order
		merged := tsdb.CompactBlockMetas(newULID(r), plan...)
		merged.Version = 1
		checkMerged(rep, merged, plan, true)
		c.Count("plan_merges_checked", 1)
		allDeleted := true
		var series uint64
		for _, m := range plan {
			if !(m.Stats.NumTombstones > 0 && m.Stats.NumTombstones >= m.Stats.NumSeries) {
				allDeleted = false
			}
			series = max(series, m.Stats.NumSeries)
		}
		for _, d := range dirs {
			core.Must(os.RemoveAll(d), "remove parent dir")
			delete(cur, d)
		}
		if allDeleted && r.IntN(2) == 0 {
			// the real compaction would produce no block and mark the parents deletable
			c.Count("compactions_modelled_empty", 1)
			continue
		}
		merged.Stats.NumSeries = series
		merged.Stats.NumSamples = 100
		merged.Stats.NumChunks = series
		merged.Stats.NumTombstones = 0
		writeMeta(root, merged)
		cur[filepath.Join(root, merged.ULID.String())] = merged
	}
	c.Count("blocks_in_input", int64(len(metas)))
	if c.Idx < 3 || (origin == "exhaustive" && (c.Idx-genCases(c.Tier)) == 0b000001111111) {
		c.Sample(map[string]any{"origin": origin, "ranges": ranges, "overlapping_compaction": overlapEnabled, "input": inputBrief, "plans": trace})
	}
}

func briefMap(cur map[string]*tsdb.BlockMeta) string {
	var ms []*tsdb.BlockMeta
	for _, m := range cur {
		ms = append(ms, m)
	}
	return brief(ms)
}
