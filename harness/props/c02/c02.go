// Package c02: append admission and commit apply the documented ordering rules (decision-table
// monitor: a reference model written from the property statement and storage/interface*.go
// predicts the verdict of every Append, the stored set after Commit and the drop counters).
package c02

import (
	"context"
	"fmt"
	"math"
	"math/rand/v2"
	"strings"

	"github.com/prometheus/client_golang/prometheus"

	"github.com/prometheus/prometheus/model/histogram"
	"github.com/prometheus/prometheus/model/labels"
	"github.com/prometheus/prometheus/model/value"
	"github.com/prometheus/prometheus/storage"
	"github.com/prometheus/prometheus/tsdb"

	"verif/internal/core"
	"verif/internal/gen"
	"verif/internal/tsdbhist"
	"verif/internal/tsdbx"
)

const nEnum = 1600 // exhaustive 2-append sequences: (5 time points × 4 value kinds)² × 2 APIs × OOO {0,>0}

func init() {
	core.Register(&core.Prop{
		ID:        "C02",
		Title:     "Append admission and commit apply the documented ordering rules",
		Level:     "exploration",
		Technique: "decision-table runtime monitor: reference model of the admission rules vs the error class of every Append, the query result after Commit and the rejection/appended counter deltas",
		LevelText: "A model written from the property statement (appendable window max(headMaxT−chunkRange/2, minValidTime) and out-of-order window frozen when the appender is created – at its first Append on a never-initialised head –, per series the newest in-order sample with type and value, bit-identical re-append = no-op, commit replays the accepted samples per series in append order under the same frozen windows) predicts for every Append the error class (nil / out-of-bounds / out-of-order / too-old / duplicate), after every Commit/Rollback the exact stored set (full-range query) and the deltas of prometheus_tsdb_{out_of_order,too_old,out_of_bound}_samples_total and head_samples_appended_total. Inputs: cases 0–1599 enumerate ALL 2-append transactions over a 5-point time grid (below both windows / below the appendable window inside the OOO window / newest−1 / newest / newest+1) × 4 value kinds (float, int histogram, float histogram, StaleNaN) × {Appender, AppenderV2} × OOO window {0, >0}; the other cases are generated: 1–3 series, 1–4 transactions of 1–8 appends (sometimes two interleaved appenders, sometimes rolled back, sometimes a DB.Compact between transactions), timestamps around every window edge, equal and different values at equal timestamps, staleness markers of every type, SetOptions{DiscardOutOfOrder} / AOptions{RejectOutOfOrder}, isolation on/off, fresh (never initialised) heads. The model's window is cross-checked against Head.AppendableMinValidTime(). Held on the observed transactions only.",
		LevelNote: "Where the statement leaves the class open the model accepts every class it allows and follows the observed one: (a) reject option + sample older than the OOO window: too-old or out-of-order; (b) reject option on v1 AppendHistogram (not in the interface docs): rejected or accepted; (c) a sample at the timestamp of the newest in-order sample that lies below the appendable window: window rule or duplicate rule; (d) staleness markers compared across sample types (float marker vs histogram series and the reverse): identical or different; (e) a sample that becomes out-of-order only at commit while the reject option is set: stored or dropped; (f) after a transaction with the known marker-reorder pattern, whatever a reordered replay would have stored at that transaction's timestamps is allowed-not-required (its effect can stay hidden until a compaction). Cross-series commit order is not checked. Counters are only compared for transactions without such open cases. Bit-identical histograms are produced as copies of one object (no layout-only variants).",
		DesignRef: "DESIGN.md §5 C02",
		Rule:      "case = one transaction set against a fresh DB; non-trivial iff ≥1 Append verdict was predicted with a single allowed class and ≥1 commit was followed by a stored-set comparison with ≥1 sample; distinct by (config, rendered append list) hash",
		Cases: func(variant string, tier core.Tier) int {
			if variant != "default" {
				return 0
			}
			if tier == core.Thorough {
				return nEnum + 100000
			}
			return nEnum + 2000
		},
		Run:            run,
		MinNontrivial:  func(t core.Tier) int { return 1500 },
		CaseTimeoutSec: 120,
	})
}

// ---------------------------------------------------------------- values

type val struct {
	kind  string // f | h | fh
	stale bool
	f     float64
	h     *histogram.Histogram
	fh    *histogram.FloatHistogram
	key   string
}

func (v val) String() string {
	if v.stale {
		return v.kind + "stale"
	}
	return v.kind + ":" + short(v.key)
}

func short(k string) string {
	if len(k) > 14 {
		return fmt.Sprintf("%s#%x", k[:2], hash(k))
	}
	return k
}

func hash(s string) uint32 {
	h := uint32(2166136261)
	for i := 0; i < len(s); i++ {
		h = (h ^ uint32(s[i])) * 16777619
	}
	return h
}

func mkVal(kind string, stale bool, f float64, h *histogram.Histogram, fh *histogram.FloatHistogram) val {
	v := val{kind: kind, stale: stale, f: f, h: h, fh: fh}
	v.key = tsdbx.Sample{Kind: kind, F: f, H: h, FH: fh}.ValKey()
	return v
}

var staleKeys = []string{
	tsdbx.Sample{Kind: "f", F: math.Float64frombits(value.StaleNaN)}.ValKey(),
	tsdbx.Sample{Kind: "h", H: gen.StaleHist()}.ValKey(),
	tsdbx.Sample{Kind: "fh", FH: gen.StaleFloatHist()}.ValKey(),
}

func (v val) allowedKeys() []string {
	if v.stale {
		return staleKeys // a marker is stored in the type of the series' newest sample
	}
	return []string{v.key}
}

// same: is b a bit-identical re-append of a?  third result: the statement leaves it open
// (markers compared across types).
func same(a, b val, histContext bool) (eq, open bool) {
	if a.stale || b.stale {
		// markers are converted to the type of the series' / the appender's previous sample:
		// only the pure float case is determined by the statement
		pureFloat := a.kind == "f" && b.kind == "f" && !histContext
		if a.stale && b.stale {
			return true, !pureFloat
		}
		return false, !pureFloat && a.stale != b.stale && false
	}
	return a.kind == b.kind && a.key == b.key, false
}

// pool of values per series: index equality = bit identity.
type pool struct{ vals []val }

func newPool(r *rand.Rand) *pool {
	p := &pool{}
	for i := 0; i < 3; i++ {
		p.vals = append(p.vals, mkVal("f", false, float64(1+i)+float64(r.IntN(3))*0.25, nil, nil))
	}
	if r.IntN(8) == 0 {
		p.vals[2] = mkVal("f", false, gen.Float(r, false), nil, nil)
	}
	for i := 0; i < 2; i++ {
		a := gen.NewAbsHist(r, true)
		a.Sum = float64(100 + i)
		p.vals = append(p.vals, mkVal("h", false, 0, a.Int(nil), nil))
		b := gen.NewAbsHist(r, true)
		b.Sum = float64(200 + i)
		p.vals = append(p.vals, mkVal("fh", false, 0, nil, b.Float(nil)))
	}
	p.vals = append(p.vals,
		mkVal("f", true, math.Float64frombits(value.StaleNaN), nil, nil),
		mkVal("f", true, math.Float64frombits(value.StaleNaN), nil, nil),
		mkVal("h", true, 0, gen.StaleHist(), nil),
		mkVal("fh", true, 0, nil, gen.StaleFloatHist()))
	return p
}

func (p *pool) ofKind(r *rand.Rand, kind string) val {
	var c []val
	for _, v := range p.vals {
		switch kind {
		case "stale":
			if v.stale && v.kind == "f" {
				c = append(c, v)
			}
		default:
			if !v.stale && v.kind == kind {
				c = append(c, v)
			}
		}
	}
	return c[r.IntN(len(c))]
}

// ---------------------------------------------------------------- model

type seriesState struct {
	everHist bool // a histogram-typed sample was ever accepted by an Append for this series
	has      bool
	t        int64
	v        val
}

type model struct {
	R, O     int64
	headInit bool
	headMax  int64
	minValid int64
	series   map[int]*seriesState
	stored   tsdbx.Expect
	optional tsdbx.Expect // allowed, not required (open case e)
	labels   []labels.Labels
}

type pending struct {
	series int
	t      int64
	v      val
	reject bool
}

type appModel struct {
	frozen      bool
	W, headMax  int64
	reject      bool
	accepted    []pending
	open        bool // some verdict of this transaction was an open case: counters not compared
	wantOOO     int
	wantOOB     int
	wantTooOld  int
	sameTsDrops int // samples dropped at commit because the newest in-order sample has their timestamp (no-op or duplicate)
	oooSameTs   int // out-of-order samples onto a timestamp the series already has (the OOO chunk drops duplicate timestamps)
}

func (m *model) clone() *model {
	c := *m
	c.series = map[int]*seriesState{}
	for k, v := range m.series {
		x := *v
		c.series[k] = &x
	}
	c.stored = m.stored.Clone()
	c.optional = m.optional.Clone()
	return &c
}

func (a *appModel) cloneWith(accepted []pending) *appModel {
	c := *a
	c.accepted = accepted
	c.wantOOO, c.wantOOB, c.wantTooOld, c.sameTsDrops, c.oooSameTs = 0, 0, 0, 0, 0
	return &c
}

// markerReorders: alternative replay orders in which a float staleness marker is replayed behind
// later samples of the same series of the same transaction (used only to classify a stored-set
// disagreement under a narrow kind, never to accept it).
func markerReorders(acc []pending) [][]pending {
	isMarker := func(p pending) bool { return p.v.stale && p.v.kind == "f" }
	// breadth-first over "move one float marker behind a later sample of its series"
	// (capped; a transaction has at most 8 appends)
	type state []int
	key := func(st state) string { return fmt.Sprint([]int(st)) }
	start := make(state, len(acc))
	for i := range start {
		start[i] = i
	}
	seen := map[string]bool{key(start): true}
	queue := []state{start}
	var out [][]pending
	for len(queue) > 0 && len(seen) < 3000 {
		cur := queue[0]
		queue = queue[1:]
		for a := 0; a < len(cur); a++ {
			if !isMarker(acc[cur[a]]) {
				continue
			}
			for b := a + 1; b < len(cur); b++ {
				if acc[cur[b]].series != acc[cur[a]].series {
					continue
				}
				nx := make(state, 0, len(cur))
				nx = append(nx, cur[:a]...)
				nx = append(nx, cur[a+1:b+1]...)
				nx = append(nx, cur[a])
				nx = append(nx, cur[b+1:]...)
				if k := key(nx); !seen[k] {
					seen[k] = true
					queue = append(queue, nx)
					o := make([]pending, len(nx))
					for i, idx := range nx {
						o[i] = acc[idx]
					}
					out = append(out, o)
				}
			}
		}
	}
	return out
}

func (m *model) window() int64 {
	w := m.headMax - m.R/2
	if m.minValid > w {
		w = m.minValid
	}
	return w
}

func (m *model) freeze(a *appModel) {
	a.frozen = true
	a.W, a.headMax = m.window(), m.headMax
}

// decide returns the classes the statement allows for appending (t,v) to a series whose newest
// in-order sample is st, under the frozen windows.  The first element is the expected class
// when only one is allowed.
func (m *model) decide(st *seriesState, a *appModel, t int64, v val, reject, v1hist, histContext bool) (allowed []string) {
	add := func(c ...string) {
		for _, x := range c {
			dup := false
			for _, y := range allowed {
				dup = dup || x == y
			}
			if !dup {
				allowed = append(allowed, x)
			}
		}
	}
	// not admissible to the in-order path: below the appendable window or behind the newest sample
	windowRule := func() {
		switch {
		case m.O == 0 && t < a.W:
			add("out-of-bounds")
		case m.O == 0:
			add("out-of-order")
		case t >= a.headMax-m.O: // inside the out-of-order window
			if reject {
				add("out-of-order")
				if v1hist {
					add("nil") // open case (b)
				}
			} else {
				add("nil")
			}
		default:
			add("too-old")
			if reject {
				add("out-of-order") // open case (a)
			}
		}
	}
	dupRule := func() {
		eq, open := same(st.v, v, histContext)
		if open {
			add("nil", "duplicate") // open case (d)
		} else if eq {
			add("nil")
		} else {
			add("duplicate")
		}
	}
	switch {
	case st.has && t == st.t && t >= a.W:
		dupRule()
	case st.has && t == st.t: // open case (c)
		windowRule()
		dupRule()
	case t >= a.W && (!st.has || t > st.t):
		add("nil")
	default:
		windowRule()
	}
	return allowed
}

// commit replays the accepted samples per series in append order.
func (m *model) commit(a *appModel) {
	for _, p := range a.accepted {
		st := m.series[p.series]
		k := m.labels[p.series].String()
		switch {
		case st.has && p.t == st.t && p.t >= a.W:
			// identical: no-op; different: dropped as duplicate
			a.sameTsDrops++
		case p.t >= a.W && (!st.has || p.t > st.t):
			for _, vk := range p.v.allowedKeys() {
				m.stored.Add(k, p.t, vk)
			}
			nv := p.v
			if nv.stale && nv.kind == "f" && st.has && st.v.kind != "f" {
				// a float marker is stored as a marker of the series' current (histogram) type
				if st.v.kind == "h" {
					nv = mkVal("h", true, 0, gen.StaleHist(), nil)
				} else {
					nv = mkVal("fh", true, 0, nil, gen.StaleFloatHist())
				}
			}
			st.has, st.t, st.v = true, p.t, nv
			if !m.headInit || p.t > m.headMax {
				m.headMax = p.t
			}
			m.headInit = true
		case m.O > 0 && p.t >= a.headMax-m.O:
			// stored out-of-order, "exactly as if it had been appended separately"
			if m.stored[k][p.t] != nil || m.optional[k][p.t] != nil {
				a.oooSameTs++
			}
			target := m.stored
			if p.reject {
				target = m.optional // open case (e)
				a.open = true
			}
			for _, vk := range p.v.allowedKeys() {
				target.Add(k, p.t, vk)
			}
		case m.O > 0:
			a.wantTooOld++
		case p.t < a.W:
			a.wantOOB++
		default:
			a.wantOOO++
		}
	}
}

// ---------------------------------------------------------------- real side

type realApp struct {
	v2       bool
	a1       storage.Appender
	a2       storage.AppenderV2
	reject   bool
	isolated bool
}

func (ra *realApp) append(ls labels.Labels, t int64, v val) error {
	// the head may grow histogram objects in place: always hand over a private copy
	var h *histogram.Histogram
	var fh *histogram.FloatHistogram
	if v.h != nil {
		h = v.h.Copy()
	}
	if v.fh != nil {
		fh = v.fh.Copy()
	}
	if ra.v2 {
		_, err := ra.a2.Append(0, ls, 0, t, v.f, h, fh, storage.AOptions{RejectOutOfOrder: ra.reject})
		return err
	}
	if v.kind == "f" {
		_, err := ra.a1.Append(0, ls, t, v.f)
		return err
	}
	_, err := ra.a1.AppendHistogram(0, ls, t, h, fh)
	return err
}

func (ra *realApp) commit() error {
	if ra.v2 {
		return ra.a2.Commit()
	}
	return ra.a1.Commit()
}

func (ra *realApp) rollback() error {
	if ra.v2 {
		return ra.a2.Rollback()
	}
	return ra.a1.Rollback()
}

type counters struct{ ooo, oob, tooOld, appended float64 }

func readCounters(reg *prometheus.Registry) counters {
	mfs, err := reg.Gather()
	core.Must(err, "gather")
	return counters{
		ooo:      tsdbhist.SumMetric(mfs, "prometheus_tsdb_out_of_order_samples_total"),
		oob:      tsdbhist.SumMetric(mfs, "prometheus_tsdb_out_of_bound_samples_total"),
		tooOld:   tsdbhist.SumMetric(mfs, "prometheus_tsdb_too_old_samples_total"),
		appended: tsdbhist.SumMetric(mfs, "prometheus_tsdb_head_samples_appended_total"),
	}
}

// ---------------------------------------------------------------- case

type cfg struct {
	R, O       int64
	v2         bool
	isoOff     bool
	nSeries    int
	base       int64
	compaction bool
}

func (c cfg) String() string {
	return fmt.Sprintf("range=%d ooo=%d v2=%v iso=%v series=%d base=%d compaction=%v", c.R, c.O, c.v2, !c.isoOff, c.nSeries, c.base, c.compaction)
}

type harness struct {
	c     *core.Case
	cfg   cfg
	db    *tsdb.DB
	reg   *prometheus.Registry
	m     *model
	pools []*pool
	log   []string
	// stats
	single, openVerdicts, storedChecks, counterChecks int
	storedSamplesChecked                              int
	markerReorderSeen                                 int
	lastCompared                                      int
}

func (h *harness) logf(format string, args ...any) {
	s := fmt.Sprintf(format, args...)
	h.log = append(h.log, s)
	h.c.Logf("%s", s)
}

func (h *harness) history() string {
	s := strings.Join(h.log, " ; ")
	if len(s) > 4000 {
		s = "… " + s[len(s)-4000:]
	}
	return s
}

type tx struct {
	ra *realApp
	am *appModel
	c0 counters
	// append-time rejections observed, by class
	gotOOO, gotOOB, gotTooOld int
	createdOnFreshHead        bool
}

func (h *harness) begin(reject bool) *tx {
	ctx := context.Background()
	t := &tx{ra: &realApp{v2: h.cfg.v2, reject: reject}, am: &appModel{reject: reject}}
	t.c0 = readCounters(h.reg)
	if h.cfg.v2 {
		t.ra.a2 = h.db.AppenderV2(ctx)
	} else {
		t.ra.a1 = h.db.Appender(ctx)
		if reject {
			t.ra.a1.SetOptions(&storage.AppendOptions{DiscardOutOfOrder: true})
		}
	}
	t.createdOnFreshHead = !h.m.headInit
	if h.m.headInit {
		h.m.freeze(t.am)
		// cross-check the model's window with the head's own (witness names both numbers)
		if got, ok := h.db.Head().AppendableMinValidTime(); !ok || got != t.am.W {
			h.c.Violatef("window-mismatch", "config {%s}: model window = max(headMaxT %d − %d/2, minValid %d) = %d but Head.AppendableMinValidTime() = %d (initialised=%v)\nhistory: %s", h.cfg, h.m.headMax, h.m.R, h.m.minValid, t.am.W, got, ok, h.history())
		}
	}
	h.logf("begin(reject=%v)", reject)
	return t
}

func (h *harness) doAppend(t *tx, si int, ts int64, v val) {
	m := h.m
	if !t.am.frozen {
		// never-initialised head: the first Append of this appender initialises the head with
		// its timestamp (if nobody did before) and takes the windows then
		if !m.headInit {
			m.headInit, m.headMax = true, ts
		}
		m.freeze(t.am)
	}
	st := m.series[si]
	// open case (b): v1 AppendHistogram has no reject option in the docs; a float marker for a
	// histogram series is a histogram append
	// staleness markers are stored in the type of the series' / the appender's previous sample;
	// which one is not determined by the statement once the series has seen histograms
	histContext := st.everHist
	allowed := m.decide(st, t.am, ts, v, t.am.reject, !h.cfg.v2 && (v.kind != "f" || v.stale), histContext)
	err := t.ra.append(m.labels[si], ts, v)
	got := tsdbhist.ErrClass(err)
	h.logf("s%d@%d(%s)=%s", si, ts, v, got)
	ok := false
	for _, a := range allowed {
		ok = ok || a == got
	}
	if len(allowed) == 1 {
		h.single++
	} else {
		h.openVerdicts++
		t.am.open = true
	}
	h.c.Seen("verdict", got)
	if !ok {
		stDesc := "none"
		if st.has {
			stDesc = fmt.Sprintf("t=%d %s", st.t, st.v)
		}
		kind := fmt.Sprintf("verdict:expected-%s-got-%s", strings.Join(allowed, "|"), strings.SplitN(got, ":", 2)[0])
		if !h.cfg.v2 && t.am.reject && t.createdOnFreshHead && got == "nil" && len(allowed) == 1 && allowed[0] == "out-of-order" {
			kind = "v1-discard-out-of-order-option-lost-on-never-initialised-head"
		}
		h.c.Violatef(kind,
			"config {%s}: Append(s%d, t=%d, %s, reject=%v) returned %q, the rules allow %v\nnewest in-order sample of the series: %s; frozen window W=%d headMaxT=%d OOO window=%d (lower edge %d)\nhistory: %s",
			h.cfg, si, ts, v, t.am.reject, got, allowed, stDesc, t.am.W, t.am.headMax, m.O, t.am.headMax-m.O, h.history())
	}
	switch got {
	case "nil":
		if v.kind != "f" {
			st.everHist = true
		}
		t.am.accepted = append(t.am.accepted, pending{series: si, t: ts, v: v, reject: t.am.reject})
	case "out-of-order":
		t.gotOOO++
	case "out-of-bounds":
		t.gotOOB++
	case "too-old":
		t.gotTooOld++
	}
}

func (h *harness) end(t *tx, rollback bool) bool {
	if rollback {
		h.logf("rollback")
		if err := t.ra.rollback(); err != nil {
			h.c.Violatef("operation-failed:Rollback", "config {%s}: Rollback: %v\nhistory: %s", h.cfg, err, h.history())
			return false
		}
		t.am.accepted = nil
	} else {
		h.logf("commit")
		if err := t.ra.commit(); err != nil {
			h.c.Violatef("operation-failed:Commit", "config {%s}: Commit: %v\nhistory: %s", h.cfg, err, h.history())
			return false
		}
		alts := markerReorders(t.am.accepted)
		if len(alts) > 0 {
			t.am.open = true // counters: the order in which such a marker is replayed is a known deviation
		}
		base := h.m.clone()
		defer func() {
			// Known deviation (float marker replayed behind later samples of its series): its effect
			// can stay invisible until a compaction merges an out-of-order copy.  Whatever any such
			// reordered replay would have stored at the timestamps of this transaction is allowed,
			// not required, from now on.
			for _, alt := range alts {
				m2 := base.clone()
				m2.commit(t.am.cloneWith(alt))
				for _, p := range alt {
					k := h.m.labels[p.series].String()
					for _, src := range []tsdbx.Expect{m2.stored, m2.optional} {
						for v := range src[k][p.t] {
							if h.m.stored[k][p.t] != nil {
								h.m.stored.Add(k, p.t, v)
							} else {
								h.m.optional.Add(k, p.t, v)
							}
						}
					}
				}
			}
		}()
		h.m.commit(t.am)
		if diff := h.diffStored(h.m); diff != "" {
			for _, alt := range alts {
				m2, am2 := base.clone(), t.am.cloneWith(alt)
				m2.commit(am2)
				if h.diffStored(m2) == "" {
					h.c.Violatef("float-stale-marker-committed-behind-later-sample-of-same-series", "config {%s}: the stored set after Commit is not the one of replaying the series' accepted samples in append order (%s) but equals the one obtained when a float staleness marker is replayed BEHIND later samples of the same series of the same transaction\nhistory: %s", h.cfg, diff, h.history())
					h.m = m2
					t.am = am2
					t.am.open = true
					h.markerReorderSeen++
					break
				}
			}
		}
	}
	// counters (weak form – the statement does not define them): the three rejection counters
	// together grow by at least the rejections returned by Append and by at most those plus
	// the samples the model dropped at commit.
	if !t.am.open && !rollback {
		c1 := readCounters(h.reg)
		h.counterChecks++
		got := (c1.ooo - t.c0.ooo) + (c1.oob - t.c0.oob) + (c1.tooOld - t.c0.tooOld)
		lo := float64(t.gotOOO + t.gotOOB + t.gotTooOld)
		hi := lo + float64(t.am.wantOOO+t.am.wantOOB+t.am.wantTooOld+t.am.sameTsDrops)
		if got < lo || got > hi {
			h.c.Violatef("counter-mismatch:rejections-total", "config {%s}: out_of_order+out_of_bound+too_old samples_total grew by %v over the transaction, expected between %v (rejected by Append: ooo=%d oob=%d too-old=%d) and %v (plus dropped at commit by the model: ooo=%d oob=%d too-old=%d same-timestamp=%d)\nhistory: %s", h.cfg, got, lo, t.gotOOO, t.gotOOB, t.gotTooOld, hi, t.am.wantOOO, t.am.wantOOB, t.am.wantTooOld, t.am.sameTsDrops, h.history())
		}
		// what the commit appended = accepted − dropped
		wantApp := float64(len(t.am.accepted) - (t.am.wantOOO + t.am.wantOOB + t.am.wantTooOld + t.am.sameTsDrops))
		if gotApp := c1.appended - t.c0.appended; gotApp > wantApp || gotApp < wantApp-float64(t.am.oooSameTs) {
			h.c.Violatef("counter-mismatch:samples-appended", "config {%s}: head_samples_appended_total grew by %v, the model stored %v of the %d accepted samples\nhistory: %s", h.cfg, gotApp, wantApp, len(t.am.accepted), h.history())
		}
	}
	return h.checkStored()
}

// diffStored queries the full range and compares with model m ("" = equal).
func (h *harness) diffStored(m *model) string {
	q, err := h.db.Querier(math.MinInt64, math.MaxInt64)
	if err != nil {
		return "query-error: Querier: " + err.Error()
	}
	defer q.Close()
	d, _, err := tsdbx.DumpQuerier(q)
	if err != nil {
		return "query-error: Select: " + err.Error()
	}
	eff := m.stored
	if len(m.optional) > 0 {
		eff = m.stored.Clone()
		for k, ts := range m.optional {
			obs := map[int64]string{}
			for _, s := range d[k] {
				obs[s.T] = s.ValKey()
			}
			for t, vals := range ts {
				if v, ok := obs[t]; ok && vals[v] {
					eff.Add(k, t, v)
				}
			}
		}
	}
	h.lastCompared = eff.NumSamples()
	return tsdbx.Compare(eff, d, math.MinInt64, math.MaxInt64)
}

func (h *harness) checkStored() bool {
	diff := h.diffStored(h.m)
	h.storedChecks++
	h.storedSamplesChecked += h.lastCompared
	if diff != "" {
		kind := "stored-set:query-error"
		switch {
		case strings.Contains(diff, "missing sample"):
			kind = "stored-set:missing-sample"
		case strings.Contains(diff, "unexpected sample"):
			kind = "stored-set:unexpected-sample"
		case strings.Contains(diff, "wrong value"):
			kind = "stored-set:wrong-value"
		case strings.Contains(diff, "not strictly increasing"):
			kind = "stored-set:duplicate-or-disorder"
		}
		h.c.Violatef(kind, "config {%s}: after the last commit/rollback the full-range query disagrees with the model: %s\nhistory: %s", h.cfg, diff, h.history())
		return false
	}
	return true
}

func run(c *core.Case) {
	r := c.Rng
	var cf cfg
	enum := c.Idx < nEnum
	if enum {
		cf = cfg{R: 200, nSeries: 2, base: 0}
		if (c.Idx/800)%2 == 1 {
			cf.O = 300
		}
		cf.v2 = (c.Idx/400)%2 == 1
	} else {
		cf = cfg{
			R:          gen.Pick(r, []int64{100, 1000}),
			O:          gen.Pick(r, []int64{0, 0, 40, 300, 2500}),
			v2:         r.IntN(2) == 0,
			isoOff:     r.IntN(4) == 0,
			nSeries:    1 + r.IntN(3),
			compaction: r.IntN(5) == 0,
		}
		switch r.IntN(4) {
		case 0:
			cf.base = -5000
		case 1:
			cf.base = 0
		default:
			cf.base = 1_000_000
		}
	}
	opts := tsdb.DefaultOptions()
	opts.MinBlockDuration = cf.R
	opts.MaxBlockDuration = cf.R
	opts.RetentionDuration = 0
	opts.OutOfOrderTimeWindow = cf.O
	opts.OutOfOrderCapMax = 8
	opts.IsolationDisabled = cf.isoOff
	opts.NoLockfile = true
	opts.EnableOverlappingCompaction = false // keeps the out-of-order hint of blocks (no merges)
	opts.WALSegmentSize = 64 * 1024
	reg := prometheus.NewRegistry()
	db, err := tsdb.Open(c.TempDir(), tsdbx.NopLogger(), reg, opts, nil)
	core.Must(err, "open db")
	db.DisableCompactions()
	defer db.Close()

	h := &harness{c: c, cfg: cf, db: db, reg: reg}
	h.m = &model{R: cf.R, O: cf.O, minValid: math.MinInt64, series: map[int]*seriesState{}, stored: tsdbx.Expect{}, optional: tsdbx.Expect{}, labels: gen.SimpleSeries(cf.nSeries)}
	for i := 0; i < cf.nSeries; i++ {
		h.m.series[i] = &seriesState{}
		h.pools = append(h.pools, newPool(r))
	}
	if enum {
		runEnum(h, r)
	} else {
		runRandom(h, r)
	}
	c.Count("append_verdicts_single_class", int64(h.single))
	c.Count("append_verdicts_open_class", int64(h.openVerdicts))
	c.Count("stored_set_checks", int64(h.storedChecks))
	c.Count("stored_samples_compared", int64(h.storedSamplesChecked))
	c.Count("counter_checks", int64(h.counterChecks))
	c.Count("marker_reorders_seen", int64(h.markerReorderSeen))
	if h.single > 0 && h.storedChecks > 0 && h.m.stored.NumSamples() > 0 {
		c.Nontrivial(cf.String(), strings.Join(h.log, ";"))
	}
	if c.Idx%800 == 3 || c.Idx == nEnum+1 {
		c.Sample(map[string]any{"config": cf.String(), "transactions": h.history()})
	}
}

// runEnum: series 1 pins headMaxT = 1000 (window W = 900, OOO lower edge 700 when enabled);
// series 0 has its newest in-order sample at 950; then ONE transaction with two appends to
// series 0, enumerated over time grid × value kind.
func runEnum(h *harness, r *rand.Rand) {
	grid := []int64{600, 850, 949, 950, 951}
	kinds := []string{"f", "h", "fh", "stale"}
	i := h.c.Idx % 400
	a1, a2 := i/20, i%20
	// the committed newest sample of series 0: the kind rotates with the case so that every
	// (previous type × new type) pair is met
	prevKind := kinds[r.IntN(3)]
	t := h.begin(false)
	prev := h.pools[0].ofKind(r, prevKind)
	h.doAppend(t, 0, 950, prev)
	h.doAppend(t, 1, 1000, h.pools[1].ofKind(r, "f"))
	if !h.end(t, false) {
		return
	}
	t = h.begin(false)
	for _, a := range []int{a1, a2} {
		ts, kind := grid[a/4], kinds[a%4]
		v := h.pools[0].ofKind(r, kind)
		if ts == 950 && kind == prev.kind && !prev.stale && r.IntN(2) == 0 {
			v = prev // bit-identical re-append
		}
		h.doAppend(t, 0, ts, v)
	}
	h.end(t, false)
}

func runRandom(h *harness, r *rand.Rand) {
	m := h.m
	cf := h.cfg
	ntx := 1 + r.IntN(4)
	clock := cf.base
	pickTime := func(si int, a *appModel) int64 {
		st := m.series[si]
		var cands []int64
		if st.has {
			cands = append(cands, st.t, st.t, st.t+1, st.t-1, st.t+1+int64(r.IntN(20)))
		}
		if a.frozen {
			cands = append(cands, a.W, a.W-1, a.W+1, a.headMax, a.headMax+1, a.headMax+int64(r.IntN(int(cf.R))))
			if cf.O > 0 {
				cands = append(cands, a.headMax-cf.O, a.headMax-cf.O-1, a.headMax-cf.O+1, a.headMax-cf.O/2)
			}
			cands = append(cands, a.headMax-3*cf.R-cf.O)
			if a.headMax > 0 {
				// far below every window, where headMax-t no longer fits an int64
				cands = append(cands, math.MinInt64+r.Int64N(a.headMax+2), gen.Pick(r, []int64{math.MinInt64, math.MinInt64 + a.headMax, -math.MaxInt64 / 2}))
			}
		}
		cands = append(cands, clock, clock+1+int64(r.IntN(10)), clock+cf.R/2, clock+cf.R+3)
		return cands[r.IntN(len(cands))]
	}
	pickVal := func(si int) val {
		p := h.pools[si]
		st := m.series[si]
		switch x := r.IntN(10); {
		case x < 2 && st.has:
			return st.v // bit-identical to the newest sample
		case x < 4:
			return p.ofKind(r, "stale")
		case x == 4:
			return p.vals[len(p.vals)-1-r.IntN(2)] // typed histogram marker
		}
		return p.vals[r.IntN(len(p.vals)-4)]
	}
	for ti := 0; ti < ntx; ti++ {
		reject := r.IntN(4) == 0
		t := h.begin(reject)
		var t2 *tx
		if r.IntN(5) == 0 {
			t2 = h.begin(r.IntN(4) == 0)       // a second, interleaved appender
			t.am.open, t2.am.open = true, true // their counter windows overlap
		}
		n := 1 + r.IntN(8)
		for i := 0; i < n; i++ {
			cur := t
			if t2 != nil && r.IntN(3) == 0 {
				cur = t2
			}
			si := r.IntN(cf.nSeries)
			ts := pickTime(si, cur.am)
			h.doAppend(cur, si, ts, pickVal(si))
			if ts > clock {
				clock = ts
			}
		}
		first, second := t, t2
		if t2 != nil && r.IntN(2) == 0 {
			first, second = t2, t
		}
		if !h.end(first, r.IntN(8) == 0) {
			return
		}
		if second != nil {
			if !h.end(second, r.IntN(8) == 0) {
				return
			}
		}
		if cf.compaction && ti < ntx-1 && r.IntN(2) == 0 {
			h.logf("compact")
			if err := h.db.Compact(context.Background()); err != nil {
				h.c.Violatef("operation-failed:Compact", "config {%s}: Compact: %v\nhistory: %s", cf, err, h.history())
				return
			}
			// samples must stay ahead of the persisted blocks
			for _, b := range h.db.Blocks() {
				if meta := b.Meta(); meta.Compaction.FromOutOfOrder() {
					continue // blocks cut from out-of-order data do not move the in-order boundary
				}
				if mt := b.Meta().MaxTime; mt > m.minValid {
					m.minValid = mt
				}
			}
			if !h.checkStored() {
				return
			}
		}
	}
}
