// Package walscan decodes a WAL directory (last checkpoint + following segments) into the record
// stream in replay order, using only the exported wlog reader and record decoder.  Shared by the
// C48 (agent WAL model) and C15 (truncation keeps what replay needs) monitors.
package walscan

import (
	"errors"
	"fmt"
	"os"

	"github.com/prometheus/prometheus/tsdb/record"
	"github.com/prometheus/prometheus/tsdb/tombstones"
	"github.com/prometheus/prometheus/tsdb/wlog"

	"github.com/prometheus/prometheus/model/labels"

	"verif/internal/tsdbx"
)

// Rec is one decoded WAL record.  Loc is -1 for records of the checkpoint, otherwise the index of
// the segment the record was read from.
type Rec struct {
	Loc        int
	Type       record.Type
	Series     []record.RefSeries
	Samples    []record.RefSample
	Hists      []record.RefHistogramSample
	FHists     []record.RefFloatHistogramSample
	Exemplars  []record.RefExemplar
	Tombstones []tombstones.Stone
	Metadata   []record.RefMetadata
	Mmap       []record.RefMmapMarker
}

// Scan is the decoded log in replay order.
type Scan struct {
	Recs        []Rec
	Checkpoint  int // index of the checkpoint that was read, -1 if none
	First, Last int // segment range present in the directory (-1,-1 when empty)
	Unknown     int // records of unknown type (skipped)
}

// Read decodes <dir>: the newest checkpoint first, then every segment with an index above the
// checkpoint's (the documented replay order).  Any read or decode error is returned.
func Read(dir string) (*Scan, error) {
	s := &Scan{Checkpoint: -1}
	dec := record.NewDecoder(labels.NewSymbolTable(), tsdbx.NopLogger())
	cpDir, idx, err := wlog.LastCheckpoint(dir)
	if err != nil && !errors.Is(err, record.ErrNotFound) {
		return nil, fmt.Errorf("last checkpoint: %w", err)
	}
	from := 0
	if err == nil {
		s.Checkpoint = idx
		from = idx + 1
		sr, err := wlog.NewSegmentsReader(cpDir)
		if err != nil {
			return nil, fmt.Errorf("open checkpoint: %w", err)
		}
		rerr := s.readAll(&dec, wlog.NewReader(sr), -1)
		sr.Close()
		if rerr != nil {
			return nil, fmt.Errorf("checkpoint %d: %w", idx, rerr)
		}
	}
	first, last, err := wlog.Segments(dir)
	if err != nil {
		return nil, fmt.Errorf("segments: %w", err)
	}
	s.First, s.Last = first, last
	if first > from {
		from = first
	}
	for i := from; i <= last && last >= 0; i++ {
		seg, err := wlog.OpenReadSegment(wlog.SegmentName(dir, i))
		if err != nil {
			return nil, fmt.Errorf("open segment %d: %w", i, err)
		}
		sr := wlog.NewSegmentBufReader(seg)
		rerr := s.readAll(&dec, wlog.NewReader(sr), i)
		sr.Close()
		if rerr != nil {
			return nil, fmt.Errorf("segment %d: %w", i, rerr)
		}
	}
	return s, nil
}

func (s *Scan) readAll(dec *record.Decoder, r *wlog.Reader, loc int) error {
	for r.Next() {
		// the reader reuses its buffer; decoded labels/histograms are copies
		rec := r.Record()
		out := Rec{Loc: loc, Type: dec.Type(rec)}
		var err error
		switch out.Type {
		case record.Series:
			out.Series, err = dec.Series(rec, nil)
			for i := range out.Series {
				out.Series[i].Labels = out.Series[i].Labels.Copy()
			}
		case record.Samples, record.SamplesV2:
			out.Samples, err = dec.Samples(rec, nil)
		case record.HistogramSamples, record.CustomBucketsHistogramSamples, record.HistogramSamplesV2:
			out.Hists, err = dec.HistogramSamples(rec, nil)
		case record.FloatHistogramSamples, record.CustomBucketsFloatHistogramSamples, record.FloatHistogramSamplesV2:
			out.FHists, err = dec.FloatHistogramSamples(rec, nil)
		case record.Exemplars:
			out.Exemplars, err = dec.Exemplars(rec, nil)
			for i := range out.Exemplars {
				out.Exemplars[i].Labels = out.Exemplars[i].Labels.Copy()
			}
		case record.Tombstones:
			out.Tombstones, err = dec.Tombstones(rec, nil)
		case record.Metadata:
			out.Metadata, err = dec.Metadata(rec, nil)
		case record.MmapMarkers:
			out.Mmap, err = dec.MmapMarkers(rec, nil)
		default:
			s.Unknown++
			continue
		}
		if err != nil {
			return fmt.Errorf("decode %v record: %w", out.Type, err)
		}
		s.Recs = append(s.Recs, out)
	}
	return r.Err()
}

// CopyDir copies a WAL directory (segments and checkpoint directories) to dst.
func CopyDir(src, dst string) error {
	return os.CopyFS(dst, os.DirFS(src))
}
