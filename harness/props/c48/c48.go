// Package c48: agent-mode storage logs every accepted sample (WAL model monitor).
//
// One case = one generated history on a real agent.DB (appends through Appender and AppenderV2,
// commits, rollbacks, interleaved open appenders, truncations with series GC and checkpoints of
// both implementations, restarts).  After every step the WAL directory is decoded with the exported
// wlog/record readers in replay order (newest checkpoint, then the following segments) and compared
// with a reference written from the property statement:
//
//   - every sample/histogram/exemplar whose append call succeeded in an appender whose Commit
//     succeeded occurs in the log, after a series record for its ref carrying its labels;
//   - an append with t <= (largest committed timestamp of the series) - OutOfOrderTimeWindow fails;
//   - after VerifTruncate(mint) and after a restart, every such sample with t >= every mint used so
//     far still occurs (containment; placement after truncation is C15's subject);
//   - data of rolled-back appenders never occurs;
//   - Querier / ChunkQuerier / ExemplarQuerier fail with ErrUnsupported.
package c48

import (
	"context"
	"errors"
	"fmt"
	"math"
	"math/rand/v2"
	"path/filepath"
	"sort"
	"strings"
	"time"

	"github.com/prometheus/prometheus/model/exemplar"
	"github.com/prometheus/prometheus/model/histogram"
	"github.com/prometheus/prometheus/model/labels"
	"github.com/prometheus/prometheus/model/value"
	"github.com/prometheus/prometheus/storage"
	"github.com/prometheus/prometheus/tsdb/agent"
	"github.com/prometheus/prometheus/util/compression"

	"verif/internal/core"
	"verif/internal/gen"
	"verif/internal/tsdbx"
	"verif/props/c48/walscan"
)

const (
	kindKnownInMem     = "inmem-checkpoint-drops-samples-at-or-after-mint"
	kindKnownForeign   = "sample-logged-before-series-record-held-by-other-open-appender"
	kindKnownGCPending = "sample-committed-after-its-series-was-collected-has-no-series-record"
	kindKnownOrphanOld = "old-sample-accepted-after-last-sample-lost-its-series-record"
)

func init() {
	core.Register(&core.Prop{
		ID:        "C48",
		Title:     "Agent-mode storage logs every accepted sample",
		Level:     "exploration",
		Technique: "runtime monitor with a reference WAL model: generated agent.DB histories, WAL decoded after every step and compared with the set of accepted samples",
		LevelText: "Each case drives a real agent.DB (32 KiB segments, all three WAL compressions, both checkpoint implementations, out-of-order windows 0..1e6, 1..16 stripes, ST storage / ST zero injection on and off) through a generated history of appender sessions (Appender and AppenderV2; floats incl. hostile values and stale markers, integer/float/custom-bucket histograms, exemplars, V1 start-timestamp zero samples; in-order, boundary and out-of-order timestamps), commits, rollbacks, appenders left open across other sessions and truncations, VerifTruncate(mint) with mint at the sample-time boundaries (series GC, checkpoint, segment removal) and restarts. After every step the log is decoded in replay order with the exported wlog/record API. The reference, written from the statement: the multiset of samples whose append returned success in an appender whose Commit returned nil must occur in the log behind a series record for the same ref with the appended label set; an append not newer than the series' largest committed timestamp minus the window must fail; after truncation and after restart all accepted samples at or after the largest truncation time used so far must still occur; values unique to rolled-back appenders must never occur; the three querier constructors must return ErrUnsupported. Held on the observed histories only.",
		LevelNote: "Reductions (oracle weaker than the plan, never stronger than the statement): the placement behind a series record (with the appended labels) is demanded when the entry is logged, i.e. at its commit; after truncation and restart the statement's clause is containment, so an entry that a checkpoint left without its series record still counts as contained (that defect class is reported by C15, here only its consequence for the rejection rule); acceptance of in-window samples is not demanded (only counted); extra log entries (ST zero samples, the per-series timestamp entries of the in-memory checkpoint) are allowed; exemplars are required after commit and until a checkpoint covers their segment (the statement's truncation clause names samples only); V2 exemplars count as accepted only when the call returned no partial error, the sample was not a stale marker and the exemplar is not a generated duplicate; the rejection obligation of a series is dropped when a truncation time exceeds its last committed timestamp (the series may have been garbage collected) and is only raised by samples appended and committed without a truncation in between. Trusted: wlog.Reader / record.Decoder as the log observer (C13/C14 check them). The running background truncation loop is not exercised (TruncateFrequency 2h); truncation runs through the VerifTruncate export.",
		DesignRef: "DESIGN.md §5 C48",
		Rule:      "case = one history of 25-70 steps over 4-12 label sets; non-trivial iff at least one committed accepted sample was verified in the log, at least one truncation created a checkpoint, and a restart after a checkpoint re-verified at least one required sample; distinct by the hash of the configuration and the step trace",
		Assumptions: []string{
			"replay order = newest checkpoint, then segments above its index (wlog documentation)",
			"a caller passes either ref 0 or the ref last returned for the same label set in the same process lifetime",
		},
		Cases: func(variant string, tier core.Tier) int {
			if variant != "default" {
				return 0
			}
			if tier == core.Thorough {
				return 5000
			}
			return 240
		},
		Run:            run,
		MinNontrivial:  func(t core.Tier) int { return 60 },
		CaseTimeoutSec: 300,
	})
}

type cfg struct {
	Window  int64
	InMem   bool
	Batch   int
	STStore bool
	STZero  bool
	Stripe  int
	Comp    compression.Type
}

type ser struct {
	ls           labels.Labels
	canon        string // rendering of ls without empty-valued labels
	ref          storage.SeriesRef
	last         int64
	hasLast      bool
	lastOrphaned bool // the log holds the last committed sample only without a preceding series record
	weak         bool // ... and the database was restarted in that state: the in-memory series may carry a lower timestamp
	hk           int  // 0 float, 1 int hist, 2 float hist, 3 mixed
	abs          *gen.AbsHist
}

type item struct {
	s     *ser
	ref   uint64
	t     int64
	val   string
	ex    bool
	epoch int  // number of truncations before the append call
	gcHit bool // a truncation time above the series' last committed timestamp ran while the item was pending
}

type session struct {
	id    int
	v2    bool
	a     storage.Appender
	a2    storage.AppenderV2
	items []item            // definitely accepted
	uniq  map[string]string // value keys unique to this session -> description
	fresh map[uint64]bool   // refs first returned to this session (it holds their series record)
}

type need struct {
	ref    uint64
	t      int64
	val    string
	canon  string
	ex     bool
	n      int
	placed int // how many of n were already verified behind their series record at commit time
	s      *ser
	// provenance for the narrow known-finding predicates
	gcHit   bool // a truncation time above the series' last committed timestamp ran between the append call and the commit
	foreign bool // committed while the series record of ref was still pending in another open appender
}

type index struct {
	scan   *walscan.Scan
	good   map[string]int   // key4: occurrences behind a series record (ref, canon)
	allLoc map[string][]int // key3: locations of all occurrences
	anyRec map[string]int   // key3: occurrences behind any series record for ref
	orphan map[string]int   // key3: occurrences with no earlier series record for ref
	vals   map[string]bool  // all value keys present
	refs   map[uint64]bool  // refs that have a series record
	nSamp  int
}

type hist struct {
	c   *core.Case
	r   *rand.Rand
	cfg cfg
	dir string
	db  *agent.DB

	series []*ser
	now    int64
	uid    int64

	need      map[string]*need
	rolled    map[string]string
	maxMint   int64
	hasMint   bool
	truncs    int
	prev      *index
	open      []*session
	nextSID   int
	pending   map[uint64]int // ref -> session id that holds the not yet logged series record
	knownRefs map[uint64]bool

	trace []string
	stop  bool

	verifiedCommitted int
	checkpoints       int
	restartAfterCp    bool
	restartVerified   int
	knownReported     map[string]bool
}

func k3(ref uint64, t int64, val string) string { return fmt.Sprintf("%d|%d|%s", ref, t, val) }
func k4(ref uint64, t int64, val, canon string) string {
	return fmt.Sprintf("%d|%d|%s|%s", ref, t, val, canon)
}

func exKey(e exemplar.Exemplar) string {
	return fmt.Sprintf("e:%016x:%s", math.Float64bits(e.Value), e.Labels.String())
}

func (h *hist) tr(format string, args ...any) {
	s := fmt.Sprintf(format, args...)
	h.trace = append(h.trace, s)
	h.c.Logf("%s", s)
}

func (h *hist) openDB() bool {
	o := agent.DefaultOptions()
	o.WALSegmentSize = 32 * 1024
	o.WALCompression = h.cfg.Comp
	o.StripeSize = h.cfg.Stripe
	o.TruncateFrequency = 2 * time.Hour
	o.NoLockfile = true
	o.OutOfOrderTimeWindow = h.cfg.Window
	o.EnableSTAsZeroSample = h.cfg.STZero
	o.EnableSTStorage = h.cfg.STStore
	o.CheckpointFromInMemorySeries = h.cfg.InMem
	o.CheckpointBatchSize = h.cfg.Batch
	db, err := agent.Open(tsdbx.NopLogger(), nil, nil, h.dir, o)
	if err != nil {
		h.c.Violatef("restart-failed", "agent.Open failed: %v\ntrace: %s", err, h.traceTail())
		h.stop = true
		return false
	}
	h.db = db
	return true
}

func (h *hist) traceTail() string {
	t := h.trace
	if len(t) > 60 {
		t = t[len(t)-60:]
	}
	return strings.Join(t, " ; ")
}

func (h *hist) walDir() string { return filepath.Join(h.dir, "wal") }

// buildIndex decodes the log and classifies every sample/histogram/exemplar occurrence.
func (h *hist) buildIndex(stage string) *index {
	sc, err := walscan.Read(h.walDir())
	if err != nil {
		h.c.Violatef("wal-unreadable", "%s: decoding the agent WAL failed: %v\ntrace: %s", stage, err, h.traceTail())
		h.stop = true
		return nil
	}
	ix := &index{scan: sc, good: map[string]int{}, allLoc: map[string][]int{}, anyRec: map[string]int{}, orphan: map[string]int{}, vals: map[string]bool{}, refs: map[uint64]bool{}}
	defined := map[uint64][]string{}
	occ := func(loc int, ref uint64, t int64, val string) {
		ix.nSamp++
		ix.vals[val] = true
		ix.allLoc[k3(ref, t, val)] = append(ix.allLoc[k3(ref, t, val)], loc)
		ls := defined[ref]
		if len(ls) == 0 {
			ix.orphan[k3(ref, t, val)]++
			return
		}
		ix.anyRec[k3(ref, t, val)]++
		for _, l := range ls {
			k := k4(ref, t, val, l)
			ix.good[k]++
		}
	}
	for _, rec := range sc.Recs {
		for _, s := range rec.Series {
			l := s.Labels.String()
			ix.refs[uint64(s.Ref)] = true
			dup := false
			for _, x := range defined[uint64(s.Ref)] {
				if x == l {
					dup = true
				}
			}
			if !dup {
				defined[uint64(s.Ref)] = append(defined[uint64(s.Ref)], l)
			}
		}
		for _, s := range rec.Samples {
			occ(rec.Loc, uint64(s.Ref), s.T, tsdbx.Sample{Kind: "f", F: s.V}.ValKey())
		}
		for _, s := range rec.Hists {
			occ(rec.Loc, uint64(s.Ref), s.T, tsdbx.Sample{Kind: "h", H: s.H}.ValKey())
		}
		for _, s := range rec.FHists {
			occ(rec.Loc, uint64(s.Ref), s.T, tsdbx.Sample{Kind: "fh", FH: s.FH}.ValKey())
		}
		for _, e := range rec.Exemplars {
			occ(rec.Loc, uint64(e.Ref), e.T, exKey(exemplar.Exemplar{Labels: e.Labels, Value: e.V}))
		}
	}
	return ix
}

type truncInfo struct {
	mint  int64
	oldCp int
	inMem bool
}

// verify compares the required multiset with the decoded log.
func (h *hist) verify(stage string, ti *truncInfo) {
	ix := h.buildIndex(stage)
	if ix == nil {
		return
	}
	newCp := ti != nil && ix.scan.Checkpoint > ti.oldCp
	if newCp {
		h.checkpoints++
	}
	keys := make([]string, 0, len(h.need))
	for k := range h.need {
		keys = append(keys, k)
	}
	sort.Strings(keys)
	checked := 0
	var knownInMem, knownForeign, knownGC []string
	for _, k := range keys {
		n := h.need[k]
		key3 := k3(n.ref, n.t, n.val)
		total := ix.anyRec[key3] + ix.orphan[key3]
		// Entries committed in this step must sit behind a series record of their ref with their
		// labels (first clause of the statement).  Entries verified at their own commit only have
		// to stay contained in the log afterwards (truncation clause); whether what a checkpoint
		// leaves behind still has its series record is C15's subject.
		if total >= n.n && ix.good[k] >= n.n-n.placed {
			checked++
			if ix.good[k] < n.n {
				h.c.Count("accepted_entries_left_without_series_record", 1)
				if !n.ex && n.s.hasLast && n.s.last == n.t {
					n.s.lastOrphaned = true
				}
			}
			continue
		}
		desc := fmt.Sprintf("ref=%d t=%d %s series %s (needed %d, found %d behind its series record, %d behind another series record for the ref, %d with no earlier series record)",
			n.ref, n.t, short(n.val), n.canon, n.n, ix.good[k], ix.anyRec[key3]-ix.good[k], ix.orphan[key3])
		covered := false
		if newCp && h.prev != nil {
			// copies of this entry that lived in the segments the new checkpoint replaced (or in the
			// old checkpoint): at least as many as are missing now (the other copies sit in newer
			// segments and are still there)
			locs := h.prev.allLoc[key3]
			inCp := 0
			for _, l := range locs {
				if l <= ix.scan.Checkpoint {
					inCp++
				}
			}
			covered = inCp > 0 && inCp >= n.n-total
		}
		switch {
		case total >= n.n && ix.anyRec[key3] > ix.good[k] && ix.orphan[key3] == 0:
			h.c.Violatef("series-record-labels-mismatch", "%s: %s\ntrace: %s", stage, desc, h.traceTail())
			h.stop = true
			return
		case total >= n.n && n.foreign:
			knownForeign = append(knownForeign, desc)
			delete(h.need, k)
		case total >= n.n && n.gcHit && stage == "commit":
			knownGC = append(knownGC, desc)
			delete(h.need, k)
		case total >= n.n:
			h.c.Violatef("sample-without-preceding-series-record", "%s: accepted entry was logged but no series record for its ref precedes it in replay order: %s\ntrace: %s", stage, desc, h.traceTail())
			h.stop = true
			return
		case n.ex && covered:
			// exemplars of checkpointed segments are outside the statement's truncation clause
			delete(h.need, k)
			h.c.Count("exemplars_dropped_by_checkpoint", 1)
		case !n.ex && covered && ti != nil && ti.inMem:
			knownInMem = append(knownInMem, desc)
			delete(h.need, k)
		default:
			kind := "accepted-sample-not-in-wal"
			switch {
			case ti != nil:
				kind = "sample-at-or-after-mint-lost-by-truncation"
			case stage == "restart":
				kind = "sample-lost-by-restart"
			}
			if n.ex {
				kind = strings.Replace(kind, "sample", "exemplar", 1)
			}
			h.c.Violatef(kind, "%s: %s\nmaxMint=%d checkpoint=%d segments=[%d,%d]\ntrace: %s", stage, desc, h.maxMint, ix.scan.Checkpoint, ix.scan.First, ix.scan.Last, h.traceTail())
			h.stop = true
			return
		}
	}
	if stage == "commit" {
		for _, n := range h.need {
			n.placed = n.n
		}
	}
	if len(knownInMem) > 0 {
		h.c.Count("known_inmem_checkpoint_lost_samples", int64(len(knownInMem)))
		if !h.knownReported[kindKnownInMem] {
			h.knownReported[kindKnownInMem] = true
			h.c.Violatef(kindKnownInMem, "%s: CheckpointFromInMemorySeries=true, VerifTruncate(%d) wrote checkpoint %d; %d accepted sample(s) with t >= mint that lived only in the checkpointed segments/old checkpoint are gone, first: %s\ntrace: %s", stage, ti.mint, ix.scan.Checkpoint, len(knownInMem), knownInMem[0], h.traceTail())
		}
	}
	if len(knownGC) > 0 {
		h.c.Count("known_committed_after_series_gc", int64(len(knownGC)))
		if !h.knownReported[kindKnownGCPending] {
			h.knownReported[kindKnownGCPending] = true
			h.c.Violatef(kindKnownGCPending, "%s: %d accepted sample(s) of an appender that stayed open across truncation(s) which collected their series were logged with no series record for their ref anywhere before them, first: %s\ntrace: %s", stage, len(knownGC), knownGC[0], h.traceTail())
		}
	}
	if len(knownForeign) > 0 {
		h.c.Count("known_foreign_pending_series_record", int64(len(knownForeign)))
		if !h.knownReported[kindKnownForeign] {
			h.knownReported[kindKnownForeign] = true
			h.c.Violatef(kindKnownForeign, "%s: %d accepted sample(s) were logged although the series record of their ref is still only pending in another open appender, first: %s\ntrace: %s", stage, len(knownForeign), knownForeign[0], h.traceTail())
		}
	}
	// rolled-back data must never show up
	var rk []string
	for v := range h.rolled {
		if ix.vals[v] {
			rk = append(rk, v)
		}
	}
	if len(rk) > 0 {
		sort.Strings(rk)
		h.c.Violatef("rolled-back-data-in-wal", "%s: value unique to a rolled-back appender occurs in the log: %s (%s)\ntrace: %s", stage, short(rk[0]), h.rolled[rk[0]], h.traceTail())
		h.stop = true
		return
	}
	h.c.Count("required_entries_verified", int64(checked))
	h.c.Count("wal_entries_scanned", int64(ix.nSamp))
	if stage == "commit" {
		h.verifiedCommitted += checked
	}
	if stage == "restart" && h.restartAfterCp {
		h.restartVerified += checked
	}
	h.prev = ix
}

func short(s string) string {
	if len(s) > 120 {
		return s[:120] + "…"
	}
	return s
}

func (h *hist) checkQueriers() {
	q, err := h.db.Querier(0, math.MaxInt64)
	if q != nil || !errors.Is(err, agent.ErrUnsupported) {
		h.c.Violatef("querier-served", "Querier returned (%v, %v), want (nil, ErrUnsupported)", q, err)
	}
	cq, err := h.db.ChunkQuerier(math.MinInt64, math.MaxInt64)
	if cq != nil || !errors.Is(err, agent.ErrUnsupported) {
		h.c.Violatef("querier-served", "ChunkQuerier returned (%v, %v), want (nil, ErrUnsupported)", cq, err)
	}
	eq, err := h.db.ExemplarQuerier(context.Background())
	if eq != nil || !errors.Is(err, agent.ErrUnsupported) {
		h.c.Violatef("querier-served", "ExemplarQuerier returned (%v, %v), want (nil, ErrUnsupported)", eq, err)
	}
	h.c.Count("querier_calls", 3)
}

// ---------------------------------------------------------------- generation

func (h *hist) newUID() float64 { h.uid++; return float64(h.uid) }

func (h *hist) pickT(s *ser) int64 {
	r := h.r
	w := h.cfg.Window
	if s.hasLast {
		switch r.IntN(12) {
		case 0:
			return s.last // equal
		case 1:
			return satSub(s.last, w) // boundary: not newer than last-window
		case 2:
			return satSub(s.last, w) + 1 // just inside
		case 3:
			return satSub(s.last, w) - int64(1+r.IntN(50))
		case 4:
			return s.last - int64(r.IntN(int(min(w, 1000))+1))
		case 5:
			return int64(r.IntN(5)) - 2
		}
	}
	if r.IntN(25) == 0 {
		return h.now - int64(r.IntN(400))
	}
	return h.now + int64(r.IntN(3))
}

func satSub(a, b int64) int64 {
	if a < math.MinInt64+b {
		return math.MinInt64
	}
	return a - b
}

func (h *hist) genExemplar(ts int64) (exemplar.Exemplar, bool) {
	r := h.r
	e := exemplar.Exemplar{Value: 3e6 + h.newUID(), Ts: ts, HasTs: r.IntN(3) != 0}
	switch r.IntN(12) {
	case 0:
		e.Labels = labels.EmptyLabels()
	case 1: // too long: must not be accepted, any error is fine
		e.Labels = labels.FromStrings("trace_id", strings.Repeat("x", 130))
		return e, false
	case 2:
		e.Labels = labels.FromStrings("trace_id", fmt.Sprint(h.uid), "empty", "")
	default:
		e.Labels = labels.FromStrings("trace_id", fmt.Sprintf("%x", h.uid*2654435761))
	}
	return e, true
}

// appendOne performs one append call in session se.
func (h *hist) appendOne(se *session) {
	r := h.r
	s := h.series[r.IntN(len(h.series))]
	t := h.pickT(s)
	ref := storage.SeriesRef(0)
	if s.ref != 0 && r.IntN(3) != 0 {
		ref = s.ref
	}
	mustReject := s.hasLast && s.last >= math.MinInt64+h.cfg.Window && t <= s.last-h.cfg.Window

	// value
	kind := s.hk
	if kind == 3 {
		kind = r.IntN(3)
	}
	var (
		v      float64
		hh     *histogram.Histogram
		fh     *histogram.FloatHistogram
		val    string
		unique bool
		stale  bool
	)
	switch kind {
	case 0:
		if r.IntN(10) < 7 {
			v = 1e6 + h.newUID()
			unique = true
		} else {
			v = gen.Float(r, true)
		}
		stale = value.IsStaleNaN(v)
		val = tsdbx.Sample{Kind: "f", F: v}.ValKey()
	case 1:
		if s.abs == nil || r.IntN(6) == 0 {
			s.abs = gen.NewAbsHist(r, true)
		} else {
			s.abs = s.abs.Mutate(r)
		}
		hh = s.abs.Int(r)
		if r.IntN(15) == 0 {
			hh = gen.StaleHist()
			stale = true
		} else {
			hh.Sum = 2e6 + h.newUID()
			unique = true
		}
		val = tsdbx.Sample{Kind: "h", H: hh}.ValKey()
	default:
		if s.abs == nil || r.IntN(6) == 0 {
			s.abs = gen.NewAbsHist(r, true)
		} else {
			s.abs = s.abs.Mutate(r)
		}
		fh = s.abs.Float(r)
		if r.IntN(15) == 0 {
			fh = gen.StaleFloatHist()
			stale = true
		} else {
			fh.Sum = 2e6 + h.newUID()
			unique = true
		}
		val = tsdbx.Sample{Kind: "fh", FH: fh}.ValKey()
	}

	var (
		got  storage.SeriesRef
		err  error
		exs  []exemplar.Exemplar
		exOK []bool
	)
	what := "f"
	if hh != nil {
		what = "h"
	} else if fh != nil {
		what = "fh"
	}
	if se.v2 {
		st := int64(0)
		switch r.IntN(6) {
		case 0:
			st = t - int64(1+r.IntN(20))
		case 1:
			st = t + int64(r.IntN(3))
		}
		var ao storage.AOptions
		if r.IntN(4) == 0 {
			n := 1 + r.IntN(3)
			ets := t - int64(r.IntN(5))
			for i := 0; i < n; i++ {
				e, ok := h.genExemplar(ets)
				if i > 0 && r.IntN(5) == 0 { // generated duplicate of the previous one: either outcome is fine
					e = exs[i-1]
					ok = false
				}
				exs = append(exs, e)
				exOK = append(exOK, ok)
				ets += int64(r.IntN(3))
			}
			ao.Exemplars = append([]exemplar.Exemplar(nil), exs...)
		}
		got, err = se.a2.Append(ref, s.ls, st, t, v, hh, fh, ao)
		what = fmt.Sprintf("%s st=%d ex=%d", what, st, len(exs))
	} else if r.IntN(12) == 0 {
		// V1 start-timestamp zero sample: the accepted entry is the zero sample at st
		st := t - int64(1+r.IntN(10))
		if r.IntN(6) == 0 {
			st = t
		}
		if hh != nil || fh != nil {
			got, err = se.a.AppendHistogramSTZeroSample(ref, s.ls, t, st, hh, fh)
			if hh != nil {
				val = tsdbx.Sample{Kind: "h", H: &histogram.Histogram{}}.ValKey()
			} else {
				val = tsdbx.Sample{Kind: "fh", FH: &histogram.FloatHistogram{}}.ValKey()
			}
		} else {
			got, err = se.a.AppendSTZeroSample(ref, s.ls, t, st)
			val = tsdbx.Sample{Kind: "f", F: 0}.ValKey()
		}
		// the statement's rejection clause speaks about samples; the zero sample sits at st
		mustReject = false
		unique = false
		what = fmt.Sprintf("stzero(%s) sampleT=%d", what, t)
		t = st
	} else if hh != nil || fh != nil {
		got, err = se.a.AppendHistogram(ref, s.ls, t, hh, fh)
	} else {
		got, err = se.a.Append(ref, s.ls, t, v)
	}

	var pe *storage.AppendPartialError
	partial := err != nil && errors.As(err, &pe)
	accepted := (err == nil || partial) && got != 0
	if (err == nil || partial) && got == 0 {
		h.c.Count("success_with_zero_ref", 1)
	}
	h.tr("S%d %s s=%s ref=%d t=%d -> ref=%d err=%v", se.id, what, s.canon[:min(len(s.canon), 40)], ref, t, got, err)
	if unique {
		se.uniq[val] = fmt.Sprintf("series %s t=%d", s.canon, t)
	}
	if mustReject {
		h.c.Count("appends_that_must_be_rejected", 1)
		if accepted && s.weak {
			if !h.knownReported[kindKnownOrphanOld] {
				h.knownReported[kindKnownOrphanOld] = true
				h.c.Violatef(kindKnownOrphanOld, "append t=%d for series %s accepted (ref %d) after a restart although its last committed sample is at %d and the window is %d; that sample is still in the log but no series record for its ref precedes it in replay order (dropped by a checkpoint for a duplicate ref, or logged while another open appender held the series record), so replay did not restore the series' last timestamp\ntrace: %s", t, s.canon, got, s.last, h.cfg.Window, h.traceTail())
			}
			h.c.Count("known_old_sample_accepted_after_orphaning", 1)
			s.hasLast, s.weak, s.lastOrphaned = false, false, false
		} else if accepted {
			h.c.Violatef("old-sample-accepted", "append t=%d for series %s accepted (ref %d) although the series' last committed sample is at %d and the out-of-order window is %d (t <= last-window)\ntrace: %s", t, s.canon, got, s.last, h.cfg.Window, h.traceTail())
			h.stop = true
			return
		}
		if errors.Is(err, storage.ErrOutOfOrderSample) {
			h.c.Count("rejected_with_ErrOutOfOrderSample", 1)
		}
	} else if !accepted {
		h.c.Count("appends_rejected_without_obligation", 1)
		if err != nil {
			h.c.Seen("other_reject_errors", errClass(err))
		}
	}
	if !accepted {
		return
	}
	h.c.Count("appends_accepted", 1)
	h.c.Seen("accepted_kind", strings.Fields(what)[0])
	s.ref = got
	if _, held := h.pending[uint64(got)]; !held && !h.refKnown(uint64(got)) {
		// first time this ref is handed out: this session holds the series record until it ends
		h.pending[uint64(got)] = se.id
		se.fresh[uint64(got)] = true
	}
	se.items = append(se.items, item{s: s, ref: uint64(got), t: t, val: val, epoch: h.truncs})

	// exemplars
	if se.v2 {
		if !partial && !stale {
			for i, e := range exs {
				e.Labels = e.Labels.WithoutEmpty()
				k := exKey(e)
				if exOK[i] {
					se.items = append(se.items, item{s: s, ref: uint64(got), t: e.Ts, val: k, ex: true, epoch: h.truncs})
					se.uniq[k] = "exemplar"
				}
			}
		}
	} else if r.IntN(4) == 0 {
		e, ok := h.genExemplar(t - int64(r.IntN(3)))
		eref, eerr := se.a.AppendExemplar(got, s.ls, e)
		h.tr("S%d exemplar ref=%d ts=%d -> ref=%d err=%v", se.id, got, e.Ts, eref, eerr)
		if eerr == nil && eref != 0 {
			if !ok {
				h.c.Count("hostile_exemplar_accepted", 1)
			}
			e.Labels = e.Labels.WithoutEmpty()
			k := exKey(e)
			se.items = append(se.items, item{s: s, ref: uint64(eref), t: e.Ts, val: k, ex: true, epoch: h.truncs})
			se.uniq[k] = "exemplar"
			if r.IntN(5) == 0 { // immediate duplicate: must not be an error; outcome not required
				_, derr := se.a.AppendExemplar(got, s.ls, e)
				if derr != nil {
					h.c.Count("duplicate_exemplar_error", 1)
				}
			}
		}
	}
}

func errClass(err error) string {
	switch {
	case errors.Is(err, storage.ErrOutOfOrderSample):
		return "out-of-order-sample"
	case errors.Is(err, storage.ErrOutOfOrderST):
		return "out-of-order-st"
	case errors.Is(err, storage.ErrSTNewerThanSample):
		return "st-newer-than-sample"
	case errors.Is(err, storage.ErrExemplarLabelLength):
		return "exemplar-label-length"
	}
	s := err.Error()
	if len(s) > 60 {
		s = s[:60]
	}
	return s
}

// refKnown reports whether a series record for ref is required/known to be logged already, i.e.
// the ref was handed out before (by a finished session or recovered from the log).
func (h *hist) refKnown(ref uint64) bool {
	return h.knownRefs[ref]
}

func (h *hist) newSession() *session {
	h.nextSID++
	se := &session{id: h.nextSID, v2: h.r.IntN(2) == 0, uniq: map[string]string{}, fresh: map[uint64]bool{}}
	if se.v2 {
		se.a2 = h.db.AppenderV2(context.Background())
	} else {
		se.a = h.db.Appender(context.Background())
	}
	h.open = append(h.open, se)
	h.tr("S%d open v2=%v", se.id, se.v2)
	return se
}

func (h *hist) endSession(se *session, commit bool) {
	for i, x := range h.open {
		if x == se {
			h.open = append(h.open[:i:i], h.open[i+1:]...)
			break
		}
	}
	var err error
	switch {
	case commit && se.v2:
		err = se.a2.Commit()
	case commit:
		err = se.a.Commit()
	case se.v2:
		err = se.a2.Rollback()
	default:
		err = se.a.Rollback()
	}
	h.tr("S%d end commit=%v err=%v", se.id, commit, err)
	// whatever the outcome, a finished session has logged (or given up) its series records
	for ref := range se.fresh {
		delete(h.pending, ref)
		h.knownRefs[ref] = true
	}
	if err != nil {
		h.c.Count("commit_or_rollback_errors", 1)
		h.c.Seen("commit_errors", errClass(err))
		return
	}
	if !commit {
		h.c.Count("rollbacks", 1)
		for k, d := range se.uniq {
			h.rolled[k] = d
		}
		h.verify("rollback", nil)
		return
	}
	h.c.Count("commits", 1)
	for _, it := range se.items {
		if it.t < h.maxMint && h.hasMint {
			// older than a truncation time already used: the statement does not require it to stay
			h.c.Count("accepted_below_truncation_time", 1)
			continue
		}
		k := k4(it.ref, it.t, it.val, it.s.canon)
		n := h.need[k]
		if n == nil {
			n = &need{ref: it.ref, t: it.t, val: it.val, canon: it.s.canon, ex: it.ex, s: it.s}
			h.need[k] = n
		}
		n.n++
		if it.gcHit {
			n.gcHit = true
		}
		if owner, held := h.pending[it.ref]; held && owner != se.id {
			n.foreign = true
		}
		if !it.ex && !it.gcHit {
			if !it.s.hasLast || it.t > it.s.last {
				it.s.last, it.s.hasLast, it.s.lastOrphaned, it.s.weak = it.t, true, n.foreign, false
			}
		}
	}
	h.verify("commit", nil)
}

func (h *hist) truncate() {
	r := h.r
	var mint int64
	var withLast []*ser
	for _, s := range h.series {
		if s.hasLast {
			withLast = append(withLast, s)
		}
	}
	switch c := r.IntN(10); {
	case c < 3 && len(withLast) > 0:
		mint = withLast[r.IntN(len(withLast))].last // boundary: that sample must stay
	case c < 5 && len(withLast) > 0:
		mint = withLast[r.IntN(len(withLast))].last + 1 // that series may be collected
	case c < 6:
		mint = h.now + 10
	case c < 7:
		mint = 0
	default:
		mint = h.now - int64(r.IntN(120))
	}
	if mint < 0 {
		mint = 0
	}
	oldCp := -1
	if h.prev != nil {
		oldCp = h.prev.scan.Checkpoint
	}
	err := h.db.VerifTruncate(mint)
	h.truncs++
	h.tr("truncate(%d) err=%v", mint, err)
	h.c.Count("truncations", 1)
	if err != nil {
		h.c.Count("truncate_errors", 1)
		h.c.Seen("truncate_errors", errClass(err))
	}
	if !h.hasMint || mint > h.maxMint {
		h.maxMint, h.hasMint = mint, true
	}
	for k, n := range h.need {
		if n.t < h.maxMint {
			delete(h.need, k)
		}
	}
	for _, se := range h.open {
		for i := range se.items {
			if s := se.items[i].s; !s.hasLast || s.last < mint || s.weak {
				se.items[i].gcHit = true
			}
		}
	}
	for _, s := range h.series {
		if s.hasLast && (s.last < mint || s.weak) {
			s.hasLast, s.weak, s.lastOrphaned = false, false, false // the series may have been garbage collected
			h.c.Count("series_possibly_collected", 1)
		}
	}
	h.verify("truncate", &truncInfo{mint: mint, oldCp: oldCp, inMem: h.cfg.InMem})
}

func (h *hist) restart() {
	for len(h.open) > 0 {
		h.endSession(h.open[0], h.r.IntN(3) != 0)
		if h.stop {
			return
		}
	}
	err := h.db.Close()
	h.db = nil
	h.tr("close err=%v", err)
	if err != nil {
		h.c.Count("close_errors", 1)
	}
	if h.r.IntN(10) == 0 {
		h.cfg.InMem = !h.cfg.InMem
		h.tr("flip CheckpointFromInMemorySeries=%v", h.cfg.InMem)
	}
	for _, s := range h.series {
		s.ref = 0 // refs are not carried over a process restart
		if s.lastOrphaned {
			s.weak = true
		}
	}
	if !h.openDB() {
		return
	}
	h.c.Count("restarts", 1)
	if h.checkpoints > 0 {
		h.restartAfterCp = true
	}
	h.verify("restart", nil)
	if !h.stop && h.prev != nil {
		h.knownRefs = h.prev.refs
		h.pending = map[uint64]int{}
	}
}

func run(c *core.Case) {
	r := c.Rng
	h := &hist{c: c, r: r, dir: c.TempDir(), need: map[string]*need{}, rolled: map[string]string{}, pending: map[uint64]int{}, knownRefs: map[uint64]bool{}, knownReported: map[string]bool{}, now: 1000}
	h.cfg = cfg{
		Window:  gen.Pick(r, []int64{0, 0, 0, 1, 10, 100, 1000000}),
		InMem:   r.IntN(3) == 0,
		Batch:   gen.Pick(r, []int{0, 1, 3, 1000}),
		STStore: r.IntN(3) == 0,
		STZero:  r.IntN(3) == 0,
		Stripe:  gen.Pick(r, []int{1, 2, 4, 16}),
		Comp:    gen.Pick(r, []compression.Type{compression.None, compression.Snappy, compression.Zstd}),
	}
	nser := 4 + r.IntN(9)
	for i, ls := range gen.SeriesSet(r, nser) {
		if r.IntN(8) == 0 {
			// an empty-valued label: the agent documents that such labels are dropped
			b := labels.NewScratchBuilder(0)
			ls.Range(func(l labels.Label) { b.Add(l.Name, l.Value) })
			b.Add("zz_empty", "")
			b.Sort()
			ls = b.Labels()
		}
		h.series = append(h.series, &ser{ls: ls, canon: ls.WithoutEmpty().String(), hk: []int{0, 0, 0, 1, 2, 3}[(i+r.IntN(6))%6]})
	}
	if !h.openDB() {
		return
	}
	defer func() {
		if h.db != nil {
			h.db.Close()
		}
	}()
	h.checkQueriers()
	steps := 25 + r.IntN(46)
	interleave := r.IntN(4) == 0
	for i := 0; i < steps && !h.stop; i++ {
		h.now += int64(1 + r.IntN(40))
		switch op := r.IntN(100); {
		case op < 60:
			var se *session
			if len(h.open) > 0 && r.IntN(2) == 0 {
				se = h.open[r.IntN(len(h.open))]
			} else if len(h.open) < 3 {
				se = h.newSession()
			} else {
				se = h.open[0]
			}
			n := 1 + r.IntN(8)
			if r.IntN(10) == 0 {
				n = 40 + r.IntN(200) // fill segments
			}
			for j := 0; j < n && !h.stop; j++ {
				h.appendOne(se)
			}
			if h.stop {
				break
			}
			if !interleave || r.IntN(3) != 0 {
				h.endSession(se, r.IntN(5) != 0)
			}
		case op < 68:
			if len(h.open) > 0 {
				h.endSession(h.open[r.IntN(len(h.open))], r.IntN(5) != 0)
			}
		case op < 90:
			h.truncate()
		default:
			h.restart()
		}
		if r.IntN(10) == 0 && h.db != nil {
			h.checkQueriers()
		}
	}
	if !h.stop {
		// final: finish sessions, restart
		h.restart()
	}
	c.Count("steps", int64(len(h.trace)))
	c.Seen("config", fmt.Sprintf("inmem=%v window=%d comp=%s", h.cfg.InMem, h.cfg.Window, h.cfg.Comp))
	if h.verifiedCommitted > 0 && h.checkpoints > 0 && h.restartVerified > 0 {
		c.Nontrivial(fmt.Sprintf("%+v", h.cfg), strings.Join(h.trace, ";"))
	}
	if c.Idx < 3 {
		t := h.trace
		if len(t) > 25 {
			t = t[:25]
		}
		c.Sample(map[string]any{"config": fmt.Sprintf("%+v", h.cfg), "series": len(h.series), "first_steps": t, "total_steps": len(h.trace), "checkpoints": h.checkpoints, "required_at_end": len(h.need)})
	}
}
