// Package c35: exposition formats are parsed faithfully and consistently.  Generated metric families
// are encoded with the reference encoder (prometheus/common expfmt) as Prometheus text, OpenMetrics and
// delimited protobuf, parsed through textparse.New and compared with the family contents and across the
// formats; mutated and random payloads check totality.
package c35

import (
	"bytes"
	"crypto/sha256"
	"fmt"
	"math"
	"math/rand/v2"
	"runtime"
	"sort"
	"strconv"
	"strings"
	"sync/atomic"
	"time"

	dto "github.com/prometheus/client_model/go"
	"github.com/prometheus/common/expfmt"
	"github.com/prometheus/common/model"
	"google.golang.org/protobuf/types/known/timestamppb"

	"github.com/prometheus/prometheus/model/histogram"
	"github.com/prometheus/prometheus/model/labels"
	"github.com/prometheus/prometheus/model/textparse"

	"verif/internal/core"
	"verif/internal/gen"
	"verif/props/c35/expo"
)

func init() {
	core.Register(&core.Prop{
		ID:        "C35",
		Title:     "Exposition formats are parsed faithfully and consistently",
		Level:     "exploration",
		Technique: "round-trip runtime monitor: expfmt-encoded generated families vs the parsed entry streams of the three parsers (model-based expectation per format + cross-format agreement) and totality on mutated/random payloads",
		LevelText: levelText,
		LevelNote: levelNote,
		DesignRef: "DESIGN.md §5 C35",
		Rule:      "case = one generated list of 1-6 metric families encoded in three formats, each parsed under several option combinations, plus 24 (quick) / 48 (thorough) mutated or random payloads; non-trivial iff all three formats were parsed and compared sample by sample, the list has ≥2 families and at least one summary, histogram or exemplar; distinct by the hash of the three payloads",
		Variants:  []string{"race"},
		Cases: func(variant string, tier core.Tier) int {
			n := 3000
			if tier == core.Thorough {
				n = 100000
			}
			if variant == "race" {
				n /= 10
			}
			return n
		},
		Run:           run,
		MinNontrivial: func(t core.Tier) int { return 1000 },
	})
}

const levelText = "Generated lists of metric families (counter with/without _total, gauge, untyped, summary, classic histogram with or without +Inf bucket, and – protobuf only – integer and float native histograms with and without classic buckets; label values with quotes, backslashes, newlines and multi-byte runes; UTF-8 metric and label names; ±Inf/NaN/denormal values; positive and negative millisecond timestamps; exemplars with and without timestamp on counters and buckets; help texts with escapes; units; created timestamps) are encoded with expfmt (text 0.0.4, OpenMetrics 1.0.0 with created lines, delimited protobuf; no name escaping) and parsed through textparse.New with the matching content type. Oracle per format: the multiset of parsed samples (name, label set with le/quantile compared numerically, value bits, timestamp, exemplars, start timestamp where the scrape loop reads it) equals the samples the family list denotes under that format's documented rules (suffixes _bucket/_sum/_count/_total, implicit +Inf bucket, what the format cannot carry); TYPE entries equal the family types, HELP/UNIT texts equal the encoded ones; native histograms equal the encoded spans/buckets layout-independently; option laws: EnableTypeAndUnitLabels only adds __type__/__unit__ labels, KeepClassicOnClassicAndNativeHistograms adds exactly the classic series, IgnoreNativeHistograms yields exactly the classic series. Cross-format: le/quantile label texts of the same sample are identical in all three parses. Totality: truncated, bit-flipped, spliced, line-shuffled and random payloads under random options give entries or an error - a panic in repository code, a hang or (race build) a checkptr report is a violation. Held on the observed payloads only."

const levelNote = "Trusted: expfmt as the reference encoder (its documented peculiarities are part of the expectation: OpenMetrics counters without _total are exposed as unknown; float classic histograms and gauge histograms are not encoded and therefore not generated for the text formats). Sample order inside a family and the Series() byte strings are not judged. StartTimestamp is read only where the scrape loop reads it (protobuf; OpenMetrics with OpenMetricsSkipSTSeries). Empty label values are treated as absent on both sides. NHCB conversion is C36's subject and not exercised here. The hang verdict is the only time-based one: a hostile parse that has not returned after 6 s (payloads < 64 KiB parse in well under a millisecond) and whose goroutine is found twice, one second apart, inside repository frames; otherwise the case is inconclusive; after a hang a worker skips further hostile parses of the same combination (counted). Six failure mechanisms are recorded as known findings with their own kinds and predicates (FINDINGS.md): om-starttimestamp-peek-spins-on-invalid-token, nhcb-panic-on-blank-label-name, om-exemplar-label-value-not-unescaped, om-timestamp-truncated-by-1ms, text-negative-timestamp-rejected, proto-mixed-native-classic-family; any other difference keeps a generic kind and fails the run."

// ---------------------------------------------------------------- model

type exm struct {
	lbl   [][2]string
	v     float64
	hasTs bool
	ts    int64 // ms
}

type quant struct{ q, v float64 }

type bkt struct {
	le  float64
	cum uint64
	ex  *exm
}

type metric struct {
	lbls    [][2]string
	ts      int64 // ms, 0 = none
	v       float64
	ex      *exm
	created int64 // ms, 0 = none
	q       []quant
	count   uint64
	sum     float64
	b       []bkt
	native  *gen.AbsHist
	nfloat  bool
}

type fam struct {
	mixed     bool // protobuf: some metrics with, some without a native part
	protoOnly bool // carries float native histograms, which the text encoders cannot express
	name      string
	typ       dto.MetricType
	help      *string
	unit      string
	ms        []metric
}

var (
	lnamesLegacy = []string{"a", "b", "code", "instance", "job", "path", "zone", "A_b", "_x"}
	lnamesUTF8   = []string{"label.with.dots", "ключ", "sp ace", "q\"uote"}
	lvalues      = []string{"1", "x", "200", "/api/v1", "with space", "q\"uote", "back\\slash", "new\nline", "tab\there", "日本", "ünï", "\\n", "\\\\", "\"", "a,b", "{}", "=", "", "1.0", "+Inf", "é́", "\U0001F600", "trailing\\"}
	helpTexts    = []string{"plain help", "with \\ backslash", "with \"quotes\"", "multi\nline", "ünï 日本", "", " leading and trailing ", "\\n literal", "# hash"}
	units        = []string{"seconds", "bytes", "ratio"}
)

func genLabels(r *rand.Rand, utf bool, forbid string) [][2]string {
	n := []int{0, 1, 1, 2, 2, 3, 5}[r.IntN(7)]
	seen := map[string]bool{forbid: true}
	var out [][2]string
	for tries := 0; len(out) < n && tries < 50; tries++ {
		k := lnamesLegacy[r.IntN(len(lnamesLegacy))]
		if utf && r.IntN(4) == 0 {
			k = lnamesUTF8[r.IntN(len(lnamesUTF8))]
		}
		if seen[k] {
			continue
		}
		seen[k] = true
		out = append(out, [2]string{k, lvalues[r.IntN(len(lvalues))]})
	}
	return out
}

func labelsKey(l [][2]string) string {
	var parts []string
	for _, kv := range l {
		if kv[1] != "" {
			parts = append(parts, kv[0]+"\x00"+kv[1])
		}
	}
	sort.Strings(parts)
	return strings.Join(parts, "\x01")
}

func genValue(r *rand.Rand) float64 {
	switch r.IntN(12) {
	case 0:
		return math.Inf(1)
	case 1:
		return math.Inf(-1)
	case 2:
		return math.NaN()
	case 3:
		return 0
	case 4:
		return 5e-324 // (no negative zero: expfmt writes every zero as "0")
	case 5:
		return math.Float64frombits(r.Uint64N(1 << 52)) // denormal
	case 6:
		return math.Float64frombits(r.Uint64()&^(0x7ff<<52) | uint64(r.IntN(2046)+1)<<52)
	case 7:
		return 1e21
	default:
		return float64(r.IntN(200000)-50000) / 16
	}
}

func genTs(r *rand.Rand) int64 {
	switch r.IntN(8) {
	case 0, 1, 2, 3:
		return 0
	case 4:
		if r.IntN(25) == 0 {
			return -int64(1 + r.IntN(5000000))
		}
		return int64(1 + r.IntN(1000))
	case 5:
		return 1700000000000 + int64(r.IntN(100000000))
	default:
		return int64(1 + r.IntN(2000000000))
	}
}

func genExemplar(r *rand.Rand, utf bool) *exm {
	if r.IntN(3) != 0 {
		return nil
	}
	e := &exm{v: genValue(r)}
	n := 1 + r.IntN(3) // (expfmt does not write exemplars without labels)
	seen := map[string]bool{}
	for i := 0; i < n; i++ {
		k := []string{"trace_id", "span_id", "k"}[r.IntN(3)]
		if seen[k] {
			continue
		}
		seen[k] = true
		v := fmt.Sprintf("%x", r.Uint32())
		if r.IntN(12) == 0 {
			v = lvalues[r.IntN(len(lvalues))]
			if v == "" {
				v = "e"
			}
		}
		e.lbl = append(e.lbl, [2]string{k, v})
	}
	if r.IntN(2) == 0 {
		e.hasTs, e.ts = true, 1+int64(r.IntN(2000000000))
		if r.IntN(4) == 0 {
			e.ts = 1700000000000 + int64(r.IntN(100000000))
		}
	}
	return e
}

func genFamilies(r *rand.Rand, utf bool) []*fam {
	nf := 1 + r.IntN(6)
	var out []*fam
	for i := 0; i < nf; i++ {
		f := &fam{}
		base := fmt.Sprintf("%s%d", []string{"http_requests", "go_mem", "rpc", "x", "node_cpu", "a_b_c"}[r.IntN(6)], i)
		if utf && r.IntN(3) == 0 {
			base = fmt.Sprintf("%s%d", []string{"my.metric.", "温度", "dash-ed-", "sp ace "}[r.IntN(4)], i)
		}
		if r.IntN(3) == 0 {
			f.unit = units[r.IntN(len(units))]
			base += "_" + f.unit
		}
		if r.IntN(5) != 0 {
			h := helpTexts[r.IntN(len(helpTexts))]
			f.help = &h
		}
		forbid := ""
		k := r.IntN(12)
		switch {
		case k < 3:
			f.typ = dto.MetricType_COUNTER
			if r.IntN(6) != 0 {
				base += "_total"
			}
		case k < 5:
			f.typ = dto.MetricType_GAUGE
		case k < 6:
			f.typ = dto.MetricType_UNTYPED
		case k < 8:
			f.typ = dto.MetricType_SUMMARY
			forbid = "quantile"
		default:
			f.typ = dto.MetricType_HISTOGRAM
			forbid = "le"
		}
		f.name = base
		nm := 1 + r.IntN(3)
		seen := map[string]bool{}
		nativeFam := f.typ == dto.MetricType_HISTOGRAM && r.IntN(4) == 0
		nativeFloat := r.IntN(3) == 0
		classicToo := r.IntN(2) == 0
		for tries := 0; len(f.ms) < nm && tries < 20; tries++ {
			m := metric{lbls: genLabels(r, utf, forbid), ts: genTs(r)}
			if seen[labelsKey(m.lbls)] {
				continue
			}
			seen[labelsKey(m.lbls)] = true
			if r.IntN(3) == 0 {
				m.created = 1 + int64(r.IntN(2000000000))
			}
			switch f.typ {
			case dto.MetricType_COUNTER:
				m.v = genValue(r)
				m.ex = genExemplar(r, utf)
				if !strings.HasSuffix(f.name, "_total") {
					m.created = 0
				}
			case dto.MetricType_GAUGE, dto.MetricType_UNTYPED:
				m.v = genValue(r)
				m.created = 0
			case dto.MetricType_SUMMARY:
				nq := r.IntN(4)
				qv := 0.0
				for j := 0; j < nq; j++ {
					qv += []float64{0.5, 0.25, 0.1, 0.05, 0.01}[r.IntN(5)]
					if qv > 1 {
						break
					}
					m.q = append(m.q, quant{q: qv, v: genValue(r)})
				}
				m.count = uint64(r.IntN(1000))
				m.sum = genValue(r)
			case dto.MetricType_HISTOGRAM:
				nb := r.IntN(6)
				le := float64(r.IntN(10)-5) * 0.5
				cum := uint64(0)
				if nativeFam && !classicToo {
					nb = 0
				}
				for j := 0; j < nb; j++ {
					cum += uint64(r.IntN(5))
					m.b = append(m.b, bkt{le: le, cum: cum, ex: genExemplar(r, utf)})
					le += []float64{0.5, 1, 0.25, 2.5, 1e6, 0.001, 1e-9}[r.IntN(7)]
				}
				m.count = cum + uint64(r.IntN(3))
				if (nb > 0 || !nativeFam) && r.IntN(2) == 0 {
					m.b = append(m.b, bkt{le: math.Inf(1), cum: m.count, ex: genExemplar(r, utf)})
				}
				m.sum = genValue(r)
				if nativeFam {
					m.native = gen.NewAbsHist(r, false)
					m.native.Gauge = false
					m.nfloat = nativeFloat
					m.native.Sum = m.sum
					if m.nfloat {
						// a float native histogram is recognised by a positive float count / zero count
						if m.native.Count() == 0 {
							m.native.Pos[1] = 3
						}
						f.protoOnly = true // expfmt refuses float histograms in OpenMetrics
					} else {
						if m.native.ZeroThreshold == 0 && len(m.native.Pos) == 0 && len(m.native.Neg) == 0 {
							m.native.Pos[0] = 1 // otherwise indistinguishable from a classic histogram
						}
						m.count = m.native.Count() // sample_count is shared by the classic and the native part
						if n := len(m.b); n > 0 && math.IsInf(m.b[n-1].le, 1) {
							m.b[n-1].cum = m.count
						}
					}
				}
			}
			f.ms = append(f.ms, m)
		}
		if nativeFam && !f.protoOnly && len(f.ms) >= 2 && r.IntN(12) == 0 {
			// mixed family: one metric loses its native part (a legal MetricFamily)
			j := r.IntN(len(f.ms))
			f.ms[j].native = nil
			f.mixed = true
		}
		out = append(out, f)
	}
	return out
}

// ---------------------------------------------------------------- dto construction and encoding

func lp(l [][2]string) []*dto.LabelPair {
	var out []*dto.LabelPair
	for _, kv := range l {
		k, v := kv[0], kv[1]
		out = append(out, &dto.LabelPair{Name: &k, Value: &v})
	}
	return out
}

func tsProto(ms int64) *timestamppb.Timestamp {
	s, rem := ms/1000, ms%1000
	if rem < 0 {
		s, rem = s-1, rem+1000
	}
	return &timestamppb.Timestamp{Seconds: s, Nanos: int32(rem) * 1e6}
}

func exProto(e *exm) *dto.Exemplar {
	if e == nil {
		return nil
	}
	v := e.v
	x := &dto.Exemplar{Label: lp(e.lbl), Value: &v}
	if e.hasTs {
		x.Timestamp = tsProto(e.ts)
	}
	return x
}

func toDTO(fams []*fam) []*dto.MetricFamily {
	var out []*dto.MetricFamily
	for _, f := range fams {
		name, t := f.name, f.typ
		mf := &dto.MetricFamily{Name: &name, Type: &t, Help: f.help}
		if f.unit != "" {
			u := f.unit
			mf.Unit = &u
		}
		for i := range f.ms {
			m := &f.ms[i]
			dm := &dto.Metric{Label: lp(m.lbls)}
			if m.ts != 0 {
				ts := m.ts
				dm.TimestampMs = &ts
			}
			var created *timestamppb.Timestamp
			if m.created != 0 {
				created = tsProto(m.created)
			}
			v := m.v
			switch f.typ {
			case dto.MetricType_COUNTER:
				dm.Counter = &dto.Counter{Value: &v, Exemplar: exProto(m.ex), CreatedTimestamp: created}
			case dto.MetricType_GAUGE:
				dm.Gauge = &dto.Gauge{Value: &v}
			case dto.MetricType_UNTYPED:
				dm.Untyped = &dto.Untyped{Value: &v}
			case dto.MetricType_SUMMARY:
				c, s := m.count, m.sum
				sm := &dto.Summary{SampleCount: &c, SampleSum: &s, CreatedTimestamp: created}
				for _, q := range m.q {
					qq, qv := q.q, q.v
					sm.Quantile = append(sm.Quantile, &dto.Quantile{Quantile: &qq, Value: &qv})
				}
				dm.Summary = sm
			case dto.MetricType_HISTOGRAM:
				c, s := m.count, m.sum
				h := &dto.Histogram{SampleCount: &c, SampleSum: &s, CreatedTimestamp: created}
				for _, b := range m.b {
					le, cum := b.le, b.cum
					h.Bucket = append(h.Bucket, &dto.Bucket{UpperBound: &le, CumulativeCount: &cum, Exemplar: exProto(b.ex)})
				}
				if m.native != nil {
					fillNative(h, m)
				}
				dm.Histogram = h
			}
			mf.Metric = append(mf.Metric, dm)
		}
		out = append(out, mf)
	}
	return out
}

func fillNative(h *dto.Histogram, m *metric) {
	ih := m.native.Int(nil)
	schema, zt := ih.Schema, ih.ZeroThreshold
	h.Schema, h.ZeroThreshold = &schema, &zt
	spans := func(ss []histogram.Span) []*dto.BucketSpan {
		var out []*dto.BucketSpan
		for _, s := range ss {
			o, l := s.Offset, s.Length
			out = append(out, &dto.BucketSpan{Offset: &o, Length: &l})
		}
		return out
	}
	h.PositiveSpan, h.NegativeSpan = spans(ih.PositiveSpans), spans(ih.NegativeSpans)
	if len(h.PositiveSpan) == 0 && len(h.NegativeSpan) == 0 && zt == 0 && ih.ZeroCount == 0 {
		// the documented way to mark an empty native histogram: a no-op span
		o, l := int32(0), uint32(0)
		h.PositiveSpan = []*dto.BucketSpan{{Offset: &o, Length: &l}}
	}
	if m.nfloat {
		fh := ih.ToFloat(nil)
		cnt, zc := fh.Count, fh.ZeroCount
		h.SampleCountFloat, h.ZeroCountFloat = &cnt, &zc
		h.PositiveCount, h.NegativeCount = fh.PositiveBuckets, fh.NegativeBuckets
	} else {
		cnt, zc := ih.Count, ih.ZeroCount
		h.SampleCount, h.ZeroCount = &cnt, &zc
		h.PositiveDelta, h.NegativeDelta = ih.PositiveBuckets, ih.NegativeBuckets
	}
}

func encode(mfs []*dto.MetricFamily, format expfmt.Format, opts ...expfmt.EncoderOption) []byte {
	var buf bytes.Buffer
	enc := expfmt.NewEncoder(&buf, format.WithEscapingScheme(model.NoEscaping), opts...)
	for _, mf := range mfs {
		core.Must(enc.Encode(mf), "expfmt encode "+string(format))
	}
	if c, ok := enc.(expfmt.Closer); ok {
		core.Must(c.Close(), "expfmt close")
	}
	return buf.Bytes()
}

// ---------------------------------------------------------------- expectation

type expSample struct {
	id    string // logical identity across formats: family index / metric index / part
	name  string
	lbls  [][2]string
	magic string // "" | le | quantile
	mval  float64
	v     float64
	ts    int64
	ex    *exm
	st    int64
	fam   int
}

func fnum(v float64) string { return strconv.FormatFloat(v, 'g', -1, 64) }

func valKey(v float64) string {
	if math.IsNaN(v) {
		return "NaN"
	}
	return fmt.Sprintf("%x", math.Float64bits(v))
}

func exmKey(e *exm) string {
	if e == nil {
		return "-"
	}
	s := labelsKey(e.lbl) + "|" + valKey(e.v)
	if e.hasTs {
		s += fmt.Sprintf("@%d", e.ts)
	}
	return s
}

func (s *expSample) key(withEx, withST bool) string {
	l := append([][2]string{}, s.lbls...)
	if s.magic != "" {
		l = append(l, [2]string{s.magic, "#" + fnum(s.mval)})
	}
	k := fmt.Sprintf("%s{%s} v=%s t=%d", s.name, labelsKey(l), valKey(s.v), s.ts)
	if withEx {
		k += " ex=" + exmKey(s.ex)
	}
	if withST {
		k += fmt.Sprintf(" st=%d", s.st)
	}
	return k
}

type expHist struct {
	name string
	lbls [][2]string
	ts   int64
	hkey string
	st   int64
}

type expMeta struct {
	name string
	typ  model.MetricType
	help *string
	unit string
}

type expectation struct {
	samples []expSample
	hists   []expHist
	meta    []expMeta
}

type fmtRules struct {
	name            string
	exemplars       bool
	created         bool // created timestamps are carried
	stVisible       bool // start timestamps are read by the harness
	omCounters      bool // OpenMetrics counter naming
	unit            bool
	native          bool // native histograms are carried
	keepClass       bool // protobuf: classic series also for native histograms
	ignoreNat       bool // protobuf: native parts ignored
	createdAsSeries bool // OpenMetrics without OpenMetricsSkipSTSeries: _created lines are ordinary series
}

func expect(fams []*fam, ru fmtRules) expectation {
	var e expectation
	for fi, f := range fams {
		mt := map[dto.MetricType]model.MetricType{
			dto.MetricType_COUNTER: model.MetricTypeCounter, dto.MetricType_GAUGE: model.MetricTypeGauge,
			dto.MetricType_UNTYPED: model.MetricTypeUnknown, dto.MetricType_SUMMARY: model.MetricTypeSummary,
			dto.MetricType_HISTOGRAM: model.MetricTypeHistogram,
		}[f.typ]
		famName, sampleName := f.name, f.name
		if ru.omCounters && f.typ == dto.MetricType_COUNTER {
			if b, ok := strings.CutSuffix(f.name, "_total"); ok {
				famName = b
			} else {
				mt = model.MetricTypeUnknown // documented expfmt peculiarity
			}
		}
		me := expMeta{name: famName, typ: mt, help: f.help}
		if ru.unit {
			me.unit = f.unit
		}
		e.meta = append(e.meta, me)
		for mi := range f.ms {
			m := &f.ms[mi]
			st := int64(0)
			if ru.created && ru.stVisible {
				st = m.created
			}
			add := func(part, name, magic string, mval, v float64, ex *exm) {
				s := expSample{id: fmt.Sprintf("%s/%d/%s", f.name, mi, part), name: name, lbls: m.lbls, magic: magic, mval: mval, v: v, ts: m.ts, st: st, fam: fi}
				if ru.exemplars {
					s.ex = ex
				}
				e.samples = append(e.samples, s)
			}
			createdSeries := func(name string) {
				if ru.createdAsSeries && m.created != 0 {
					s := expSample{id: fmt.Sprintf("%s/%d/created", f.name, mi), name: name, lbls: m.lbls, v: float64(m.created) / 1000, fam: fi}
					e.samples = append(e.samples, s)
				}
			}
			switch f.typ {
			case dto.MetricType_COUNTER:
				add("v", sampleName, "", 0, m.v, m.ex)
				createdSeries(famName + "_created")
			case dto.MetricType_GAUGE, dto.MetricType_UNTYPED:
				add("v", sampleName, "", 0, m.v, nil)
			case dto.MetricType_SUMMARY:
				for qi, q := range m.q {
					add(fmt.Sprintf("q%d", qi), f.name, "quantile", q.q, q.v, nil)
				}
				add("sum", f.name+"_sum", "", 0, m.sum, nil)
				add("count", f.name+"_count", "", 0, float64(m.count), nil)
				createdSeries(f.name + "_created")
			case dto.MetricType_HISTOGRAM:
				classic := m.native == nil || !ru.native || ru.ignoreNat || (ru.keepClass && len(m.b) > 0)
				if m.native != nil && ru.native && !ru.ignoreNat {
					var hk string
					if m.nfloat {
						hk = gen.FloatHistKey(m.native.Float(nil))
					} else {
						hk = gen.FloatHistKey(m.native.Int(nil).ToFloat(nil))
					}
					e.hists = append(e.hists, expHist{name: f.name, lbls: m.lbls, ts: m.ts, hkey: hk, st: st})
				}
				if classic {
					inf := false
					for bi, b := range m.b {
						add(fmt.Sprintf("b%d", bi), f.name+"_bucket", "le", b.le, float64(b.cum), b.ex)
						if math.IsInf(b.le, 1) {
							inf = true
						}
					}
					cnt := float64(m.count)
					if m.native != nil && m.nfloat && ru.native {
						cnt = m.native.Float(nil).Count // protobuf: sample_count_float overrides sample_count
					} else if m.native != nil && ru.native {
						cnt = float64(m.native.Int(nil).Count)
					}
					if !inf {
						add("binf", f.name+"_bucket", "le", math.Inf(1), cnt, nil)
					}
					add("sum", f.name+"_sum", "", 0, m.sum, nil)
					add("count", f.name+"_count", "", 0, cnt, nil)
					createdSeries(f.name + "_created")
				}
			}
		}
	}
	return e
}

// ---------------------------------------------------------------- parsed side

func parsedSampleKey(en *expo.Entry, withEx, withST bool) (key, name, magicText string) {
	name = en.Labels.Get("__name__")
	var l [][2]string
	en.Labels.Range(func(x labels.Label) {
		if x.Name == "__name__" {
			return
		}
		v := x.Value
		if (x.Name == "le" && strings.HasSuffix(name, "_bucket")) || x.Name == "quantile" {
			if f, err := strconv.ParseFloat(v, 64); err == nil {
				magicText = v
				v = "#" + fnum(f)
			}
		}
		l = append(l, [2]string{x.Name, v})
	})
	ts := int64(0)
	if en.HasTs {
		ts = en.Ts
	}
	key = fmt.Sprintf("%s{%s} v=%s t=%d", name, labelsKey(l), valKey(en.V), ts)
	if withEx {
		ex := "-"
		if len(en.Ex) == 1 {
			x := en.Ex[0]
			ex = parsedExKey(x)
		} else if len(en.Ex) > 1 {
			ex = fmt.Sprintf("%d exemplars", len(en.Ex))
		}
		key += " ex=" + ex
	}
	if withST {
		key += fmt.Sprintf(" st=%d", en.ST)
	}
	return key, name, magicText
}

func parsedExKey(x expo.Ex) string {
	// x.Labels is labels.String(): re-parse is avoided by rendering the expectation the same way below
	s := x.Labels + "|" + valKey(x.Value)
	if x.HasTs {
		s += fmt.Sprintf("@%d", x.Ts)
	}
	return s
}

// ---------------------------------------------------------------- comparison

type parseSpec struct {
	format string // text | om | proto
	ct     string
	opts   textparse.ParserOptions
	readST bool
	rules  fmtRules
}

func doParse(payload []byte, ps parseSpec) ([]expo.Entry, error) {
	p, err := textparse.New(payload, ps.ct, labels.NewSymbolTable(), ps.opts)
	if p == nil {
		return nil, fmt.Errorf("textparse.New returned no parser: %v", err)
	}
	return expo.ReadAll(p, expo.ReadOpts{StartTimestamps: ps.readST})
}

// exLabelsString renders exemplar labels the way labels.String() does, for comparison with expo.Ex.Labels.
func exLabelsString(l [][2]string) string {
	var ss []string
	for _, kv := range l {
		ss = append(ss, kv[0], kv[1])
	}
	return labels.FromStrings(ss...).String()
}

func (s *expSample) keyLikeParsed(withEx, withST bool) string {
	l := append([][2]string{}, s.lbls...)
	if s.magic != "" {
		l = append(l, [2]string{s.magic, "#" + fnum(s.mval)})
	}
	k := fmt.Sprintf("%s{%s} v=%s t=%d", s.name, labelsKey(l), valKey(s.v), s.ts)
	if withEx {
		ex := "-"
		if s.ex != nil {
			ex = exLabelsString(s.ex.lbl) + "|" + valKey(s.ex.v)
			if s.ex.hasTs {
				ex += fmt.Sprintf("@%d", s.ex.ts)
			}
		}
		k += " ex=" + ex
	}
	if withST {
		k += fmt.Sprintf(" st=%d", s.st)
	}
	return k
}

type diff struct {
	missing []string // expected, not parsed
	extra   []string // parsed, not expected
}

func (d *diff) empty() bool { return len(d.missing) == 0 && len(d.extra) == 0 }

func multisetDiff(want, got []string) diff {
	cnt := map[string]int{}
	for _, k := range want {
		cnt[k]++
	}
	for _, k := range got {
		cnt[k]--
	}
	var d diff
	for _, k := range want {
		if cnt[k] > 0 {
			cnt[k]--
			d.missing = append(d.missing, k)
		}
	}
	for _, k := range got {
		if cnt[k] < 0 {
			cnt[k]++
			d.extra = append(d.extra, k)
		}
	}
	return d
}

func clipS(s string, n int) string {
	if len(s) > n {
		return s[:n] + "…"
	}
	return s
}

func showPayload(format string, b []byte) string {
	if format == "proto" {
		return clipS(fmt.Sprintf("%q", b), 1800)
	}
	return clipS(string(b), 2500)
}

func first(ss []string, n int) string {
	if len(ss) > n {
		ss = append(append([]string{}, ss[:n]...), fmt.Sprintf("… %d more", len(ss)-n))
	}
	return strings.Join(ss, "\n    ")
}

// compareParse checks one parse against the expectation.  It returns the le/quantile texts per logical
// sample id (for the cross-format check) and whether everything matched.
func compareParse(c *core.Case, fams []*fam, payload []byte, ps parseSpec, entries []expo.Entry) (map[string]string, bool) {
	exp := expect(fams, ps.rules)
	ok := true
	withEx, withST := ps.rules.exemplars, ps.readST
	// samples
	var want, got []string
	for i := range exp.samples {
		want = append(want, exp.samples[i].keyLikeParsed(withEx, withST))
	}
	magic := map[string]string{}
	gotMagic := map[string]string{}
	for i := range entries {
		if entries[i].Kind != textparse.EntrySeries {
			continue
		}
		k, _, mt := parsedSampleKey(&entries[i], withEx, withST)
		got = append(got, k)
		if mt != "" {
			gotMagic[k] = mt
		}
	}
	for i := range exp.samples {
		if exp.samples[i].magic != "" {
			if t, ok := gotMagic[want[i]]; ok {
				magic[exp.samples[i].id] = t
			}
		}
	}
	d := multisetDiff(want, got)
	if !d.empty() {
		ok = false
		// structured second look: which recorded mechanisms explain the leftovers?
		var wr, gr []srec
		for i := range exp.samples {
			wr = append(wr, exp.samples[i].rec(withEx, withST))
		}
		for i := range entries {
			if entries[i].Kind == textparse.EntrySeries {
				gr = append(gr, parsedRec(&entries[i], withEx, withST))
			}
		}
		kinds := explain(ps, d, wr, gr)
		if ps.format == "proto" && onlyMixed(fams, append(append([]string{}, d.missing...), d.extra...)) {
			kinds = []string{kindMixed}
		}
		for _, kind := range kinds {
			c.Violatef(kind, "%s parse (options %+v): samples differ from the encoded families\n  expected but not parsed:\n    %s\n  parsed but not expected:\n    %s\npayload:\n%s", ps.format, ps.opts, first(d.missing, 6), first(d.extra, 6), showPayload(ps.format, payload))
		}
	}
	// native histograms
	var wh, gh []string
	for _, h := range exp.hists {
		k := fmt.Sprintf("%s{%s} t=%d H[%s]", h.name, labelsKey(h.lbls), h.ts, h.hkey)
		if withST {
			k += fmt.Sprintf(" st=%d", h.st)
		}
		wh = append(wh, k)
	}
	for i := range entries {
		en := &entries[i]
		if en.Kind != textparse.EntryHistogram {
			continue
		}
		var l [][2]string
		en.Labels.Range(func(x labels.Label) {
			if x.Name != "__name__" {
				l = append(l, [2]string{x.Name, x.Value})
			}
		})
		ts := int64(0)
		if en.HasTs {
			ts = en.Ts
		}
		k := fmt.Sprintf("%s{%s} t=%d H[%s]", en.Labels.Get("__name__"), labelsKey(l), ts, en.HistKey())
		if withST {
			k += fmt.Sprintf(" st=%d", en.ST)
		}
		gh = append(gh, k)
		var verr error
		switch {
		case en.H != nil:
			verr = en.H.Validate()
		case en.FH != nil:
			verr = en.FH.Validate()
		default:
			verr = fmt.Errorf("Histogram() returned neither an integer nor a float histogram")
		}
		if verr != nil {
			ok = false
			kind := "histogram-entry-invalid"
			if ps.format == "proto" && onlyMixed(fams, []string{en.Labels.Get("__name__") + "{"}) {
				kind = kindMixed
			}
			c.Violatef(kind, "%s parse (options %+v): histogram entry %s is not a valid histogram: %v\npayload:\n%s", ps.format, ps.opts, en.Short(), verr, showPayload(ps.format, payload))
		}
	}
	if hd := multisetDiff(wh, gh); !hd.empty() {
		ok = false
		kind := "native-histogram-mismatch"
		if ps.format == "proto" && onlyMixed(fams, append(append([]string{}, hd.missing...), hd.extra...)) {
			kind = kindMixed
		}
		c.Violatef(kind, "%s parse (options %+v): native histograms differ from the encoded families\n  expected but not parsed:\n    %s\n  parsed but not expected:\n    %s\npayload:\n%s", ps.format, ps.opts, first(hd.missing, 4), first(hd.extra, 4), showPayload(ps.format, payload))
	}
	// metadata
	var types []string
	helps := map[string][]string{}
	unitsGot := map[string][]string{}
	for i := range entries {
		en := &entries[i]
		switch en.Kind {
		case textparse.EntryType:
			types = append(types, en.Name+" "+string(en.Type))
		case textparse.EntryHelp:
			helps[en.Name] = append(helps[en.Name], en.Text)
		case textparse.EntryUnit:
			unitsGot[en.Name] = append(unitsGot[en.Name], en.Text)
		}
	}
	var wantTypes []string
	for _, m := range exp.meta {
		wantTypes = append(wantTypes, m.name+" "+string(m.typ))
		if m.help != nil {
			if hs := helps[m.name]; len(hs) != 1 || hs[0] != *m.help {
				ok = false
				c.Violatef("metadata-mismatch", "%s parse: HELP of %q is %q, encoded %q\npayload:\n%s", ps.format, m.name, hs, *m.help, showPayload(ps.format, payload))
			}
		} else if hs := helps[m.name]; len(hs) > 1 || (len(hs) == 1 && hs[0] != "") {
			ok = false
			c.Violatef("metadata-mismatch", "%s parse: HELP of %q is %q, nothing was encoded\npayload:\n%s", ps.format, m.name, hs, showPayload(ps.format, payload))
		}
		if m.unit != "" {
			if us := unitsGot[m.name]; len(us) != 1 || us[0] != m.unit {
				ok = false
				c.Violatef("metadata-mismatch", "%s parse: UNIT of %q is %q, encoded %q\npayload:\n%s", ps.format, m.name, us, m.unit, showPayload(ps.format, payload))
			}
		}
	}
	if strings.Join(types, "\n") != strings.Join(wantTypes, "\n") {
		ok = false
		c.Violatef("metadata-mismatch", "%s parse: TYPE entries %q, encoded families %q\npayload:\n%s", ps.format, types, wantTypes, showPayload(ps.format, payload))
	}
	return magic, ok
}

// srec is a sample in structured form, for telling recorded failure mechanisms apart.
type srec struct {
	full    string
	base    string // name, labels, value
	t, st   int64
	hasEx   bool
	exL     [][2]string
	exV     string
	exHasTs bool
	exTs    int64
}

func sortedPairs(l [][2]string) [][2]string {
	out := append([][2]string{}, l...)
	sort.Slice(out, func(i, j int) bool { return out[i][0] < out[j][0] })
	return out
}

func (s *expSample) rec(withEx, withST bool) srec {
	l := append([][2]string{}, s.lbls...)
	if s.magic != "" {
		l = append(l, [2]string{s.magic, "#" + fnum(s.mval)})
	}
	r := srec{full: s.keyLikeParsed(withEx, withST), base: fmt.Sprintf("%s{%s} v=%s", s.name, labelsKey(l), valKey(s.v)), t: s.ts}
	if withST {
		r.st = s.st
	}
	if withEx && s.ex != nil {
		r.hasEx, r.exL, r.exV, r.exHasTs, r.exTs = true, sortedPairs(s.ex.lbl), valKey(s.ex.v), s.ex.hasTs, s.ex.ts
	}
	return r
}

func parsedRec(en *expo.Entry, withEx, withST bool) srec {
	full, _, _ := parsedSampleKey(en, withEx, withST)
	r := srec{full: full, base: strings.SplitN(full, " t=", 2)[0]}
	if en.HasTs {
		r.t = en.Ts
	}
	if withST {
		r.st = en.ST
	}
	if withEx && len(en.Ex) == 1 {
		x := en.Ex[0]
		r.hasEx, r.exL, r.exV, r.exHasTs, r.exTs = true, x.Pairs, valKey(x.Value), x.HasTs, x.Ts
	} else if withEx && len(en.Ex) > 1 {
		r.hasEx, r.exV = true, "several exemplars"
	}
	return r
}

const kindMixed = "proto-mixed-native-classic-family"

// text/OpenMetrics parsers accept a quoted blank label name; NHCB conversion then panics in labels.DropReserved
const kindBlankNamePanic = "nhcb-panic-on-blank-label-name"

// onlyMixed: every key (rendered "name{…") belongs to a family that mixes metrics with and without
// a native part.
func onlyMixed(fams []*fam, keys []string) bool {
	mixed := map[string]bool{}
	for _, f := range fams {
		if f.mixed {
			mixed[f.name] = true
		}
	}
	if len(mixed) == 0 || len(keys) == 0 {
		return false
	}
	for _, k := range keys {
		name := k
		if i := strings.IndexByte(k, '{'); i >= 0 {
			name = k[:i]
		}
		ok := mixed[name]
		for _, suf := range []string{"_bucket", "_sum", "_count"} {
			if b, cut := strings.CutSuffix(name, suf); cut && mixed[b] {
				ok = true
			}
		}
		if !ok {
			return false
		}
	}
	return true
}

const (
	kindOMTs    = "om-timestamp-truncated-by-1ms"
	kindOMExEsc = "om-exemplar-label-value-not-unescaped"
	kindGeneric = "samples-mismatch"
)

func off1(a, b int64) bool { return a-b == 1 || b-a == 1 }

// explain pairs the leftover expected/parsed samples by name+labels+value and reports which kinds
// account for the differences; anything not accounted for yields the generic kind.
func explain(ps parseSpec, d diff, want, got []srec) []string {
	if ps.format != "om" {
		return []string{kindGeneric}
	}
	pick := func(recs []srec, fulls []string) []srec {
		cnt := map[string]int{}
		for _, f := range fulls {
			cnt[f]++
		}
		var out []srec
		for _, r := range recs {
			if cnt[r.full] > 0 {
				cnt[r.full]--
				out = append(out, r)
			}
		}
		return out
	}
	miss, extra := pick(want, d.missing), pick(got, d.extra)
	if len(miss) != len(extra) {
		return []string{kindGeneric}
	}
	used := make([]bool, len(extra))
	kinds := map[string]bool{}
	escape := expo.EscapeLabelValue // what the encoder wrote and the parser failed to undo
	for _, w := range miss {
		found := false
		for j, g := range extra {
			if used[j] || g.base != w.base || g.hasEx != w.hasEx {
				continue
			}
			local := map[string]bool{}
			okPair := true
			if g.t != w.t {
				if w.t != 0 && g.t != 0 && off1(g.t, w.t) {
					local[kindOMTs] = true
				} else {
					okPair = false
				}
			}
			if g.st != w.st {
				if w.st != 0 && g.st != 0 && off1(g.st, w.st) {
					local[kindOMTs] = true
				} else {
					okPair = false
				}
			}
			if w.hasEx {
				if g.exV != w.exV || g.exHasTs != w.exHasTs || len(g.exL) != len(w.exL) {
					okPair = false
				} else {
					if g.exTs != w.exTs {
						if off1(g.exTs, w.exTs) {
							local[kindOMTs] = true
						} else {
							okPair = false
						}
					}
					for i := range w.exL {
						if g.exL[i] == w.exL[i] {
							continue
						}
						if g.exL[i][0] == w.exL[i][0] && g.exL[i][1] == escape(w.exL[i][1]) {
							local[kindOMExEsc] = true
						} else {
							okPair = false
						}
					}
				}
			}
			if okPair && len(local) > 0 {
				used[j], found = true, true
				for k := range local {
					kinds[k] = true
				}
				break
			}
		}
		if !found {
			return []string{kindGeneric}
		}
	}
	var out []string
	for k := range kinds {
		out = append(out, k)
	}
	sort.Strings(out)
	return out
}

// ---------------------------------------------------------------- totality

func mutate(r *rand.Rand, src []byte, others [][]byte) []byte {
	b := append([]byte{}, src...)
	switch r.IntN(11) {
	case 10: // blank (quoted) label name in place of a label name
		var at []int
		for i := 0; i+1 < len(b); i++ {
			if b[i] == '=' && b[i+1] == '"' {
				at = append(at, i)
			}
		}
		if len(at) > 0 {
			e := at[r.IntN(len(at))]
			st := e
			for st > 0 && (b[st-1] == '_' || b[st-1] >= '0' && b[st-1] <= '9' || b[st-1] >= 'a' && b[st-1] <= 'z' || b[st-1] >= 'A' && b[st-1] <= 'Z') {
				st--
			}
			b = append(b[:st], append([]byte(`""`), b[e:]...)...)
		}
	case 0: // truncate
		if len(b) > 0 {
			b = b[:r.IntN(len(b))]
		}
	case 1, 2: // bit flips
		for i := 1 + r.IntN(4); i > 0 && len(b) > 0; i-- {
			b[r.IntN(len(b))] ^= 1 << r.IntN(8)
		}
	case 3: // byte replacement with syntax characters
		for i := 1 + r.IntN(4); i > 0 && len(b) > 0; i-- {
			const syn = "{}\",=# \n\\\x00\xff+-eE.0:"
			b[r.IntN(len(b))] = syn[r.IntN(len(syn))]
		}
	case 4: // delete a range
		if len(b) > 2 {
			i := r.IntN(len(b) - 1)
			j := i + 1 + r.IntN(min(40, len(b)-i-1))
			b = append(b[:i], b[j:]...)
		}
	case 5: // duplicate a range
		if len(b) > 2 {
			i := r.IntN(len(b) - 1)
			j := i + 1 + r.IntN(min(60, len(b)-i-1))
			b = append(b[:j], append(append([]byte{}, b[i:j]...), b[j:]...)...)
		}
	case 6: // splice with another format's payload
		o := others[r.IntN(len(others))]
		if len(b) > 0 && len(o) > 0 {
			b = append(b[:r.IntN(len(b))], o[r.IntN(len(o)):]...)
		}
	case 7: // shuffle lines
		lines := bytes.Split(b, []byte("\n"))
		r.Shuffle(len(lines), func(i, j int) { lines[i], lines[j] = lines[j], lines[i] })
		b = bytes.Join(lines, []byte("\n"))
	case 8: // random bytes
		b = make([]byte, r.IntN(200))
		for i := range b {
			b[i] = byte(r.IntN(256))
		}
	default: // random tokens
		toks := []string{"# TYPE ", "# HELP ", "# UNIT ", "# EOF", "\n", "m", "_total", "_bucket", "{", "}", "le=", "\"", "+Inf", "NaN", " ", "1", "1e", "-", "0x1p-2", ",", "#", "{\"", "\\", "histogram", "counter", "summary", "quantile=", "\x00", "\xf0\x28\x8c\x28", "1_000", "=", "a"}
		var sb strings.Builder
		for i := r.IntN(40); i > 0; i-- {
			sb.WriteString(toks[r.IntN(len(toks))])
		}
		b = []byte(sb.String())
	}
	return b
}

func randomOpts(r *rand.Rand) textparse.ParserOptions {
	return textparse.ParserOptions{
		EnableTypeAndUnitLabels:                 r.IntN(2) == 0,
		IgnoreNativeHistograms:                  r.IntN(3) == 0,
		ConvertClassicHistogramsToNHCB:          r.IntN(2) == 0,
		KeepClassicOnClassicAndNativeHistograms: r.IntN(2) == 0,
		OpenMetricsSkipSTSeries:                 r.IntN(2) == 0,
	}
}

// hangsSeen counts hostile parses of this worker process that did not return (their goroutines keep
// spinning; see totalOne).
var hangsSeen atomic.Int32

const kindTextNegTs = "text-negative-timestamp-rejected"

func hasNegativeTs(fams []*fam) bool {
	for _, f := range fams {
		for _, m := range f.ms {
			if m.ts < 0 {
				return true
			}
		}
	}
	return false
}

const (
	kindHang   = "parser-hangs-on-hostile-payload"
	kindSTHang = "om-starttimestamp-peek-spins-on-invalid-token"
)

// risksSTPeek: the combinations in which OpenMetricsParser.StartTimestamp (peeking parse) is reached.
func risksSTPeek(ct string, o textparse.ParserOptions, readST bool) bool {
	return ct == expo.CTOM && (readST || (o.ConvertClassicHistogramsToNHCB && o.OpenMetricsSkipSTSeries))
}

// totalOne parses one hostile payload in its own goroutine.  A panic raised in repository code becomes a
// violation that carries the payload.  A parse that has not returned after hangTimeout (payloads are
// < 64 KiB and parse in well under a millisecond) and whose goroutine is then found twice, one second
// apart, inside repository frames is reported as a hang; the goroutine cannot be stopped and keeps
// spinning until the worker exits.
func totalOne(c *core.Case, payload []byte, ct string, o textparse.ParserOptions, readST bool) {
	if hangsSeen.Load() > 0 && risksSTPeek(ct, o, readST) {
		// recorded mechanism already observed in this process: do not pile up spinning goroutines
		c.Count("hostile_parses_skipped_after_hang_in_this_worker", 1)
		return
	}
	type outcome struct {
		entries int
		err     error
		pan     any
		stack   string
	}
	done := make(chan outcome, 1)
	var gid atomic.Int64
	go func() {
		var out outcome
		defer func() {
			if rec := recover(); rec != nil {
				st := make([]byte, 32<<10)
				st = st[:runtime.Stack(st, false)]
				out.pan, out.stack = rec, string(st)
			}
			done <- out
		}()
		gid.Store(goid())
		p, _ := textparse.New(payload, ct, labels.NewSymbolTable(), o)
		if p == nil {
			return
		}
		entries, err := expo.ReadAll(p, expo.ReadOpts{StartTimestamps: readST, MaxEntries: 4*len(payload) + 64})
		out.entries, out.err = len(entries), err
	}()
	var out outcome
	select {
	case out = <-done:
	case <-time.After(hangTimeout):
		s1 := stackOf(gid.Load())
		time.Sleep(time.Second)
		select {
		case out = <-done: // slow, not hung (loaded machine)
			c.Count("hostile_parses_slower_than_hang_timeout", 1)
		default:
			s2 := stackOf(gid.Load())
			if !strings.Contains(s1, repoPkg) || !strings.Contains(s2, repoPkg) {
				c.Inconclusive("hostile parse did not return within %v but its goroutine is not inside repository code:\n%s", hangTimeout, s2)
				return
			}
			hangsSeen.Add(1)
			kind := kindHang
			if strings.Contains(s2, "(*OpenMetricsParser).parseComment") && strings.Contains(s2, "(*OpenMetricsParser).StartTimestamp") {
				kind = kindSTHang
			}
			c.Violatef(kind, "content type %s, options %+v, StartTimestamp read by the caller: %v: the parse of a %d byte payload has not returned after %v; its goroutine is inside\n%s\npayload: %q", ct, o, readST, len(payload), hangTimeout+time.Second, core.TrimStack(s2, 24), clipS(string(payload), 3000))
			return
		}
	}
	if out.pan != nil {
		if core.PanicOrigin(out.stack) != "repo" {
			panic(out.pan)
		}
		kind := "panic-on-hostile-payload"
		if strings.Contains(fmt.Sprint(out.pan), "index out of range [0] with length 0") && strings.Contains(out.stack, "labels.Labels.DropReserved") && strings.Contains(out.stack, "(*NHCBParser).processNHCB") {
			kind = kindBlankNamePanic
		}
		c.Violatef(kind, "content type %s, options %+v: panic %v\npayload: %q\n%s", ct, o, out.pan, clipS(string(payload), 1500), core.TrimStack(out.stack, 30))
		return
	}
	if out.err != nil && strings.HasPrefix(out.err.Error(), "more than ") {
		c.Violatef("parser-does-not-terminate", "content type %s, options %+v: more than %d entries from a payload of %d bytes\npayload: %q", ct, o, out.entries, len(payload), clipS(string(payload), 1500))
	}
	if out.err != nil {
		c.Count("hostile_payloads_rejected", 1)
	} else {
		c.Count("hostile_payloads_accepted", 1)
	}
}

const hangTimeout = 6 * time.Second

const repoPkg = "github.com/prometheus/prometheus/"

func goid() int64 {
	var buf [64]byte
	n := runtime.Stack(buf[:], false)
	f := strings.Fields(strings.TrimPrefix(string(buf[:n]), "goroutine "))
	if len(f) == 0 {
		return -1
	}
	id, _ := strconv.ParseInt(f[0], 10, 64)
	return id
}

// stackOf returns the stack of goroutine id from a dump of all goroutines.
func stackOf(id int64) string {
	buf := make([]byte, 1<<20)
	buf = buf[:runtime.Stack(buf, true)]
	for _, g := range strings.Split(string(buf), "\n\n") {
		if strings.HasPrefix(g, fmt.Sprintf("goroutine %d ", id)) {
			return g
		}
	}
	return ""
}

// ---------------------------------------------------------------- the case

func run(c *core.Case) {
	r := c.Rng
	utf := r.IntN(3) == 0
	fams := genFamilies(r, utf)
	mfs := toDTO(fams)
	var textFams []*fam
	for _, f := range fams {
		if !f.protoOnly {
			textFams = append(textFams, f)
		}
	}
	textMfs := toDTO(textFams)
	skipST := r.IntN(2) == 0

	text := encode(textMfs, expfmt.NewFormat(expfmt.TypeTextPlain))
	omFmt, err := expfmt.NewOpenMetricsFormat(expfmt.OpenMetricsVersion_1_0_0)
	core.Must(err, "openmetrics format")
	om := encode(textMfs, omFmt, expfmt.WithCreatedLines())
	pb := encode(mfs, expfmt.NewFormat(expfmt.TypeProtoDelim))
	payloads := map[string][]byte{"text": text, "om": om, "proto": pb}

	specs := []parseSpec{
		{format: "text", ct: expo.CTText, rules: fmtRules{name: "text"}},
		{format: "om", ct: expo.CTOM, readST: skipST, opts: textparse.ParserOptions{OpenMetricsSkipSTSeries: skipST},
			rules: fmtRules{name: "om", exemplars: true, created: true, stVisible: skipST, omCounters: true, unit: true, createdAsSeries: !skipST}},
		{format: "proto", ct: expo.CTProto, readST: true,
			rules: fmtRules{name: "proto", exemplars: true, created: true, stVisible: true, unit: true, native: true}},
		{format: "proto", ct: expo.CTProto, readST: true, opts: textparse.ParserOptions{KeepClassicOnClassicAndNativeHistograms: true},
			rules: fmtRules{name: "proto+keep", exemplars: true, created: true, stVisible: true, unit: true, native: true, keepClass: true}},
		{format: "proto", ct: expo.CTProto, readST: true, opts: textparse.ParserOptions{IgnoreNativeHistograms: true},
			rules: fmtRules{name: "proto+ignore", exemplars: true, created: true, stVisible: true, unit: true, native: true, ignoreNat: true}},
	}
	allOK := true
	magicByFormat := map[string]map[string]string{}
	for _, ps := range specs {
		payload := payloads[ps.format]
		entries, err := doParse(payload, ps)
		c.Count("parses_"+ps.rules.name, 1)
		if err != nil {
			allOK = false
			kind := "valid-payload-rejected"
			if ps.format == "text" && hasNegativeTs(textFams) && strings.Contains(err.Error(), `expected timestamp or new record, got "-"`) {
				kind = kindTextNegTs
			}
			c.Violatef(kind, "%s parse (options %+v) fails on an expfmt-encoded payload: %v\npayload:\n%s", ps.format, ps.opts, err, showPayload(ps.format, payload))
			continue
		}
		fl := fams
		if ps.format != "proto" {
			fl = textFams
		}
		magic, ok := compareParse(c, fl, payload, ps, entries)
		if !ok {
			allOK = false
		}
		if _, seen := magicByFormat[ps.format]; !seen {
			magicByFormat[ps.format] = magic
		}
		// option law: type-and-unit labels only add __type__ / __unit__
		if ok && r.IntN(2) == 0 {
			ps2 := ps
			ps2.opts.EnableTypeAndUnitLabels = true
			e2, err := doParse(payload, ps2)
			if err != nil {
				c.Violatef("option-law", "%s parse with EnableTypeAndUnitLabels fails: %v\npayload:\n%s", ps.format, err, showPayload(ps.format, payload))
				allOK = false
			} else if msg := sameButTypeUnit(entries, e2); msg != "" {
				c.Violatef("option-law", "%s parse with EnableTypeAndUnitLabels (other options %+v): %s\npayload:\n%s", ps.format, ps.opts, msg, showPayload(ps.format, payload))
				allOK = false
			}
		}
	}
	// cross-format: identical le / quantile texts
	if allOK {
		for id, t := range magicByFormat["proto"] {
			for _, f := range []string{"text", "om"} {
				if u, ok := magicByFormat[f][id]; ok && u != t {
					c.Violatef("cross-format-le-text", "sample %s: le/quantile label is %q in the protobuf parse and %q in the %s parse\n%s payload:\n%s", id, t, u, f, f, showPayload(f, payloads[f]))
					allOK = false
				}
			}
		}
	}

	// totality
	nm := 24
	if c.Tier == core.Thorough {
		nm = 48
	}
	all := [][]byte{text, om, pb}
	cts := []string{expo.CTText, expo.CTOM, expo.CTProto}
	for i := 0; i < nm; i++ {
		k := r.IntN(3)
		m := mutate(r, all[k], all)
		ct := cts[k]
		if r.IntN(8) == 0 {
			ct = cts[r.IntN(3)] // wrong parser for the payload
		}
		totalOne(c, m, ct, randomOpts(r), r.IntN(2) == 0)
	}
	c.Count("hostile_payloads", int64(nm))

	interesting := false
	for _, f := range fams {
		if f.typ == dto.MetricType_SUMMARY || f.typ == dto.MetricType_HISTOGRAM {
			interesting = true
		}
		for _, m := range f.ms {
			if m.ex != nil {
				interesting = true
			}
		}
	}
	sum := sha256.Sum256(append(append(append([]byte{}, text...), om...), pb...))
	if allOK {
		c.Count("cases_all_parses_match", 1)
	}
	if len(fams) >= 2 {
		c.Count("cases_with_2plus_families", 1)
	}
	if interesting {
		c.Count("cases_with_summary_histogram_or_exemplar", 1)
	}
	if allOK && len(fams) >= 2 && interesting {
		c.Nontrivial(fmt.Sprintf("%x", sum[:12]))
	}
	for _, f := range fams {
		c.Seen("family_type", f.typ.String())
	}
	if c.Idx < 3 {
		c.Sample(map[string]any{"openmetrics_payload": clipS(string(om), 1500), "families": len(fams), "utf8_names": utf})
	}
}

// sameButTypeUnit compares two entry streams that may differ only by __type__/__unit__ labels.
func sameButTypeUnit(a, b []expo.Entry) string {
	if len(a) != len(b) {
		return fmt.Sprintf("%d entries without the option, %d with it", len(a), len(b))
	}
	for i := range a {
		x, y := a[i], b[i]
		if x.Kind != y.Kind {
			return fmt.Sprintf("entry %d: kind %d without, %d with the option", i, x.Kind, y.Kind)
		}
		if x.Kind != textparse.EntrySeries && x.Kind != textparse.EntryHistogram {
			continue
		}
		strip := func(l labels.Labels) labels.Labels {
			var keep []labels.Label
			l.Range(func(v labels.Label) {
				if v.Name != "__type__" && v.Name != "__unit__" {
					keep = append(keep, v)
				}
			})
			return labels.New(keep...)
		}
		x.Labels, y.Labels = strip(x.Labels), strip(y.Labels)
		if x.SampleKey(false) != y.SampleKey(false) {
			return fmt.Sprintf("entry %d differs beyond __type__/__unit__: without %s, with %s", i, x.Short(), b[i].Short())
		}
	}
	return ""
}
