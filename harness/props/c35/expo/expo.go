// Package expo holds the helpers shared by the C35 and C36 checks: reading the complete entry
// stream of a textparse.Parser into plain values.  It registers nothing.
package expo

import (
	"errors"
	"fmt"
	"io"
	"math"
	"sort"
	"strings"

	"github.com/prometheus/common/model"

	"github.com/prometheus/prometheus/model/exemplar"
	"github.com/prometheus/prometheus/model/histogram"
	"github.com/prometheus/prometheus/model/labels"
	"github.com/prometheus/prometheus/model/textparse"

	"verif/internal/gen"
)

const (
	CTText  = "text/plain; version=0.0.4"
	CTOM    = "application/openmetrics-text; version=1.0.0; charset=utf-8"
	CTProto = "application/vnd.google.protobuf; proto=io.prometheus.client.MetricFamily; encoding=delimited"
)

// Ex is one exemplar as plain values.
type Ex struct {
	Pairs  [][2]string // sorted by name
	Labels string
	Value  float64
	HasTs  bool
	Ts     int64
}

func (e Ex) Key() string {
	if e.HasTs {
		return fmt.Sprintf("%s %x @%d", e.Labels, math.Float64bits(e.Value), e.Ts)
	}
	return fmt.Sprintf("%s %x", e.Labels, math.Float64bits(e.Value))
}

// Entry is one parser entry with everything the accessors returned, copied.
type Entry struct {
	Kind   textparse.Entry
	Series string // bytes returned by Series()/Histogram()
	Labels labels.Labels
	HasTs  bool
	Ts     int64
	V      float64
	H      *histogram.Histogram
	FH     *histogram.FloatHistogram
	Ex     []Ex
	ST     int64
	Name   string // Help/Type/Unit: metric family name; Comment: text
	Text   string
	Type   model.MetricType
}

// ReadOpts selects which optional accessors ReadAll drives.
type ReadOpts struct {
	StartTimestamps bool // call StartTimestamp() on series and histogram entries
	MaxEntries      int  // 0 = 1<<20
}

// ReadAll drives p to the end.  err is nil at a clean io.EOF.
func ReadAll(p textparse.Parser, o ReadOpts) (out []Entry, err error) {
	max := o.MaxEntries
	if max == 0 {
		max = 1 << 20
	}
	for len(out) < max {
		et, e := p.Next()
		if e != nil {
			if errors.Is(e, io.EOF) {
				return out, nil
			}
			return out, e
		}
		en := Entry{Kind: et}
		switch et {
		case textparse.EntrySeries, textparse.EntryHistogram:
			var ts *int64
			var b []byte
			if et == textparse.EntrySeries {
				b, ts, en.V = p.Series()
			} else {
				var h *histogram.Histogram
				var fh *histogram.FloatHistogram
				b, ts, h, fh = p.Histogram()
				if h != nil {
					en.H = h.Copy()
				}
				if fh != nil {
					en.FH = fh.Copy()
				}
			}
			en.Series = string(b)
			if ts != nil {
				en.HasTs, en.Ts = true, *ts
			}
			var l labels.Labels
			p.Labels(&l)
			en.Labels = l.Copy()
			if o.StartTimestamps {
				en.ST = p.StartTimestamp()
			}
			for n := 0; n < 1000; n++ {
				var ex exemplar.Exemplar
				if !p.Exemplar(&ex) {
					break
				}
				x := Ex{Labels: ex.Labels.String(), Value: ex.Value, HasTs: ex.HasTs, Ts: ex.Ts}
				ex.Labels.Range(func(l labels.Label) { x.Pairs = append(x.Pairs, [2]string{l.Name, l.Value}) })
				en.Ex = append(en.Ex, x)
			}
		case textparse.EntryHelp:
			n, t := p.Help()
			en.Name, en.Text = string(n), string(t)
		case textparse.EntryType:
			n, t := p.Type()
			en.Name, en.Type = string(n), t
		case textparse.EntryUnit:
			n, t := p.Unit()
			en.Name, en.Text = string(n), string(t)
		case textparse.EntryComment:
			en.Text = string(p.Comment())
		}
		out = append(out, en)
	}
	return out, fmt.Errorf("more than %d entries", max)
}

// HistKey renders the histogram of an entry layout-independently in the float domain
// (an integer histogram and the equal float histogram give the same key).
func (e *Entry) HistKey() string {
	// the integer histogram first: consumers (scrape loop) use it whenever it is non-nil
	switch {
	case e.H != nil:
		return gen.FloatHistKey(e.H.ToFloat(nil))
	case e.FH != nil:
		return gen.FloatHistKey(e.FH)
	}
	return "<no histogram>"
}

func tsKey(has bool, ts int64) string {
	if !has {
		return "-"
	}
	return fmt.Sprint(ts)
}

func exKeys(ex []Ex, sorted bool) string {
	ks := make([]string, len(ex))
	for i, e := range ex {
		ks[i] = e.Key()
	}
	if sorted {
		sort.Strings(ks)
	}
	return strings.Join(ks, ";")
}

// SampleKey renders a series or histogram entry: labels, timestamp, value, exemplars (in order)
// and optionally the start timestamp.
func (e *Entry) SampleKey(withST bool) string {
	var v string
	if e.Kind == textparse.EntryHistogram {
		v = "H[" + e.HistKey() + "]"
	} else {
		v = fmt.Sprintf("%x", math.Float64bits(e.V))
	}
	s := fmt.Sprintf("%s t=%s v=%s ex=[%s]", e.Labels.String(), tsKey(e.HasTs, e.Ts), v, exKeys(e.Ex, e.Kind == textparse.EntryHistogram))
	if withST {
		s += fmt.Sprintf(" st=%d", e.ST)
	}
	return s
}

// Short is a compact human rendering for messages.
func (e *Entry) Short() string {
	switch e.Kind {
	case textparse.EntrySeries:
		return fmt.Sprintf("series %s t=%s %v ex=%d st=%d", e.Labels.String(), tsKey(e.HasTs, e.Ts), e.V, len(e.Ex), e.ST)
	case textparse.EntryHistogram:
		hs := ""
		if e.H != nil {
			hs = e.H.String()
		} else if e.FH != nil {
			hs = e.FH.String()
		}
		return fmt.Sprintf("histogram %s t=%s %s ex=[%s] st=%d", e.Labels.String(), tsKey(e.HasTs, e.Ts), hs, exKeys(e.Ex, true), e.ST)
	case textparse.EntryHelp:
		return fmt.Sprintf("help %s %q", e.Name, e.Text)
	case textparse.EntryType:
		return fmt.Sprintf("type %s %s", e.Name, e.Type)
	case textparse.EntryUnit:
		return fmt.Sprintf("unit %s %q", e.Name, e.Text)
	case textparse.EntryComment:
		return fmt.Sprintf("comment %q", e.Text)
	}
	return fmt.Sprintf("entry(%d)", e.Kind)
}

// EscapeLabelValue escapes a label value for the text and OpenMetrics formats.
func EscapeLabelValue(v string) string {
	return strings.NewReplacer(`\`, `\\`, "\n", `\n`, `"`, `\"`).Replace(v)
}
