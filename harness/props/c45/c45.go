// Package c45: recording rules write their results and staleness markers.
//
// Two scenario families share one oracle idea: the expected output of every rule at every
// evaluation time is RECOMPUTED AFTERWARDS by an instant query on the same storage (base data is
// static and loaded beforehand; rule outputs only ever land at the evaluation time, so the
// storage restricted to T <= t no longer changes once the evaluation at t has finished).
//
//	(a) deterministic: groups are built by Manager.LoadGroups from generated rule files and driven
//	    by Group.Eval(ctx, ts) with generated timestamps; reloads = LoadGroups + CopyState.
//	(b) live: a running Manager with 50-100 ms intervals and Manager.Update reloads (groups
//	    removed, rules moved between groups); evaluation times are read back from a heartbeat rule.
package c45

import (
	"context"
	"errors"
	"fmt"
	"math"
	"math/rand/v2"
	"os"
	"path/filepath"
	"sort"
	"strings"
	"sync"
	"time"

	"github.com/prometheus/prometheus/model/exemplar"
	"github.com/prometheus/prometheus/model/histogram"
	"github.com/prometheus/prometheus/model/labels"
	"github.com/prometheus/prometheus/model/metadata"
	"github.com/prometheus/prometheus/model/value"
	"github.com/prometheus/prometheus/promql"
	"github.com/prometheus/prometheus/rules"
	"github.com/prometheus/prometheus/storage"
	"github.com/prometheus/prometheus/tsdb"

	"verif/internal/core"
	"verif/internal/gen"
	"verif/internal/tsdbx"
)

const (
	kMissing       = "rule-result-not-stored"
	kValue         = "rule-result-wrong-value"
	kDepValue      = "dependent-rule-result-differs-from-f-of-current-input"
	kStaleMissing  = "vanished-series-not-marked-stale"
	kRemovedStale  = "removed-rule-series-not-marked-stale"
	kFailedStored  = "failed-evaluation-stored-samples"
	kUnexplained   = "stored-sample-is-not-a-rule-result"
	kStaleNowhere  = "staleness-marker-outside-any-evaluation"
	kNeverStale    = "series-of-removed-rule-never-marked-stale"
	kUpdateErr     = "manager-update-failed"
	kLoadErr       = "load-groups-failed"
	kHarnessRecomp = "recompute-failed"
)

func init() {
	core.Register(&core.Prop{
		ID:        "C45",
		Title:     "Recording rules write their results and staleness markers",
		Level:     "exploration",
		Technique: "runtime monitor: real rule groups (Manager.LoadGroups/Group.Eval/CopyState, and a running Manager with Update reloads) against a real TSDB; expected vectors recomputed afterwards by instant queries on the same storage; staleness law checked on the stored samples",
		LevelText: "Family (a), 7 of 8 cases: 1-3 generated groups (2-6 recording rules: selectors, filters with churning output, aggregations, *_over_time, absent, scalars, native-histogram passthrough, rule labels that override and collide, rules depending on earlier rules of the group, duplicate rules, limits, query offset) over static base series whose values change at every evaluation time and whose presence churns (staleness markers and lookback expiry); 10-25 Group.Eval calls at generated irregular timestamps, sequential or with the concurrent evaluation controller; injected query errors and commit errors; reloads that add, remove, rename, relabel, re-express, reorder rules and move them between groups (LoadGroups + CopyState). Afterwards every rule is recomputed at every evaluation time: a successful evaluation must have stored exactly that vector under the rule's name/labels at the evaluation time; every series of the previous successful evaluation that is missing now carries a staleness marker at this time unless another rule of the group wrote it; failed evaluations stored nothing; series of rules removed by a reload are stale at the group's next evaluation; every stored non-stale sample is some rule's result (stored is a subset of offered). Family (b), 1 of 8 cases: a running Manager (50-100 ms intervals, real clock) with 2-3 Manager.Update reloads that change, add and remove groups and move rules between groups; evaluation times are read back from a per-group heartbeat rule; same exactness/staleness checks on completed evaluations, plus: when the scenario ends every series whose last sample is not a staleness marker is a current result of a currently configured rule. Held on the observed scenarios only.",
		LevelNote: "Trusted: the PromQL engine and TSDB (the recomputation uses them). Reductions: rules only depend on EARLIER rules of their group (the statement says nothing about reading later rules); at the first evaluation after a reload a rule depending on a name that lost a rule instance in that reload is not compared (the code marks the removed instance's series stale at the END of that evaluation, the recomputation would see the marker); in (b) the last evaluation of each group version is not required to be complete (it may have been interrupted by the reload/stop), staleness across a version change of the same group is only checked as 'eventually' by the final-state rule, and series claimed by rules of several groups (moved rules) are exempt from the per-evaluation must-checks. In (b) 'eventually stale' is decided after an unchanged keeper group completed 20 further evaluations (the code waits two intervals by design). CopyState's documented matching (name and labels, first with first) is used to carry 'previous successful evaluation' across reloads.",
		DesignRef: "DESIGN.md §5 C45",
		Rule:      "case = one scenario; non-trivial iff at least 8 rule evaluations were compared exactly, at least one staleness marker for a vanished or removed series was verified, and (family a) at least one dependent rule was compared or (family b) at least one reload completed; distinct by the digest of configs, evaluation times, base data and injected failures",
		Assumptions: []string{
			"a staleness marker is a float StaleNaN sample (also on histogram series) or a histogram sample whose sum is StaleNaN",
			"floats are compared bitwise, with any-NaN = any-NaN and a 1e-9 relative tolerance as a fallback",
		},
		Cases: func(variant string, tier core.Tier) int {
			if variant != "default" {
				return 0
			}
			if tier == core.Thorough {
				return 4000
			}
			return 300
		},
		Run:            run,
		MinNontrivial:  func(t core.Tier) int { return 150 },
		CaseTimeoutSec: 180,
	})
}

// ---------------------------------------------------------------- specs

type ruleSpec struct {
	name  string
	expr  string
	lbls  map[string]string
	depOn string // name of an earlier rule of the same group referenced by expr ("" = base only)
	hist  bool
}

func (r ruleSpec) labels() labels.Labels { return labels.FromMap(r.lbls) }
func (r ruleSpec) key() string           { return r.name + r.labels().String() }

type groupSpec struct {
	file, name string
	interval   time.Duration
	limit      int
	offset     time.Duration
	ver        int
	rules      []ruleSpec
}

func (g groupSpec) key() string { return g.file + ";" + g.name }

func (g groupSpec) clone() groupSpec {
	c := g
	c.rules = append([]ruleSpec(nil), g.rules...)
	return c
}

func (g groupSpec) yaml() string {
	var sb strings.Builder
	fmt.Fprintf(&sb, "- name: %q\n", g.name)
	if g.interval > 0 {
		fmt.Fprintf(&sb, "  interval: %dms\n", g.interval.Milliseconds())
	}
	if g.limit > 0 {
		fmt.Fprintf(&sb, "  limit: %d\n", g.limit)
	}
	if g.offset > 0 {
		fmt.Fprintf(&sb, "  query_offset: %dms\n", g.offset.Milliseconds())
	}
	sb.WriteString("  rules:\n")
	for _, r := range g.rules {
		fmt.Fprintf(&sb, "  - record: %q\n    expr: %q\n", r.name, r.expr)
		if len(r.lbls) > 0 {
			sb.WriteString("    labels:\n")
			ks := make([]string, 0, len(r.lbls))
			for k := range r.lbls {
				ks = append(ks, k)
			}
			sort.Strings(ks)
			for _, k := range ks {
				fmt.Fprintf(&sb, "      %s: %q\n", k, r.lbls[k])
			}
		}
	}
	return sb.String()
}

func writeFiles(dir string, cfg []groupSpec) []string {
	by := map[string][]groupSpec{}
	for _, g := range cfg {
		by[g.file] = append(by[g.file], g)
	}
	var files []string
	for f, gs := range by {
		var sb strings.Builder
		sb.WriteString("groups:\n")
		for _, g := range gs {
			sb.WriteString(g.yaml())
		}
		p := filepath.Join(dir, f)
		core.Must(os.WriteFile(p, []byte(sb.String()), 0o644), "write rule file")
		files = append(files, p)
	}
	sort.Strings(files)
	return files
}

// ---------------------------------------------------------------- rule generation

type ruleGen struct {
	r      *rand.Rand
	nextID int
	W      string // range for *_over_time
	thr    float64
	hist   bool
}

func (g *ruleGen) freshName() string {
	g.nextID++
	return gen.Pick(g.r, []string{"r", "job:x:sum", "agg"}) + fmt.Sprintf("_%d", g.nextID)
}

// newRule draws a rule; prev are the (float-valued) rules defined earlier in the group.
func (g *ruleGen) newRule(prev []ruleSpec) ruleSpec {
	r := g.r
	rs := ruleSpec{name: g.freshName()}
	var cands []ruleSpec
	for _, p := range prev {
		if !p.hist {
			cands = append(cands, p)
		}
	}
	if len(cands) > 0 && r.IntN(5) < 2 {
		p := gen.Pick(r, cands)
		rs.depOn = p.name
		rs.expr = fmt.Sprintf(gen.Pick(r, []string{"%s * 3", "%s + 1", "sum(%s)", "%s > " + fmt.Sprint(g.thr), "count by (g) (%s)", "max(%s) without (s)"}), p.name)
	} else {
		switch r.IntN(13) {
		case 0:
			rs.expr = "base"
		case 1:
			rs.expr = `base{s=~"0|1|2"}`
		case 2, 3:
			rs.expr = fmt.Sprintf("base > %v", g.thr)
		case 4:
			rs.expr = "base * 2"
		case 5:
			rs.expr = "sum by (g) (base)"
		case 6:
			rs.expr = "count(base)"
		case 7:
			rs.expr = fmt.Sprintf("max_over_time(base[%s])", g.W)
		case 8:
			rs.expr = `absent(base{s="1"})`
		case 9:
			rs.expr = gen.Pick(r, []string{"vector(7)", `scalar(base{s="0"})`})
		case 10:
			if g.hist {
				rs.expr = "base_h"
				rs.hist = true
			} else {
				rs.expr = `base{g="a"}`
			}
		case 11:
			if g.hist {
				rs.expr = "histogram_count(base_h)"
			} else {
				rs.expr = "base < bool 2500"
			}
		default:
			rs.expr = fmt.Sprintf("base{s!=\"%d\"}", r.IntN(4))
		}
	}
	switch r.IntN(9) {
	case 0:
		rs.lbls = map[string]string{"src": gen.Pick(r, []string{"x", "with space", "日本"})}
	case 1:
		rs.lbls = map[string]string{"g": "fixed"}
	case 2:
		rs.lbls = map[string]string{"s": "one"} // collides whenever the result has more than one element
	}
	return rs
}

// fixDeps re-draws rules whose dependency is no longer defined earlier in the group.
func (g *ruleGen) fixDeps(gs *groupSpec) {
	for i := range gs.rules {
		d := gs.rules[i].depOn
		if d == "" {
			continue
		}
		ok := false
		for j := 0; j < i; j++ {
			if gs.rules[j].name == d && !gs.rules[j].hist {
				ok = true
			}
		}
		for j := i; j < len(gs.rules); j++ {
			if gs.rules[j].name == d { // a later instance of that name: would be a backward dependency
				ok = false
			}
		}
		if !ok {
			n := g.newRule(nil)
			n.name, n.lbls = gs.rules[i].name, gs.rules[i].lbls
			gs.rules[i] = n
		}
	}
}

// mutate applies reload edits to cfg (in place on a deep copy) and returns the new config.
func (g *ruleGen) mutate(cfg []groupSpec, ver int, live bool) []groupSpec {
	r := g.r
	out := make([]groupSpec, len(cfg))
	for i := range cfg {
		out[i] = cfg[i].clone()
	}
	changed := map[int]bool{}
	edits := 1 + r.IntN(3)
	for e := 0; e < edits; e++ {
		// the keeper group (index 0 in live mode) is never touched
		lo := 0
		if live {
			lo = 1
		}
		if len(out) <= lo {
			break
		}
		gi := lo + r.IntN(len(out)-lo)
		gs := &out[gi]
		first := 0
		if live {
			first = 1 // rule 0 is the heartbeat
		}
		nr := len(gs.rules) - first
		switch op := r.IntN(9); {
		case op == 0 && nr > 1: // remove
			k := first + r.IntN(nr)
			gs.rules = append(gs.rules[:k:k], gs.rules[k+1:]...)
		case op == 1: // add
			k := first + r.IntN(nr+1)
			n := g.newRule(gs.rules[first:k])
			gs.rules = append(gs.rules[:k:k], append([]ruleSpec{n}, gs.rules[k:]...)...)
		case op == 2 && nr > 0: // rename
			k := first + r.IntN(nr)
			old := gs.rules[k].name
			gs.rules[k].name = g.freshName()
			for j := range gs.rules {
				if gs.rules[j].depOn == old {
					gs.rules[j].expr = strings.ReplaceAll(gs.rules[j].expr, old, gs.rules[k].name)
					gs.rules[j].depOn = gs.rules[k].name
				}
			}
		case op == 3 && nr > 0: // relabel
			k := first + r.IntN(nr)
			gs.rules[k].lbls = map[string]string{"src": fmt.Sprintf("v%d", ver)}
		case op == 4 && nr > 0: // new expression, same identity
			k := first + r.IntN(nr)
			n := g.newRule(gs.rules[first:k])
			n.name, n.lbls = gs.rules[k].name, gs.rules[k].lbls
			if n.hist == gs.rules[k].hist {
				gs.rules[k] = n
			}
		case op == 5 && nr > 1: // reorder
			k := first + r.IntN(nr-1)
			gs.rules[k], gs.rules[k+1] = gs.rules[k+1], gs.rules[k]
		case op == 6 && nr > 1 && len(out)-lo > 1: // move to another group
			k := first + r.IntN(nr)
			mv := gs.rules[k]
			gj := lo + r.IntN(len(out)-lo)
			if gj == gi {
				gj = lo + (gi-lo+1)%(len(out)-lo)
			}
			if !live && out[gj].offset != gs.offset {
				// with different query offsets the two groups would write the shared series out of
				// order (and the later write is dropped by the storage): not generated
				continue
			}
			gs.rules = append(gs.rules[:k:k], gs.rules[k+1:]...)
			out[gj].rules = append(out[gj].rules, mv)
			changed[gj] = true
		case op == 7 && nr > 0: // duplicate a rule (same name, labels, expression)
			k := first + r.IntN(nr)
			gs.rules = append(gs.rules[:k+1:k+1], append([]ruleSpec{gs.rules[k]}, gs.rules[k+1:]...)...)
		case op == 8 && live && len(out)-lo > 1: // remove a whole group
			out = append(out[:gi:gi], out[gi+1:]...)
			nc := map[int]bool{}
			for i := range changed {
				if i < gi {
					nc[i] = true
				} else if i > gi {
					nc[i-1] = true
				}
			}
			changed = nc
			continue
		default:
			k := first + r.IntN(nr+1)
			n := g.newRule(gs.rules[first:k])
			gs.rules = append(gs.rules[:k:k], append([]ruleSpec{n}, gs.rules[k:]...)...)
		}
		changed[gi] = true
	}
	if live && r.IntN(3) == 0 { // add a group
		ng := groupSpec{file: gen.Pick(r, []string{"a.yml", "b.yml"}), name: fmt.Sprintf("g%d_%d", ver, r.IntN(100)), interval: cfg[0].interval}
		ng.rules = append(ng.rules, ruleSpec{name: "hb"})
		for i := 0; i < 1+r.IntN(3); i++ {
			ng.rules = append(ng.rules, g.newRule(ng.rules[1:]))
		}
		out = append(out, ng)
		changed[len(out)-1] = true
	}
	for i := range out {
		if changed[i] {
			g.fixDeps(&out[i])
			out[i].ver = ver
			if live {
				out[i].rules[0] = hbRule(out[i])
			}
		}
	}
	return out
}

func hbRule(g groupSpec) ruleSpec {
	return ruleSpec{name: "hb", expr: "vector(1)", lbls: map[string]string{"grp": g.name, "file": g.file, "ver": fmt.Sprint(g.ver)}}
}

// ---------------------------------------------------------------- storage access / recompute

type world struct {
	c      *core.Case
	db     *tsdb.DB
	qf     rules.QueryFunc
	cache  map[string]recomputed
	nCheck int
	nStale int
	nDep   int
}

type recomputed struct {
	out  map[string]promql.Sample // series → sample (after applying name and labels)
	fail string                   // "", "duplicate", "limit", "query"
}

// recompute evaluates the rule at t (ms) and applies the statement: "stores its result vector
// ... under the rule's name and labels".
func (w *world) recompute(r ruleSpec, limit int, t int64) recomputed {
	ck := fmt.Sprintf("%s|%s|%d|%d", r.key(), r.expr, limit, t)
	if v, ok := w.cache[ck]; ok {
		return v
	}
	vec, err := w.qf(context.Background(), r.expr, time.UnixMilli(t).UTC())
	res := recomputed{out: map[string]promql.Sample{}}
	if err != nil {
		w.c.Violatef(kHarnessRecomp, "recomputing %q at %d: %v", r.expr, t, err)
		res.fail = "query"
		w.cache[ck] = res
		return res
	}
	for _, s := range vec {
		b := labels.NewBuilder(s.Metric)
		b.Set(labels.MetricName, r.name)
		for k, v := range r.lbls {
			b.Set(k, v)
		}
		ls := b.Labels()
		if _, dup := res.out[ls.String()]; dup {
			res.fail = "duplicate"
		}
		s.Metric = ls
		res.out[ls.String()] = s
	}
	if res.fail == "" && limit > 0 && len(vec) > limit {
		res.fail = "limit"
	}
	w.cache[ck] = res
	return res
}

type stored map[string]map[int64]tsdbx.Sample

func (w *world) dump() stored {
	q, err := w.db.Querier(math.MinInt64, math.MaxInt64)
	core.Must(err, "querier")
	defer q.Close()
	d, _, err := tsdbx.DumpQuerier(q, labels.MustNewMatcher(labels.MatchNotRegexp, labels.MetricName, "base|base_h"))
	core.Must(err, "dump")
	out := stored{}
	for k, smp := range d {
		m := map[int64]tsdbx.Sample{}
		for _, s := range smp {
			m[s.T] = s
		}
		out[k] = m
	}
	return out
}

func isStale(s tsdbx.Sample) bool {
	switch s.Kind {
	case "f":
		return value.IsStaleNaN(s.F)
	case "h":
		return value.IsStaleNaN(s.H.Sum)
	case "fh":
		return value.IsStaleNaN(s.FH.Sum)
	}
	return false
}

func sameValue(exp promql.Sample, got tsdbx.Sample) bool {
	if exp.H != nil {
		switch got.Kind {
		case "fh":
			return gen.FloatHistKey(exp.H) == gen.FloatHistKey(got.FH)
		case "h":
			return gen.FloatHistKey(exp.H) == gen.FloatHistKey(got.H.ToFloat(nil))
		}
		return false
	}
	if got.Kind != "f" || value.IsStaleNaN(got.F) {
		return false
	}
	a, b := exp.F, got.F
	if math.Float64bits(a) == math.Float64bits(b) || (math.IsNaN(a) && math.IsNaN(b)) {
		return true
	}
	return math.Abs(a-b) <= 1e-9*math.Max(math.Abs(a), math.Abs(b))
}

func renderExp(s promql.Sample) string {
	if s.H != nil {
		return "hist " + gen.FloatHistKey(s.H)
	}
	return fmt.Sprint(s.F)
}

// ---------------------------------------------------------------- failure-injecting storage front

type inject struct {
	mu        sync.Mutex
	queryFail map[string]bool // rule key | t
	commitErr map[string]bool // rule name | t
	delayFor  map[string]bool // rule names whose query is delayed (concurrent mode)
}

var errInjectedQuery = errors.New("injected query failure")
var errInjectedCommit = errors.New("injected commit failure")

type frontAppendable struct {
	inner storage.Appendable
	inj   *inject
}

func (f *frontAppendable) Appender(ctx context.Context) storage.Appender {
	return &frontAppender{Appender: f.inner.Appender(ctx), inj: f.inj}
}

type frontAppender struct {
	storage.Appender
	inj  *inject
	fail bool
}

func (a *frontAppender) note(l labels.Labels, t int64) {
	a.inj.mu.Lock()
	if a.inj.commitErr[fmt.Sprintf("%s|%d", l.Get(labels.MetricName), t)] {
		a.fail = true
	}
	a.inj.mu.Unlock()
}

func (a *frontAppender) Append(ref storage.SeriesRef, l labels.Labels, t int64, v float64) (storage.SeriesRef, error) {
	a.note(l, t)
	return a.Appender.Append(ref, l, t, v)
}

func (a *frontAppender) AppendHistogram(ref storage.SeriesRef, l labels.Labels, t int64, h *histogram.Histogram, fh *histogram.FloatHistogram) (storage.SeriesRef, error) {
	a.note(l, t)
	return a.Appender.AppendHistogram(ref, l, t, h, fh)
}

func (a *frontAppender) Commit() error {
	if a.fail {
		_ = a.Appender.Rollback()
		return errInjectedCommit
	}
	return a.Appender.Commit()
}

var _ = exemplar.Exemplar{}
var _ = metadata.Metadata{}

// ---------------------------------------------------------------- run

func run(c *core.Case) {
	if c.Idx%8 == 7 {
		runLive(c)
		return
	}
	runDeterministic(c)
}

func openDB(c *core.Case) *tsdb.DB {
	opts := tsdb.DefaultOptions()
	opts.MinBlockDuration = int64(30 * 24 * time.Hour / time.Millisecond)
	opts.MaxBlockDuration = opts.MinBlockDuration
	opts.RetentionDuration = 0
	opts.NoLockfile = true
	db, err := tsdb.Open(c.TempDir(), tsdbx.NopLogger(), nil, opts, nil)
	core.Must(err, "open tsdb")
	return db
}

type evalRec struct {
	step int
	te   int64 // sample time of this evaluation (ts - offset), ms
	cfg  groupSpec
}

func runDeterministic(c *core.Case) {
	r := c.Rng
	db := openDB(c)
	defer db.Close()
	var digest strings.Builder

	I := gen.Pick(r, []time.Duration{15 * time.Second, 30 * time.Second, time.Minute})
	lb := gen.Pick(r, []time.Duration{5 * time.Minute, 2*I + time.Second})
	nSteps := 10 + r.IntN(16)
	nGroups := 1 + r.IntN(3)
	concurrent := r.IntN(3) == 0
	rg := &ruleGen{r: r, W: fmt.Sprintf("%ds", int((2*I+I/2)/time.Second)), thr: 2000 + float64(r.IntN(3000)), hist: r.IntN(3) == 0}

	// configuration version 0
	var cfg []groupSpec
	for gi := 0; gi < nGroups; gi++ {
		g := groupSpec{file: gen.Pick(r, []string{"a.yml", "b.yml"}), name: fmt.Sprintf("g%d", gi)}
		if r.IntN(6) == 0 {
			g.limit = 1 + r.IntN(4)
		}
		if r.IntN(6) == 0 {
			g.offset = gen.Pick(r, []time.Duration{time.Second, I / 2, 2500 * time.Millisecond})
		}
		for k := 0; k < 2+r.IntN(5); k++ {
			g.rules = append(g.rules, rg.newRule(g.rules))
		}
		if r.IntN(8) == 0 {
			k := r.IntN(len(g.rules))
			g.rules = append(g.rules[:k+1:k+1], append([]ruleSpec{g.rules[k]}, g.rules[k+1:]...)...)
		}
		rg.fixDeps(&g)
		cfg = append(cfg, g)
	}

	// evaluation times: group gi evaluates at ts_j + gi*3.7 seconds (sample times of different groups never coincide)
	t0 := time.Unix(1_650_000_000+r.Int64N(10_000_000), 0).UTC()
	if r.IntN(3) == 0 {
		t0 = t0.Add(time.Duration(r.IntN(1000)) * time.Millisecond)
	}
	ts := make([]time.Time, nSteps)
	cur := t0
	for j := range ts {
		ts[j] = cur
		switch r.IntN(10) {
		case 0:
			cur = cur.Add(time.Duration(2+r.IntN(3)) * I)
		case 1:
			cur = cur.Add(I + time.Duration(r.IntN(2000)-1000)*time.Millisecond)
		default:
			cur = cur.Add(I)
		}
	}

	// base data: value changes at every evaluation step; presence churns
	nBase := 3 + r.IntN(4)
	app := db.Appender(context.Background())
	for i := 0; i < nBase; i++ {
		ls := labels.FromStrings(labels.MetricName, "base", "s", fmt.Sprint(i), "g", []string{"a", "b"}[i%2])
		pOff, pOn := gen.Pick(r, []float64{0.05, 0.2, 0.4}), gen.Pick(r, []float64{0.2, 0.5, 0.9})
		on := r.IntN(4) != 0
		d := gen.Pick(r, []time.Duration{0, time.Millisecond, 500 * time.Millisecond, 3 * time.Second})
		for j := range ts {
			was := on
			if on && r.Float64() < pOff {
				on = false
			} else if !on && r.Float64() < pOn {
				on = true
			}
			t := ts[j].Add(-d).UnixMilli()
			switch {
			case on:
				v := float64(1000*(i+1) + j*7)
				if r.IntN(40) == 0 {
					v = gen.Float(r, false)
				}
				_, err := app.Append(0, ls, t, v)
				core.Must(err, "base append")
				fmt.Fprintf(&digest, "b%d:%d=%x;", i, t, math.Float64bits(v))
			case was && r.IntN(10) < 7:
				_, err := app.Append(0, ls, t, math.Float64frombits(value.StaleNaN))
				core.Must(err, "base append")
				fmt.Fprintf(&digest, "b%d:%d=stale;", i, t)
			}
		}
	}
	if rg.hist {
		ls := labels.FromStrings(labels.MetricName, "base_h", "s", "0")
		ah := gen.NewAbsHist(r, false)
		on := true
		for j := range ts {
			was := on
			if r.IntN(5) == 0 {
				on = !on
			}
			t := ts[j].UnixMilli() - 1
			if on {
				ah = ah.Mutate(r)
				_, err := app.AppendHistogram(0, ls, t, nil, ah.Float(r))
				core.Must(err, "base hist append")
			} else if was {
				_, err := app.Append(0, ls, t, math.Float64frombits(value.StaleNaN))
				core.Must(err, "base hist stale append")
			}
			fmt.Fprintf(&digest, "h:%d=%v;", t, on)
		}
	}
	core.Must(app.Commit(), "base commit")

	engine := promql.NewEngine(promql.EngineOpts{MaxSamples: 10_000_000, Timeout: time.Minute, LookbackDelta: lb, Logger: tsdbx.NopLogger()})
	rawQF := rules.EngineQueryFunc(engine, db)
	inj := &inject{queryFail: map[string]bool{}, commitErr: map[string]bool{}, delayFor: map[string]bool{}}
	var curT int64 // sample time of the evaluation in progress (same for all rules of the group)
	qf := func(ctx context.Context, q string, t time.Time) (promql.Vector, error) {
		d := rules.FromOriginContext(ctx)
		inj.mu.Lock()
		fail := inj.queryFail[fmt.Sprintf("%s%s|%d", d.Name, d.Labels.String(), curT)]
		delay := inj.delayFor[d.Name]
		inj.mu.Unlock()
		if delay {
			time.Sleep(2 * time.Millisecond) // widen the window in which a wrongly concurrent dependent would read old input
		}
		if fail {
			return nil, errInjectedQuery
		}
		return rawQF(ctx, q, t)
	}
	mopts := &rules.ManagerOptions{
		QueryFunc: qf, NotifyFunc: func(context.Context, string, ...*rules.Alert) {}, Context: context.Background(),
		Appendable: &frontAppendable{inner: db, inj: inj}, Queryable: db, Logger: tsdbx.NopLogger(),
		ConcurrentEvalsEnabled: concurrent, MaxConcurrentEvals: 4,
	}
	mgr := rules.NewManager(mopts)
	dir := c.TempDir()

	load := func(cfg []groupSpec) map[string]*rules.Group {
		files := writeFiles(dir, cfg)
		gs, errs := mgr.LoadGroups(I, labels.EmptyLabels(), "", nil, false, files...)
		if len(errs) > 0 {
			core.Must(fmt.Errorf("%v", errs), "LoadGroups (generated config must be valid)\n"+fmt.Sprint(cfg))
		}
		out := map[string]*rules.Group{}
		for _, g := range gs {
			out[g.File()[len(dir)+1:]+";"+g.Name()] = g
		}
		return out
	}
	setDelays := func(cfg []groupSpec) {
		inj.mu.Lock()
		inj.delayFor = map[string]bool{}
		if concurrent {
			for _, g := range cfg {
				for _, ru := range g.rules {
					if ru.depOn != "" {
						inj.delayFor[ru.depOn] = true
					}
				}
			}
		}
		inj.mu.Unlock()
	}
	live := load(cfg)
	setDelays(cfg)
	for _, g := range cfg {
		c.Logf("initial: %s\n%s", g.key(), g.yaml())
	}

	// ---- reference bookkeeping, filled while driving
	var evals []evalRec
	type reloadRec struct {
		step     int
		old, new []groupSpec
	}
	var reloads []reloadRec
	ver := 0
	for j := 0; j < nSteps; j++ {
		nReloads := 0
		if j > 2 && j < nSteps-2 && r.IntN(6) == 0 {
			nReloads = 1
			if r.IntN(3) == 0 {
				nReloads = 2 // a second reload before the reloaded groups were evaluated once
				c.Count("back_to_back_reloads", 1)
			}
		}
		for ; nReloads > 0; nReloads-- {
			ver++
			ncfg := rg.mutate(cfg, ver, false)
			nl := load(ncfg)
			for k, ng := range nl {
				if og, ok := live[k]; ok {
					if og.Equals(ng) {
						nl[k] = og
					} else {
						ng.CopyState(og)
					}
				}
			}
			reloads = append(reloads, reloadRec{j, cfg, ncfg})
			for _, g := range ncfg {
				c.Logf("reload before step %d (ts %d): %s v%d\n%s", j, ts[j].UnixMilli(), g.key(), g.ver, g.yaml())
			}
			cfg, live = ncfg, nl
			setDelays(cfg)
			fmt.Fprintf(&digest, "R%d;", j)
		}
		for gi, g := range cfg {
			et := ts[j].Add(time.Duration(gi) * 3700 * time.Millisecond)
			te := et.Add(-g.offset).UnixMilli()
			inj.mu.Lock()
			curT = te
			for _, ru := range g.rules {
				if r.IntN(25) == 0 {
					inj.queryFail[fmt.Sprintf("%s|%d", ru.key(), te)] = true
				}
				if r.IntN(30) == 0 {
					inj.commitErr[fmt.Sprintf("%s|%d", ru.name, te)] = true
				}
			}
			inj.mu.Unlock()
			live[g.key()].Eval(context.Background(), et)
			c.Logf("step %d group %s eval ts=%d te=%d", j, g.key(), et.UnixMilli(), te)
			evals = append(evals, evalRec{j, te, g})
		}
	}
	for _, g := range cfg {
		fmt.Fprintf(&digest, "%s", g.yaml())
	}
	fmt.Fprintf(&digest, "%v|%v|%v|%v", ts, concurrent, lb, keysOf(inj.queryFail))

	// ---- oracle
	w := &world{c: c, db: db, qf: rawQF, cache: map[string]recomputed{}}
	D := w.dump()
	explained := map[string]bool{}  // series|t
	exemptName := map[string]bool{} // rule name|t : not compared (see LevelNote)
	evalTimes := map[int64]bool{}
	prevOut := map[string]map[string]bool{}        // group key + "#" + rule index → series of the previous successful evaluation
	pendingStale := map[string]map[string]string{} // group key → series (→ rule name) of rule instances removed by a reload
	hazard := map[string]map[string]bool{}         // group key → rule names that lost an instance in the last reload
	maybeStale := map[string]map[string]bool{}     // group key → series that may be marked stale at the next evaluation (see applyReload)
	applyReload := func(rl reloadRec) {
		oldBy := map[string]groupSpec{}
		for _, g := range rl.old {
			oldBy[g.key()] = g
		}
		np := map[string]map[string]bool{}
		for _, ng := range rl.new {
			og, ok := oldBy[ng.key()]
			if !ok {
				continue
			}
			// documented CopyState matching: by name and labels, first with first
			avail := map[string][]int{}
			for i, ru := range og.rules {
				avail[ru.key()] = append(avail[ru.key()], i)
			}
			for i, ru := range ng.rules {
				if l := avail[ru.key()]; len(l) > 0 {
					if p, ok := prevOut[fmt.Sprintf("%s#%d", og.key(), l[0])]; ok {
						np[fmt.Sprintf("%s#%d", ng.key(), i)] = p
					}
					avail[ru.key()] = l[1:]
				}
			}
			for k, l := range avail {
				if len(l) > 0 {
					// duplicates are indistinguishable by name and labels: when one of several old
					// instances is removed, "all its series" is ambiguous, so the series of the
					// surviving same-identity instances may (but need not) be marked stale as well
					for i, ru := range og.rules {
						if ru.key() == k {
							for s := range prevOut[fmt.Sprintf("%s#%d", og.key(), i)] {
								if maybeStale[ng.key()] == nil {
									maybeStale[ng.key()] = map[string]bool{}
								}
								maybeStale[ng.key()][s] = true
							}
						}
					}
				}
				for _, i := range l {
					if hazard[ng.key()] == nil {
						hazard[ng.key()] = map[string]bool{}
					}
					hazard[ng.key()][og.rules[i].name] = true
					for s := range prevOut[fmt.Sprintf("%s#%d", og.key(), i)] {
						if pendingStale[ng.key()] == nil {
							pendingStale[ng.key()] = map[string]string{}
						}
						pendingStale[ng.key()][s] = og.rules[i].name
					}
					_ = k
				}
			}
		}
		prevOut = np
	}
	ri := 0
	for _, ev := range evals {
		for ri < len(reloads) && reloads[ri].step <= ev.step {
			applyReload(reloads[ri])
			ri++
		}
		{
			g := ev.cfg
			evalTimes[ev.te] = true
			// outputs of all rules at te
			res := make([]recomputed, len(g.rules))
			failed := make([]bool, len(g.rules))
			claimed := map[string][]promql.Sample{}
			for k, ru := range g.rules {
				res[k] = w.recompute(ru, g.limit, ev.te)
				failed[k] = res[k].fail != "" || inj.queryFail[fmt.Sprintf("%s|%d", ru.key(), ev.te)] || inj.commitErr[fmt.Sprintf("%s|%d", ru.name, ev.te)]
				if hazard[g.key()][ru.depOn] {
					exemptName[fmt.Sprintf("%s|%d", ru.name, ev.te)] = true
				}
				if !failed[k] {
					for s, smp := range res[k].out {
						claimed[s] = append(claimed[s], smp)
					}
				}
			}
			// series for which a staleness marker may legitimately have won the timestamp: another
			// rule of the group lost the series in this evaluation, or a reload removed an instance
			staleOK := map[string]bool{}
			for k := range g.rules {
				if failed[k] {
					continue
				}
				for s := range prevOut[fmt.Sprintf("%s#%d", g.key(), k)] {
					if _, still := res[k].out[s]; !still {
						staleOK[s] = true
					}
				}
			}
			for s := range pendingStale[g.key()] {
				staleOK[s] = true
			}
			for s := range maybeStale[g.key()] {
				staleOK[s] = true
			}
			for k, ru := range g.rules {
				pk := fmt.Sprintf("%s#%d", g.key(), k)
				exempt := exemptName[fmt.Sprintf("%s|%d", ru.name, ev.te)]
				c.Logf("oracle: step %d %s te=%d rule#%d %s (%s): failed=%v(%s) exempt=%v out=%v prev=%v pending=%v", ev.step, g.key(), ev.te, k, ru.name, ru.expr, failed[k], res[k].fail, exempt, keysOf(setOf(res[k].out)), keysOf(prevOut[pk]), pendingStale[g.key()])
				if failed[k] {
					c.Seen("failed_evaluations", res[k].fail+map[bool]string{true: "+injected", false: ""}[res[k].fail == ""])
					for s := range union(res[k].out, prevOut[pk]) {
						if len(claimed[s]) > 0 || exempt {
							continue
						}
						if got, ok := D[s][ev.te]; ok && !(isStale(got) && staleOK[s]) {
							c.Violatef(kFailedStored, "group %s rule %s (%s) failed at %d (%s) but series %s has sample %s at that time", g.key(), ru.name, ru.expr, ev.te, res[k].fail, s, got.ValKey())
						}
					}
					continue
				}
				if exempt {
					c.Count("rule_evals_exempt_after_reload", 1)
					// what this evaluation really produced (and whether it hit the limit) is not
					// known to the reference: no staleness requirement at its next evaluation
					delete(prevOut, pk)
					for s := range D {
						if strings.HasPrefix(s, "{__name__=\""+ru.name+"\"") {
							explained[fmt.Sprintf("%s|%d", s, ev.te)] = true
						}
					}
					continue
				}
				for s, exp := range res[k].out {
					explained[fmt.Sprintf("%s|%d", s, ev.te)] = true
					got, ok := D[s][ev.te]
					if !ok {
						c.Violatef(kMissing, "group %s rule %s (%s) at %d: result series %s = %s is not stored at the evaluation time; stored times %v", g.key(), ru.name, ru.expr, ev.te, s, renderExp(exp), timesOf(D[s]))
						continue
					}
					match := false
					for _, cl := range claimed[s] {
						if sameValue(cl, got) {
							match = true
						}
					}
					if !match && isStale(got) && staleOK[s] {
						c.Count("value_lost_to_staleness_marker_of_other_rule(accepted)", 1)
					} else if !match {
						kind := kValue
						if ru.depOn != "" {
							kind = kDepValue
						}
						c.Violatef(kind, "group %s rule %s (%s) at %d: series %s stored %s, recomputed %s", g.key(), ru.name, ru.expr, ev.te, s, got.ValKey(), renderExp(exp))
					}
					w.nCheck++
					if ru.depOn != "" {
						w.nDep++
					}
				}
				for s := range prevOut[pk] {
					if _, still := res[k].out[s]; still {
						continue
					}
					explained[fmt.Sprintf("%s|%d", s, ev.te)] = true
					if len(claimed[s]) > 0 {
						continue
					}
					if !staleAtOrBefore(D[s], ev.te) {
						c.Violatef(kStaleMissing, "group %s rule %s (%s) at %d: series %s was produced by the previous successful evaluation, is not produced now, but has no staleness marker at this time (has: %v)", g.key(), ru.name, ru.expr, ev.te, s, sampleAt(D[s], ev.te))
					} else {
						w.nStale++
						c.Seen("stale_markers", "vanished-from-result")
					}
				}
				prevOut[pk] = setOf(res[k].out)
			}
			// the clean-up transaction of this evaluation fails as a whole if our injected commit
			// error hits one of its samples; the code then retries at the next evaluation
			cleanupFails := false
			for s, name := range pendingStale[g.key()] {
				explained[fmt.Sprintf("%s|%d", s, ev.te)] = true
				if inj.commitErr[fmt.Sprintf("%s|%d", name, ev.te)] {
					cleanupFails = true
				}
			}
			// the clean-up transaction also carries the series of removed instances whose last
			// output the reference does not know (exempt evaluations): any injected commit error
			// on a name that lost an instance may hit it
			for name := range hazard[g.key()] {
				if inj.commitErr[fmt.Sprintf("%s|%d", name, ev.te)] {
					cleanupFails = true
				}
			}
			if !cleanupFails {
				for s, rname := range pendingStale[g.key()] {
					if len(claimed[s]) > 0 {
						continue
					}
					if exemptName[fmt.Sprintf("%s|%d", rname, ev.te)] {
						// a rule of the same name is exempt at this evaluation (it read a dependency that
						// still carried the removed instances' series): what it wrote is not known to the
						// reference, it may legitimately have written this series again
						c.Count("removed_series_possibly_rewritten_by_exempt_rule", 1)
						continue
					}
					if !staleAtOrBefore(D[s], ev.te) {
						c.Violatef(kRemovedStale, "group %s at %d: series %s belongs to a rule instance removed by the last reload but has no staleness marker at the group's next evaluation (has: %v)", g.key(), ev.te, s, sampleAt(D[s], ev.te))
					} else {
						w.nStale++
						c.Seen("stale_markers", "rule-removed-by-reload")
					}
				}
				delete(pendingStale, g.key())
			}
			if !cleanupFails {
				// (while the clean-up is pending the removed instances' series stay live, so the
				// exemption of their dependents stays as well)
				delete(hazard, g.key())
				delete(maybeStale, g.key())
			}
		}
	}
	// stored ⊆ offered
	for s, m := range D {
		for t, smp := range m {
			if explained[fmt.Sprintf("%s|%d", s, t)] {
				continue
			}
			if isStale(smp) {
				if !evalTimes[t] {
					c.Violatef(kStaleNowhere, "series %s has a staleness marker at %d which is no evaluation time", s, t)
				}
				continue
			}
			c.Violatef(kUnexplained, "series %s has sample %s at %d which is not the result of any configured rule evaluated at that time", s, smp.ValKey(), t)
		}
	}
	c.Count("rule_results_compared", int64(w.nCheck))
	c.Count("dependent_rule_results_compared", int64(w.nDep))
	c.Count("stale_markers_verified", int64(w.nStale))
	c.Count("reloads", int64(len(reloads)))
	c.Seen("family", map[bool]string{true: "deterministic+concurrent", false: "deterministic+sequential"}[concurrent])
	if w.nCheck >= 8 && w.nStale > 0 && w.nDep > 0 {
		c.Nontrivial(digest.String())
	}
	if c.Idx < 2 {
		var ys []string
		for _, g := range cfg {
			ys = append(ys, g.yaml())
		}
		c.Sample(map[string]any{"family": "deterministic", "concurrent": concurrent, "interval": I.String(), "lookback": lb.String(), "steps": nSteps, "reloads": len(reloads),
			"final_config": ys, "results_compared": w.nCheck, "dependent_compared": w.nDep, "stale_verified": w.nStale})
	}
}

func union(a map[string]promql.Sample, b map[string]bool) map[string]bool {
	out := map[string]bool{}
	for k := range a {
		out[k] = true
	}
	for k := range b {
		out[k] = true
	}
	return out
}

func setOf(a map[string]promql.Sample) map[string]bool {
	out := map[string]bool{}
	for k := range a {
		out[k] = true
	}
	return out
}

func keysOf(m map[string]bool) []string {
	ks := make([]string, 0, len(m))
	for k := range m {
		ks = append(ks, k)
	}
	sort.Strings(ks)
	return ks
}

func timesOf(m map[int64]tsdbx.Sample) []int64 {
	var ts []int64
	for t := range m {
		ts = append(ts, t)
	}
	sort.Slice(ts, func(i, j int) bool { return ts[i] < ts[j] })
	return ts
}

// staleAtOrBefore: the series is stale at t, i.e. its last sample with time <= t is a staleness
// marker (at t itself, or earlier when a marker of another rule already ended the series and
// nothing was stored since).
func staleAtOrBefore(m map[int64]tsdbx.Sample, t int64) bool {
	best := int64(math.MinInt64)
	found := false
	for x := range m {
		if x <= t && x >= best {
			best, found = x, true
		}
	}
	return found && isStale(m[best])
}

func sampleAt(m map[int64]tsdbx.Sample, t int64) string {
	if s, ok := m[t]; ok {
		return s.ValKey()
	}
	return fmt.Sprintf("no sample at %d; times %v", t, timesOf(m))
}
