package c45

import (
	"context"
	"fmt"
	"math"
	"sort"
	"strings"
	"time"

	"github.com/prometheus/prometheus/model/labels"
	"github.com/prometheus/prometheus/model/value"
	"github.com/prometheus/prometheus/promql"
	"github.com/prometheus/prometheus/rules"

	"verif/internal/core"
	"verif/internal/gen"
	"verif/internal/tsdbx"
)

// runLive: family (b) – a running Manager with Update reloads on the real clock.  The clock only
// paces the scenario and places the (static) base data; every verdict is derived from the stored
// samples (evaluation times are read back from the heartbeat rules).
func runLive(c *core.Case) {
	r := c.Rng
	db := openDB(c)
	defer db.Close()
	var digest strings.Builder

	I := gen.Pick(r, []time.Duration{50 * time.Millisecond, 75 * time.Millisecond, 100 * time.Millisecond})
	concurrent := r.IntN(2) == 0
	rg := &ruleGen{r: r, W: "250ms", thr: 2000 + float64(r.IntN(3000))}

	// static base data around "now": a sample every 10 ms, value changes with every sample
	start := time.Now().Truncate(10 * time.Millisecond)
	const span = 120 * time.Second
	nBase := 3 + r.IntN(3)
	app := db.Appender(context.Background())
	for i := 0; i < nBase; i++ {
		ls := labels.FromStrings(labels.MetricName, "base", "s", fmt.Sprint(i), "g", []string{"a", "b"}[i%2])
		on := true
		left := 10 + r.IntN(60) // samples until the next presence flip
		always := r.IntN(3) == 0
		for k := int64(-100); k < int64(span/(10*time.Millisecond)); k++ {
			t := start.UnixMilli() + k*10
			left--
			if left <= 0 && !always {
				on = !on
				left = 10 + r.IntN(60)
				if !on {
					_, err := app.Append(0, ls, t, math.Float64frombits(value.StaleNaN))
					core.Must(err, "base append")
					continue
				}
			}
			if on {
				_, err := app.Append(0, ls, t, float64(1000*(i+1))+float64((k+100)*7919%3000))
				core.Must(err, "base append")
			}
		}
	}
	core.Must(app.Commit(), "base commit")
	fmt.Fprintf(&digest, "nBase=%d;", nBase)

	engine := promql.NewEngine(promql.EngineOpts{MaxSamples: 10_000_000, Timeout: time.Minute, LookbackDelta: 5 * time.Minute, Logger: tsdbx.NopLogger()})
	rawQF := rules.EngineQueryFunc(engine, db)
	mgr := rules.NewManager(&rules.ManagerOptions{
		QueryFunc: rawQF, NotifyFunc: func(context.Context, string, ...*rules.Alert) {}, Context: context.Background(),
		Appendable: db, Queryable: db, Logger: tsdbx.NopLogger(), ConcurrentEvalsEnabled: concurrent, MaxConcurrentEvals: 4,
	})
	dir := c.TempDir()

	// version 0: keeper group (never changes) + 1..3 groups
	keeper := groupSpec{file: "keeper.yml", name: "keeper", interval: I}
	keeper.rules = []ruleSpec{hbRule(keeper), {name: "keep_base", expr: "base"}}
	cfg := []groupSpec{keeper}
	for gi := 0; gi < 1+r.IntN(3); gi++ {
		g := groupSpec{file: gen.Pick(r, []string{"a.yml", "b.yml"}), name: fmt.Sprintf("g%d", gi), interval: I}
		if r.IntN(4) == 0 {
			g.interval = gen.Pick(r, []time.Duration{50 * time.Millisecond, 80 * time.Millisecond})
		}
		if r.IntN(6) == 0 {
			g.limit = 2 + r.IntN(3)
		}
		if r.IntN(6) == 0 {
			g.offset = gen.Pick(r, []time.Duration{30 * time.Millisecond, 200 * time.Millisecond})
		}
		g.rules = append(g.rules, ruleSpec{})
		for k := 0; k < 1+r.IntN(4); k++ {
			g.rules = append(g.rules, rg.newRule(g.rules[1:]))
		}
		g.rules[0] = hbRule(g)
		cfg = append(cfg, g)
	}
	cfgs := [][]groupSpec{cfg}

	hbCount := func(g groupSpec) int {
		q, err := db.Querier(start.UnixMilli()-10_000, math.MaxInt64)
		core.Must(err, "querier")
		defer q.Close()
		hb := g.rules[0]
		ms := []*labels.Matcher{labels.MustNewMatcher(labels.MatchEqual, labels.MetricName, "hb")}
		for k, v := range hb.lbls {
			ms = append(ms, labels.MustNewMatcher(labels.MatchEqual, k, v))
		}
		d, _, err := tsdbx.DumpQuerier(q, ms...)
		core.Must(err, "dump hb")
		n := 0
		for _, smp := range d {
			for _, s := range smp {
				if !isStale(s) {
					n++
				}
			}
		}
		return n
	}
	deadline := time.Now().Add(70 * time.Second)
	waitFor := func(what string, cond func() bool) bool {
		for !cond() {
			if time.Now().After(deadline) {
				c.Inconclusive("live scenario: watchdog while waiting for %s", what)
				return false
			}
			time.Sleep(20 * time.Millisecond)
		}
		return true
	}
	update := func(cfg []groupSpec) {
		files := writeFiles(dir, cfg)
		if err := mgr.Update(I, files, labels.EmptyLabels(), "", nil); err != nil {
			core.Must(err, "Manager.Update with a generated (valid) config")
		}
	}
	update(cfg)
	for _, g := range cfg {
		c.Logf("live initial: %s\n%s", g.key(), g.yaml())
	}
	go mgr.Run()
	stopped := false
	stop := func() {
		if !stopped {
			stopped = true
			mgr.Stop()
		}
	}
	defer stop()

	ok := waitFor("first evaluations", func() bool {
		for _, g := range cfg {
			if hbCount(g) < 3 {
				return false
			}
		}
		return true
	})
	nReloads := 2 + r.IntN(2)
	for v := 1; ok && v <= nReloads; v++ {
		ncfg := rg.mutate(cfg, v, true)
		before := map[string]int{}
		for _, g := range ncfg {
			before[g.key()] = hbCount(g)
		}
		update(ncfg)
		for _, g := range ncfg {
			c.Logf("live reload %d: %s v%d\n%s", v, g.key(), g.ver, g.yaml())
		}
		cfg = ncfg
		cfgs = append(cfgs, cfg)
		need := 3
		ok = waitFor(fmt.Sprintf("evaluations after reload %d", v), func() bool {
			for _, g := range cfg {
				if hbCount(g) < before[g.key()]+need {
					return false
				}
			}
			return true
		})
	}
	if ok {
		before := hbCount(keeper)
		ok = waitFor("20 keeper evaluations after the last reload", func() bool { return hbCount(keeper) >= before+20 })
	}
	stop()
	if !ok {
		return
	}
	for _, cf := range cfgs {
		for _, g := range cf {
			digest.WriteString(g.yaml())
		}
	}

	// ---------------------------------------------------------------- oracle
	w := &world{c: c, db: db, qf: rawQF, cache: map[string]recomputed{}}
	D := w.dump()
	type gv struct {
		g     groupSpec
		final bool
		T     []int64
	}
	gvs := map[string]*gv{}
	var order []string
	for vi, cf := range cfgs {
		for _, g := range cf {
			k := fmt.Sprintf("%s@%d", g.key(), g.ver)
			if gvs[k] == nil {
				gvs[k] = &gv{g: g}
				order = append(order, k)
			}
			gvs[k].final = vi == len(cfgs)-1
		}
	}
	for _, x := range gvs {
		hb := x.g.rules[0]
		b := labels.NewBuilder(labels.FromMap(hb.lbls))
		b.Set(labels.MetricName, "hb")
		for t, s := range D[b.Labels().String()] {
			if !isStale(s) {
				x.T = append(x.T, t)
			}
		}
		sort.Slice(x.T, func(i, j int) bool { return x.T[i] < x.T[j] })
	}
	// offered samples and owners
	offered := map[string][]promql.Sample{} // series|t
	owners := map[string]map[string]bool{}  // series → group keys
	for _, k := range order {
		x := gvs[k]
		for _, t := range x.T {
			for _, ru := range x.g.rules {
				res := w.recompute(ru, x.g.limit, t)
				if res.fail != "" {
					continue
				}
				for s, smp := range res.out {
					offered[fmt.Sprintf("%s|%d", s, t)] = append(offered[fmt.Sprintf("%s|%d", s, t)], smp)
					if owners[s] == nil {
						owners[s] = map[string]bool{}
					}
					owners[s][x.g.key()] = true
				}
			}
		}
	}
	nStaleRemoved := 0
	exemptName := map[string]bool{} // rule name|t
	for _, k := range order {
		x := gvs[k]
		if len(x.T) < 2 {
			continue
		}
		complete := x.T[:len(x.T)-1]
		prev := make([]map[string]bool, len(x.g.rules)) // nil = unknown
		for ti, t := range complete {
			// first evaluation of a changed group: series of rule instances removed by the reload
			// are still live while the rules run (they are marked stale at the end of this
			// evaluation), so dependents are not compared there
			firstAfterReload := ti == 0 && x.g.ver > 0
			res := make([]recomputed, len(x.g.rules))
			claimed := map[string]bool{}
			for i, ru := range x.g.rules {
				res[i] = w.recompute(ru, x.g.limit, t)
				if res[i].fail == "" {
					for s := range res[i].out {
						claimed[s] = true
					}
				}
			}
			// a staleness marker may legitimately have won the timestamp against a value: another
			// rule of the group lost that series in this evaluation (or, at the first evaluation
			// of a changed group, a removed instance's series was cleaned up)
			staleOK := map[string]bool{}
			for i := range x.g.rules {
				if res[i].fail != "" {
					continue
				}
				for s := range prev[i] {
					if _, still := res[i].out[s]; !still {
						staleOK[s] = true
					}
				}
			}
			for i, ru := range x.g.rules {
				if res[i].fail != "" {
					c.Seen("failed_evaluations", res[i].fail)
					for s := range union(res[i].out, prev[i]) {
						if len(owners[s]) > 1 || claimed[s] {
							continue
						}
						if got, ok := D[s][t]; ok && !(isStale(got) && (staleOK[s] || firstAfterReload)) {
							// another group (different interval, coinciding slot) may legitimately
							// have produced this very sample
							byOther := false
							for _, o := range offered[fmt.Sprintf("%s|%d", s, t)] {
								if sameValue(o, got) {
									byOther = true
								}
							}
							if byOther {
								continue
							}
							c.Violatef(kFailedStored, "live: group %s v%d rule %s (%s) failed at %d (%s) but series %s has sample %s at that time", x.g.key(), x.g.ver, ru.name, ru.expr, t, res[i].fail, s, got.ValKey())
						}
					}
					continue
				}
				if firstAfterReload && ru.depOn != "" {
					exemptName[fmt.Sprintf("%s|%d", ru.name, t)] = true
					c.Count("rule_evals_exempt_after_reload", 1)
					prev[i] = nil
					continue
				}
				for s, exp := range res[i].out {
					if len(owners[s]) > 1 {
						c.Count("live_shared_series_exempt", 1)
						continue
					}
					got, ok := D[s][t]
					if !ok {
						c.Violatef(kMissing, "live: group %s v%d rule %s (%s) at completed evaluation %d: result series %s = %s is not stored; stored times %v", x.g.key(), x.g.ver, ru.name, ru.expr, t, s, renderExp(exp), timesOf(D[s]))
						continue
					}
					match := false
					for _, o := range offered[fmt.Sprintf("%s|%d", s, t)] {
						if sameValue(o, got) {
							match = true
						}
					}
					if !match && isStale(got) && (staleOK[s] || firstAfterReload) {
						c.Count("value_lost_to_staleness_marker_of_other_rule(accepted)", 1)
					} else if !match {
						kind := kValue
						if ru.depOn != "" {
							kind = kDepValue
						}
						c.Violatef(kind, "live: group %s v%d rule %s (%s) at %d: series %s stored %s, recomputed %s", x.g.key(), x.g.ver, ru.name, ru.expr, t, s, got.ValKey(), renderExp(exp))
					}
					w.nCheck++
					if ru.depOn != "" {
						w.nDep++
					}
				}
				if prev[i] != nil {
					for s := range prev[i] {
						if _, still := res[i].out[s]; still || claimed[s] || len(owners[s]) > 1 {
							continue
						}
						if !staleAtOrBefore(D[s], t) {
							c.Violatef(kStaleMissing, "live: group %s v%d rule %s (%s) at %d: series %s was produced by the previous evaluation, is not produced now, but has no staleness marker at this time (has: %v)", x.g.key(), x.g.ver, ru.name, ru.expr, t, s, sampleAt(D[s], t))
						} else {
							w.nStale++
							c.Seen("stale_markers", "vanished-from-result")
						}
					}
				}
				prev[i] = setOf(res[i].out)
			}
		}
	}
	// stored ⊆ offered
	for s, m := range D {
		for t, smp := range m {
			if isStale(smp) {
				continue
			}
			match := false
			for _, o := range offered[fmt.Sprintf("%s|%d", s, t)] {
				if sameValue(o, smp) {
					match = true
				}
			}
			name := s[strings.Index(s, "\"")+1:]
			name = name[:strings.Index(name, "\"")]
			if !match && !exemptName[fmt.Sprintf("%s|%d", name, t)] {
				c.Violatef(kUnexplained, "live: series %s has sample %s at %d which is not the result of any configured rule at one of its group's evaluation times", s, smp.ValKey(), t)
			}
		}
	}
	// final state: every series whose last sample is not a staleness marker is a current result
	failingNames := map[string]bool{}
	current := map[string]bool{} // series|t for the last two evaluations of the final group versions
	for _, k := range order {
		x := gvs[k]
		if !x.final {
			continue
		}
		last := x.T
		if len(last) > 2 {
			last = last[len(last)-2:]
		}
		for _, t := range last {
			for _, ru := range x.g.rules {
				res := w.recompute(ru, x.g.limit, t)
				if res.fail != "" {
					failingNames[ru.name] = true
					continue
				}
				for s := range res.out {
					current[fmt.Sprintf("%s|%d", s, t)] = true
				}
			}
		}
	}
	for s, m := range D {
		ts := timesOf(m)
		if len(ts) == 0 {
			continue
		}
		lastT := ts[len(ts)-1]
		if isStale(m[lastT]) {
			if len(owners[s]) > 0 {
				nStaleRemoved++
			}
			continue
		}
		if current[fmt.Sprintf("%s|%d", s, lastT)] {
			continue
		}
		name := s[strings.Index(s, "\"")+1:]
		name = name[:strings.Index(name, "\"")]
		if failingNames[name] {
			c.Count("live_final_exempt_failing_rule", 1)
			continue
		}
		c.Violatef(kNeverStale, "live: series %s ends with the non-stale sample %s at %d, but it is not a result of a currently configured rule at its group's last two evaluations (20 keeper evaluations after the last reload)", s, m[lastT].ValKey(), lastT)
	}
	if nStaleRemoved > 0 {
		c.Seen("stale_markers", "series-ends-stale(removed/vanished)")
	}
	c.Count("rule_results_compared", int64(w.nCheck))
	c.Count("dependent_rule_results_compared", int64(w.nDep))
	c.Count("stale_markers_verified", int64(w.nStale+nStaleRemoved))
	c.Count("reloads", int64(len(cfgs)-1))
	c.Count("live_scenarios", 1)
	c.Seen("family", map[bool]string{true: "live+concurrent", false: "live+sequential"}[concurrent])
	if w.nCheck >= 8 && w.nStale+nStaleRemoved > 0 && len(cfgs) > 1 {
		c.Nontrivial(digest.String())
	}
	if c.Idx%8 == 7 && c.Idx < 16 {
		var ys []string
		for _, g := range cfg {
			ys = append(ys, g.yaml())
		}
		c.Sample(map[string]any{"family": "live", "concurrent": concurrent, "interval": I.String(), "reloads": len(cfgs) - 1,
			"final_config": ys, "results_compared": w.nCheck, "stale_verified": w.nStale, "series_ending_stale": nStaleRemoved})
	}
}
