// Package c27: a range query equals instant queries at each step; offset law for instant queries.
package c27

import (
	"fmt"
	"math/rand/v2"
	"os"
	"sort"
	"strings"
	"time"

	"github.com/prometheus/prometheus/model/labels"
	"github.com/prometheus/prometheus/promql/parser"

	"verif/internal/core"
	"verif/internal/pqgen"
)

func init() {
	core.Register(&core.Prop{
		ID:        "C27",
		Title:     "A range query equals instant queries at each step",
		Level:     "exploration",
		Technique: "differential runtime monitor: Engine.NewRangeQuery vs Engine.NewInstantQuery per step on the same engine and TSDB; twin-query monitor for the offset law",
		LevelText: "Per case a TSDB (head, real appender/querier) is filled with float, counter, native-histogram (int, float, custom-bucket), classic-bucket and (1/3 of cases) NaN/Inf/mixed float-histogram series with jittered spacing, gaps shorter and longer than the lookback, staleness markers and counter resets. Generated type-correct queries (selectors, range functions, aggregations, binary operations with matching/fill, subqueries, offsets, @ <fixed>, smoothed/anchored, duration arithmetic, time()) are run as a range query (2-60 steps, step below/at/above sample spacing and ranges) and as one instant query per step time: the series sets must be equal and every value equal (floats bitwise with NaN=NaN, histograms by schema, zero threshold/count, count, sum, custom values and every bucket); a range query may fail only if some instant query fails. Offset law: a query without @ and without evaluation-time functions is generated twice from the same random stream, once with an extra 'offset d' on every selector/subquery outside subqueries; instant(q offset d, t) must equal instant(q, t-d). Held on the observed triples only.",
		LevelNote: "Trusted: the storage and the instant-query path act as differential partner (a defect common to both paths is invisible). Reductions: (1) start()/end()/range()/step() and '@ start()/end()' are excluded as the statement demands; (2) queries are restricted to those whose result does not depend on the order in which the engine visits series (the engine assembles range-evaluation results from a Go map, so sum/avg/stddev/stdvar over such intermediate results, topk/bottomk ties and limitk legitimately differ in rounding/selection between evaluations): accumulating aggregations only get selector / range-function / order-preserving inputs, topk/bottomk use k >= input size or a selector with pairwise distinct values, limitk uses k >= input size; (3) counter-reset hints of histograms and annotations are not compared; (4) result ordering is ignored (sets).",
		DesignRef: "DESIGN.md §5 C27",
		Rule:      "case = one generated dataset with 8 (dataset, query, range) triples and 4 offset-law twin pairs; a triple is non-trivial iff the query contains a selector, the range query succeeded, returned at least one point and every step was compared with an instant query; distinct by (case seed, query text, start, step, steps)",
		Assumptions: []string{
			"engine option values (lookback, default subquery step, delayed name removal) are equal for both query kinds because the same engine instance is used",
		},
		Cases: func(variant string, tier core.Tier) int {
			if variant != "default" {
				return 0
			}
			if tier == core.Thorough {
				return 4000
			}
			return 300
		},
		Run: run,
		MinNontrivial: func(t core.Tier) int {
			if t == core.Thorough {
				return 8000
			}
			return 600
		},
		CaseTimeoutSec: 600,
	})
}

var fullParser = parser.NewParser(pqgen.Features{Experimental: true, DurationExpr: true, Extended: true, Fill: true}.Options())

// subqueryAlignedTimes lists the step-aligned evaluation times of the query's subqueries that fall
// into [start, end] and are not on the outer step grid (at most 300).
func subqueryAlignedTimes(qs string, defaultStepMs, start, end, step int64) []int64 {
	e, err := fullParser.ParseExpr(qs)
	if err != nil {
		return nil
	}
	steps := map[int64]bool{}
	parser.Inspect(e, func(n parser.Node, _ []parser.Node) error {
		if sq, ok := n.(*parser.SubqueryExpr); ok {
			st := sq.Step.Milliseconds()
			if st <= 0 {
				st = defaultStepMs
			}
			if st > 0 {
				steps[st] = true
			}
		}
		return nil
	})
	var out []int64
	for st := range steps {
		first := start - start%st
		if first < start {
			first += st
		}
		for ta := first; ta <= end && len(out) < 300; ta += st {
			if (ta-start)%step != 0 {
				out = append(out, ta)
			}
		}
	}
	sort.Slice(out, func(i, j int) bool { return out[i] < out[j] })
	return out
}

// absentWithRepeatedLabel reports whether the query applies absent()/absent_over_time() to a
// selector that has an equality matcher and a further matcher on the same label name: the labels
// of absent's output then depend on the order of the matchers.
func absentWithRepeatedLabel(qs string) bool {
	e, err := fullParser.ParseExpr(qs)
	if err != nil {
		return false
	}
	found := false
	parser.Inspect(e, func(n parser.Node, _ []parser.Node) error {
		call, ok := n.(*parser.Call)
		if !ok || (call.Func.Name != "absent" && call.Func.Name != "absent_over_time") || len(call.Args) != 1 {
			return nil
		}
		arg := call.Args[0]
		for {
			p, ok := arg.(*parser.ParenExpr)
			if !ok {
				break
			}
			arg = p.Expr
		}
		var ms []*labels.Matcher
		switch x := arg.(type) {
		case *parser.VectorSelector:
			ms = x.LabelMatchers
		case *parser.MatrixSelector:
			ms = x.VectorSelector.(*parser.VectorSelector).LabelMatchers
		}
		cnt, eq := map[string]int{}, map[string]bool{}
		for _, m := range ms {
			cnt[m.Name]++
			if m.Type == labels.MatchEqual {
				eq[m.Name] = true
			}
		}
		for name, k := range cnt {
			if k > 1 && eq[name] && name != labels.MetricName {
				found = true
			}
		}
		return nil
	})
	return found
}

const sameLabelset = "vector cannot contain metrics with the same labelset"

func clip(s string, n int) string {
	if len(s) > n {
		return s[:n] + "…"
	}
	return s
}

func run(c *core.Case) {
	r := c.Rng
	hostile := r.IntN(3) == 0
	ds, err := pqgen.BuildDataset(r, c.TempDir(), hostile)
	core.Must(err, "build dataset")
	defer ds.Close()
	lookback := []time.Duration{30 * time.Second, time.Minute, 5 * time.Minute}[r.IntN(3)]
	subqStep := []int64{ds.Spacing, 10000, 60000, 7000}[r.IntN(4)]
	dnr := r.IntN(2) == 0
	eng := pqgen.NewEngine(lookback, subqStep, dnr)
	defer eng.Close()
	c.Count("datasets", 1)
	c.Count("dataset_samples", int64(ds.Samples))
	c.Count("dataset_stale_markers", int64(ds.Stale))
	c.Count("dataset_long_gaps", int64(ds.Gaps))
	c.Seen("sample_spacing_ms", fmt.Sprint(ds.Spacing))
	c.Seen("lookback", lookback.String())
	c.Seen("delayed_name_removal", fmt.Sprint(dnr))
	env := fmt.Sprintf("[lookback=%s default-subquery-step=%dms delayed-name-removal=%v hostile-data=%v spacing=%dms data=[%d,%d]]", lookback, subqStep, dnr, hostile, ds.Spacing, ds.T0, ds.T1)
	span := ds.T1 - ds.T0

	base := ds.Cfg
	base.Allow = pqgen.Features{Experimental: true, DurationExpr: true, Extended: true, Fill: true}
	base.At = true
	base.TimeFuncs = true
	base.NegOffset = true
	base.Deterministic = true

	steps := []int64{1000, 5000, 10000, 15000, 17000, 30000, 60000, 100000, 300000, 1234, ds.Spacing, ds.Spacing / 2, ds.Spacing * 3}
	// Besides the generated queries: a family of plain selectors that put many series of different
	// sample types (floats ending in staleness markers next to histograms, mixed-type series)
	// behind ONE selector, bare and inside a subquery, stepped off the sample grid over most of
	// the data: the per-selector iterator state carried from sample to sample and from series to
	// series is exercised at every step.
	family := []string{`{__name__=~".+"}`, `{job=~".+"}`, `count_over_time({__name__=~".+"}[%dms:%dms])`, `last_over_time({__name__=~".+"}[%dms])`}
	if ds.HasMixed {
		family = append(family, `mixed`, `{__name__=~"mixed|.*"}`)
	}
	frng := rand.New(rand.NewPCG(r.Uint64(), 27))
	for qi := 0; qi < 8+len(family); qi++ {
		cfg := base
		cfg.MaxDepth = 1 + r.IntN(4)
		g := pqgen.New(r, cfg)
		qs, _ := g.Query()
		step := steps[r.IntN(len(steps))]
		if step <= 0 {
			step = 1000
		}
		nsteps := []int{2, 3, 4, 6, 10, 20, 40, 60}[r.IntN(8)]
		start := ds.T0 - 90000 + r.Int64N(span+90000)
		if qi >= 8 {
			qs = family[qi-8]
			g = pqgen.New(frng, cfg)
			g.Kinds = map[string]int{"vector_selector": 1}
			step = ds.Spacing*int64(2+frng.IntN(12))/8 + 1 + frng.Int64N(7)
			if strings.Contains(qs, "%d") {
				if strings.Count(qs, "%d") == 2 {
					qs = fmt.Sprintf(qs, 3*ds.Spacing+frng.Int64N(ds.Spacing), ds.Spacing*int64(3+frng.IntN(6))/8+1)
				} else {
					qs = fmt.Sprintf(qs, ds.Spacing*int64(4+frng.IntN(16))/8+1)
				}
			}
			nsteps = 60
			start = ds.T0 - step + frng.Int64N(max(span-30*step, 1)+step)
			c.Count("selector_family_range_queries", 1)
		}
		if r.IntN(3) == 0 {
			start = start / 1000 * 1000
		}
		end := start + int64(nsteps-1)*step
		if r.IntN(4) == 0 {
			end += r.Int64N(step) // end not on the step grid
		}
		c.Count("range_queries", 1)
		rr := pqgen.Range(eng, ds.DB, qs, start, end, time.Duration(step)*time.Millisecond)
		where := fmt.Sprintf("query %q start=%d end=%d step=%dms steps=%d %s", clip(qs, 1500), start, end, step, nsteps, env)
		if rr.Stage == "create" {
			c.Count("range_queries_rejected_at_creation", 1)
			ir := pqgen.Instant(eng, ds.DB, qs, start)
			if ir.Stage != "create" && !strings.Contains(rr.Err, "invalid expression type") {
				c.Violatef("creation-outcome-differs", "%s: NewRangeQuery failed (%s) but NewInstantQuery gives stage=%q err=%q", where, rr.Err, ir.Stage, ir.Err)
			}
			continue
		}
		if rr.OK() {
			if rr.Dup != "" {
				c.Violatef("duplicate-series-in-range-result", "%s: label set %s occurs twice in the range result", where, rr.Dup)
				continue
			}
			if rr.MixPt != "" {
				// one series of the range result carries a float and a histogram for one step (series of
				// different metrics merged after the metric name was dropped): no instant result can equal that
				c.Violatef("range-series-float-and-histogram-at-one-step", "%s: series %s of the range result has a float and a histogram sample", where, rr.MixPt)
				continue
			}
			if rr.DupPt != "" {
				c.Violatef("range-series-two-samples-at-one-step", "%s: series %s of the range result has two samples", where, rr.DupPt)
				continue
			}
			// every point must lie on the step grid
			for s, m := range rr.Points {
				for t := range m {
					if t < start || t > end || (t-start)%step != 0 {
						c.Violatef("range-point-off-grid", "%s: series %s has a point at t=%d", where, s, t)
					}
				}
			}
		} else {
			c.Count("range_queries_failed", 1)
			c.Seen("range_error", clip(rr.Err, 60))
		}
		instFailed, firstInstErr := 0, ""
		bad := false
		for i := 0; i < nsteps && !bad; i++ {
			t := start + int64(i)*step
			ir := pqgen.Instant(eng, ds.DB, qs, t)
			c.Count("instant_queries", 1)
			if !ir.OK() {
				instFailed++
				if firstInstErr == "" {
					firstInstErr = fmt.Sprintf("t=%d: %s", t, ir.Err)
				}
				if rr.OK() {
					c.Violatef("instant-fails-range-ok", "%s: range query succeeded but the instant query at t=%d (step %d) fails: %s", where, t, i, ir.Err)
					bad = true
				}
				continue
			}
			if !rr.OK() {
				continue
			}
			if d := pqgen.DiffAt(rr.At(t), ir.At(t), "range", "instant"); d != "" {
				kind := "range-instant-mismatch"
				if strings.Contains(d, " only in ") && absentWithRepeatedLabel(qs) {
					// Known mechanism: absent()'s output labels depend on the matcher order, which the TSDB's
					// Select re-sorts in place iff a block/head overlaps the queried window.
					kind = "absent-labels-depend-on-matcher-order"
				}
				c.Violatef(kind, "%s: at t=%d (step %d of %d): %s", where, t, i, nsteps, d)
				bad = true
			}
		}
		if bad {
			continue
		}
		if !rr.OK() {
			if instFailed == 0 {
				kind := "range-fails-instants-ok"
				if strings.Contains(rr.Err, sameLabelset) {
					kind = "range-fails-instants-ok-same-labelset"
					if dnr {
						// Known mechanism: with delayed name removal an instant evaluation does not check
						// intermediate vectors for duplicate label sets (only the final result), the range
						// evaluation checks every intermediate step.  Predicate: the same instant queries on an
						// engine without delayed name removal do fail with the duplicate-labelset error.
						eng2 := pqgen.NewEngine(lookback, subqStep, false)
						for i := 0; i < nsteps; i++ {
							ir := pqgen.Instant(eng2, ds.DB, qs, start+int64(i)*step)
							if !ir.OK() && strings.Contains(ir.Err, sameLabelset) {
								kind = "range-fails-on-intermediate-duplicates-unchecked-by-instant-with-delayed-name-removal"
								break
							}
						}
						eng2.Close()
					} else {
						// Known mechanism: without delayed name removal a function that drops the metric name
						// rejects its whole output matrix when two input series collapse to one label set, even if
						// they never have a value at the same step.  Predicate: the same range query on an engine
						// with delayed name removal (which merges such series) succeeds.
						eng2 := pqgen.NewEngine(lookback, subqStep, true)
						if r2 := pqgen.Range(eng2, ds.DB, qs, start, end, time.Duration(step)*time.Millisecond); r2.OK() {
							kind = "range-fails-on-name-collision-across-steps-without-delayed-name-removal"
						}
						eng2.Close()
					}
				}
				if strings.HasPrefix(kind, "range-fails-instants-ok") {
					// Known mechanism: a range query evaluates every subquery once over its whole span, at all
					// step-aligned times, including times that lie in no outer step's window; an error of the
					// inner expression there fails the range query although no instant query of the step grid
					// ever evaluates the inner expression at that time.  Predicate: the query has a subquery
					// and the instant query at one of its aligned times inside the range query's span (not on
					// the step grid) fails with the same error.
					for _, ta := range subqueryAlignedTimes(qs, subqStep, start, end, step) {
						if ir := pqgen.Instant(eng, ds.DB, qs, ta); !ir.OK() && ir.Err == rr.Err {
							kind = "range-fails-at-subquery-step-outside-every-outer-window"
							where += fmt.Sprintf(" [the instant query at the subquery-aligned time %d fails the same way]", ta)
							break
						}
					}
				}
				if os.Getenv("VERIF_C27_DIAG") != "" {
					for i := 0; i < nsteps; i++ {
						t := start + int64(i)*step
						ir := pqgen.Instant(eng, ds.DB, qs, t)
						c.Logf("diag: instant t=%d ok=%v points=%v", t, ir.OK(), ir.At(t))
						for j := i + 1; j < nsteps; j++ {
							r2 := pqgen.Range(eng, ds.DB, qs, t, start+int64(j)*step, time.Duration(int64(j-i)*step)*time.Millisecond)
							if !r2.OK() {
								c.Logf("diag: two-step range %d..%d fails: %s", t, start+int64(j)*step, r2.Err)
							}
						}
					}
				}
				c.Violatef(kind, "%s: range query fails (%s) but all %d instant queries succeed", where, rr.Err, nsteps)
			} else {
				c.Count("range_and_instant_both_fail", 1)
			}
			continue
		}
		c.Count("steps_compared", int64(nsteps))
		c.Count("points_compared", int64(rr.NPoints))
		readsData := g.Kinds["vector_selector"]+g.Kinds["matrix_selector"] > 0
		if rr.NPoints > 0 && !readsData {
			c.Count("triples_constant_query", 1)
		} else if rr.NPoints > 0 {
			c.Nontrivial(c.Seed, c.Idx, qs, start, step, nsteps)
			c.Count("triples_nontrivial", 1)
			for k := range g.Kinds {
				c.Seen("node_kinds_in_nontrivial_triples", k)
			}
			for k := range g.Flags {
				c.Seen("query_traits", k)
			}
			if strings.Contains(fmt.Sprint(rr.Points), "h:s=") {
				c.Count("triples_with_histogram_results", 1)
			}
		} else {
			c.Count("triples_empty_result", 1)
		}
		if c.Idx < 3 && qi < 2 {
			c.Sample(map[string]any{"query": clip(qs, 400), "start": start, "step_ms": step, "steps": nsteps, "range_points": rr.NPoints, "series": len(rr.Points), "env": env})
		}
	}

	// offset law
	ocfg := ds.Cfg
	ocfg.Allow = base.Allow
	ocfg.NegOffset = true
	ocfg.Deterministic = true
	for qi := 0; qi < 4; qi++ {
		a, b := r.Uint64(), r.Uint64()
		d := ocfg.Durations[r.IntN(len(ocfg.Durations))]
		if r.IntN(5) == 0 {
			d = -d
		}
		depth := 1 + r.IntN(4)
		gen := func(top time.Duration) string {
			cfg := ocfg
			cfg.MaxDepth = depth
			cfg.TopOffset = top
			q, _ := pqgen.New(rand.New(rand.NewPCG(a, b)), cfg).Query()
			return q
		}
		q0, q1 := gen(0), gen(d)
		c.Count("offset_pairs", 1)
		okPair := false
		for k := 0; k < 3; k++ {
			t := ds.T0 - 60000 + r.Int64N(span+120000)
			dms := d.Milliseconds()
			r1 := pqgen.Instant(eng, ds.DB, q1, t)
			r0 := pqgen.Instant(eng, ds.DB, q0, t-dms)
			where := fmt.Sprintf("q=%q at t-d=%d vs q'=%q at t=%d (d=%s) %s", clip(q0, 1200), t-dms, clip(q1, 1200), t, d, env)
			if r0.OK() != r1.OK() {
				c.Violatef("offset-law-outcome-differs", "%s: without offset: stage=%q err=%q; with offset: stage=%q err=%q", where, r0.Stage, r0.Err, r1.Stage, r1.Err)
				break
			}
			if !r0.OK() {
				c.Count("offset_pairs_failing_both", 1)
				break
			}
			if df := pqgen.DiffAt(r0.At(t-dms), r1.At(t), "q@t-d", "q offset d@t"); df != "" {
				kind := "offset-law-mismatch"
				if strings.Contains(df, " only in ") && absentWithRepeatedLabel(q0) {
					kind = "absent-labels-depend-on-matcher-order"
				}
				c.Violatef(kind, "%s: %s", where, df)
				break
			}
			if r0.Type != r1.Type || r0.Str != r1.Str {
				c.Violatef("offset-law-mismatch", "%s: result types %v / %v", where, r0.Type, r1.Type)
				break
			}
			c.Count("offset_comparisons", 1)
			if r0.NPoints > 0 && q0 != q1 {
				okPair = true
			}
		}
		if okPair {
			c.Count("offset_pairs_nontrivial", 1)
		}
	}
}
