// Package c52: the head's reported counters match its contents (recount monitor over generated
// single-threaded histories on a real tsdb.DB).
package c52

import (
	"context"
	"fmt"
	"log/slog"
	"math"
	"math/rand/v2"
	"os"
	"path/filepath"
	"runtime/debug"
	"sort"
	"strings"

	"github.com/prometheus/client_golang/prometheus"
	dto "github.com/prometheus/client_model/go"

	"github.com/prometheus/prometheus/model/histogram"
	"github.com/prometheus/prometheus/model/labels"
	"github.com/prometheus/prometheus/model/value"
	"github.com/prometheus/prometheus/storage"
	"github.com/prometheus/prometheus/tsdb"

	"verif/internal/core"
	"verif/internal/gen"
	"verif/internal/sched"
	"verif/internal/tsdbhist"
	"verif/internal/tsdbx"
	"verif/props/c22/headdisk"
)

func init() {
	core.Register(&core.Prop{
		ID:        "C52",
		Title:     "The head's reported counters match its contents",
		Level:     "exploration",
		Technique: "conservation-law runtime monitor: exported gauges and Num*() getters vs a recount of the head's series after every step of generated histories",
		LevelText: "Generated single-threaded histories on a real tsdb.DB under the C01 option matrix (half of them with the memory snapshot on shutdown): append transactions of floats / native histograms / staleness markers (also float markers on histogram series and the reverse) through Appender and AppenderV2, commit and rollback, appenders held open across other steps, Delete, Compact, CompactHead, CompactOOOHead, CompactStaleHead, CompactSelectedSeries on random ref subsets, ForceHeadMMap, CleanTombstones, clean restarts from the WAL or from a chunk snapshot and restarts with a damaged chunk snapshot. After every step prometheus_tsdb_head_series, _stale_series, _native_histogram_series, _native_histogram_buckets, _chunks and _active_appenders gathered from the DB's registry and Head.NumSeries/NumStaleSeries/NumNativeHistogramSeries/NumNativeHistogramBuckets must equal Head.VerifRecount() (series in the stripes; series whose latest in-order sample is a staleness marker; series whose latest in-order sample is a histogram and the sum of their bucket entries; in-order head chunks + m-mapped + out-of-order m-mapped + out-of-order head chunks) and the number of appenders the harness holds open. Held on the observed histories only.",
		LevelNote: "Trusted: VerifRecount (tsdb/verif_export.go, reads memSeries.last*Value / chunk lists under the locks the head uses) as the definition of 'recomputed from the actual contents'. All steps are sequential; the verdict is taken at quiescent points only (recounts at lock-free hook points inside compactions are used solely to attribute a disagreement found at the end of the step). Held appenders are committed or rolled back before compactions and restarts (an open appender blocks head truncation). Genuine gauge defects found on the unchanged tree are reported under narrow kinds whose predicates use only outside observations (bucket growth of the caller's histogram objects, samples accepted vs appended, recounts before/after, decoded WAL/WBL/head chunk files, snapshot and corruption counters); after such a report the check continues relative to the reported offset. After a reopen several replay defects can overlap: the chunks gauge must then lie inside the bounds their observable preconditions allow together (weaker than equality). On a Head built over colliding series refs (WAL with one ref for two label sets / re-created behind its eviction tombstone, live ref collision) or after the m-mapped chunk files were discarded during open, a walk over the by-ref map is no longer the head's contents: until the next reopen only the appender gauge is compared (counted).",
		DesignRef: "DESIGN.md §5 C52",
		Rule:      "case = one generated history of 25–120 steps; non-trivial iff ≥1 commit succeeded, ≥1 step that can remove series or chunks (compaction, eviction, restart) ran, and the gauges were compared at ≥1 point with series>0 and chunks>0; distinct by (config, step list) hash",
		Cases: func(variant string, tier core.Tier) int {
			if variant != "default" {
				return 0
			}
			if tier == core.Thorough {
				return 3000
			}
			return 200
		},
		Run:            run,
		MinNontrivial:  func(t core.Tier) int { return 60 },
		CaseTimeoutSec: 300,
	})
}

// Narrow classes of genuine gauge defects (see FINDINGS.txt); every other disagreement keeps a
// generic "*-gauge-mismatch" kind.
const (
	// Right after a reopen that loaded a chunk snapshot without error: the chunks gauge lacks
	// exactly the in-order head chunks now in memory.
	kindSnapshotChunks = "head-chunks-gauge-misses-chunks-loaded-from-snapshot"
	// Live head: the bucket gauge falls behind the recount by at most the number of bucket entries
	// by which the head grew, in place, histogram objects committed in this very step.
	kindBucketsLive = "histogram-buckets-gauge-omits-inplace-layout-expansion"
	// Right after a reopen: only the bucket gauge disagrees and it is below the recount.
	kindBucketsReplay = "histogram-buckets-gauge-undercount-after-wal-replay"
	// Right after a reopen whose snapshot load failed: the stale gauge exceeds the recount by at
	// most the number of stale series that were in the snapshot.
	kindStaleSnapshot = "stale-series-gauge-not-reset-after-failed-snapshot-load"
	// A commit that dropped k>0 samples (counter delta) raised the chunks gauge by up to k more
	// than the number of chunks that came into existence.
	kindChunksDropped = "head-chunks-gauge-double-counts-when-next-sample-is-dropped-at-commit"
	// The chunks gauge falls behind the recount by N−k where, as observed from outside, k
	// out-of-order head chunks were m-mapped into N>k chunks (one per encoding/layout segment).
	kindOOOSplit = "head-chunks-gauge-counts-one-for-ooo-head-chunk-mmapped-into-several"
	// Right after a reopen that replayed a WAL in which a series record follows sample records
	// of the same series: the gauge exceeds the recount.
	kindReplayReset = "head-chunks-gauge-keeps-replayed-chunks-dropped-by-later-series-record"
	// Right after a reopen that replayed a WBL containing m-map markers: the gauge exceeds the
	// recount by at most the number of markers (each marker clears the rebuilt out-of-order head
	// chunk without adjusting the gauge).
	kindWBLMarker = "head-chunks-gauge-keeps-ooo-head-chunk-cleared-by-wbl-mmap-marker"
	// Right after a reopen that replayed a WAL in which ONE series ref carries TWO label sets
	// (decoded from disk by the harness): the by-ref series map holds fewer series than were
	// counted; any gauge may be off.
	kindRefCollision = "head-gauges-wrong-after-replaying-wal-with-one-ref-for-two-label-sets"
	// Right after a reopen during which the m-mapped chunk files were found corrupt and discarded
	// (prometheus_tsdb_mmap_chunk_corruptions_total > 0) and the WAL was replayed over whatever had
	// been loaded before; any gauge may be off.
	kindMmapDiscard = "head-gauges-wrong-after-mmapped-chunk-files-were-discarded-during-open"
	// Right after a reopen that replayed a WAL in which a series record re-introduces a ref
	// behind that ref's own eviction tombstone (the ref was reissued): the queued deletion hits
	// the re-created series; any gauge may be off.
	kindRefReintro = "head-gauges-wrong-after-replaying-wal-that-recreates-a-ref-behind-its-eviction-tombstone"
	// Right after a reopen: the gauge exceeds the recount by at most the number of out-of-order
	// chunk files of series named by WAL tombstone records (evicted series are re-created and
	// deleted again by the replay; deleteSeriesByID subtracts only their in-order chunks).
	kindTombOOO = "head-chunks-gauge-keeps-ooo-chunks-of-series-deleted-during-replay"
	// Live head: after the step a series ref that existed before maps to OTHER labels (a new
	// series was created under the ref of a live one: lastSeriesID had been restored too low,
	// the C22 defect); the by-ref map lost a series, any gauge may be off.
	kindLiveRefClash = "head-gauges-wrong-after-new-series-took-the-ref-of-a-live-series"
	// A maintenance operation fails in a history in which a series ref collision was observed.
	kindOpAfterClash = "operation-fails-after-series-ref-collision"
	// tsdb.Open panics in loadChunkSnapshot on a damaged snapshot instead of falling back to the WAL.
	kindSnapshotPanic = "panic-loading-damaged-chunk-snapshot"
)

type histRef struct {
	h   *histogram.Histogram
	fh  *histogram.FloatHistogram
	pre int
}

func (x histRef) now() int {
	if x.h != nil {
		return len(x.h.PositiveBuckets) + len(x.h.NegativeBuckets)
	}
	return len(x.fh.PositiveBuckets) + len(x.fh.NegativeBuckets)
}

func newHistRef(h *histogram.Histogram, fh *histogram.FloatHistogram) (histRef, bool) {
	if h == nil && fh == nil {
		return histRef{}, false
	}
	x := histRef{h: h, fh: fh}
	x.pre = x.now()
	return x, true
}

func expansion(hs []histRef) int {
	n := 0
	for _, x := range hs {
		if d := x.now() - x.pre; d > 0 {
			n += d
		}
	}
	return n
}

type heldApp struct {
	commit, rollback func() error
	desc             string
	hists            []histRef
	accepted         int
}

// stepCtx is what the harness observed about the step, from outside the head.
type stepCtx struct {
	newHead     bool                 // the DB was reopened in this step
	preClose    tsdb.VerifHeadCounts // recount taken before the close (newHead only)
	commitDrops int                  // samples that Append accepted and Commit did not append (accepted − delta of samples_appended_total)
	histExp     int                  // bucket entries added in place to histogram objects committed in this step
	lateSeries  int                  // newHead: series records in the replayed WAL that follow sample records of the same series
	refClashes  int                  // newHead: series refs that carry more than one label set in the replayed WAL
	refReintro  int                  // newHead: series refs with a series record behind their own eviction tombstone
	wblMarkers  int                  // newHead: m-map marker entries in the WBL
	lateSamples int                  // newHead: samples logged in front of a late series record of their series
	tombOOO     int                  // newHead: out-of-order chunks in the head chunk files that belong to refs named by WAL tombstone records
	before      tsdb.VerifHeadCounts // recount before the step (live steps)
	hasBefore   bool
}

// midObs is a recount + gauge reading taken at a hook point inside a maintenance step.
type midObs struct {
	site  string
	rc    tsdb.VerifHeadCounts
	gauge float64
}

type state struct {
	c    *core.Case
	r    *rand.Rand
	cfg  tsdbhist.Config
	e    *tsdbhist.Exec
	g    *tsdbhist.Gen
	held []heldApp
	// Disagreements already reported under a narrow known class; the check continues relative
	// to them.  All are reset when a new Head is opened.
	biasChunks  int // gauge − recount
	biasBuckets int // recount − gauge
	biasStale   int // gauge − recount
	biasSeries  int // gauge − recount
	biasHistSer int // gauge − recount
	reported    map[string]bool
	known       map[string]int
	ctl         *sched.Controller
	lastRefs    map[uint64]string // ref → labels at the previous check (same Head)
	sawClash    bool
	// tainted: the current Head was built over colliding refs / discarded chunk files, or a live
	// ref collision was seen: series may live on in the hash index only, a walk over the by-ref
	// map is no longer "the contents"; until the next reopen only the appender gauge is compared
	tainted       bool
	taintedChecks int
	mid           []midObs // observations at hook points during the current step
	watch         bool

	checks, checksNonEmpty                   int
	maxStale, maxHist, maxHeld               int
	snapshotLoads, damagedRestarts           int
	failedSnapshotLoads, selectedCompactions int
	gcSteps, commitDropsSeen, expansionsSeen int
}

func run(c *core.Case) {
	r := c.Rng
	cfg := tsdbhist.GenConfig(r)
	if r.IntN(3) == 0 {
		cfg.Snapshot = true
	}
	e, err := tsdbhist.NewExec(c.TempDir(), cfg)
	core.Must(err, "open fresh db")
	defer e.Close()
	g := tsdbhist.NewGen(r, cfg)
	g.WRestart = 8
	s := &state{c: c, r: r, cfg: cfg, e: e, g: g, reported: map[string]bool{}, known: map[string]int{}}
	// Our own hook handler (replaces the executor's block observer, which C52 does not need):
	// inside compaction steps a recount + gauge reading is taken at the lock-free hook points, only
	// to attribute a disagreement found at the END of the step to a sub-step.
	s.ctl = sched.Install()
	defer s.ctl.Uninstall()
	s.ctl.OnHit(func(site string, _ *sched.Actor) {
		if !s.watch || e.DB == nil {
			return
		}
		if strings.HasPrefix(site, "tsdb.compactHead.") || strings.HasPrefix(site, "tsdb.compactOOO.") || site == "tsdb.truncMem.afterGC" {
			mfs, err := e.Reg.Gather()
			if err != nil {
				return
			}
			s.mid = append(s.mid, midObs{site: site, rc: e.DB.Head().VerifRecount(), gauge: tsdbhist.SumMetric(mfs, "prometheus_tsdb_head_chunks")})
		}
	})
	defer func() { s.releaseAll("rollback", false) }() // never leave an appender open when the DB is closed

	if !s.check("open", stepCtx{}) {
		return
	}
	nops := 25 + r.IntN(96)
	for i := 0; i < nops; i++ {
		var ok bool
		switch w := r.IntN(100); {
		case w < 8:
			ok = s.hold()
		case w < 14:
			ok = s.release()
		case w < 17:
			ok = s.compactSelected()
		case w < 20 && cfg.Snapshot:
			ok = s.damagedSnapshotRestart()
		default:
			op := g.Next()
			if op.Kind != "append" && op.Kind != "delete" && op.Kind != "mmap" && op.Kind != "cleanTombstones" {
				if !s.releaseAll("", true) {
					return
				}
				s.gcSteps++
			}
			c.Logf("op %d: %s", i, op)
			if op.Kind == "restart" {
				ok = s.restart(fmt.Sprintf("step %d (restart)", i), "restart", nil)
				break
			}
			ctx := stepCtx{before: e.DB.Head().VerifRecount(), hasBefore: true}
			var hs []histRef
			var app0 float64
			if op.Kind == "append" {
				for _, smp := range op.Samples {
					if x, ok := newHistRef(smp.H, smp.FH); ok {
						hs = append(hs, x)
					}
				}
				app0 = s.appended()
			} else {
				s.mid, s.watch = s.mid[:0], true
			}
			err := e.Apply(op)
			s.watch = false
			if err != nil {
				kind := "operation-failed:" + strings.SplitN(fmt.Sprint(err), ":", 2)[0]
				if s.sawClash {
					kind = kindOpAfterClash
				}
				c.Violatef(kind, "config {%s}\nstep %d (%s) failed: %v\nhistory: %s", cfg, i, op, err, tail(e.History()))
				return
			}
			if e.DB == nil {
				return
			}
			if op.Kind == "append" {
				ctx.histExp = expansion(hs)
				accepted := 0
				for _, err := range e.LastAppendErrs {
					if err == nil {
						accepted++
					}
				}
				if d := accepted - int(s.appended()-app0); d > 0 && !op.Rollback {
					ctx.commitDrops = d
				}
			}
			ok = s.check(fmt.Sprintf("step %d (%s)", i, op), ctx)
		}
		if !ok {
			return
		}
	}
	if !s.releaseAll("", true) {
		return
	}
	// "Once every appender has committed or rolled back, the active-appender count is zero."
	if !s.check("end (all appenders closed)", stepCtx{}) {
		return
	}

	c.Count("steps", int64(nops))
	c.Count("gauge_checks", int64(s.checks))
	c.Count("gauge_checks_nonempty_head", int64(s.checksNonEmpty))
	c.Count("gauge_checks_skipped_on_heads_with_colliding_refs", int64(s.taintedChecks))
	c.Count("commits", int64(e.Commits))
	c.Count("rollbacks", int64(e.Rollbacks))
	c.Count("restarts", int64(e.Restarts))
	c.Count("snapshot_loads", int64(s.snapshotLoads))
	c.Count("failed_snapshot_loads", int64(s.failedSnapshotLoads))
	c.Count("damaged_snapshot_restarts", int64(s.damagedRestarts))
	c.Count("selected_series_compactions", int64(s.selectedCompactions))
	c.Count("commits_that_dropped_samples", int64(s.commitDropsSeen))
	c.Count("steps_with_inplace_histogram_expansion", int64(s.expansionsSeen))
	c.Count("max_stale_series_seen", int64(s.maxStale))
	c.Count("max_histogram_series_seen", int64(s.maxHist))
	c.Count("max_held_appenders", int64(s.maxHeld))
	for k, n := range s.known {
		c.Count("known:"+k, int64(n))
	}
	for _, st := range e.Steps {
		c.Seen("op_kind", strings.SplitN(strings.SplitN(strings.SplitN(st, "[", 2)[0], " ", 2)[0], "{", 2)[0])
	}
	if e.Commits > 0 && s.gcSteps > 0 && s.checksNonEmpty > 0 {
		c.Nontrivial(cfg.String(), e.History())
	}
	if c.Idx < 2 {
		c.Sample(map[string]any{"config": cfg.String(), "history": tail(e.History()), "checks": s.checks, "max_stale": s.maxStale, "max_hist": s.maxHist})
	}
}

func (s *state) note(step string) {
	s.e.Steps = append(s.e.Steps, step)
	s.c.Logf("extra op: %s", step)
}

// appended reads prometheus_tsdb_head_samples_appended_total (all types): what commits really
// appended, in-order or out-of-order.
func (s *state) appended() float64 {
	mfs, err := s.e.Reg.Gather()
	core.Must(err, "gather registry")
	return tsdbhist.SumMetric(mfs, "prometheus_tsdb_head_samples_appended_total")
}

// sampleFor draws a sample for a held appender: floats, histograms, staleness markers of every
// sample type regardless of the series' current type (type switches through markers).
func (s *state) sampleFor() (kind string, f float64, h *histogram.Histogram, fh *histogram.FloatHistogram) {
	r := s.r
	stale := r.IntN(3) == 0
	switch r.IntN(4) {
	case 0, 1:
		if stale {
			return "f", math.Float64frombits(value.StaleNaN), nil, nil
		}
		return "f", float64(r.IntN(100)), nil, nil
	case 2:
		if stale {
			return "h", 0, gen.StaleHist(), nil
		}
		return "h", 0, gen.NewAbsHist(r, true).Int(r), nil
	default:
		if stale {
			return "fh", 0, nil, gen.StaleFloatHist()
		}
		return "fh", 0, nil, gen.NewAbsHist(r, true).Float(r)
	}
}

func (s *state) hold() bool {
	r := s.r
	ctx := context.Background()
	n := r.IntN(4)
	useV2 := r.IntN(2) == 0
	var sb strings.Builder
	var h heldApp
	var appendFn func(ls labels.Labels, t int64, kind string, f float64, hh *histogram.Histogram, fh *histogram.FloatHistogram) error
	if useV2 {
		app := s.e.DB.AppenderV2(ctx)
		h.commit, h.rollback = app.Commit, app.Rollback
		appendFn = func(ls labels.Labels, t int64, kind string, f float64, hh *histogram.Histogram, fh *histogram.FloatHistogram) error {
			_, err := app.Append(0, ls, 0, t, f, hh, fh, storage.AOptions{})
			return err
		}
		sb.WriteString("holdV2")
	} else {
		app := s.e.DB.Appender(ctx)
		h.commit, h.rollback = app.Commit, app.Rollback
		appendFn = func(ls labels.Labels, t int64, kind string, f float64, hh *histogram.Histogram, fh *histogram.FloatHistogram) error {
			var err error
			if kind == "f" {
				_, err = app.Append(0, ls, t, f)
			} else {
				_, err = app.AppendHistogram(0, ls, t, hh, fh)
			}
			return err
		}
		sb.WriteString("hold")
	}
	for i := 0; i < n; i++ {
		si := r.IntN(len(s.e.Series) + 1)
		var ls labels.Labels
		name := fmt.Sprintf("s%d", si)
		if si == len(s.e.Series) {
			x := r.IntN(3)
			ls = labels.FromStrings("__name__", "extra", "x", fmt.Sprint(x))
			name = fmt.Sprintf("x%d", x)
		} else {
			ls = s.e.Series[si]
		}
		t := s.g.Clock + int64(r.IntN(4))
		if r.IntN(5) == 0 {
			t = s.g.Clock - 1 - r.Int64N(s.cfg.BlockRange)
		}
		kind, f, hh, fh := s.sampleFor()
		err := appendFn(ls, t, kind, f, hh, fh)
		if x, ok := newHistRef(hh, fh); ok && err == nil {
			h.hists = append(h.hists, x)
		}
		if err == nil {
			h.accepted++
		}
		stale := ""
		if (kind == "f" && value.IsStaleNaN(f)) || (hh != nil && value.IsStaleNaN(hh.Sum)) || (fh != nil && value.IsStaleNaN(fh.Sum)) {
			stale = "stale"
		}
		fmt.Fprintf(&sb, " %s@%d(%s%s)=%s", name, t, kind, stale, tsdbhist.ErrClass(err))
	}
	h.desc = sb.String()
	s.held = append(s.held, h)
	if len(s.held) > s.maxHeld {
		s.maxHeld = len(s.held)
	}
	s.note(h.desc)
	return s.check(h.desc, stepCtx{})
}

// closeHeld commits or rolls back one held appender and (if the DB is to be checked) compares
// the gauges right after it.
func (s *state) closeHeld(i int, how string, doCheck bool) bool {
	h := s.held[i]
	s.held = append(s.held[:i:i], s.held[i+1:]...)
	if how == "" {
		how = "commit"
		if s.r.IntN(3) == 0 {
			how = "rollback"
		}
	}
	var err error
	ctx := stepCtx{before: s.e.DB.Head().VerifRecount(), hasBefore: true}
	if how == "commit" {
		app0 := s.appended()
		err = h.commit()
		if err == nil {
			s.e.Commits++
			ctx.commitDrops = h.accepted - int(s.appended()-app0)
			ctx.histExp = expansion(h.hists)
		}
	} else {
		err = h.rollback()
		s.e.Rollbacks++
	}
	step := fmt.Sprintf("%s{%s}", how, h.desc)
	s.note(step)
	if err != nil {
		s.c.Violatef("operation-failed:"+how+"-of-held-appender", "config {%s}\n%s of held appender {%s} failed: %v\nhistory: %s", s.cfg, how, h.desc, err, tail(s.e.History()))
		return false
	}
	if doCheck {
		return s.check(step, ctx)
	}
	return true
}

func (s *state) release() bool {
	if len(s.held) == 0 {
		return true
	}
	return s.closeHeld(s.r.IntN(len(s.held)), "", true)
}

func (s *state) releaseAll(how string, doCheck bool) bool {
	if s.e.DB == nil {
		s.held = nil
		return true
	}
	for len(s.held) > 0 {
		if !s.closeHeld(len(s.held)-1, how, doCheck) {
			return false
		}
	}
	return true
}

func (s *state) compactSelected() bool {
	if !s.releaseAll("", true) {
		return false
	}
	refs := s.e.DB.Head().VerifSeriesRefs()
	var all []uint64
	for ref := range refs {
		all = append(all, ref)
	}
	sort.Slice(all, func(i, j int) bool { return all[i] < all[j] })
	var sel []storage.SeriesRef
	for _, ref := range all {
		if s.r.IntN(2) == 0 {
			sel = append(sel, storage.SeriesRef(ref))
		}
	}
	if s.r.IntN(4) == 0 {
		sel = append(sel, storage.SeriesRef(1<<40)) // unknown ref
	}
	if len(sel) > 1 && s.r.IntN(3) == 0 { // unsorted, duplicate
		sel = append(sel, sel[0])
	}
	step := fmt.Sprintf("compactSelected%v", sel)
	s.note(step)
	s.gcSteps++
	s.selectedCompactions++
	ctx := stepCtx{before: s.e.DB.Head().VerifRecount(), hasBefore: true}
	s.mid, s.watch = s.mid[:0], true
	err := s.e.DB.CompactSelectedSeries(sel)
	s.watch = false
	if err != nil {
		s.c.Violatef("operation-failed:CompactSelectedSeries", "config {%s}\n%s failed: %v\nhistory: %s", s.cfg, step, err, tail(s.e.History()))
		return false
	}
	return s.check(step, ctx)
}

// restart closes the DB, optionally damages what the close left on disk, decodes the WAL the
// reopen is going to replay (for the classification of replay-related defects) and reopens.
func (s *state) restart(where, step string, damage func() string) bool {
	e := s.e
	ctx := stepCtx{newHead: true, preClose: e.DB.Head().VerifRecount()}
	if err := e.DB.Close(); err != nil {
		e.DB = nil
		s.c.Violatef("operation-failed:Close", "config {%s}\nClose failed: %v\nhistory: %s", s.cfg, err, tail(e.History()))
		return false
	}
	e.DB = nil
	if damage != nil {
		step += "(" + damage() + ")"
		where = step
	}
	recs, _, err := headdisk.Scan(e.Dir)
	core.Must(err, "decode WAL")
	ctx.lateSeries = headdisk.LateSeriesRecords(recs)
	ctx.refClashes = len(headdisk.RefClashes(recs))
	ctx.lateSamples = headdisk.LateSeriesSamples(recs)
	ctx.refReintro = len(headdisk.ReintroducedRefs(recs))
	if tomb := headdisk.TombstonedRefs(recs); len(tomb) > 0 {
		if hcs, err := headdisk.ScanHeadChunks(e.Dir, nil); err == nil {
			for _, hc := range hcs {
				if hc.IsOOO && tomb[hc.Ref] {
					ctx.tombOOO++
				}
			}
		}
	}
	if wrecs, _, err := headdisk.ScanWBL(e.Dir); err == nil {
		for _, r := range wrecs {
			ctx.wblMarkers += len(r.MarkerRefs)
		}
	}
	e.Restarts++
	s.note(step)
	e.Reg = prometheus.NewRegistry()
	logger := tsdbx.NopLogger()
	if s.c.Verbose {
		logger = slog.New(slog.NewTextHandler(os.Stderr, nil))
	}
	db, err, pan := openRecover(e.Dir, logger, e.Reg, e.Cfg.Options())
	if pan != "" {
		kind := "panic-in-repo-code"
		if damage != nil && strings.Contains(pan, "loadChunkSnapshot") {
			kind = kindSnapshotPanic
		}
		s.c.Violatef(kind, "config {%s}\n%s: tsdb.Open panicked: %s\nhistory: %s", s.cfg, step, pan, tail(e.History()))
		return false
	}
	if err != nil {
		s.c.Violatef("operation-failed:reopen", "config {%s}\n%s: reopen failed: %v\nhistory: %s", s.cfg, step, err, tail(e.History()))
		return false
	}
	db.DisableCompactions()
	e.DB = db
	return s.check(where, ctx)
}

// damagedSnapshotRestart: the close writes a chunk snapshot, the harness damages it, the head
// must fall back to replaying the WAL and its counters must still match.
func (s *state) damagedSnapshotRestart() bool {
	if !s.releaseAll("", true) {
		return false
	}
	s.gcSteps++
	s.damagedRestarts++
	return s.restart("", "damagedSnapshotRestart", func() string {
		how := "none"
		dirs, _ := filepath.Glob(filepath.Join(s.e.Dir, "chunk_snapshot.*"))
		sort.Strings(dirs)
		if len(dirs) == 0 {
			return how
		}
		segs, _ := filepath.Glob(filepath.Join(dirs[len(dirs)-1], "0*"))
		sort.Strings(segs)
		if len(segs) == 0 {
			return how
		}
		p := segs[len(segs)-1]
		b, err := os.ReadFile(p)
		core.Must(err, "read snapshot segment")
		// the used part of the segment (the rest is zero padding up to the page size)
		used := len(b)
		for used > 0 && b[used-1] == 0 {
			used--
		}
		if used <= 16 {
			return how
		}
		switch s.r.IntN(3) {
		case 0: // flip one byte behind the first record header
			i := 8 + s.r.IntN(used-8)
			b[i] ^= 0x5a
			how = fmt.Sprintf("flip@%d/%d", i, used)
		case 1: // cut the tail
			n := 8 + s.r.IntN(used-8)
			b = b[:n]
			how = fmt.Sprintf("cut@%d/%d", n, used)
		default: // zero a stretch
			i := 8 + s.r.IntN(used-8)
			for j := i; j < len(b) && j < i+32; j++ {
				b[j] = 0
			}
			how = fmt.Sprintf("zero@%d+32/%d", i, used)
		}
		core.Must(os.WriteFile(p, b, 0o644), "write damaged snapshot segment")
		return how
	})
}

// openRecover opens the DB; a panic inside repo code is returned as text (with the stack) so
// that the harness can classify it.
func openRecover(dir string, logger *slog.Logger, reg *prometheus.Registry, opts *tsdb.Options) (db *tsdb.DB, err error, pan string) {
	defer func() {
		if r := recover(); r != nil {
			pan = fmt.Sprintf("%v\n%s", r, core.TrimStack(string(debug.Stack()), 24))
		}
	}()
	db, err = tsdb.Open(dir, logger, reg, opts, nil)
	return db, err, ""
}

func metric(mfs []*dto.MetricFamily, name string) (float64, bool) {
	for _, mf := range mfs {
		if mf.GetName() == name {
			return tsdbhist.SumMetric(mfs, name), true
		}
	}
	return 0, false
}

func (s *state) knownf(kind, format string, args ...any) {
	s.known[kind]++
	if !s.reported[kind] {
		s.reported[kind] = true
		s.c.Violatef(kind, format, args...)
	}
}

// check compares every exported number with the recount.
func (s *state) check(where string, ctx stepCtx) bool {
	c, e := s.c, s.e
	h := e.DB.Head()
	mfs, err := e.Reg.Gather()
	core.Must(err, "gather registry")
	rc := h.VerifRecount()
	s.checks++
	if ctx.commitDrops > 0 {
		s.commitDropsSeen++
	}
	if ctx.histExp > 0 {
		s.expansionsSeen++
	}
	g := func(name string) float64 {
		v, ok := metric(mfs, name)
		if !ok {
			return math.NaN()
		}
		return v
	}
	if c.Verbose {
		c.Logf("  check after %s: chunks gauge=%v buckets=%d stale=%d recount=%+v ctx=%+v", where, g("prometheus_tsdb_head_chunks"), int64(h.NumNativeHistogramBuckets()), h.NumStaleSeries(), rc, ctx)
	}
	totalChunks := rc.HeadChunks + rc.MmappedChunks + rc.OOOMmappedChunks + rc.OOOHeadChunks
	if rc.Series > 0 && totalChunks > 0 {
		s.checksNonEmpty++
	}
	if rc.StaleSeries > s.maxStale {
		s.maxStale = rc.StaleSeries
	}
	if rc.HistogramSeries > s.maxHist {
		s.maxHist = rc.HistogramSeries
	}
	snapshotLoaded, snapshotFailed := false, false
	mmapCorrupt, _ := metric(mfs, "prometheus_tsdb_mmap_chunk_corruptions_total")
	if ctx.newHead {
		s.biasChunks, s.biasBuckets, s.biasStale, s.biasSeries, s.biasHistSer = 0, 0, 0, 0, 0 // a new Head starts from zero
		if s.cfg.Snapshot {
			if v, ok := metric(mfs, "prometheus_tsdb_snapshot_replay_error_total"); ok && v == 0 {
				snapshotLoaded = true
			} else if ok {
				snapshotFailed = true
				s.failedSnapshotLoads++
			}
		}
	}
	suffix := func() string {
		return fmt.Sprintf("\nrecount %+v, held appenders %d, observed about the step %+v\nhistory: %s", rc, len(s.held), ctx, tail(e.History()))
	}
	// ref → labels must not change while a Head lives
	refsNow := map[uint64]string{}
	for ref, ls := range h.VerifSeriesRefs() {
		refsNow[ref] = ls.String()
	}
	liveClash := ""
	if !ctx.newHead {
		for ref, was := range s.lastRefs {
			if now, ok := refsNow[ref]; ok && now != was {
				liveClash = fmt.Sprintf("ref %d: %s → %s", ref, was, now)
			}
		}
	}
	s.lastRefs = refsNow
	if ctx.newHead && (ctx.refClashes > 0 || ctx.refReintro > 0) {
		s.sawClash = true
	}
	if ctx.newHead {
		s.tainted = false
	}

	gotChunks := g("prometheus_tsdb_head_chunks")
	if gotChunks != math.Trunc(gotChunks) {
		c.Violatef("chunks-gauge-mismatch", "config {%s}\nafter %s: prometheus_tsdb_head_chunks = %v is not an integer%s", s.cfg, where, gotChunks, suffix())
		return false
	}
	gotBuckets := int(int64(h.NumNativeHistogramBuckets())) // unsigned counter: a wrapped value reads negative

	// ---- a reopen over damaged / ambiguous on-disk state (established by the harness from the
	// files and from the corruption counter, not from the gauges): every number may be off; one
	// narrow kind, then continue relative to what was observed
	if liveClash != "" {
		s.sawClash = true
		offS, offH := int(h.NumSeries())-rc.Series, int(h.NumNativeHistogramSeries())-rc.HistogramSeries
		offSt, offB, offC := int(h.NumStaleSeries())-rc.StaleSeries, rc.HistogramBuckets-gotBuckets, int(gotChunks)-totalChunks
		s.biasSeries, s.biasHistSer, s.biasStale, s.biasBuckets, s.biasChunks = offS, offH, offSt, offB, offC
		s.knownf(kindLiveRefClash, "config {%s}\nafter %s: a series ref that existed before the step now maps to other labels (%s); gauge − recount: series %+d, histogram series %+d, stale series %+d, histogram buckets %+d, chunks %+d%s", s.cfg, where, liveClash, offS, offH, offSt, -offB, offC, suffix())
		s.tainted = true
	}
	if ctx.newHead && (ctx.refClashes > 0 || ctx.refReintro > 0 || mmapCorrupt > 0) {
		offS, offH := int(h.NumSeries())-rc.Series, int(h.NumNativeHistogramSeries())-rc.HistogramSeries
		offSt, offB, offC := int(h.NumStaleSeries())-rc.StaleSeries, rc.HistogramBuckets-gotBuckets, int(gotChunks)-totalChunks
		if offS != 0 || offH != 0 || offSt != 0 || offB != 0 || offC != 0 {
			kind, why := kindMmapDiscard, fmt.Sprintf("prometheus_tsdb_mmap_chunk_corruptions_total = %v: the m-mapped chunk files were discarded while opening", mmapCorrupt)
			if ctx.refReintro > 0 {
				kind, why = kindRefReintro, fmt.Sprintf("the WAL that was replayed re-introduces %d series refs behind their own eviction tombstone", ctx.refReintro)
			}
			if ctx.refClashes > 0 {
				kind, why = kindRefCollision, fmt.Sprintf("the WAL that was replayed holds %d series refs with more than one label set", ctx.refClashes)
			}
			s.biasSeries, s.biasHistSer, s.biasStale, s.biasBuckets, s.biasChunks = offS, offH, offSt, offB, offC
			s.knownf(kind, "config {%s}\nafter %s: %s; gauge − recount: series %+d, histogram series %+d, stale series %+d, histogram buckets %+d, chunks %+d%s", s.cfg, where, why, offS, offH, offSt, -offB, offC, suffix())
		}
		s.tainted = true
	}
	if s.tainted {
		s.taintedChecks++
		s.mid = s.mid[:0]
		if got := g("prometheus_tsdb_head_active_appenders"); got != float64(len(s.held)) {
			c.Violatef("active-appenders-gauge-mismatch", "config {%s}\nafter %s: prometheus_tsdb_head_active_appenders = %v but the harness holds %d appenders%s", s.cfg, where, got, len(s.held), suffix())
			return false
		}
		return true
	}

	// ---- numbers without a known defect class on a healthy head: exact
	type cmp struct {
		kind, what string
		got        float64
		want       int
	}
	exact := []cmp{
		{"series-gauge-mismatch", "prometheus_tsdb_head_series", g("prometheus_tsdb_head_series"), rc.Series + s.biasSeries},
		{"series-gauge-mismatch", "Head.NumSeries()", float64(h.NumSeries()), rc.Series + s.biasSeries},
		{"histogram-series-gauge-mismatch", "prometheus_tsdb_head_native_histogram_series", g("prometheus_tsdb_head_native_histogram_series"), rc.HistogramSeries + s.biasHistSer},
		{"histogram-series-gauge-mismatch", "Head.NumNativeHistogramSeries()", float64(h.NumNativeHistogramSeries()), rc.HistogramSeries + s.biasHistSer},
		{"active-appenders-gauge-mismatch", "prometheus_tsdb_head_active_appenders", g("prometheus_tsdb_head_active_appenders"), len(s.held)},
		// getter and exported gauge of the same counter must agree with each other in any case
		{"stale-series-gauge-mismatch", "prometheus_tsdb_head_stale_series − Head.NumStaleSeries()", g("prometheus_tsdb_head_stale_series") - float64(h.NumStaleSeries()), 0},
		{"histogram-buckets-gauge-mismatch", "prometheus_tsdb_head_native_histogram_buckets − Head.NumNativeHistogramBuckets()", g("prometheus_tsdb_head_native_histogram_buckets") - float64(h.NumNativeHistogramBuckets()), 0},
	}
	okExact := true
	for _, x := range exact {
		if x.got != float64(x.want) {
			okExact = false
			c.Violatef(x.kind, "config {%s}\nafter %s: %s = %v but the recount (plus known offset) gives %d%s", s.cfg, where, x.what, x.got, x.want, suffix())
		}
	}
	if !okExact {
		return false
	}
	ok := true

	// ---- stale series
	if over := int(h.NumStaleSeries()) - rc.StaleSeries - s.biasStale; over != 0 {
		if snapshotFailed && over > 0 && over <= ctx.preClose.StaleSeries {
			s.biasStale += over
			s.knownf(kindStaleSnapshot, "config {%s}\nafter %s (chunk snapshot load failed, head rebuilt from the WAL): prometheus_tsdb_head_stale_series = %d but %d series are stale (%d stale series were in the head when the snapshot was written)%s", s.cfg, where, h.NumStaleSeries(), rc.StaleSeries, ctx.preClose.StaleSeries, suffix())
		} else {
			c.Violatef("stale-series-gauge-mismatch", "config {%s}\nafter %s: Head.NumStaleSeries() = %d (known excess carried: %d) but the recount gives %d%s", s.cfg, where, h.NumStaleSeries(), s.biasStale, rc.StaleSeries, suffix())
			ok = false
		}
	}

	// ---- native histogram buckets (the counter is unsigned: read a wrapped value as negative)
	if def := rc.HistogramBuckets - gotBuckets - s.biasBuckets; def != 0 {
		switch {
		case !ctx.newHead && def > 0 && def <= ctx.histExp:
			s.biasBuckets += def
			s.knownf(kindBucketsLive, "config {%s}\nafter %s: prometheus_tsdb_head_native_histogram_buckets = %d but the latest in-order histograms of the head's series hold %d bucket entries; the step committed histograms that the head grew in place by %d bucket entries (chunk layout expansion) after their size had been taken%s", s.cfg, where, gotBuckets, rc.HistogramBuckets, ctx.histExp, suffix())
		case ctx.newHead && def > 0:
			s.biasBuckets += def
			s.knownf(kindBucketsReplay, "config {%s}\nafter %s: prometheus_tsdb_head_native_histogram_buckets = %d but the latest in-order histograms of the replayed series hold %d bucket entries%s", s.cfg, where, gotBuckets, rc.HistogramBuckets, suffix())
		default:
			c.Violatef("histogram-buckets-gauge-mismatch", "config {%s}\nafter %s: Head.NumNativeHistogramBuckets() = %d (known deficit carried: %d) but the recount gives %d%s", s.cfg, where, gotBuckets, s.biasBuckets, rc.HistogramBuckets, suffix())
			ok = false
		}
	}

	// ---- chunks
	if over := int(gotChunks) - totalChunks - s.biasChunks; over != 0 {
		// What the harness saw, from outside, that the known defect classes need:
		// split = upper bound (exact inside maintenance steps) of N−k for k out-of-order head
		// chunks m-mapped into N>k chunks.
		split := 0
		switch {
		case ctx.newHead:
			// WBL replay re-inserts the out-of-order samples and m-maps full chunks again; not
			// observable from outside: every out-of-order m-mapped chunk but one may be such a piece
			if rc.OOOMmappedChunks > 1 {
				split = rc.OOOMmappedChunks - 1
			}
		case len(s.mid) > 0:
			// maintenance step: between two consecutive hook points the recount changed ONLY by
			// k out-of-order head chunks becoming N>k out-of-order m-mapped chunks and the gauge
			// did not move
			prev := midObs{site: "start", rc: ctx.before, gauge: float64(totalOf(ctx.before) + s.biasChunks)}
			for _, m := range s.mid {
				k := prev.rc.OOOHeadChunks - m.rc.OOOHeadChunks
				n := m.rc.OOOMmappedChunks - prev.rc.OOOMmappedChunks
				x, y := prev.rc, m.rc
				x.OOOHeadChunks, x.OOOMmappedChunks, y.OOOHeadChunks, y.OOOMmappedChunks = 0, 0, 0, 0
				if k >= 1 && n > k && x == y && m.gauge == prev.gauge {
					split += n - k
				}
				prev = m
			}
		case ctx.hasBefore:
			// append / commit step (no garbage collection inside): N = new out-of-order m-mapped
			// chunks, k ≥ 1
			if n := rc.OOOMmappedChunks - ctx.before.OOOMmappedChunks; n > 1 {
				split = n - 1
			}
		}
		known := func(kind, why string) {
			s.biasChunks += over
			s.knownf(kind, "config {%s}\nafter %s: prometheus_tsdb_head_chunks = %v (known offset carried: %d) but the head holds %d chunks; %s%s", s.cfg, where, gotChunks, s.biasChunks-over, totalChunks, why, suffix())
		}
		if ctx.newHead {
			// after a reopen several replay defects can overlap; each has its observable
			// precondition, the offset must lie inside the bounds they allow together
			snapDef := 0
			if snapshotLoaded {
				snapDef = rc.HeadChunks // head chunks installed by the snapshot loader are not counted
			}
			lower, upper := -snapDef-split, ctx.wblMarkers+ctx.tombOOO
			if ctx.lateSeries > 0 && !snapshotLoaded {
				upper += ctx.lateSamples // head chunks rebuilt and dropped again: at most one per replayed sample
			}
			switch {
			case snapshotLoaded && -over == snapDef:
				known(kindSnapshotChunks, fmt.Sprintf("deficit = the %d in-order head chunks installed by loadChunkSnapshot", rc.HeadChunks))
			case over < lower || over > upper:
				c.Violatef("chunks-gauge-mismatch", "config {%s}\nafter %s: prometheus_tsdb_head_chunks = %v but the recount gives %d; offset %+d outside [%d,%d] (snapshot-loaded head chunks %d, possible ooo split %d, wbl m-map markers %d, ooo chunk files of tombstoned refs %d, late series records %d with %d samples in front)%s", s.cfg, where, gotChunks, totalChunks, over, lower, upper, snapDef, split, ctx.wblMarkers, ctx.tombOOO, ctx.lateSeries, ctx.lateSamples, suffix())
				ok = false
			case over > 0 && ctx.lateSeries > 0 && !snapshotLoaded:
				known(kindReplayReset, fmt.Sprintf("the replayed WAL has %d series records that follow sample records of the same series (replayed head chunks are dropped by such a record without adjusting the gauge)", ctx.lateSeries))
			case over > 0 && ctx.tombOOO > 0 && over > ctx.wblMarkers:
				known(kindTombOOO, fmt.Sprintf("the head chunk files hold %d out-of-order chunks of series named by WAL tombstone records (the replay re-creates such a series, attaches its chunks and deletes it again, subtracting only the in-order chunks)", ctx.tombOOO))
			case over > 0:
				known(kindWBLMarker, fmt.Sprintf("the replayed WBL has %d m-map markers (each clears the out-of-order head chunk rebuilt so far without adjusting the gauge)", ctx.wblMarkers))
			case snapDef > 0:
				known(kindSnapshotChunks, fmt.Sprintf("%d in-order head chunks were installed by loadChunkSnapshot without being counted (other replay offsets overlap: wbl m-map markers %d, possible ooo split %d)", rc.HeadChunks, ctx.wblMarkers, split))
			default:
				known(kindOOOSplit, fmt.Sprintf("%d of the chunks are out-of-order m-mapped chunks (WBL replay m-maps a full out-of-order head chunk into one chunk per encoding/layout segment and counts one)", rc.OOOMmappedChunks))
			}
		} else {
			switch {
			case len(s.mid) > 0 && -over == split:
				known(kindOOOSplit, fmt.Sprintf("inside the step out-of-order head chunks were m-mapped into %d more chunks than there were head chunks, the gauge did not move", split))
			case len(s.mid) == 0 && over > 0 && over <= ctx.commitDrops:
				known(kindChunksDropped, fmt.Sprintf("Append had accepted %d more samples than the commit appended", ctx.commitDrops))
			case len(s.mid) == 0 && over < 0 && over >= -split-0 && over+ctx.commitDrops >= -split:
				known(kindOOOSplit, fmt.Sprintf("the step added %d out-of-order m-mapped chunks (recount before: %+v)", rc.OOOMmappedChunks-ctx.before.OOOMmappedChunks, ctx.before))
			default:
				c.Violatef("chunks-gauge-mismatch", "config {%s}\nafter %s: prometheus_tsdb_head_chunks = %v (known offset carried: %d) but the recount gives %d (ooo split observed: %d, hook observations: %d, samples dropped at commit: %d)%s", s.cfg, where, gotChunks, s.biasChunks, totalChunks, split, len(s.mid), ctx.commitDrops, suffix())
				ok = false
			}
		}
	}
	if snapshotLoaded && rc.HeadChunks > 0 {
		s.snapshotLoads++
	}
	s.mid = s.mid[:0]
	return ok
}

func totalOf(rc tsdb.VerifHeadCounts) int {
	return rc.HeadChunks + rc.MmappedChunks + rc.OOOMmappedChunks + rc.OOOHeadChunks
}

func tail(s string) string {
	if len(s) > 3500 {
		return "… " + s[len(s)-3500:]
	}
	return s
}
