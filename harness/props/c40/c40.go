// Package c40: remote write delivers every sample, in WAL order per series, with the relabeled
// labels, despite resharding and send failures – the real stack (tsdb.DB WAL → wlog.Watcher →
// QueueManager → HTTP client) against a fault-injecting receiver.
package c40

import (
	"context"
	"errors"
	"fmt"
	"io"
	"math"
	"math/rand/v2"
	"net/http"
	"net/http/httptest"
	"net/url"
	"os"
	"sort"
	"strconv"
	"strings"
	"sync"
	"time"

	"github.com/golang/snappy"
	remoteapi "github.com/prometheus/client_golang/exp/api/remote"
	"github.com/prometheus/client_golang/prometheus"
	config_util "github.com/prometheus/common/config"
	"github.com/prometheus/common/model"

	"github.com/prometheus/prometheus/config"
	"github.com/prometheus/prometheus/model/exemplar"
	"github.com/prometheus/prometheus/model/histogram"
	"github.com/prometheus/prometheus/model/labels"
	"github.com/prometheus/prometheus/model/relabel"
	"github.com/prometheus/prometheus/prompb"
	writev2 "github.com/prometheus/prometheus/prompb/io/prometheus/write/v2"
	"github.com/prometheus/prometheus/storage"
	"github.com/prometheus/prometheus/storage/remote"
	"github.com/prometheus/prometheus/tsdb"
	"github.com/prometheus/prometheus/tsdb/wlog"

	"verif/internal/core"
	"verif/internal/gen"
	"verif/internal/tsdbx"
)

// kindBackfill: expected finding (DESIGN §10 item 13).  Predicate: the only undelivered samples of
// the case are samples whose timestamp is <= the wall clock taken before the watcher was started.
const kindBackfill = "undelivered-sample-has-timestamp-not-after-watcher-start"

func init() {
	core.Register(&core.Prop{
		ID:        "C40",
		Title:     "Remote write delivers every sample in order despite resharding and retries",
		Level:     "fault_enumeration",
		Technique: "runtime monitor of the real remote-write stack (tsdb.DB WAL → WAL watcher → queue manager → HTTP client) against a fault-injecting receiver; offline conservation/order oracle over producer and consumer logs",
		LevelText: "Per case a real tsdb.DB (64 KiB WAL segments, exemplar storage) writes a generated history: pre-start data (must only provide series records), then float/integer-histogram/float-histogram/custom-bucket samples and exemplars on 6-14 series plus churn series with long labels (segment rotations), 0-4 head compactions (whole head or a prefix, so that part of the series survive in the checkpoint) that rotate/checkpoint/truncate the WAL while the watcher tails it, every sample stamped with the wall clock (strictly increasing) and carrying a unique value. remote.NewWriteStorage + ApplyConfig (protocol 1.0 or 2.0, capacity/batch sizes 2-20, BatchSendDeadline 5/20/50 ms, 1-5 shards, external labels, write relabeling with drop/replace/labeldrop rules) sends to an httptest receiver that decodes every request and, by a PRNG schedule, answers 2xx, 500/503 (at most 3 times per request body), 429 with and without retry_on_http_429, 400, and delays answers; 0-6 reshard requests are injected through WriteStorage.VerifReshard at PRNG-chosen points. Offline oracle over the producer log (append order per series) and the consumer log (accepted requests in arrival order): every received label set is the hand-computed 'series labels + external labels where absent, then relabel rules' of a kept series; no item of a dropped series arrives; per kept series the first occurrences of the received post-start samples are exactly the appended ones in append order, minus exactly those contained in requests the receiver rejected unrecoverably (and custom-bucket histograms under 1.0, which the sender documents as unsupported); the same for exemplars; in runs without any failed send no item arrives twice. Quiescence is logical (barrier sample received, pending gauges 0, no request in flight); a wall-clock watchdog only makes a case inconclusive. Held on the observed schedules only; thread interleavings are whatever the scheduler (and -race in the race variant) produced.",
		LevelNote: "Fault points are PRNG-sampled, not exhaustively enumerated. Trusted: the receiver's own log; relabel semantics of the three simple rule shapes are computed by hand. Reductions: timestamps enter only as values (the watcher's 'after start' test is by timestamp, so everything is stamped 'now', see DESIGN §10 item 13; a side class in a third of the cases without pre-start compactions appends three samples stamped 10 min before the start and reports their non-delivery under its own kind); head compactions are issued only at logical quiescence (a watcher that lags behind a WAL truncation loses data by design); sample_age_limit is off; duplicates are only forbidden in failure-free runs (statement); metadata delivery, the queue's failed/dropped counters (recorded in the evidence, used only, in cases that ran longer than 55 s, to tell a hard shutdown from a loss) and pre-start exemplars are not judged; the failure bursts stay far below the 2 min flush deadline, so hard shutdowns do not occur.",
		DesignRef: "DESIGN.md §5 C40, §10 item 13",
		Rule:      "case = one generated history + queue configuration + fault/reshard schedule; non-trivial iff at least 30 post-start samples of kept series were judged and at least one of {failed send, reshard accepted, WAL segment rotation} occurred; distinct by case index + schedule summary",
		Assumptions: []string{
			"the fake receiver stores a request iff it answers 2xx; requests answered with an error are not stored",
			"send failures recover within the flush deadline (at most 3 recoverable failures per request body, backoff <= 100 ms)",
		},
		Cases: func(variant string, tier core.Tier) int {
			switch {
			case variant == "race" && tier == core.Thorough:
				return 150
			case variant == "race":
				return 8
			case tier == core.Thorough:
				return 600
			default:
				return 32
			}
		},
		Variants:       []string{"race"},
		Run:            run,
		MinNontrivial:  func(t core.Tier) int { return 20 },
		CaseTimeoutSec: 400,
	})
}

// ---------------------------------------------------------------- producer model

type item struct {
	id    int64 // unique value
	t     int64
	kind  string // f | h | fh | x
	nhcb  bool
	after bool // appended after the watcher start
}

type pseries struct {
	ls       labels.Labels
	kind     string // f | h | fh
	dropped  bool   // by write relabeling
	expected string // expected received label set (labels.String()); "" if dropped
	items    []item
}

type ruleSet struct {
	drop, replace, labeldrop bool
}

func mkRule(rc *relabel.Config) *relabel.Config {
	rc.NameValidationScheme = model.UTF8Validation
	if rc.Separator == "" {
		rc.Separator = ";"
	}
	core.Must(rc.Validate(model.UTF8Validation), "relabel rule")
	return rc
}

func (rs ruleSet) configs() []*relabel.Config {
	var out []*relabel.Config
	if rs.drop {
		out = append(out, mkRule(&relabel.Config{SourceLabels: model.LabelNames{"drop"}, Regex: relabel.MustNewRegexp("yes"), Action: relabel.Drop, Replacement: "$1"}))
	}
	if rs.replace {
		out = append(out, mkRule(&relabel.Config{SourceLabels: model.LabelNames{"ext"}, Regex: relabel.MustNewRegexp("(.*)"), TargetLabel: "ext_copy", Replacement: "c-$1", Action: relabel.Replace}))
	}
	if rs.labeldrop {
		out = append(out, mkRule(&relabel.Config{Regex: relabel.MustNewRegexp("tmp"), Action: relabel.LabelDrop, Replacement: "$1"}))
	}
	return out
}

// expectedLabels is the hand-written reference: external labels are added where the series lacks
// the name (documented: "external labels … write_relabel_configs are applied after external labels").
func expectedLabels(ls labels.Labels, ext map[string]string, rs ruleSet) (string, bool) {
	m := ls.Map()
	for k, v := range ext {
		if m[k] == "" {
			m[k] = v
		}
	}
	if rs.drop && m["drop"] == "yes" {
		return "", true
	}
	if rs.replace {
		m["ext_copy"] = "c-" + m["ext"]
	}
	if rs.labeldrop {
		delete(m, "tmp")
	}
	return labels.FromMap(m).String(), false
}

// ---------------------------------------------------------------- fake receiver

type rItem struct {
	series string
	kind   string
	id     int64
	t      int64
}

type rRequest struct {
	seq     int
	attempt string
	status  int
	aborted bool
	items   []rItem
}

type receiver struct {
	mu        sync.Mutex
	rng       *rand.Rand
	v2        bool
	drain     bool
	faultRate int // one in faultRate requests gets a fault (0 = none)
	slowRate  int
	retry429  bool
	maxUnrec  int
	unrec     int
	failsBy   map[string]int // recoverable failures already given per request body
	inflight  int
	log       []rRequest
	seen      map[int64]bool // ids accepted so far
	decodeErr string
}

func histID(sum float64) int64 { return int64(sum) }

var errBodyRead = errors.New("request body could not be read completely")

func (rc *receiver) decode(r *http.Request) ([]rItem, string, error) {
	comp, err := io.ReadAll(r.Body)
	if err != nil {
		return nil, "", errBodyRead // the client went away while sending: not a decoding problem
	}
	raw, err := snappy.Decode(nil, comp)
	if err != nil {
		return nil, "", err
	}
	var items []rItem
	b := labels.NewScratchBuilder(0)
	isV2 := strings.Contains(r.Header.Get("Content-Type"), "io.prometheus.write.v2.Request")
	if isV2 {
		var req writev2.Request
		if err := req.Unmarshal(raw); err != nil {
			return nil, "", err
		}
		for _, ts := range req.Timeseries {
			ls, err := ts.ToLabels(&b, req.Symbols)
			if err != nil {
				return nil, "", err
			}
			k := ls.String()
			for _, s := range ts.Samples {
				items = append(items, rItem{series: k, kind: "f", id: int64(s.Value), t: s.Timestamp})
			}
			for _, h := range ts.Histograms {
				kind := "h"
				if h.IsFloatHistogram() {
					kind = "fh"
				}
				items = append(items, rItem{series: k, kind: kind, id: histID(h.Sum), t: h.Timestamp})
			}
			for _, e := range ts.Exemplars {
				items = append(items, rItem{series: k, kind: "x", id: int64(e.Value), t: e.Timestamp})
			}
		}
	} else {
		var req prompb.WriteRequest
		if err := req.Unmarshal(raw); err != nil {
			return nil, "", err
		}
		for _, ts := range req.Timeseries {
			k := ts.ToLabels(&b, nil).String()
			for _, s := range ts.Samples {
				items = append(items, rItem{series: k, kind: "f", id: int64(s.Value), t: s.Timestamp})
			}
			for _, h := range ts.Histograms {
				kind := "h"
				if h.IsFloatHistogram() {
					kind = "fh"
				}
				items = append(items, rItem{series: k, kind: kind, id: histID(h.Sum), t: h.Timestamp})
			}
			for _, e := range ts.Exemplars {
				items = append(items, rItem{series: k, kind: "x", id: int64(e.Value), t: e.Timestamp})
			}
		}
	}
	if isV2 != rc.v2 {
		return nil, "", fmt.Errorf("request content type %q does not match the configured protocol", r.Header.Get("Content-Type"))
	}
	return items, string(comp), nil
}

func (rc *receiver) ServeHTTP(w http.ResponseWriter, r *http.Request) {
	items, body, err := rc.decode(r)
	rc.mu.Lock()
	if err != nil {
		if err == errBodyRead || r.Context().Err() != nil {
			rc.log = append(rc.log, rRequest{seq: len(rc.log), aborted: true})
		} else {
			rc.decodeErr = err.Error()
		}
		rc.mu.Unlock()
		http.Error(w, err.Error(), http.StatusBadRequest)
		return
	}
	rc.inflight++
	status := http.StatusNoContent
	retryAfter := ""
	var delay time.Duration
	if !rc.drain {
		if rc.slowRate > 0 && rc.rng.IntN(rc.slowRate) == 0 {
			delay = time.Duration(1+rc.rng.IntN(40)) * time.Millisecond
		}
		if rc.faultRate > 0 && rc.rng.IntN(rc.faultRate) == 0 {
			switch rc.rng.IntN(8) {
			case 0, 1, 2:
				status = http.StatusInternalServerError
			case 3, 4:
				status = http.StatusServiceUnavailable
			case 5:
				status = http.StatusTooManyRequests
				if rc.retry429 && rc.rng.IntN(2) == 0 {
					retryAfter = "1"
				}
			default:
				status = http.StatusBadRequest
			}
			recoverable := status/100 == 5 || (status == http.StatusTooManyRequests && rc.retry429)
			if recoverable {
				if rc.failsBy[body] >= 3 {
					status = http.StatusNoContent
				} else {
					rc.failsBy[body]++
				}
			} else {
				if rc.unrec >= rc.maxUnrec {
					status = http.StatusNoContent
				} else {
					rc.unrec++
				}
			}
		}
	}
	rc.mu.Unlock()

	if delay > 0 {
		select {
		case <-time.After(delay):
		case <-r.Context().Done():
		}
	}

	rc.mu.Lock()
	rq := rRequest{seq: len(rc.log), attempt: r.Header.Get("Retry-Attempt"), status: status, items: items}
	if r.Context().Err() != nil {
		rq.aborted = true // the client went away: nothing stored
	} else if status/100 == 2 {
		for _, it := range items {
			rc.seen[it.id] = true
		}
	}
	rc.log = append(rc.log, rq)
	rc.inflight--
	rc.mu.Unlock()

	if status/100 == 2 {
		if rc.v2 {
			var ns, nh, nx int
			for _, it := range items {
				switch it.kind {
				case "f":
					ns++
				case "x":
					nx++
				default:
					nh++
				}
			}
			w.Header().Set("X-Prometheus-Remote-Write-Samples-Written", strconv.Itoa(ns))
			w.Header().Set("X-Prometheus-Remote-Write-Histograms-Written", strconv.Itoa(nh))
			w.Header().Set("X-Prometheus-Remote-Write-Exemplars-Written", strconv.Itoa(nx))
		}
		w.WriteHeader(status)
		return
	}
	if retryAfter != "" {
		w.Header().Set("Retry-After", retryAfter)
	}
	http.Error(w, "injected fault", status)
}

func (rc *receiver) setDrain(d bool) {
	rc.mu.Lock()
	rc.drain = d
	rc.mu.Unlock()
}

func (rc *receiver) state(id int64) (seen bool, inflight int) {
	rc.mu.Lock()
	defer rc.mu.Unlock()
	return rc.seen[id], rc.inflight
}

// ---------------------------------------------------------------- metrics

func gatherSum(reg *prometheus.Registry, name string) float64 {
	mfs, err := reg.Gather()
	if err != nil {
		return math.NaN()
	}
	sum := 0.0
	for _, mf := range mfs {
		if mf.GetName() != name {
			continue
		}
		for _, m := range mf.GetMetric() {
			switch {
			case m.Counter != nil:
				sum += m.Counter.GetValue()
			case m.Gauge != nil:
				sum += m.Gauge.GetValue()
			}
		}
	}
	return sum
}

func gatherByLabel(reg *prometheus.Registry, name, label string) map[string]float64 {
	out := map[string]float64{}
	mfs, err := reg.Gather()
	if err != nil {
		return out
	}
	for _, mf := range mfs {
		if mf.GetName() != name {
			continue
		}
		for _, m := range mf.GetMetric() {
			for _, lp := range m.GetLabel() {
				if lp.GetName() == label && m.Counter != nil {
					out[lp.GetValue()] += m.Counter.GetValue()
				}
			}
		}
	}
	return out
}

// ---------------------------------------------------------------- run

type world struct {
	c      *core.Case
	r      *rand.Rand
	db     *tsdb.DB
	series []*pseries
	nextID int64
	lastT  int64
	after  bool
	v2     bool
	exOK   bool
}

func (w *world) now() int64 {
	t := time.Now().UnixMilli()
	if t <= w.lastT {
		t = w.lastT + 1
	}
	w.lastT = t
	return t
}

func (w *world) id() int64 { w.nextID++; return w.nextID }

// appendBatch appends n samples (and maybe exemplars) to the given series in one appender.
func (w *world) appendBatch(ss []*pseries, perSeries int) {
	app := w.db.Appender(context.Background())
	for round := 0; round < perSeries; round++ {
		for _, s := range ss {
			t := w.now()
			id := w.id()
			it := item{id: id, t: t, kind: s.kind, after: w.after}
			var ref storage.SeriesRef
			var err error
			switch s.kind {
			case "f":
				ref, err = app.Append(0, s.ls, t, float64(id))
			case "h":
				h := &histogram.Histogram{Schema: int32(w.r.IntN(5)), Count: uint64(3 + id%5), Sum: float64(id), ZeroThreshold: 0.001, ZeroCount: 1, PositiveSpans: []histogram.Span{{Offset: int32(w.r.IntN(3)), Length: 2}}, PositiveBuckets: []int64{1, int64(id % 5)}}
				if w.r.IntN(6) == 0 {
					h = &histogram.Histogram{Schema: histogram.CustomBucketsSchema, Count: uint64(3 + id%5), Sum: float64(id), CustomValues: []float64{1, 2, 5}, PositiveSpans: []histogram.Span{{Offset: 0, Length: 2}}, PositiveBuckets: []int64{2, int64(id%5) - 1}}
					it.nhcb = true
				}
				core.Must(h.Validate(), "generated histogram")
				ref, err = app.AppendHistogram(0, s.ls, t, h, nil)
			case "fh":
				fh := &histogram.FloatHistogram{Schema: int32(w.r.IntN(5)), Count: float64(3+id%5) + 0.5, Sum: float64(id), ZeroThreshold: 0.001, ZeroCount: 1.5, PositiveSpans: []histogram.Span{{Offset: int32(w.r.IntN(3)), Length: 2}}, PositiveBuckets: []float64{1, float64(id%5) + 1}}
				core.Must(fh.Validate(), "generated float histogram")
				ref, err = app.AppendHistogram(0, s.ls, t, nil, fh)
			}
			core.Must(err, "append")
			s.items = append(s.items, it)
			if w.exOK && s.kind == "f" && w.r.IntN(5) == 0 {
				xid := w.id()
				_, err := app.AppendExemplar(ref, s.ls, exemplar.Exemplar{Labels: labels.FromStrings("trace_id", strconv.FormatInt(xid, 10)), Value: float64(xid), Ts: t, HasTs: true})
				core.Must(err, "append exemplar")
				s.items = append(s.items, item{id: xid, t: t, kind: "x", after: w.after})
			}
		}
	}
	core.Must(app.Commit(), "commit")
}

func run(c *core.Case) {
	r := c.Rng
	caseStart := time.Now()
	dir := c.TempDir()
	opts := tsdb.DefaultOptions()
	opts.NoLockfile = true
	opts.WALSegmentSize = 64 * 1024
	opts.EnableExemplarStorage = true
	opts.MaxExemplars = 100000
	db, err := tsdb.Open(dir, tsdbx.NopLogger(), nil, opts, nil)
	core.Must(err, "tsdb.Open")
	dbClosed := false
	defer func() {
		if !dbClosed {
			db.Close()
		}
	}()
	db.DisableCompactions()

	w := &world{c: c, r: r, db: db, v2: r.IntN(2) == 0, exOK: r.IntN(3) != 0}

	// ---------------- configuration
	ext := map[string]string{}
	if r.IntN(4) != 0 {
		ext["ext"] = "E1"
	}
	if r.IntN(2) == 0 {
		ext["zone"] = "ext-zone"
	}
	rs := ruleSet{drop: r.IntN(3) != 0, replace: ext["ext"] != "" && r.IntN(2) == 0, labeldrop: r.IntN(3) == 0}

	nSeries := 6 + r.IntN(9)
	for i := 0; i < nSeries; i++ {
		b := labels.NewBuilder(labels.FromStrings("__name__", "m", "s", strconv.Itoa(i), "grp", gen.Pick(r, []string{"a", "b", "日本"})))
		if r.IntN(4) == 0 {
			b.Set("drop", gen.Pick(r, []string{"yes", "yes", "no"}))
		}
		if r.IntN(4) == 0 {
			b.Set("zone", "own-zone") // collides with an external label: the series' value wins
		}
		if r.IntN(5) == 0 {
			b.Set("ext", "own-ext")
		}
		if r.IntN(3) == 0 {
			b.Set("tmp", "t")
		}
		kind := gen.Pick(r, []string{"f", "f", "f", "h", "fh"})
		w.series = append(w.series, &pseries{ls: b.Labels(), kind: kind})
	}
	barrier := &pseries{ls: labels.FromStrings("__name__", "barrier"), kind: "f"}
	w.series = append(w.series, barrier)
	setExpected := func(s *pseries) {
		s.expected, s.dropped = expectedLabels(s.ls, ext, rs)
	}
	for _, s := range w.series {
		setExpected(s)
	}

	// ---------------- pre-start history (series records, samples that must not be needed)
	w.appendBatch(w.series[:1+r.IntN(len(w.series)-1)], 1+r.IntN(3))
	preCompactions := 0
	if r.IntN(3) == 0 {
		preCompactions = 1 + r.IntN(4) // 4 rotations give a checkpoint before the watcher starts
		for i := 0; i < preCompactions; i++ {
			h := db.Head()
			core.Must(db.CompactHead(tsdb.NewRangeHead(h, h.MinTime(), h.MaxTime())), "pre-start CompactHead")
			w.appendBatch(w.series[:1+r.IntN(len(w.series)-1)], 1)
		}
	}
	time.Sleep(3 * time.Millisecond)

	// ---------------- receiver + write storage
	rcv := &receiver{rng: c.SubRng("receiver"), v2: w.v2, failsBy: map[string]int{}, seen: map[int64]bool{}}
	rcv.faultRate = []int{0, 0, 4, 8, 15}[r.IntN(5)]
	rcv.slowRate = []int{0, 3, 10}[r.IntN(3)]
	rcv.retry429 = r.IntN(2) == 0
	rcv.maxUnrec = r.IntN(4)
	srv := httptest.NewServer(rcv)
	defer srv.Close()

	reg := prometheus.NewRegistry()
	flushDeadline := 2 * time.Minute
	rws := remote.NewWriteStorage(tsdbx.NopLogger(), reg, dir, flushDeadline, nil, false)
	rwsClosed := false
	defer func() {
		if !rwsClosed {
			rws.Close()
		}
	}()
	u, err := url.Parse(srv.URL)
	core.Must(err, "url")
	rwc := config.DefaultRemoteWriteConfig
	rwc.URL = &config_util.URL{URL: u}
	rwc.Name = "c40"
	rwc.RemoteTimeout = model.Duration(60 * time.Second)
	rwc.SendExemplars = w.exOK
	rwc.SendNativeHistograms = true
	rwc.WriteRelabelConfigs = rs.configs()
	rwc.MetadataConfig.Send = false
	if w.v2 {
		rwc.ProtobufMessage = remoteapi.WriteV2MessageType
	} else {
		rwc.ProtobufMessage = remoteapi.WriteV1MessageType
	}
	batch := gen.Pick(r, []int{2, 3, 5, 10, 20})
	rwc.QueueConfig = config.QueueConfig{
		Capacity:          batch * (1 + r.IntN(3)),
		MaxShards:         5,
		MinShards:         1 + r.IntN(3),
		MaxSamplesPerSend: batch,
		BatchSendDeadline: model.Duration([]time.Duration{5 * time.Millisecond, 20 * time.Millisecond, 50 * time.Millisecond}[r.IntN(3)]), // below the receiver's answer delays: the deadline timer is pending while full batches queue up
		MinBackoff:        model.Duration(5 * time.Millisecond),
		MaxBackoff:        model.Duration(100 * time.Millisecond),
		RetryOnRateLimit:  rcv.retry429,
	}
	cfg := &config.Config{GlobalConfig: config.GlobalConfig{ExternalLabels: labels.FromMap(ext)}, RemoteWriteConfigs: []*config.RemoteWriteConfig{&rwc}}
	db.SetWriteNotified(rws)
	tBeforeApply := time.Now().UnixMilli() // the watcher starts after this instant
	core.Must(rws.ApplyConfig(cfg), "ApplyConfig")

	// wait until the watcher runs (its start time is fixed before it reads the first record)
	deadline := time.Now().Add(90 * time.Second)
	for gatherSum(reg, "prometheus_wal_watcher_records_read_total") == 0 {
		if time.Now().After(deadline) {
			c.Inconclusive("watchdog: the WAL watcher did not read a record within 90 s")
			return
		}
		rws.Notify()
		time.Sleep(5 * time.Millisecond)
	}
	time.Sleep(3 * time.Millisecond)
	w.after = true
	w.lastT = max(w.lastT, time.Now().UnixMilli()+1)

	// side class (DESIGN §10 item 13): samples WRITTEN after the start but STAMPED before it
	// (backfill / out-of-order style ingestion).  Only without pre-start compactions, otherwise the
	// head itself rejects such timestamps.
	var backfill *pseries
	if preCompactions == 0 && r.IntN(3) == 0 {
		backfill = &pseries{ls: labels.FromStrings("__name__", "backfill"), kind: "f"}
		setExpected(backfill)
		app := db.Appender(context.Background())
		for i := 0; i < 3; i++ {
			id := w.id()
			t := tBeforeApply - 600_000 + int64(i)
			_, err := app.Append(0, backfill.ls, t, float64(id))
			core.Must(err, "append backfill sample")
			backfill.items = append(backfill.items, item{id: id, t: t, kind: "f", after: true})
		}
		core.Must(app.Commit(), "commit backfill")
		w.series = append(w.series, backfill)
	}

	// waitBarrier: logical quiescence.
	waitBarrier := func(what string) bool {
		rcv.setDrain(true)
		defer rcv.setDrain(false)
		w.appendBatch([]*pseries{barrier}, 1)
		bid := barrier.items[len(barrier.items)-1].id
		deadline := time.Now().Add(150 * time.Second)
		stable := 0
		for {
			seen, inflight := rcv.state(bid)
			pending := gatherSum(reg, "prometheus_remote_storage_samples_pending") + gatherSum(reg, "prometheus_remote_storage_histograms_pending") + gatherSum(reg, "prometheus_remote_storage_exemplars_pending")
			if seen && inflight == 0 && pending == 0 {
				stable++
				if stable >= 2 {
					return true
				}
			} else {
				stable = 0
			}
			if time.Now().After(deadline) {
				c.Inconclusive("watchdog: no logical quiescence %s within 150 s (barrier seen=%v inflight=%d pending=%v)", what, seen, inflight, pending)
				return false
			}
			rws.Notify()
			time.Sleep(10 * time.Millisecond)
		}
	}

	// ---------------- the history after the start
	steps := 20 + r.IntN(35)
	if c.Tier == core.Thorough {
		steps += r.IntN(60)
	}
	reshardAsked, reshardAccepted, compactions, churn := 0, 0, 0, 0
	longSlept := false
	maxCompactions := r.IntN(5)
	maxReshards := r.IntN(7)
	normal := w.series[:len(w.series)-1]
	if r.IntN(4) == 0 {
		// checkpoint scenario: prefix compactions until the head writes a checkpoint that contains
		// the (surviving) series of this history, then wait for the watcher's 5 s checkpoint
		// ticker (garbageCollectSeries → SeriesReset) and keep writing to the survivors.
		for i := 0; i < 6 && !longSlept; i++ {
			w.appendBatch(normal, 2)
			time.Sleep(2 * time.Millisecond)
			w.appendBatch(normal, 1)
			if !waitBarrier("before a scenario head compaction") {
				return
			}
			h := db.Head()
			cut := h.MinTime() + (h.MaxTime()-h.MinTime())/2
			cpBefore, _, _ := wlog.LastCheckpoint(dir + "/wal")
			core.Must(db.CompactHead(tsdb.NewRangeHead(h, h.MinTime(), cut)), "CompactHead")
			compactions++
			c.Count("prefix_head_compactions", 1)
			if cpAfter, _, err := wlog.LastCheckpoint(dir + "/wal"); err == nil && cpAfter != cpBefore {
				longSlept = true
				time.Sleep(5600 * time.Millisecond)
				c.Count("cases_waiting_for_watcher_checkpoint_gc", 1)
				w.appendBatch(normal, 1)
				time.Sleep(300 * time.Millisecond)
				w.appendBatch(normal, 1)
			}
		}
		c.Count("checkpoint_scenarios", 1)
	}
	for st := 0; st < steps; st++ {
		switch x := r.IntN(20); {
		case x < 11: // append to a few series
			k := 1 + r.IntN(min(6, len(normal)))
			var pick []*pseries
			for _, i := range r.Perm(len(normal))[:k] {
				pick = append(pick, normal[i])
			}
			w.appendBatch(pick, 1+r.IntN(3))
		case x < 13: // a burst on one series (fills its shard: back-pressure)
			w.appendBatch([]*pseries{normal[r.IntN(len(normal))]}, 10+r.IntN(30))
		case x < 15:
			time.Sleep(time.Duration(r.IntN(60)) * time.Millisecond)
		case x < 17:
			if reshardAsked < maxReshards {
				reshardAsked++
				reshardAccepted += rws.VerifReshard(1 + r.IntN(5))
			}
		case x < 19: // churn series with long labels: fills WAL segments
			n := 15 + r.IntN(45)
			var cs []*pseries
			for i := 0; i < n; i++ {
				churn++
				s := &pseries{ls: labels.FromStrings("__name__", "churn", "n", strconv.Itoa(churn), "pad", strings.Repeat("p", 800+r.IntN(600))), kind: "f"}
				if r.IntN(6) == 0 {
					s.ls = labels.NewBuilder(s.ls).Set("drop", "yes").Labels()
				}
				setExpected(s)
				cs = append(cs, s)
			}
			w.appendBatch(cs, 1+r.IntN(2))
			w.series = append(w.series, cs...)
		default:
			if compactions < maxCompactions {
				if !waitBarrier("before a head compaction") {
					return
				}
				compactions++
				h := db.Head()
				cut := h.MaxTime()
				if r.IntN(6) != 0 && h.MaxTime()-h.MinTime() > 10 {
					// compact only a prefix: series with newer samples stay in the head, keep their
					// refs and go into the checkpoint (the watcher's SeriesReset must keep them)
					cut = h.MinTime() + (h.MaxTime()-h.MinTime())*int64(1+r.IntN(3))/4
					c.Count("prefix_head_compactions", 1)
				}
				cpBefore, _, _ := wlog.LastCheckpoint(dir + "/wal")
				core.Must(db.CompactHead(tsdb.NewRangeHead(h, h.MinTime(), cut)), "CompactHead")
				if cpAfter, _, err := wlog.LastCheckpoint(dir + "/wal"); err == nil && cpAfter != cpBefore && !longSlept {
					// this compaction wrote a new checkpoint: let the watcher's 5 s checkpoint ticker fire
					// once (SeriesReset) and then keep writing to the series that survived in the head
					longSlept = true
					time.Sleep(5600 * time.Millisecond)
					c.Count("cases_waiting_for_watcher_checkpoint_gc", 1)
					w.appendBatch(normal, 1)
					time.Sleep(300 * time.Millisecond)
					w.appendBatch(normal, 1)
				}
			}
		}
	}
	if !waitBarrier("at the end") {
		return
	}

	// counters before shutdown (Stop unregisters them)
	failedS := gatherSum(reg, "prometheus_remote_storage_samples_failed_total")
	failedH := gatherSum(reg, "prometheus_remote_storage_histograms_failed_total")
	failedX := gatherSum(reg, "prometheus_remote_storage_exemplars_failed_total")
	droppedS := gatherByLabel(reg, "prometheus_remote_storage_samples_dropped_total", "reason")
	droppedH := gatherByLabel(reg, "prometheus_remote_storage_histograms_dropped_total", "reason")
	droppedX := gatherByLabel(reg, "prometheus_remote_storage_exemplars_dropped_total", "reason")
	retried := gatherSum(reg, "prometheus_remote_storage_samples_retried_total")
	first, last, _ := walSegments(dir)

	core.Must(rws.Close(), "WriteStorage.Close")
	rwsClosed = true
	core.Must(db.Close(), "db.Close")
	dbClosed = true
	srv.Close()

	// ---------------- offline oracle
	rcv.mu.Lock()
	log := rcv.log
	decodeErr := rcv.decodeErr
	rcv.mu.Unlock()
	if decodeErr != "" {
		c.Violatef("undecodable-request", "the receiver could not decode a request: %s", decodeErr)
		return
	}
	byExpected := map[string]*pseries{}
	byID := map[int64]*pseries{}
	itemByID := map[int64]item{}
	for _, s := range w.series {
		if !s.dropped {
			if o := byExpected[s.expected]; o != nil {
				core.Must(fmt.Errorf("%s and %s both map to %s", o.ls, s.ls, s.expected), "harness: relabeled label sets collide")
			}
			byExpected[s.expected] = s
		}
		for _, it := range s.items {
			byID[it.id] = s
			itemByID[it.id] = it
		}
	}
	failures, aborted := 0, 0
	excused := map[int64]bool{}
	received := map[string][]rItem{} // per received label set, accepted items in arrival order
	count := map[int64]int{}
	for _, rq := range log {
		switch {
		case rq.aborted:
			aborted++
		case rq.status/100 == 2:
			for _, it := range rq.items {
				received[it.series] = append(received[it.series], it)
				count[it.id]++
			}
		default:
			failures++
			recoverable := rq.status/100 == 5 || (rq.status == http.StatusTooManyRequests && rcv.retry429)
			if !recoverable {
				for _, it := range rq.items {
					excused[it.id] = true
				}
			}
		}
	}
	summary := fmt.Sprintf("proto v2=%v batch=%d capacity=%d minShards=%d ext=%v rules=%+v requests=%d failures=%d aborted=%d reshards=%d/%d compactions=%d+%d churn=%d wal-segments=%d..%d failed[s/h/x]=%v/%v/%v dropped=%v%v%v retried=%v",
		w.v2, batch, rwc.QueueConfig.Capacity, rwc.QueueConfig.MinShards, ext, rs, len(log), failures, aborted, reshardAccepted, reshardAsked, preCompactions, compactions, churn, first, last, failedS, failedH, failedX, droppedS, droppedH, droppedX, retried)
	c.Logf("%s", summary)

	// 1. label sets and dropped series
	var rkeys []string
	for k := range received {
		rkeys = append(rkeys, k)
	}
	sort.Strings(rkeys)
	for _, k := range rkeys {
		s := byExpected[k]
		for _, it := range received[k] {
			src := byID[it.id]
			switch {
			case src == nil:
				c.Violatef("unknown-item-received", "received an item that was never appended: series %s kind=%s value=%d t=%d\n%s", k, it.kind, it.id, it.t, summary)
				return
			case src.dropped:
				c.Violatef("dropped-series-item-sent", "an item of series %s, which write relabeling drops, was sent as %s (value %d)\n%s", src.ls, k, it.id, summary)
				return
			case s == nil || src != s:
				c.Violatef("wrong-labels", "item %d of series %s was received under %s, expected %s (external labels %v, rules %+v)\n%s", it.id, src.ls, k, src.expected, ext, rs, summary)
				return
			}
			pi := itemByID[it.id]
			if pi.t != it.t || pi.kind != it.kind {
				c.Violatef("item-content-mismatch", "series %s item %d: appended kind=%s t=%d, received kind=%s t=%d\n%s", src.ls, it.id, pi.kind, pi.t, it.kind, it.t, summary)
				return
			}
		}
	}
	// 2. conservation and order per kept series
	judged := 0
	lossBeyondExcuse := ""
	for _, s := range w.series {
		if s.dropped || s == backfill {
			continue
		}
		for _, class := range []string{"samples", "exemplars"} {
			var want []int64
			for _, it := range s.items {
				if !it.after || excused[it.id] || (it.kind == "x") != (class == "exemplars") {
					continue
				}
				if it.nhcb && !w.v2 {
					continue // documented: custom-bucket histograms cannot be sent with 1.0
				}
				want = append(want, it.id)
			}
			var got []int64
			dup := map[int64]bool{}
			for _, it := range received[s.expected] {
				pi := itemByID[it.id]
				if !pi.after || (it.kind == "x") != (class == "exemplars") || dup[it.id] {
					continue
				}
				if excused[it.id] {
					continue // rejected once unrecoverably and nevertheless accepted later: not judged here
				}
				dup[it.id] = true
				got = append(got, it.id)
			}
			judged += len(want)
			if equalIDs(want, got) {
				continue
			}
			// classify
			gotSet := map[int64]bool{}
			for _, id := range got {
				gotSet[id] = true
			}
			var missing []int64
			for _, id := range want {
				if !gotSet[id] {
					missing = append(missing, id)
				}
			}
			if len(missing) > 0 {
				lossBeyondExcuse = fmt.Sprintf("series %s (%s): %d of %d appended %s never arrived in an accepted request and were not in an unrecoverably rejected request: values %v\nappended order %v\nreceived order %v", s.ls, s.expected, len(missing), len(want), class, head(missing), head(want), head(got))
				continue
			}
			c.Violatef("order-violated", "series %s (%s): %s arrived in a different order than appended\nappended %v\nreceived %v\n%s", s.ls, s.expected, class, head(want), head(got), summary)
			return
		}
	}
	if lossBeyondExcuse != "" {
		nUnrec := 0
		for _, rq := range log {
			if !rq.aborted && rq.status/100 != 2 && !(rq.status/100 == 5 || (rq.status == http.StatusTooManyRequests && rcv.retry429)) {
				for _, it := range rq.items {
					if it.kind != "x" {
						nUnrec++
					}
				}
			}
		}
		// A hard shutdown (the only legitimate way to lose more than the receiver rejected) needs a
		// shard stop that lasts longer than the flush deadline; a client timeout needs 60 s.
		if elapsed := time.Since(caseStart); elapsed > 55*time.Second && (aborted > 0 || int(failedS+failedH) > nUnrec) {
			c.Inconclusive("items were lost, but the case ran for %v (stalled machine) and saw aborted requests (%d) or more failed samples (%v) than the receiver rejected (%d): a hard shutdown / client timeout cannot be excluded. %s", elapsed, aborted, failedS+failedH, nUnrec, lossBeyondExcuse)
			return
		}
		c.Violatef("sample-lost", "%s\n%s", lossBeyondExcuse, summary)
		return
	}
	// 3. no duplicates in failure-free runs
	if failures == 0 && aborted == 0 {
		for id, n := range count {
			if n > 1 {
				c.Violatef("duplicate-without-failure", "no send failed, but value %d of series %s was accepted %d times\n%s", id, byID[id].ls, n, summary)
				return
			}
		}
	} else {
		dups := 0
		for _, n := range count {
			if n > 1 {
				dups++
			}
		}
		c.Count("items_accepted_more_than_once_in_runs_with_failures", int64(dups))
	}

	// 4. side class: written after the start, stamped before it
	if backfill != nil && !backfill.dropped {
		got := map[int64]bool{}
		for _, it := range received[backfill.expected] {
			got[it.id] = true
		}
		missing := 0
		for _, it := range backfill.items {
			if !got[it.id] && !excused[it.id] {
				missing++
			}
		}
		c.Count("backfill_side_class_cases", 1)
		if missing > 0 {
			// predicate of the known finding: every undelivered sample of this case has a timestamp
			// <= the wall clock before the watcher was started (all other series were judged above)
			c.Violatef(kindBackfill, "%d of %d samples of series %s were appended AFTER the queue started (commit returned, watcher notified, later samples of other series were delivered) but never sent; all of them carry timestamps 10 min before the start (t=%d.., watcher started after %d): the watcher forwards a sample only if its timestamp is newer than its own start time\n%s", missing, len(backfill.items), backfill.ls, backfill.items[0].t, tBeforeApply, summary)
		}
	}

	c.Count("post_start_items_judged", int64(judged))
	c.Count("requests", int64(len(log)))
	c.Count("failed_sends_injected", int64(failures))
	c.Count("items_excused_by_unrecoverable_rejection", int64(len(excused)))
	c.Count("reshards_accepted", int64(reshardAccepted))
	c.Count("head_compactions_after_start", int64(compactions))
	c.Count("wal_segments_seen", int64(last+1))
	c.Count("queue_failed_samples_counter", int64(failedS+failedH+failedX))
	c.Count("queue_retried_samples_counter", int64(retried))
	for reason, n := range droppedS {
		c.Count("queue_dropped_samples_"+reason, int64(n))
	}
	for reason, n := range droppedH {
		c.Count("queue_dropped_histograms_"+reason, int64(n))
	}
	c.Seen("protocol", map[bool]string{true: "2.0", false: "1.0"}[w.v2])
	c.Seen("shape", fmt.Sprintf("faultRate=%d reshards=%d compactions=%d+%d", rcv.faultRate, min(reshardAccepted, 3), min(preCompactions, 1), compactions))
	if first > 0 {
		c.Count("cases_with_wal_truncation", 1)
	}
	if judged >= 30 && (failures > 0 || reshardAccepted > 0 || last > 0) {
		c.Nontrivial(c.Idx, summary)
	}
	if c.Idx < 3 {
		c.Sample(map[string]any{"summary": summary, "judged_items": judged})
	}
}

func walSegments(dir string) (int, int, error) {
	// wlog.Segments without importing wlog: list <dir>/wal numerically
	first, last := -1, -1
	es, err := readDirNames(dir + "/wal")
	if err != nil {
		return 0, 0, err
	}
	for _, n := range es {
		i, err := strconv.Atoi(n)
		if err != nil {
			continue
		}
		if first == -1 || i < first {
			first = i
		}
		if i > last {
			last = i
		}
	}
	return max(first, 0), max(last, 0), nil
}

func equalIDs(a, b []int64) bool {
	if len(a) != len(b) {
		return false
	}
	for i := range a {
		if a[i] != b[i] {
			return false
		}
	}
	return true
}

func head(x []int64) []int64 {
	if len(x) > 60 {
		return append(append([]int64{}, x[:60]...), -1)
	}
	return x
}

func readDirNames(dir string) ([]string, error) {
	es, err := os.ReadDir(dir)
	if err != nil {
		return nil, err
	}
	var out []string
	for _, e := range es {
		out = append(out, e.Name())
	}
	return out, nil
}
