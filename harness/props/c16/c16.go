// Package c16: series selection and label queries follow matcher semantics
// (brute-force reference over the stored label sets, Go regexp for regex matchers).
package c16

import (
	"context"
	"fmt"
	"math"
	"math/rand/v2"
	"regexp"
	"sort"
	"strings"

	"github.com/prometheus/prometheus/model/histogram"
	"github.com/prometheus/prometheus/model/labels"
	"github.com/prometheus/prometheus/storage"
	"github.com/prometheus/prometheus/tsdb"
	"github.com/prometheus/prometheus/tsdb/chunkenc"
	"github.com/prometheus/prometheus/tsdb/chunks"

	"verif/internal/core"
	"verif/internal/tsdbx"
)

func init() {
	core.Register(&core.Prop{
		ID:        "C16",
		Title:     "Series selection and label queries follow matcher semantics",
		Level:     "exploration",
		Technique: "reference-model runtime monitor: DB.Querier Select/LabelNames/LabelValues vs brute-force matcher evaluation (Go regexp) over the stored label sets, sandwich oracle for label queries and limits",
		LevelText: "Each case builds a real TSDB (head-only, block-only via the block writer, or split over 1-2 blocks and the head, optionally closed and re-opened so the head index comes from WAL replay) from a generated series set over a small label universe, then issues 75 generated queries with time ranges through DB.Querier / DB.ChunkQuerier. Reference: a series matches iff every matcher accepts lset.Get(name) (absent = \"\"), regex matchers decided by Go's regexp on ^(?s:p)$. Select: every matching series with a sample in the range is returned, nothing non-matching is returned, strictly label-sorted when sorting is requested. LabelNames/LabelValues: sorted, duplicate-free, lower ⊆ result ⊆ upper (lower from matching series with data in range, upper from stored matching series); with limit N: len = min(N, len(unlimited)) and result ⊆ unlimited. Held on the observed (dataset, query) pairs only.",
		LevelNote: "Trusted: Go's regexp as the meaning of a regex matcher; labels.Compare as the label order. Matcher lists always contain at least one matcher for Select (the storage API defines no result for an empty list); label queries are also issued without matchers. Select hints are nil, {Start,End} equal to the querier range, or additionally Func=\"series\"; Select limits and sharding hints are not exercised here. Samples of returned series are not compared (other properties do).",
		DesignRef: "DESIGN.md §5 C16",
		Rule:      "case = one dataset (1-40 series) with 75 queries; a query is non-trivial iff it has at least one matcher, at least one stored series matches and has data in the queried range, and at least one stored series does not match; distinct by dataset digest + query text",
		Cases: func(variant string, tier core.Tier) int {
			if variant != "default" {
				return 0
			}
			if tier == core.Thorough {
				return 4000
			}
			return 200
		},
		Run:            run,
		MinNontrivial:  func(t core.Tier) int { return 1500 },
		CaseTimeoutSec: 120,
	})
}

// ---------------------------------------------------------------- data

type fsample struct {
	t int64
	f float64
}

func (s fsample) T() int64                      { return s.t }
func (s fsample) ST() int64                     { return 0 }
func (s fsample) F() float64                    { return s.f }
func (s fsample) H() *histogram.Histogram       { return nil }
func (s fsample) FH() *histogram.FloatHistogram { return nil }
func (s fsample) Type() chunkenc.ValueType      { return chunkenc.ValFloat }
func (s fsample) Copy() chunks.Sample           { return s }

type ser struct {
	lset labels.Labels
	key  string
	ts   []int64 // sorted
}

func (s *ser) hasData(mint, maxt int64) bool {
	for _, t := range s.ts {
		if t >= mint && t <= maxt {
			return true
		}
	}
	return false
}

var masterValues = []string{"x", "y", "z", "xy", "yx", "foo", "foobar", "bar", "fo", "1", "10", "A", "a", "日本", "new\nline", "a.c", "abc", "x|y", "prod-1", "prod-2", "K", "k", "ſ"}
var masterNames = []string{"a", "b", "c", "job", "très", "le", "__meta"}
var metricNames = []string{"m1", "m2", "m10", "up", "http_requests_total"}

type dataset struct {
	names  []string // label names in use (without __name__)
	values []string
	series []*ser
	nb     int  // number of blocks
	head   bool // head has data
	reopen bool
}

const regionLen = 1000

func genDataset(r *rand.Rand) *dataset {
	d := &dataset{}
	nn := 1 + r.IntN(4)
	for _, i := range r.Perm(len(masterNames))[:nn] {
		d.names = append(d.names, masterNames[i])
	}
	nv := 2 + r.IntN(6)
	for _, i := range r.Perm(len(masterValues))[:nv] {
		d.values = append(d.values, masterValues[i])
	}
	switch r.IntN(3) {
	case 0:
		d.nb, d.head = 0, true
	case 1:
		d.nb, d.head = 1+r.IntN(2), false
	default:
		d.nb, d.head = 1+r.IntN(2), true
	}
	d.reopen = d.head && r.IntN(4) == 0
	regions := d.nb
	if d.head {
		regions++
	}
	n := 1 + r.IntN(40)
	seen := map[string]bool{}
	for tries := 0; len(d.series) < n && tries < 20*n; tries++ {
		b := labels.NewBuilder(labels.EmptyLabels())
		if r.IntN(12) != 0 {
			b.Set("__name__", metricNames[r.IntN(1+r.IntN(len(metricNames)))])
		}
		for _, name := range d.names {
			if r.IntN(2) == 0 {
				b.Set(name, d.values[r.IntN(len(d.values))])
			}
		}
		ls := b.Labels()
		if ls.IsEmpty() {
			continue
		}
		k := ls.String()
		if seen[k] {
			continue
		}
		seen[k] = true
		s := &ser{lset: ls, key: k}
		for reg := 0; reg < regions; reg++ {
			if r.IntN(3) == 0 {
				continue
			}
			base := int64(reg) * regionLen
			cnt := 1 + r.IntN(3)
			lo := base + int64(r.IntN(regionLen-100))
			for i := 0; i < cnt; i++ {
				s.ts = append(s.ts, lo)
				lo += 1 + int64(r.IntN(30))
			}
		}
		if len(s.ts) == 0 {
			reg := r.IntN(regions)
			s.ts = []int64{int64(reg)*regionLen + int64(r.IntN(regionLen))}
		}
		d.series = append(d.series, s)
	}
	// Wide label: one label with many distinct values, around the multiples of 32 at which the
	// persisted index samples its postings-offset table (every 32nd value plus the last one).
	if r.IntN(4) == 0 {
		nw := []int{31, 32, 33, 34, 63, 64, 65, 66, 97, 129}[r.IntN(10)]
		d.names = append(d.names, "wide")
		for i := 0; i < nw; i++ {
			v := fmt.Sprintf("w%03d", i)
			ls := labels.FromStrings("__name__", metricNames[0], "wide", v)
			sr := &ser{lset: ls, key: ls.String()}
			for reg := 0; reg < regions; reg++ {
				if reg == 0 || r.IntN(2) == 0 {
					sr.ts = append(sr.ts, int64(reg)*regionLen+int64(r.IntN(regionLen)))
				}
			}
			d.series = append(d.series, sr)
			if i == 0 || i >= nw-2 || r.IntN(16) == 0 {
				d.values = append(d.values, v)
			}
		}
	}
	return d
}

func (d *dataset) digest() string {
	var sb strings.Builder
	fmt.Fprintf(&sb, "nb=%d head=%v reopen=%v;", d.nb, d.head, d.reopen)
	for _, s := range d.series {
		fmt.Fprintf(&sb, "%s%v;", s.key, s.ts)
	}
	return sb.String()
}

// build materialises the dataset as a real TSDB in dir.
func (d *dataset) build(c *core.Case, dir string) *tsdb.DB {
	ctx := context.Background()
	for b := 0; b < d.nb; b++ {
		lo, hi := int64(b)*regionLen, int64(b+1)*regionLen
		var in []storage.Series
		for _, s := range d.series {
			var smp []chunks.Sample
			for _, t := range s.ts {
				if t >= lo && t < hi {
					smp = append(smp, fsample{t, float64(t)})
				}
			}
			if len(smp) > 0 {
				in = append(in, storage.NewListSeries(s.lset, smp))
			}
		}
		if len(in) == 0 {
			continue
		}
		_, err := tsdb.CreateBlock(in, dir, 0, tsdbx.NopLogger())
		core.Must(err, "CreateBlock")
	}
	open := func() *tsdb.DB {
		opts := tsdb.DefaultOptions()
		opts.StripeSize = 256
		opts.NoLockfile = true
		db, err := tsdb.Open(dir, tsdbx.NopLogger(), nil, opts, nil)
		core.Must(err, "tsdb.Open")
		db.DisableCompactions()
		return db
	}
	db := open()
	if d.head {
		lo := int64(d.nb) * regionLen
		type pt struct {
			s *ser
			t int64
		}
		var pts []pt
		for _, s := range d.series {
			for _, t := range s.ts {
				if t >= lo {
					pts = append(pts, pt{s, t})
				}
			}
		}
		sort.SliceStable(pts, func(i, j int) bool { return pts[i].t < pts[j].t })
		app := db.Appender(ctx)
		for i, p := range pts {
			_, err := app.Append(0, p.s.lset, p.t, float64(p.t))
			core.Must(err, "head append")
			if i%7 == 6 {
				core.Must(app.Commit(), "commit")
				app = db.Appender(ctx)
			}
		}
		core.Must(app.Commit(), "commit")
		if d.reopen {
			core.Must(db.Close(), "close before reopen")
			db = open()
		}
	}
	return db
}

// ---------------------------------------------------------------- matchers

type refMatcher struct {
	m   *labels.Matcher
	typ labels.MatchType
	nm  string
	val string
	re  *regexp.Regexp
}

func (m refMatcher) matches(ls labels.Labels) bool {
	v := ls.Get(m.nm) // absent label counts as ""
	switch m.typ {
	case labels.MatchEqual:
		return v == m.val
	case labels.MatchNotEqual:
		return v != m.val
	case labels.MatchRegexp:
		return m.re.MatchString(v)
	default:
		return !m.re.MatchString(v)
	}
}

func genRegex(r *rand.Rand, vals []string) string {
	q := func() string { return regexp.QuoteMeta(vals[r.IntN(len(vals))]) }
	switch r.IntN(22) {
	case 0:
		return ".*"
	case 1:
		return ".+"
	case 2:
		return ""
	case 3:
		return q() + "|" + q()
	case 4:
		return q() + "|" + q() + "|nomatch"
	case 5:
		return q() + ".*"
	case 6:
		return ".*" + q()
	case 7:
		return ".*" + q() + ".*"
	case 8:
		return "(" + q() + "|" + q() + ").*"
	case 9:
		return q() + "?"
	case 10:
		return "[a-z]+"
	case 11:
		return "(?i)" + q()
	case 12:
		return q() + "|"
	case 13:
		return "|" + q()
	case 14:
		return ".+" + q()
	case 15:
		return q() + ".+"
	case 16:
		return "()"
	case 17:
		return "^" + q() + "$"
	case 18:
		return "[^x]*"
	case 19:
		return "(?:" + q() + ")*"
	case 20:
		return "nomatch"
	default:
		return q()
	}
}

func genMatcher(r *rand.Rand, d *dataset) (refMatcher, bool) {
	var name string
	switch k := r.IntN(10); {
	case k < 2:
		name = "__name__"
	case k < 8:
		name = d.names[r.IntN(len(d.names))]
	case k == 8:
		name = "absent"
	default:
		name = masterNames[r.IntN(len(masterNames))]
	}
	vals := d.values
	if name == "__name__" {
		vals = metricNames
	}
	typ := []labels.MatchType{labels.MatchEqual, labels.MatchNotEqual, labels.MatchRegexp, labels.MatchNotRegexp}[r.IntN(4)]
	rm := refMatcher{typ: typ, nm: name}
	if typ == labels.MatchEqual || typ == labels.MatchNotEqual {
		switch k := r.IntN(10); {
		case k < 6:
			rm.val = vals[r.IntN(len(vals))]
		case k < 8:
			rm.val = ""
		default:
			rm.val = "nomatch"
		}
	} else {
		rm.val = genRegex(r, vals)
		re, err := regexp.Compile("^(?s:" + rm.val + ")$")
		if err != nil {
			return rm, false
		}
		rm.re = re
	}
	m, err := labels.NewMatcher(typ, name, rm.val)
	if err != nil {
		return rm, false
	}
	rm.m = m
	return rm, true
}

func matchAll(ms []refMatcher, ls labels.Labels) bool {
	for _, m := range ms {
		if !m.matches(ls) {
			return false
		}
	}
	return true
}

func renderMatchers(ms []refMatcher) string {
	parts := make([]string, len(ms))
	for i, m := range ms {
		parts[i] = m.m.String()
	}
	return "{" + strings.Join(parts, ",") + "}"
}

// ---------------------------------------------------------------- run

func genRange(r *rand.Rand, d *dataset) (int64, int64) {
	regions := int64(d.nb)
	if d.head {
		regions++
	}
	end := regions * regionLen
	switch r.IntN(8) {
	case 0:
		return math.MinInt64, math.MaxInt64
	case 1:
		return 0, end
	case 2: // one region
		reg := r.Int64N(regions)
		return reg * regionLen, (reg+1)*regionLen - 1
	case 3: // beyond the data
		return end + 500, end + 900
	case 4: // a single instant that has a sample
		s := d.series[r.IntN(len(d.series))]
		t := s.ts[r.IntN(len(s.ts))]
		return t, t
	default:
		a := r.Int64N(end + 100)
		b := a + r.Int64N(end-a+200)
		return a - 50, b - 50
	}
}

func toSet(ss []string) map[string]bool {
	m := map[string]bool{}
	for _, s := range ss {
		m[s] = true
	}
	return m
}

func strictlySorted(ss []string) bool {
	for i := 1; i < len(ss); i++ {
		if ss[i-1] >= ss[i] {
			return false
		}
	}
	return true
}

func run(c *core.Case) {
	r := c.Rng
	d := genDataset(r)
	db := d.build(c, c.TempDir())
	defer db.Close()
	dig := d.digest()
	layout := "split"
	if d.nb == 0 {
		layout = "head-only"
	} else if !d.head {
		layout = "block-only"
	}
	if d.reopen {
		layout += "+reopen"
	}
	c.Seen("layout", layout)
	if got := len(db.Blocks()); got > d.nb {
		core.Must(fmt.Errorf("%d blocks, at most %d written", got, d.nb), "block count")
	}

	ctx := context.Background()
	var samples []any
	nq := 75
	for qi := 0; qi < nq && !c.Violated(); qi++ {
		var ms []refMatcher
		nm := 1 + r.IntN(3)
		if r.IntN(6) == 0 {
			nm = 4 + r.IntN(2)
		}
		for len(ms) < nm {
			m, ok := genMatcher(r, d)
			if !ok {
				c.Count("matchers_rejected", 1)
				continue
			}
			ms = append(ms, m)
			if r.IntN(8) == 0 { // duplicate matcher on the same name
				ms = append(ms, m)
			}
		}
		mint, maxt := genRange(r, d)
		kind := r.IntN(10)
		if kind >= 4 && r.IntN(4) == 0 {
			ms = nil // label query without matchers
		}
		var pm []*labels.Matcher
		for _, m := range ms {
			pm = append(pm, m.m)
		}
		// reference sets
		var matching, matchingInRange []*ser
		for _, s := range d.series {
			if matchAll(ms, s.lset) {
				matching = append(matching, s)
				if s.hasData(mint, maxt) {
					matchingInRange = append(matchingInRange, s)
				}
			}
		}
		qtext := ""
		switch {
		case kind < 4:
			qtext = checkSelect(c, r, db, ctx, d, ms, pm, mint, maxt, matching, matchingInRange)
		case kind < 7:
			qtext = checkLabelValues(c, r, db, ctx, d, ms, pm, mint, maxt, matching, matchingInRange)
		default:
			qtext = checkLabelNames(c, r, db, ctx, ms, pm, mint, maxt, matching, matchingInRange)
		}
		c.Count("queries", 1)
		if len(ms) > 0 && len(matchingInRange) > 0 && len(matching) < len(d.series) {
			c.Nontrivial(dig, qtext)
		}
		if c.Idx < 2 && len(samples) < 4 {
			samples = append(samples, map[string]any{"query": qtext, "stored": len(d.series), "matching": len(matching), "matching_with_data_in_range": len(matchingInRange)})
		}
	}
	if c.Idx < 2 {
		c.Sample(map[string]any{"layout": layout, "series": len(d.series), "queries": samples})
	}
}

func checkSelect(c *core.Case, r *rand.Rand, db *tsdb.DB, ctx context.Context, d *dataset, ms []refMatcher, pm []*labels.Matcher, mint, maxt int64, matching, inRange []*ser) string {
	sorted := r.IntN(3) != 0
	var hints *storage.SelectHints
	hm := "nil"
	switch r.IntN(4) {
	case 0:
		hints = &storage.SelectHints{Start: mint, End: maxt}
		hm = "range"
	case 1:
		hints = &storage.SelectHints{Start: mint, End: maxt, Func: "series"}
		hm = "series"
	}
	useChunk := r.IntN(4) == 0
	qtext := fmt.Sprintf("Select%s [%d,%d] sorted=%v hints=%s chunk=%v", renderMatchers(ms), mint, maxt, sorted, hm, useChunk)
	var got []labels.Labels
	if useChunk {
		q, err := db.ChunkQuerier(mint, maxt)
		core.Must(err, "ChunkQuerier")
		defer q.Close()
		ss := q.Select(ctx, sorted, hints, pm...)
		for ss.Next() {
			got = append(got, ss.At().Labels().Copy())
		}
		if err := ss.Err(); err != nil {
			c.Violatef("query-error", "%s: %v", qtext, err)
			return qtext
		}
	} else {
		q, err := db.Querier(mint, maxt)
		core.Must(err, "Querier")
		defer q.Close()
		ss := q.Select(ctx, sorted, hints, pm...)
		for ss.Next() {
			got = append(got, ss.At().Labels().Copy())
		}
		if err := ss.Err(); err != nil {
			c.Violatef("query-error", "%s: %v", qtext, err)
			return qtext
		}
	}
	c.Count("select_queries", 1)
	c.Count("select_series_returned", int64(len(got)))
	gotSet := map[string]bool{}
	for i, ls := range got {
		k := ls.String()
		if sorted && i > 0 && labels.Compare(got[i-1], ls) >= 0 {
			c.Violatef("select-unsorted", "%s: series %d %s does not sort after %s", qtext, i, ls, got[i-1])
			return qtext
		}
		gotSet[k] = true
	}
	mset := map[string]bool{}
	for _, s := range matching {
		mset[s.key] = true
	}
	for k := range gotSet {
		if !mset[k] {
			stored := false
			for _, s := range d.series {
				if s.key == k {
					stored = true
				}
			}
			c.Violatef("select-nonmatching-series", "%s: returned %s which does not satisfy the matchers (stored=%v); matching stored series: %d", qtext, k, stored, len(matching))
			return qtext
		}
	}
	for _, s := range inRange {
		if !gotSet[s.key] {
			c.Violatef("select-missing-series", "%s: series %s matches and has samples at %v, but was not returned (returned %d series)", qtext, s.key, s.ts, len(got))
			return qtext
		}
	}
	return qtext
}

func checkList(c *core.Case, what, qtext string, got []string, lower, upper map[string]bool) bool {
	if !strictlySorted(got) {
		c.Violatef(what+"-unsorted", "%s: result not sorted / not duplicate-free: %q", qtext, got)
		return false
	}
	gs := toSet(got)
	for v := range gs {
		if !upper[v] {
			c.Violatef(what+"-foreign", "%s: result contains %q which no stored matching series has; result %q", qtext, v, got)
			return false
		}
	}
	for v := range lower {
		if !gs[v] {
			c.Violatef(what+"-missing", "%s: %q belongs to a matching series with data in the range but is missing; result %q", qtext, v, got)
			return false
		}
	}
	return true
}

func checkLimited(c *core.Case, what, qtext string, n int, limited, unlimited []string) bool {
	want := min(n, len(unlimited))
	if len(limited) != want {
		c.Violatef(what+"-limit-count", "%s limit=%d: %d entries %q, expected min(%d, %d)=%d (unlimited %q)", qtext, n, len(limited), limited, n, len(unlimited), want, unlimited)
		return false
	}
	if !strictlySorted(limited) {
		c.Violatef(what+"-unsorted", "%s limit=%d: result not sorted / not duplicate-free: %q", qtext, n, limited)
		return false
	}
	us := toSet(unlimited)
	for _, v := range limited {
		if !us[v] {
			c.Violatef(what+"-limit-not-subset", "%s limit=%d: %q is not in the unlimited result %q", qtext, n, v, unlimited)
			return false
		}
	}
	return true
}

func checkLabelValues(c *core.Case, r *rand.Rand, db *tsdb.DB, ctx context.Context, d *dataset, ms []refMatcher, pm []*labels.Matcher, mint, maxt int64, matching, inRange []*ser) string {
	var name string
	switch k := r.IntN(10); {
	case k < 2:
		name = "__name__"
	case k < 9:
		name = d.names[r.IntN(len(d.names))]
	default:
		name = "absent"
	}
	qtext := fmt.Sprintf("LabelValues(%q)%s [%d,%d]", name, renderMatchers(ms), mint, maxt)
	q, err := db.Querier(mint, maxt)
	core.Must(err, "Querier")
	defer q.Close()
	var hints *storage.LabelHints
	if r.IntN(2) == 0 {
		hints = &storage.LabelHints{}
	}
	got, _, err := q.LabelValues(ctx, name, hints, pm...)
	if err != nil {
		c.Violatef("query-error", "%s: %v", qtext, err)
		return qtext
	}
	lower, upper := map[string]bool{}, map[string]bool{}
	for _, s := range matching {
		if v := s.lset.Get(name); v != "" {
			upper[v] = true
		}
	}
	for _, s := range inRange {
		if v := s.lset.Get(name); v != "" {
			lower[v] = true
		}
	}
	c.Count("labelvalues_queries", 1)
	if !checkList(c, "labelvalues", qtext, got, lower, upper) {
		return qtext
	}
	if len(got) > len(lower) {
		c.Count("label_results_above_lower_bound", 1)
	}
	if r.IntN(5) < 3 {
		n := 1 + r.IntN(len(got)+2)
		lim, _, err := q.LabelValues(ctx, name, &storage.LabelHints{Limit: n}, pm...)
		if err != nil {
			c.Violatef("query-error", "%s limit=%d: %v", qtext, n, err)
			return qtext
		}
		c.Count("limited_label_queries", 1)
		if n < len(got) {
			c.Count("limited_label_queries_truncating", 1)
		}
		checkLimited(c, "labelvalues", qtext, n, lim, got)
	}
	return qtext
}

func checkLabelNames(c *core.Case, r *rand.Rand, db *tsdb.DB, ctx context.Context, ms []refMatcher, pm []*labels.Matcher, mint, maxt int64, matching, inRange []*ser) string {
	qtext := fmt.Sprintf("LabelNames%s [%d,%d]", renderMatchers(ms), mint, maxt)
	q, err := db.Querier(mint, maxt)
	core.Must(err, "Querier")
	defer q.Close()
	var hints *storage.LabelHints
	if r.IntN(2) == 0 {
		hints = &storage.LabelHints{}
	}
	got, _, err := q.LabelNames(ctx, hints, pm...)
	if err != nil {
		c.Violatef("query-error", "%s: %v", qtext, err)
		return qtext
	}
	lower, upper := map[string]bool{}, map[string]bool{}
	for _, s := range matching {
		s.lset.Range(func(l labels.Label) { upper[l.Name] = true })
	}
	for _, s := range inRange {
		s.lset.Range(func(l labels.Label) { lower[l.Name] = true })
	}
	c.Count("labelnames_queries", 1)
	if !checkList(c, "labelnames", qtext, got, lower, upper) {
		return qtext
	}
	if len(got) > len(lower) {
		c.Count("label_results_above_lower_bound", 1)
	}
	if r.IntN(5) < 3 {
		n := 1 + r.IntN(len(got)+2)
		lim, _, err := q.LabelNames(ctx, &storage.LabelHints{Limit: n}, pm...)
		if err != nil {
			c.Violatef("query-error", "%s limit=%d: %v", qtext, n, err)
			return qtext
		}
		c.Count("limited_label_queries", 1)
		if n < len(got) {
			c.Count("limited_label_queries_truncating", 1)
		}
		checkLimited(c, "labelnames", qtext, n, lim, got)
	}
	return qtext
}
