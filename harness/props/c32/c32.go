// Package c32: metamorphic laws of the histogram query functions (histogram_count/sum/avg,
// histogram_fraction, histogram_quantile for native and classic histograms).
package c32

import (
	"context"
	"fmt"
	"math"
	"math/rand/v2"
	"sort"
	"strconv"
	"strings"
	"time"

	"github.com/prometheus/prometheus/model/histogram"
	"github.com/prometheus/prometheus/model/labels"
	"github.com/prometheus/prometheus/promql"
	"github.com/prometheus/prometheus/promql/parser"
	"github.com/prometheus/prometheus/promql/parser/posrange"
	"github.com/prometheus/prometheus/tsdb"

	"verif/internal/core"
	"verif/internal/gen"
)

const (
	KindCount        = "histogram-count-mismatch"
	KindSum          = "histogram-sum-mismatch"
	KindAvg          = "histogram-avg-mismatch"
	KindFracRange    = "fraction-outside-0-1"
	KindFracMonotone = "fraction-decreases-when-interval-grows"
	KindFracTotal    = "fraction-of-everything-not-1"
	KindQMonotone    = "native-quantile-decreases"
	KindQBucket      = "native-quantile-outside-rank-bucket"
	KindClassicMono  = "classic-quantile-decreases"
	KindQueryErr     = "query-error"
	KindMissing      = "series-missing-in-result"
)

func init() {
	core.Register(&core.Prop{
		ID:        "C32",
		Title:     "Histogram query functions agree with the histograms they describe",
		Level:     "exploration",
		Technique: "metamorphic runtime monitor (identities, range, monotonicity and bucket-containment laws; no reference values) over promql.HistogramQuantile/HistogramFraction/BucketQuantile and over real instant queries",
		LevelText: "Each case generates 4 valid native histograms (exponential schemas -4..8 with negative, zero and positive buckets, or custom bounds; integer-valued or fractional counts; Count = sum of the buckets; stored as integer or float histograms) and 2 classic bucket sets (unsorted, duplicate bounds, cumulative counts with dips, tiny relative dips and plateaus, +Inf bucket present). Laws checked on the exported functions over quantile grids (0, 1, 0.5 and neighbours, every cumulative bucket boundary rank and its neighbours, uniform) and nested interval chains ending in (-Inf,+Inf): fraction in [0,1], non-decreasing along a growing interval, 1 on (-Inf,+Inf); native quantile non-decreasing in q and inside [lower, upper] of a populated bucket whose cumulative rank range contains q*Count; classic quantile non-decreasing in q. The same laws plus histogram_count = Count, histogram_sum = Sum, histogram_avg = Sum/Count are checked on the results of real instant queries against a TSDB head holding the histograms. Held on the observed histograms, quantiles and bounds only.",
		LevelNote: "No reference values are computed (metamorphic laws only). Tolerances: ranks are compared with 1e-9*Count slack (so at an exact bucket boundary both neighbouring populated buckets are accepted), quantile values with a slack of 1e-9 times the larger finite bound of the candidate buckets (interpolation at a bucket edge lands a few ulps outside: observed -1e-16 for bucket (0,1]), fractions with 1e-9. Bucket bounds for the containment law are computed from index and schema with math.Exp2. Histograms with NaN observations (Sum NaN or Count != sum of buckets), negative counts, or populated buckets overlapping their own zero bucket are not generated: the laws need not hold for them. NaN results of BucketQuantile are skipped in the monotonicity check (a NaN is not a decrease); classic sets with NaN counts are only run for absence of panics.",
		DesignRef: "DESIGN.md §5 C32",
		Rule:      "case = 4 native histograms + 2 classic bucket sets with their grids; non-trivial iff for at least one non-empty native histogram the quantile grid, one fraction chain and the engine identities were all evaluated; distinct by the canonical rendering of the histograms",
		Assumptions: []string{
			"the bucket 'holding the requested rank' is a populated bucket i with cum(i-1) <= q*Count <= cum(i), buckets ordered from the most negative to the most positive",
		},
		Cases: func(variant string, tier core.Tier) int {
			if variant != "default" {
				return 0
			}
			if tier == core.Thorough {
				return 60000
			}
			return 2000
		},
		Run:            run,
		MinNontrivial:  func(t core.Tier) int { return 800 },
		CaseTimeoutSec: 120,
	})
}

// ---------------------------------------------------------------- native histograms

type bucket struct {
	lower, upper float64
	count        float64
}

type nat struct {
	custom   bool
	schema   int32
	zt, zc   float64
	pos, neg map[int32]float64
	bounds   []float64
	sum      float64
	floatH   bool // stored as float histogram
}

func expBound(idx, schema int32) float64 {
	if schema <= 0 {
		return math.Ldexp(1, int(idx)<<uint(-schema))
	}
	per := int32(1) << uint(schema)
	q, m := idx/per, idx%per
	if m < 0 {
		m += per
		q--
	}
	return math.Ldexp(math.Exp2(float64(m)/float64(per)), int(q))
}

func sortedKeys(m map[int32]float64) []int32 {
	ks := make([]int32, 0, len(m))
	for k := range m {
		ks = append(ks, k)
	}
	sort.Slice(ks, func(i, j int) bool { return ks[i] < ks[j] })
	return ks
}

// buckets lists the populated buckets from the most negative to the most positive.
func (n *nat) buckets() []bucket {
	var out []bucket
	if n.custom {
		for _, k := range sortedKeys(n.pos) {
			b := bucket{lower: math.Inf(-1), upper: math.Inf(1), count: n.pos[k]}
			if k > 0 {
				b.lower = n.bounds[k-1]
			}
			if int(k) < len(n.bounds) {
				b.upper = n.bounds[k]
			}
			out = append(out, b)
		}
		return out
	}
	nk := sortedKeys(n.neg)
	for i := len(nk) - 1; i >= 0; i-- {
		k := nk[i]
		out = append(out, bucket{lower: -expBound(k, n.schema), upper: -expBound(k-1, n.schema), count: n.neg[k]})
	}
	if n.zc > 0 {
		out = append(out, bucket{lower: -n.zt, upper: n.zt, count: n.zc})
	}
	for _, k := range sortedKeys(n.pos) {
		out = append(out, bucket{lower: expBound(k-1, n.schema), upper: expBound(k, n.schema), count: n.pos[k]})
	}
	return out
}

// count is the histogram's Count: the sum of all buckets in a fixed order (deterministic).
func (n *nat) count() float64 {
	t := n.zc
	for _, k := range sortedKeys(n.pos) {
		t += n.pos[k]
	}
	for _, k := range sortedKeys(n.neg) {
		t += n.neg[k]
	}
	return t
}

func (n *nat) String() string {
	f := func(m map[int32]float64) string {
		var sb strings.Builder
		for _, k := range sortedKeys(m) {
			fmt.Fprintf(&sb, "%d:%v ", k, m[k])
		}
		return sb.String()
	}
	if n.custom {
		return fmt.Sprintf("{custom bounds=%v buckets=[%s] sum=%v float=%v}", n.bounds, f(n.pos), n.sum, n.floatH)
	}
	return fmt.Sprintf("{schema=%d zt=%v zc=%v pos=[%s] neg=[%s] sum=%v float=%v}", n.schema, n.zt, n.zc, f(n.pos), f(n.neg), n.sum, n.floatH)
}

func genCount(r *rand.Rand, fractional bool) float64 {
	if fractional {
		switch r.IntN(3) {
		case 0:
			return float64(1+r.IntN(1000)) / 64
		case 1:
			return r.Float64()*100 + 1e-3
		}
	}
	if r.IntN(10) == 0 {
		return float64(1 + r.IntN(1_000_000))
	}
	return float64(1 + r.IntN(40))
}

func genNative(r *rand.Rand) *nat {
	fractional := r.IntN(3) == 0
	n := &nat{pos: map[int32]float64{}, neg: map[int32]float64{}, floatH: fractional || r.IntN(3) == 0}
	if r.IntN(4) == 0 {
		n.custom = true
		n.schema = histogram.CustomBucketsSchema
		nb := 1 + r.IntN(7)
		v := float64(r.IntN(20)-10) / 2
		for i := 0; i < nb; i++ {
			n.bounds = append(n.bounds, v)
			v += float64(1+r.IntN(6)) / 2
		}
		for i := 0; i <= nb; i++ {
			if r.IntN(3) != 0 {
				n.pos[int32(i)] = genCount(r, fractional)
			}
		}
	} else {
		n.schema = int32(r.IntN(13) - 4)
		base := float64(r.IntN(13) - 6)
		if r.IntN(8) == 0 {
			base = float64(r.IntN(400) - 200)
		}
		center := int32(math.Round(base * math.Pow(2, float64(n.schema))))
		shape := r.IntN(6) // 0 pos only, 1 neg only, 2 zero only, else both
		np, nn := 1+r.IntN(7), 1+r.IntN(5)
		if shape == 1 || shape == 2 {
			np = 0
		}
		if shape == 0 || shape == 2 {
			nn = 0
		}
		for i := 0; i < np; i++ {
			n.pos[center+int32(r.IntN(17))-8] = genCount(r, fractional)
		}
		for i := 0; i < nn; i++ {
			n.neg[center+int32(r.IntN(17))-8] = genCount(r, fractional)
		}
		switch r.IntN(5) {
		case 0:
			n.zt = 0
		case 1:
			n.zt = 1e-128
		case 2:
			n.zt = expBound(center-9-int32(r.IntN(4)), n.schema)
		default:
			n.zt = gen.Pick(r, []float64{0.001, 0.5, 1, 1.5, 2})
		}
		if shape == 2 || r.IntN(2) == 0 {
			n.zc = genCount(r, fractional)
		}
		// validity: no populated bucket may overlap the zero bucket
		for _, m := range []map[int32]float64{n.pos, n.neg} {
			for k := range m {
				if expBound(k-1, n.schema) < n.zt*(1+1e-9) {
					delete(m, k)
				}
			}
		}
	}
	if n.count() > 0 && r.IntN(3) == 0 {
		// explicit zero-count buckets at the outer edges of the populated range (legal in spans;
		// they hold no rank, so no quantile may be answered from them)
		if n.custom {
			ks := sortedKeys(n.pos)
			if lo := ks[0] - 1; lo >= 0 && r.IntN(2) == 0 {
				n.pos[lo] = 0
			}
			if hi := ks[len(ks)-1] + 1; int(hi) <= len(n.bounds) && r.IntN(3) != 0 {
				n.pos[hi] = 0
			}
		} else {
			for _, m := range []map[int32]float64{n.pos, n.neg} {
				ks := sortedKeys(m)
				if len(ks) == 0 {
					continue
				}
				if lo := ks[0] - 1; expBound(lo-1, n.schema) >= n.zt*(1+1e-9) && r.IntN(2) == 0 {
					m[lo] = 0
				}
				if r.IntN(2) == 0 {
					m[ks[len(ks)-1]+1] = 0
				}
			}
		}
	}
	if r.IntN(25) == 0 { // empty histogram
		n.pos, n.neg, n.zc = map[int32]float64{}, map[int32]float64{}, 0
	}
	n.sum = float64(r.IntN(40000)-10000) / 16
	return n
}

func spans(m map[int32]float64, r *rand.Rand) ([]histogram.Span, []float64) {
	ks := sortedKeys(m)
	if len(ks) == 0 {
		return nil, nil
	}
	merge := int32(r.IntN(3))
	var sp []histogram.Span
	var counts []float64
	last := int32(0)
	for i, k := range ks {
		if i == 0 {
			sp = append(sp, histogram.Span{Offset: k, Length: 1})
			counts = append(counts, m[k])
			last = k
			continue
		}
		gap := k - last - 1
		if gap <= merge {
			for g := int32(0); g < gap; g++ {
				counts = append(counts, 0)
			}
			sp[len(sp)-1].Length += uint32(gap) + 1
		} else {
			sp = append(sp, histogram.Span{Offset: gap, Length: 1})
		}
		counts = append(counts, m[k])
		last = k
	}
	return sp, counts
}

func (n *nat) float(r *rand.Rand) *histogram.FloatHistogram {
	h := &histogram.FloatHistogram{Schema: n.schema, Count: n.count(), Sum: n.sum}
	h.PositiveSpans, h.PositiveBuckets = spans(n.pos, r)
	if n.custom {
		h.CustomValues = append([]float64(nil), n.bounds...)
		return h
	}
	h.ZeroThreshold, h.ZeroCount = n.zt, n.zc
	h.NegativeSpans, h.NegativeBuckets = spans(n.neg, r)
	return h
}

func (n *nat) int(r *rand.Rand) *histogram.Histogram {
	d := func(c []float64) []int64 {
		if len(c) == 0 {
			return nil
		}
		out := make([]int64, len(c))
		prev := int64(0)
		for i, v := range c {
			out[i] = int64(v) - prev
			prev = int64(v)
		}
		return out
	}
	h := &histogram.Histogram{Schema: n.schema, Count: uint64(n.count()), Sum: n.sum}
	sp, c := spans(n.pos, r)
	h.PositiveSpans, h.PositiveBuckets = sp, d(c)
	if n.custom {
		h.CustomValues = append([]float64(nil), n.bounds...)
		return h
	}
	h.ZeroThreshold, h.ZeroCount = n.zt, uint64(n.zc)
	sp, c = spans(n.neg, r)
	h.NegativeSpans, h.NegativeBuckets = sp, d(c)
	return h
}

// ---------------------------------------------------------------- laws

func fl(x float64) string { return strconv.FormatFloat(x, 'g', -1, 64) }

// leq: a <= b up to relative 1e-9.
func leq(a, b float64) bool {
	if a <= b {
		return true
	}
	if math.IsInf(a, 0) || math.IsInf(b, 0) {
		return false
	}
	return a-b <= 1e-9*math.Max(math.Abs(a), math.Abs(b))
}

// qGrid returns an ascending quantile grid in [0,1] that includes the cumulative bucket boundaries.
func qGrid(r *rand.Rand, bs []bucket, total float64, n int) []float64 {
	qs := []float64{0, 1, 0.5, math.Nextafter(0.5, 0), math.Nextafter(0.5, 1), math.Nextafter(0, 1), math.Nextafter(1, 0), 1e-9, 1 - 1e-9}
	cum := 0.0
	for _, b := range bs {
		cum += b.count
		if total > 0 {
			q := cum / total
			qs = append(qs, q, math.Nextafter(q, 0), math.Nextafter(q, 2), q-1e-7, q+1e-7)
		}
	}
	for len(qs) < n {
		qs = append(qs, r.Float64())
	}
	var out []float64
	for _, q := range qs {
		if q >= 0 && q <= 1 {
			out = append(out, q)
		}
	}
	sort.Float64s(out)
	return out
}

// leqAbs: a <= b up to the absolute slack d.
func leqAbs(a, b, d float64) bool {
	if a <= b {
		return true
	}
	if math.IsInf(a, 0) || math.IsInf(b, 0) {
		return false
	}
	return a-b <= d
}

// checkQuantiles applies monotonicity and bucket containment to (q, value) pairs sorted by q.
// Rounding slack: 1e-9 relative to the larger finite bound of the buckets that can hold the rank
// (interpolation at a bucket edge may land a few ulps of the bucket's scale outside it).
func checkQuantiles(c *core.Case, via string, n *nat, qs, vals []float64) {
	bs := n.buckets()
	total := n.count()
	slack := 1e-9 * total
	prevQ, prevV, prevScale := math.NaN(), math.NaN(), 0.0
	for i, q := range qs {
		v := vals[i]
		if math.IsNaN(v) {
			c.Violatef(KindQBucket, "%s: histogram_quantile(%s) of a non-empty histogram without NaN observations is NaN\n histogram: %s", via, fl(q), n)
			continue
		}
		rank := q * total
		cum := 0.0
		var cand []bucket
		scale := 0.0
		for _, b := range bs {
			lo, hi := cum, cum+b.count
			cum = hi
			if b.count > 0 && rank >= lo-slack && rank <= hi+slack {
				cand = append(cand, b)
				for _, x := range []float64{b.lower, b.upper} {
					if !math.IsInf(x, 0) && math.Abs(x) > scale {
						scale = math.Abs(x)
					}
				}
			}
		}
		if !math.IsNaN(prevV) && !leqAbs(prevV, v, 1e-9*math.Max(math.Max(scale, prevScale), math.Max(math.Abs(v), math.Abs(prevV)))) {
			c.Violatef(KindQMonotone, "%s: quantile decreases: q=%s → %s but q=%s → %s\n histogram: %s", via, fl(prevQ), fl(prevV), fl(q), fl(v), n)
		}
		prevQ, prevV, prevScale = q, v, scale
		ok := false
		var cs []string
		for _, b := range cand {
			cs = append(cs, fmt.Sprintf("[%s,%s]", fl(b.lower), fl(b.upper)))
			if leqAbs(b.lower, v, 1e-9*scale) && leqAbs(v, b.upper, 1e-9*scale) {
				ok = true
			}
		}
		if !ok {
			c.Violatef(KindQBucket, "%s: histogram_quantile(%s) = %s is outside every bucket that can hold rank q*count = %s (candidates %v)\n histogram: %s", via, fl(q), fl(v), fl(rank), cs, n)
		}
	}
}

type interval struct{ lo, hi float64 }

// chain returns nested intervals, growing, ending with (-Inf,+Inf).
func chain(r *rand.Rand, bs []bucket, zt float64) []interval {
	var pts []float64
	for _, b := range bs {
		for _, x := range []float64{b.lower, b.upper} {
			if !math.IsInf(x, 0) {
				pts = append(pts, x, x+(math.Abs(x)+1)*1e-3*r.Float64(), x-(math.Abs(x)+1)*1e-3*r.Float64())
			}
		}
		if !math.IsInf(b.lower, 0) && !math.IsInf(b.upper, 0) {
			pts = append(pts, b.lower+(b.upper-b.lower)*r.Float64())
		}
	}
	pts = append(pts, 0, zt, -zt, zt/2, -zt/2, float64(r.IntN(200)-100)/4, r.NormFloat64()*10)
	lo := pts[r.IntN(len(pts))]
	hi := pts[r.IntN(len(pts))]
	if lo > hi {
		lo, hi = hi, lo
	}
	out := []interval{{lo, hi}}
	steps := 2 + r.IntN(4)
	for i := 0; i < steps; i++ {
		p := pts[r.IntN(len(pts))]
		switch {
		case p < lo:
			lo = p
		case p > hi:
			hi = p
		default:
			if r.IntN(2) == 0 {
				lo -= math.Abs(lo)*r.Float64() + r.Float64()
			} else {
				hi += math.Abs(hi)*r.Float64() + r.Float64()
			}
		}
		out = append(out, interval{lo, hi})
	}
	switch r.IntN(3) {
	case 0:
		out = append(out, interval{math.Inf(-1), hi})
	case 1:
		out = append(out, interval{lo, math.Inf(1)})
	}
	out = append(out, interval{math.Inf(-1), math.Inf(1)})
	return out
}

func checkFractions(c *core.Case, via string, n *nat, ivs []interval, vals []float64) {
	prev := math.NaN()
	for i, iv := range ivs {
		f := vals[i]
		if math.IsNaN(f) || f < -1e-12 || f > 1+1e-12 {
			c.Violatef(KindFracRange, "%s: histogram_fraction(%s, %s) = %s is not in [0,1]\n histogram: %s", via, fl(iv.lo), fl(iv.hi), fl(f), n)
			prev = math.NaN()
			continue
		}
		if !math.IsNaN(prev) && f < prev-1e-9 {
			c.Violatef(KindFracMonotone, "%s: histogram_fraction(%s, %s) = %s is smaller than %s for the contained interval (%s, %s)\n histogram: %s", via, fl(iv.lo), fl(iv.hi), fl(f), fl(prev), fl(ivs[i-1].lo), fl(ivs[i-1].hi), n)
		}
		prev = f
		if math.IsInf(iv.lo, -1) && math.IsInf(iv.hi, 1) && math.Abs(f-1) > 1e-9 {
			c.Violatef(KindFracTotal, "%s: histogram_fraction(-Inf, +Inf) = %s for a non-empty histogram\n histogram: %s", via, fl(f), n)
		}
	}
}

// ---------------------------------------------------------------- classic

type classic struct {
	b      promql.Buckets
	hasNaN bool
}

func genClassic(r *rand.Rand) classic {
	nb := 1 + r.IntN(9)
	v := float64(r.IntN(20)-10) / 2
	if r.IntN(3) == 0 {
		v = float64(1+r.IntN(10)) / 8
	}
	var cl classic
	cum := 0.0
	if r.IntN(3) == 0 {
		cum = float64(r.IntN(100))
	}
	for i := 0; i < nb; i++ {
		switch r.IntN(10) {
		case 0: // dip
			cum -= float64(r.IntN(20))
			if cum < 0 {
				cum = 0
			}
		case 1: // tiny relative dip / rise
			cum *= 1 + (r.Float64()-0.5)*4e-12
		case 2: // plateau
		default:
			cum += float64(r.IntN(50))
			if r.IntN(4) == 0 {
				cum += r.Float64()
			}
		}
		cl.b = append(cl.b, promql.Bucket{UpperBound: v, Count: cum})
		if r.IntN(8) == 0 { // duplicate bound
			cl.b = append(cl.b, promql.Bucket{UpperBound: v, Count: cum + float64(r.IntN(3))})
		}
		v += float64(1+r.IntN(8)) / 4
	}
	if r.IntN(12) != 0 {
		top := cum + float64(r.IntN(30))
		if r.IntN(8) == 0 {
			top = cum - float64(r.IntN(10))
			if top < 0 {
				top = 0
			}
		}
		cl.b = append(cl.b, promql.Bucket{UpperBound: math.Inf(1), Count: top})
	}
	if r.IntN(15) == 0 {
		cl.b[r.IntN(len(cl.b))].Count = math.NaN()
		cl.hasNaN = true
	}
	r.Shuffle(len(cl.b), func(i, j int) { cl.b[i], cl.b[j] = cl.b[j], cl.b[i] })
	return cl
}

func (cl classic) String() string {
	s := append(promql.Buckets(nil), cl.b...)
	sort.SliceStable(s, func(i, j int) bool { return s[i].UpperBound < s[j].UpperBound })
	var sb strings.Builder
	for _, b := range s {
		fmt.Fprintf(&sb, "le=%s:%s ", fl(b.UpperBound), fl(b.Count))
	}
	return sb.String()
}

func checkClassicMonotone(c *core.Case, via string, cl classic, qs, vals []float64) (numbers int) {
	prevQ, prevV := math.NaN(), math.NaN()
	for i, q := range qs {
		v := vals[i]
		if math.IsNaN(v) {
			c.Count("classic_nan_results", 1)
			continue
		}
		numbers++
		if !math.IsNaN(prevV) && !leq(prevV, v) {
			c.Violatef(KindClassicMono, "%s: classic quantile decreases: q=%s → %s but q=%s → %s\n buckets: %s", via, fl(prevQ), fl(prevV), fl(q), fl(v), cl)
		}
		prevQ, prevV = q, v
	}
	return numbers
}

// ---------------------------------------------------------------- engine

type env struct {
	c   *core.Case
	eng *promql.Engine
	db  *tsdb.DB
	t   int64
	n   int
}

// query returns label value of "i" → float result.
func (e *env) query(q string) (map[string]float64, bool) {
	e.n++
	qry, err := e.eng.NewInstantQuery(context.Background(), e.db, nil, q, time.UnixMilli(e.t))
	if err != nil {
		e.c.Violatef(KindQueryErr, "query %q rejected: %v", q, err)
		return nil, false
	}
	defer qry.Close()
	res := qry.Exec(context.Background())
	if res.Err != nil {
		e.c.Violatef(KindQueryErr, "query %q failed: %v", q, res.Err)
		return nil, false
	}
	vec, err := res.Vector()
	if err != nil {
		e.c.Violatef(KindQueryErr, "query %q: not a vector: %v", q, err)
		return nil, false
	}
	out := map[string]float64{}
	for _, s := range vec {
		if s.H != nil {
			e.c.Violatef(KindQueryErr, "query %q returned a histogram sample", q)
			continue
		}
		out[s.Metric.Get("i")] = s.F
	}
	return out, true
}

func sameF(a, b float64) bool {
	if math.IsNaN(a) || math.IsNaN(b) {
		return math.IsNaN(a) && math.IsNaN(b)
	}
	return a == b
}

// ---------------------------------------------------------------- the case

func run(c *core.Case) {
	r := c.Rng
	var nats []*nat
	var key []string
	for i := 0; i < 4; i++ {
		n := genNative(r)
		nats = append(nats, n)
		key = append(key, n.String())
	}
	cls := []classic{genClassic(r), genClassic(r)}
	for _, cl := range cls {
		key = append(key, cl.String())
	}
	ngrid := 30
	if c.Tier == core.Thorough {
		ngrid = 45
	}

	// ---- exported functions, native
	directDone := false
	for _, n := range nats {
		h := n.float(r)
		if err := h.Validate(); err != nil {
			core.Must(fmt.Errorf("%w: %s", err, n), "generated histogram invalid")
		}
		total := n.count()
		bs := n.buckets()
		switch {
		case n.custom:
			c.Seen("native_shape", "custom")
		case len(n.pos) > 0 && len(n.neg) > 0:
			c.Seen("native_shape", "neg+pos")
		case len(n.pos) > 0:
			c.Seen("native_shape", "pos-only")
		case len(n.neg) > 0:
			c.Seen("native_shape", "neg-only")
		case n.zc > 0:
			c.Seen("native_shape", "zero-only")
		default:
			c.Seen("native_shape", "empty")
		}
		if total == 0 {
			v, _ := promql.HistogramQuantile(0.5, h, "m", posrange.PositionRange{})
			f, _ := promql.HistogramFraction(math.Inf(-1), math.Inf(1), h, "m", posrange.PositionRange{})
			c.Logf("empty histogram: quantile %v fraction %v", v, f)
			c.Count("empty_histograms", 1)
			continue
		}
		qs := qGrid(r, bs, total, ngrid)
		vals := make([]float64, len(qs))
		for i, q := range qs {
			vals[i], _ = promql.HistogramQuantile(q, n.float(r), "m", posrange.PositionRange{})
		}
		checkQuantiles(c, "promql.HistogramQuantile", n, qs, vals)
		c.Count("native_quantiles_checked", int64(len(qs)))
		for k := 0; k < 3; k++ {
			ivs := chain(r, bs, n.zt)
			fv := make([]float64, len(ivs))
			for i, iv := range ivs {
				fv[i], _ = promql.HistogramFraction(iv.lo, iv.hi, n.float(r), "m", posrange.PositionRange{})
			}
			checkFractions(c, "promql.HistogramFraction", n, ivs, fv)
			c.Count("fraction_intervals_checked", int64(len(ivs)))
		}
		directDone = true
	}

	// ---- exported function, classic
	for _, cl := range cls {
		qs := []float64{0, 1, 0.5, math.Nextafter(0, 1), math.Nextafter(1, 0)}
		// ranks at the bucket counts
		top := 0.0
		for _, b := range cl.b {
			if math.IsInf(b.UpperBound, 1) {
				top = b.Count
			}
		}
		for _, b := range cl.b {
			if top > 0 && b.Count >= 0 && b.Count <= top {
				q := b.Count / top
				qs = append(qs, q, math.Nextafter(q, 0), math.Nextafter(q, 2))
			}
		}
		for len(qs) < ngrid {
			qs = append(qs, r.Float64())
		}
		var grid []float64
		for _, q := range qs {
			if q >= 0 && q <= 1 {
				grid = append(grid, q)
			}
		}
		sort.Float64s(grid)
		vals := make([]float64, len(grid))
		for i, q := range grid {
			vals[i], _, _, _, _, _ = promql.BucketQuantile(q, append(promql.Buckets(nil), cl.b...))
		}
		if cl.hasNaN {
			c.Count("classic_sets_with_nan_count_run", 1)
			continue
		}
		if checkClassicMonotone(c, "promql.BucketQuantile", cl, grid, vals) > 1 {
			c.Count("classic_sets_checked", 1)
		}
	}

	// ---- through the engine
	dir := c.TempDir()
	opts := tsdb.DefaultOptions()
	opts.RetentionDuration = 0
	opts.MinBlockDuration = int64(24 * time.Hour / time.Millisecond)
	opts.MaxBlockDuration = opts.MinBlockDuration
	opts.WALSegmentSize = -1 // no WAL: the head is only a container for the query engine here
	opts.NoLockfile = true
	db, err := tsdb.Open(dir, nil, nil, opts, tsdb.NewDBStats())
	core.Must(err, "open tsdb")
	defer db.Close()
	const t0 = int64(1_000_000)
	app := db.Appender(context.Background())
	for i, n := range nats {
		ls := labels.FromStrings("__name__", "nh", "i", fmt.Sprint(i))
		if n.floatH {
			_, err = app.AppendHistogram(0, ls, t0, nil, n.float(r))
		} else {
			_, err = app.AppendHistogram(0, ls, t0, n.int(r), nil)
		}
		core.Must(err, "append histogram")
	}
	for i, cl := range cls {
		if cl.hasNaN {
			continue
		}
		seen := map[string]bool{}
		for _, b := range cl.b {
			le := fl(b.UpperBound)
			if seen[le] {
				continue // one series per le value
			}
			seen[le] = true
			_, err = app.Append(0, labels.FromStrings("__name__", "cl_bucket", "i", fmt.Sprint(i), "le", le), t0, b.Count)
			core.Must(err, "append bucket")
		}
	}
	core.Must(app.Commit(), "commit")
	e := &env{c: c, db: db, t: t0, eng: promql.NewEngine(promql.EngineOpts{
		MaxSamples: 10_000_000, Timeout: 100 * time.Second,
		Parser: parser.NewParser(parser.Options{EnableExperimentalFunctions: true}),
	})}

	engineDone := false
	cnt, ok1 := e.query(`histogram_count(nh)`)
	sum, ok2 := e.query(`histogram_sum(nh)`)
	avg, ok3 := e.query(`histogram_avg(nh)`)
	if ok1 && ok2 && ok3 {
		engineDone = true
		for i, n := range nats {
			k := fmt.Sprint(i)
			wantC := n.count()
			if !n.floatH {
				wantC = float64(uint64(wantC))
			}
			gc, has := cnt[k]
			if !has {
				c.Violatef(KindMissing, "histogram_count(nh) has no result for series i=%s: %s", k, n)
				continue
			}
			if !sameF(gc, wantC) {
				c.Violatef(KindCount, "histogram_count = %s, histogram has Count %s: %s", fl(gc), fl(wantC), n)
			}
			if gs, has := sum[k]; !has || !sameF(gs, n.sum) {
				c.Violatef(KindSum, "histogram_sum = %s (present=%v), histogram has Sum %s: %s", fl(gs), has, fl(n.sum), n)
			}
			want := n.sum / wantC
			ga, has := avg[k]
			if !has || !(sameF(ga, want) || math.Abs(ga-want) <= 1e-12*math.Abs(want)) {
				c.Violatef(KindAvg, "histogram_avg = %s (present=%v), Sum/Count = %s: %s", fl(ga), has, fl(want), n)
			}
			c.Count("engine_identities_checked", 1)
		}
	}
	// quantiles through the engine: a small ascending grid shared by all series
	eq := []float64{0, r.Float64() * 0.5, 0.5, 0.5 + r.Float64()*0.5, 1}
	if n := nats[r.IntN(len(nats))]; n.count() > 0 {
		bs := n.buckets()
		cum := 0.0
		k := r.IntN(len(bs))
		for i := 0; i <= k; i++ {
			cum += bs[i].count
		}
		eq = append(eq, cum/n.count(), math.Nextafter(cum/n.count(), 0))
	}
	var grid []float64
	for _, q := range eq {
		if q >= 0 && q <= 1 {
			grid = append(grid, q)
		}
	}
	sort.Float64s(grid)
	natRes := make([][]float64, len(nats))
	clRes := make([][]float64, len(cls))
	okAll := true
	for _, q := range grid {
		rn, ok := e.query(`histogram_quantile(` + fl(q) + `, nh)`)
		rc, ok2 := e.query(`histogram_quantile(` + fl(q) + `, cl_bucket)`)
		if !ok || !ok2 {
			okAll = false
			break
		}
		for i := range nats {
			v, has := rn[fmt.Sprint(i)]
			if !has {
				v = math.NaN()
			}
			natRes[i] = append(natRes[i], v)
		}
		for i := range cls {
			v, has := rc[fmt.Sprint(i)]
			if !has {
				v = math.NaN()
			}
			clRes[i] = append(clRes[i], v)
		}
	}
	if okAll {
		for i, n := range nats {
			if n.count() == 0 {
				continue
			}
			checkQuantiles(c, "engine histogram_quantile", n, grid, natRes[i])
			c.Count("engine_native_quantiles_checked", int64(len(grid)))
		}
		for i, cl := range cls {
			if cl.hasNaN {
				continue
			}
			checkClassicMonotone(c, "engine histogram_quantile", cl, grid, clRes[i])
			c.Count("engine_classic_quantiles_checked", int64(len(grid)))
		}
	}
	// fractions through the engine: one chain built on one histogram's buckets, applied to all
	src := nats[r.IntN(len(nats))]
	ivs := chain(r, append(src.buckets(), bucket{lower: -1, upper: 1, count: 1}), src.zt)
	fr := make([][]float64, len(nats))
	okAll = true
	for _, iv := range ivs {
		res, ok := e.query(`histogram_fraction(` + fl(iv.lo) + `, ` + fl(iv.hi) + `, nh)`)
		if !ok {
			okAll = false
			break
		}
		for i := range nats {
			v, has := res[fmt.Sprint(i)]
			if !has {
				v = math.NaN()
			}
			fr[i] = append(fr[i], v)
		}
	}
	if okAll {
		for i, n := range nats {
			if n.count() == 0 {
				continue
			}
			checkFractions(c, "engine histogram_fraction", n, ivs, fr[i])
			c.Count("engine_fraction_intervals_checked", int64(len(ivs)))
		}
	}
	c.Count("engine_queries", int64(e.n))

	if directDone && engineDone {
		c.Nontrivial(strings.Join(key, "|"))
	}
	if c.Idx < 3 {
		c.Sample(map[string]any{"native": key[:4], "classic": key[4:], "engine_quantile_grid": grid})
	}
}
