// Package c21: exemplar storage keeps the newest accepted exemplars in order
// (reference ring of accepted exemplars vs tsdb.CircularExemplarStorage).
package c21

import (
	"errors"
	"fmt"
	"math"
	"math/rand/v2"
	"regexp"
	"sort"
	"strings"
	"unicode/utf8"

	"github.com/prometheus/prometheus/model/exemplar"
	"github.com/prometheus/prometheus/model/labels"
	"github.com/prometheus/prometheus/storage"
	"github.com/prometheus/prometheus/tsdb"

	"verif/internal/core"
)

func init() {
	core.Register(&core.Prop{
		ID:        "C21",
		Title:     "Exemplar storage keeps the newest accepted exemplars in order",
		Level:     "exploration",
		Technique: "reference-model runtime monitor: tsdb.CircularExemplarStorage (AddExemplar/ValidateExemplar/Select/Resize/IterateExemplars) vs a reference FIFO ring of accepted exemplars, state compared after every operation",
		LevelText: "Each case is a generated history of 50-300 operations (quick) on a real CircularExemplarStorage of capacity 0-16 with an out-of-order window of 0-1000 ms over 1-5 series: adds (in order, out of order inside / at / beyond the window, equal timestamps with other values or labels, exact duplicates, exemplars without own timestamp, label sets of 127-130 runes incl. multi-byte), ValidateExemplar, Select with time ranges and matcher sets, Resize (grow, shrink, to zero, same size). The reference keeps the accepted exemplars in acceptance order with capacity N. After every operation the returned error must be one the rules allow, and IterateExemplars (documented: oldest to newest appended) must equal the reference ring; Select must return, for exactly the matching series with retained exemplars in range, those exemplars in non-decreasing timestamp order; Resize must keep the newest min(N', retained) and report that count. Held on the observed histories only.",
		LevelNote: "Where the documentation leaves the outcome open the model accepts both and follows what was observed: (a) an out-of-order exemplar whose timestamp equals that of a retained exemplar of the series ('assumed duplicate, no-op': stored or silently dropped), (b) an exemplar exactly one window older than the newest ('older than the window' does not settle the boundary), (c) AddExemplar on a duplicate may return nil or ErrDuplicateExemplar, (d) when several rejection rules apply any of their errors, (e) the return value of a same-size Resize. Same-timestamp ordering uses float comparison and labels.Hash as the code comment documents. SetOutOfOrderTimeWindow and concurrent use are not exercised.",
		DesignRef: "DESIGN.md §5 C21",
		Rule:      "case = one generated history; non-trivial iff it contains at least one eviction, one accepted out-of-order insertion (timestamp below the series' newest) and one Select with a non-empty expected result; distinct by the digest of the operation list",
		Cases: func(variant string, tier core.Tier) int {
			if variant != "default" {
				return 0
			}
			if tier == core.Thorough {
				return 400000
			}
			return 3000
		},
		Run:            run,
		MinNontrivial:  func(t core.Tier) int { return 500 },
		CaseTimeoutSec: 120,
	})
}

// ---------------------------------------------------------------- reference ring

type entry struct {
	series int
	ex     exemplar.Exemplar
	seq    int
}

type model struct {
	capacity int
	window   int64
	ring     []entry // acceptance order, oldest first
	seq      int
}

func exKey(e exemplar.Exemplar) string {
	return fmt.Sprintf("%s|%016x|%d|%v", e.Labels.String(), math.Float64bits(e.Value), e.Ts, e.HasTs)
}

// seriesList returns the retained exemplars of a series ordered by (timestamp, acceptance).
func (m *model) seriesList(s int) []entry {
	var out []entry
	for _, e := range m.ring {
		if e.series == s {
			out = append(out, e)
		}
	}
	sort.SliceStable(out, func(i, j int) bool { return out[i].ex.Ts < out[j].ex.Ts })
	return out
}

func (m *model) store(s int, e exemplar.Exemplar) (evicted bool) {
	if len(m.ring) >= m.capacity {
		m.ring = append([]entry(nil), m.ring[1:]...)
		evicted = true
	}
	m.seq++
	m.ring = append(m.ring, entry{s, e, m.seq})
	return evicted
}

func (m *model) clone() *model {
	c := *m
	c.ring = append([]entry(nil), m.ring...)
	return &c
}

type errClass string

const (
	eNil      errClass = "nil"
	eDisabled errClass = "disabled"
	eLabelLen errClass = "label-length"
	eDup      errClass = "duplicate"
	eOOO      errClass = "out-of-order"
	eOther    errClass = "other"
)

func classify(err error) errClass {
	switch {
	case err == nil:
		return eNil
	case errors.Is(err, storage.ErrExemplarsDisabled):
		return eDisabled
	case errors.Is(err, storage.ErrExemplarLabelLength):
		return eLabelLen
	case errors.Is(err, storage.ErrDuplicateExemplar):
		return eDup
	case errors.Is(err, storage.ErrOutOfOrderExemplar):
		return eOOO
	}
	return eOther
}

// verdict is what the rules say about adding e to series s in the current state.
type verdict struct {
	rejectErrs map[errClass]bool // non-empty: must be rejected with one of these
	dup        bool              // duplicate of the newest retained exemplar of the series
	boundary   bool              // exactly one window older than the newest: reject-OOO or accept
	sameTsOOO  bool              // accepted, older than newest, equal timestamp retained: stored or dropped
	ooo        bool              // accepted with a timestamp below the series' newest
}

func labelRunes(ls labels.Labels) int {
	n := 0
	ls.Range(func(l labels.Label) {
		n += utf8.RuneCountInString(l.Name) + utf8.RuneCountInString(l.Value)
	})
	return n
}

func (m *model) judge(s int, e exemplar.Exemplar) verdict {
	v := verdict{rejectErrs: map[errClass]bool{}}
	if m.capacity == 0 {
		v.rejectErrs[eDisabled] = true
	}
	if labelRunes(e.Labels) > exemplar.ExemplarMaxLabelSetLength {
		v.rejectErrs[eLabelLen] = true
	}
	list := m.seriesList(s)
	if len(list) == 0 {
		return v
	}
	newest := list[len(list)-1].ex
	// duplicate: same labels and value; timestamps compared unless neither carries its own
	if labels.Equal(newest.Labels, e.Labels) && newest.Value == e.Value && (!(newest.HasTs || e.HasTs) || newest.Ts == e.Ts) {
		v.dup = true
		return v
	}
	switch {
	case e.Ts < newest.Ts:
		age := newest.Ts - e.Ts
		switch {
		case m.window <= 0 || age > m.window:
			v.rejectErrs[eOOO] = true
		case age == m.window:
			v.boundary = true
		}
		v.ooo = true
		for _, x := range list {
			if x.ex.Ts == e.Ts {
				v.sameTsOOO = true
			}
		}
	case e.Ts == newest.Ts:
		if e.Value < newest.Value || (e.Value == newest.Value && e.Labels.Hash() < newest.Labels.Hash()) {
			v.rejectErrs[eOOO] = true
		}
	}
	return v
}

// ---------------------------------------------------------------- generators

var exLabelSets = func() []labels.Labels {
	out := []labels.Labels{
		labels.FromStrings("trace_id", "a"),
		labels.FromStrings("trace_id", "b"),
		labels.EmptyLabels(),
		labels.FromStrings("span", "x", "trace_id", "a"),
		labels.FromStrings("trace_id", "c"),
	}
	// combined length exactly 128 / 129 runes, ASCII and multi-byte
	out = append(out,
		labels.FromStrings("t", strings.Repeat("v", 127)),
		labels.FromStrings("t", strings.Repeat("v", 128)),
		labels.FromStrings("t", strings.Repeat("é", 127)),
		labels.FromStrings("t", strings.Repeat("é", 128)),
		labels.FromStrings("aa", strings.Repeat("日", 60), "bb", strings.Repeat("x", 64)),  // 2+60+2+64 = 128
		labels.FromStrings("aa", strings.Repeat("日", 60), "bbb", strings.Repeat("x", 64)), // 129
	)
	return out
}()

func genExemplar(r *rand.Rand, m *model, s int, clock *int64) exemplar.Exemplar {
	list := m.seriesList(s)
	e := exemplar.Exemplar{HasTs: r.IntN(8) != 0}
	if r.IntN(12) == 0 {
		e.Labels = exLabelSets[5+r.IntN(len(exLabelSets)-5)]
	} else {
		e.Labels = exLabelSets[r.IntN(5)]
	}
	e.Value = []float64{0, 1, 2, 3, 1.5, -1, math.NaN(), math.Inf(1)}[r.IntN(8)]
	if len(list) == 0 {
		*clock += int64(r.IntN(10))
		e.Ts = *clock
		return e
	}
	newest := list[len(list)-1].ex
	switch k := r.IntN(20); {
	case k < 7: // in order
		e.Ts = newest.Ts + int64(r.IntN(12))
	case k < 9: // equal timestamp
		e.Ts = newest.Ts
	case k < 11: // exact duplicate of the newest
		e = newest
		if r.IntN(4) == 0 {
			e.HasTs = !e.HasTs
		}
		if r.IntN(4) == 0 {
			e.Ts += int64(r.IntN(3))
		}
	case k < 13: // around the window boundary
		e.Ts = newest.Ts - m.window + int64(r.IntN(5)) - 2
	case k < 16: // a retained timestamp of this series (same-ts out of order)
		x := list[r.IntN(len(list))].ex
		e.Ts = x.Ts
		if r.IntN(2) == 0 {
			e.Labels, e.Value = x.Labels, x.Value
		}
	case k < 19: // out of order inside the window
		w := m.window
		if w <= 0 {
			w = 3
		}
		e.Ts = newest.Ts - r.Int64N(w+1)
	default: // far in the past
		e.Ts = newest.Ts - m.window - int64(r.IntN(50))
	}
	if e.Ts > *clock {
		*clock = e.Ts
	}
	return e
}

type refMatcher struct {
	m  *labels.Matcher
	ok func(string) bool
}

func genMatcherSets(r *rand.Rand, nseries int) ([][]*labels.Matcher, func(labels.Labels) bool, string) {
	nsets := 1 + r.IntN(2)
	var sets [][]*labels.Matcher
	var refs [][]refMatcher
	var text []string
	for i := 0; i < nsets; i++ {
		nm := 1 + r.IntN(2)
		var set []*labels.Matcher
		var ref []refMatcher
		for j := 0; j < nm; j++ {
			name := []string{"s", "s", "__name__", "absent"}[r.IntN(4)]
			val := fmt.Sprint(r.IntN(nseries + 1))
			if name == "__name__" {
				val = []string{"m", "other"}[r.IntN(2)]
			}
			if name == "absent" {
				val = ""
			}
			var typ labels.MatchType
			var ok func(string) bool
			switch r.IntN(4) {
			case 0:
				typ = labels.MatchNotEqual
				ok = func(v string) bool { return v != val }
			case 1:
				typ = labels.MatchRegexp
				pat := val + "|" + fmt.Sprint(r.IntN(nseries+1))
				if r.IntN(3) == 0 {
					pat = ".*"
				}
				val = pat
				re := regexp.MustCompile("^(?s:" + pat + ")$")
				ok = re.MatchString
			default:
				typ = labels.MatchEqual
				ok = func(v string) bool { return v == val }
			}
			mm := labels.MustNewMatcher(typ, name, val)
			set = append(set, mm)
			ref = append(ref, refMatcher{mm, ok})
		}
		sets = append(sets, set)
		refs = append(refs, ref)
		parts := make([]string, len(set))
		for k, mm := range set {
			parts[k] = mm.String()
		}
		text = append(text, "{"+strings.Join(parts, ",")+"}")
	}
	match := func(ls labels.Labels) bool {
		for _, ref := range refs {
			all := true
			for _, rm := range ref {
				if !rm.ok(ls.Get(rm.m.Name)) {
					all = false
					break
				}
			}
			if all {
				return true
			}
		}
		return false
	}
	return sets, match, strings.Join(text, " or ")
}

// ---------------------------------------------------------------- run

func observe(ces *tsdb.CircularExemplarStorage, seriesIdx map[string]int) ([]string, error) {
	var out []string
	err := ces.IterateExemplars(func(l labels.Labels, e exemplar.Exemplar) error {
		i, ok := seriesIdx[l.String()]
		if !ok {
			i = -1
		}
		out = append(out, fmt.Sprintf("%d:%s", i, exKey(e)))
		return nil
	})
	return out, err
}

func (m *model) render() []string {
	out := make([]string, len(m.ring))
	for i, e := range m.ring {
		out[i] = fmt.Sprintf("%d:%s", e.series, exKey(e.ex))
	}
	return out
}

func equalStrings(a, b []string) bool {
	if len(a) != len(b) {
		return false
	}
	for i := range a {
		if a[i] != b[i] {
			return false
		}
	}
	return true
}

func short(ss []string) string {
	var sb strings.Builder
	for i, s := range ss {
		if len(s) > 60 {
			s = s[:28] + "…" + s[len(s)-28:]
		}
		if i > 0 {
			sb.WriteString(" ; ")
		}
		sb.WriteString(s)
	}
	return "[" + sb.String() + "]"
}

func run(c *core.Case) {
	r := c.Rng
	nseries := 1 + r.IntN(5)
	series := make([]labels.Labels, nseries)
	seriesIdx := map[string]int{}
	for i := range series {
		series[i] = labels.FromStrings("__name__", "m", "s", fmt.Sprint(i))
		seriesIdx[series[i].String()] = i
	}
	capacity := r.IntN(17)
	if r.IntN(3) == 0 {
		capacity = 1 + r.IntN(4)
	}
	window := []int64{0, 1, 5, 20, 1000, -3}[r.IntN(6)]
	es, err := tsdb.NewCircularExemplarStorage(int64(capacity), tsdb.NewExemplarMetrics(nil), window)
	core.Must(err, "NewCircularExemplarStorage")
	ces, ok := es.(*tsdb.CircularExemplarStorage)
	if !ok {
		core.Must(fmt.Errorf("%T", es), "exemplar storage type")
	}
	m := &model{capacity: capacity, window: window}
	if m.window < 0 {
		m.window = 0
	}
	nops := 50 + r.IntN(251)
	if c.Tier == core.Thorough && r.IntN(10) == 0 {
		nops = 300 + r.IntN(700)
	}
	clock := int64(1000)
	var hist []string
	log := func(format string, a ...any) {
		s := fmt.Sprintf(format, a...)
		hist = append(hist, s)
		c.Logf("%s", s)
	}
	tail := func() string {
		h := hist
		if len(h) > 25 {
			h = h[len(h)-25:]
		}
		return strings.Join(h, "\n  ")
	}
	evictions, oooStored, selectsNonEmpty, sameTsDropped, sameTsStored, boundaryRej, boundaryAcc := 0, 0, 0, 0, 0, 0, 0
	var digest strings.Builder
	fmt.Fprintf(&digest, "cap=%d w=%d n=%d;", capacity, window, nseries)

	for op := 0; op < nops; op++ {
		switch k := r.IntN(100); {
		case k < 72: // AddExemplar
			s := r.IntN(nseries)
			e := genExemplar(r, m, s, &clock)
			v := m.judge(s, e)
			err := ces.AddExemplar(series[s], e)
			got := classify(err)
			fmt.Fprintf(&digest, "A%d:%s;", s, exKey(e))
			log("#%d Add(s%d, ts=%d v=%v hasTs=%v labels=%d runes %s) -> %s   [cap=%d win=%d]", op, s, e.Ts, e.Value, e.HasTs, labelRunes(e.Labels), trunc(e.Labels.String()), got, m.capacity, m.window)
			obs, ierr := observe(ces, seriesIdx)
			core.Must(ierr, "IterateExemplars")
			unchanged := m
			stored := m.clone()
			ev := false
			if m.capacity > 0 {
				ev = stored.store(s, e)
			}
			isUnchanged := equalStrings(obs, unchanged.render())
			isStored := m.capacity > 0 && equalStrings(obs, stored.render())
			c.Seen("add_result", string(got))
			switch {
			case len(v.rejectErrs) > 0:
				allowed := v.rejectErrs
				if got == eNil {
					c.Violatef("exemplar-accepted-against-rules", "exemplar must be rejected (%v) but AddExemplar returned nil; history:\n  %s", keysOf(allowed), tail())
					return
				}
				if !allowed[got] {
					c.Violatef("exemplar-wrong-error", "AddExemplar returned %v, the applicable rules give %v; history:\n  %s", err, keysOf(allowed), tail())
					return
				}
				if !isUnchanged {
					c.Violatef("exemplar-rejected-but-state-changed", "AddExemplar returned %v but the retained exemplars changed: observed %s, before %s; history:\n  %s", err, short(obs), short(unchanged.render()), tail())
					return
				}
			case v.dup:
				if got != eNil && got != eDup {
					c.Violatef("exemplar-wrong-error", "duplicate of the newest exemplar: AddExemplar returned %v; history:\n  %s", err, tail())
					return
				}
				if !isUnchanged {
					c.Violatef("exemplar-duplicate-stored", "duplicate of the series' newest exemplar changed the retained exemplars: observed %s, before %s; history:\n  %s", short(obs), short(unchanged.render()), tail())
					return
				}
				c.Count("duplicates", 1)
			default:
				if got == eOOO && v.boundary {
					if !isUnchanged {
						c.Violatef("exemplar-rejected-but-state-changed", "AddExemplar returned %v but the retained exemplars changed; history:\n  %s", err, tail())
						return
					}
					boundaryRej++
					break
				}
				if got != eNil {
					c.Violatef("exemplar-rejected-against-rules", "exemplar is acceptable by the duplicate/label-length/out-of-order rules but AddExemplar returned %v; history:\n  %s", err, tail())
					return
				}
				switch {
				case isStored:
					m = stored
					if ev {
						evictions++
					}
					if v.ooo {
						oooStored++
					}
					if v.sameTsOOO {
						sameTsStored++
					}
					if v.boundary {
						boundaryAcc++
					}
				case isUnchanged && v.sameTsOOO:
					sameTsDropped++
				default:
					kind := "retained-set-mismatch"
					if isUnchanged {
						kind = "accepted-exemplar-not-stored"
					}
					c.Violatef(kind, "after an accepted AddExemplar the retained exemplars (oldest to newest appended) are %s; the reference ring is %s (before the add: %s); history:\n  %s", short(obs), short(stored.render()), short(unchanged.render()), tail())
					return
				}
			}
		case k < 80: // ValidateExemplar
			s := r.IntN(nseries)
			e := genExemplar(r, m, s, &clock)
			v := m.judge(s, e)
			err := ces.ValidateExemplar(series[s], e)
			got := classify(err)
			fmt.Fprintf(&digest, "V%d:%s;", s, exKey(e))
			log("#%d Validate(s%d, ts=%d v=%v hasTs=%v labels=%d runes) -> %s", op, s, e.Ts, e.Value, e.HasTs, labelRunes(e.Labels), got)
			switch {
			case len(v.rejectErrs) > 0:
				if !v.rejectErrs[got] {
					c.Violatef("validate-wrong-result", "ValidateExemplar returned %v, the applicable rules give %v; history:\n  %s", err, keysOf(v.rejectErrs), tail())
					return
				}
			case v.dup:
				if got != eDup {
					c.Violatef("validate-wrong-result", "ValidateExemplar on a duplicate of the newest exemplar returned %v; history:\n  %s", err, tail())
					return
				}
			default:
				if !(got == eNil || (got == eOOO && v.boundary)) {
					c.Violatef("validate-wrong-result", "ValidateExemplar returned %v for an acceptable exemplar; history:\n  %s", err, tail())
					return
				}
			}
			obs, ierr := observe(ces, seriesIdx)
			core.Must(ierr, "IterateExemplars")
			if !equalStrings(obs, m.render()) {
				c.Violatef("validate-changed-state", "ValidateExemplar changed the retained exemplars: %s vs %s; history:\n  %s", short(obs), short(m.render()), tail())
				return
			}
			c.Count("validates", 1)
		case k < 92: // Select
			var start, end int64
			switch r.IntN(5) {
			case 0:
				start, end = math.MinInt64, math.MaxInt64
			case 1:
				start = clock - int64(r.IntN(40))
				end = start
			default:
				start = clock - int64(r.IntN(60))
				end = start + int64(r.IntN(60))
			}
			sets, match, text := genMatcherSets(r, nseries)
			fmt.Fprintf(&digest, "S%d,%d,%s;", start, end, text)
			res, err := ces.Select(start, end, sets...)
			log("#%d Select(%d, %d, %s) -> %d series", op, start, end, text, len(res))
			if err != nil {
				c.Violatef("select-error", "Select returned %v; history:\n  %s", err, tail())
				return
			}
			want := map[int][]string{}
			for si := range series {
				if !match(series[si]) {
					continue
				}
				for _, x := range m.seriesList(si) {
					if x.ex.Ts >= start && x.ex.Ts <= end {
						want[si] = append(want[si], exKey(x.ex))
					}
				}
			}
			seen := map[int]bool{}
			for _, qr := range res {
				si, ok := seriesIdx[qr.SeriesLabels.String()]
				if !ok || seen[si] {
					c.Violatef("select-wrong-series", "Select returned series %s (unknown or twice); history:\n  %s", qr.SeriesLabels, tail())
					return
				}
				seen[si] = true
				w, expected := want[si]
				if !expected {
					c.Violatef("select-wrong-series", "Select(%d,%d,%s) returned series %s with %d exemplars, but it does not match or has no retained exemplar in range; history:\n  %s", start, end, text, qr.SeriesLabels, len(qr.Exemplars), tail())
					return
				}
				var g []string
				for i, e := range qr.Exemplars {
					if i > 0 && e.Ts < qr.Exemplars[i-1].Ts {
						c.Violatef("select-unordered", "Select(%d,%d,%s) series %s: timestamps decrease (%d after %d); history:\n  %s", start, end, text, qr.SeriesLabels, e.Ts, qr.Exemplars[i-1].Ts, tail())
						return
					}
					g = append(g, exKey(e))
				}
				ws := append([]string(nil), w...)
				sort.Strings(ws)
				sort.Strings(g)
				if !equalStrings(ws, g) {
					c.Violatef("select-wrong-exemplars", "Select(%d,%d,%s) series %s returned %s, retained in range: %s; history:\n  %s", start, end, text, qr.SeriesLabels, short(g), short(ws), tail())
					return
				}
			}
			for si := range want {
				if !seen[si] {
					c.Violatef("select-missing-series", "Select(%d,%d,%s) did not return series s%d which matches and retains %s in range; history:\n  %s", start, end, text, si, short(want[si]), tail())
					return
				}
			}
			if len(want) > 0 {
				selectsNonEmpty++
			}
			c.Count("selects", 1)
		default: // Resize
			l := int64(r.IntN(22)) - 1
			if r.IntN(3) == 0 {
				l = int64(m.capacity) + int64(r.IntN(5)) - 2
			}
			fmt.Fprintf(&digest, "R%d;", l)
			before := m.render()
			ret := ces.Resize(l)
			n := int(l)
			if n < 0 {
				n = 0
			}
			same := n == m.capacity
			capBefore := m.capacity
			keep := len(m.ring)
			if keep > n {
				keep = n
			}
			m.ring = append([]entry(nil), m.ring[len(m.ring)-keep:]...)
			m.capacity = n
			log("#%d Resize(%d) -> %d   [retained before: %d]", op, l, ret, len(before))
			obs, ierr := observe(ces, seriesIdx)
			core.Must(ierr, "IterateExemplars")
			if !equalStrings(obs, m.render()) {
				kind := "resize-lost-or-kept-wrong-exemplars"
				c.Violatef(kind, "after Resize(%d) the retained exemplars are %s, expected the newest %d accepted: %s (before: %s); history:\n  %s", l, short(obs), keep, short(m.render()), short(before), tail())
				return
			}
			if !same && ret != keep {
				c.Violatef("resize-return-count", "Resize(%d) returned %d, but %d exemplars were migrated (retained before: %d); history:\n  %s", l, ret, keep, len(before), tail())
				return
			}
			switch {
			case same:
				c.Seen("resize", "same")
			case n == 0:
				c.Seen("resize", "to-zero")
			case len(before) > keep:
				c.Seen("resize", "shrink-dropping")
			case n < capBefore:
				c.Seen("resize", "shrink-keeping-all")
			default:
				c.Seen("resize", "grow")
			}
			c.Count("resizes", 1)
		}
	}
	c.Count("evictions", int64(evictions))
	c.Count("ooo_insertions_stored", int64(oooStored))
	c.Count("same_ts_ooo_dropped", int64(sameTsDropped))
	c.Count("same_ts_ooo_stored", int64(sameTsStored))
	c.Count("window_boundary_rejected", int64(boundaryRej))
	c.Count("window_boundary_accepted", int64(boundaryAcc))
	c.Count("operations", int64(nops))
	if evictions > 0 && oooStored > 0 && selectsNonEmpty > 0 {
		c.Nontrivial(digest.String())
	}
	if c.Idx < 2 {
		h := hist
		if len(h) > 12 {
			h = h[:12]
		}
		c.Sample(map[string]any{"capacity": capacity, "window": window, "series": nseries, "ops": nops, "first_ops": h})
	}
}

func trunc(s string) string {
	if len(s) > 40 {
		return s[:40] + "…"
	}
	return s
}

func keysOf(m map[errClass]bool) []string {
	var out []string
	for k := range m {
		out = append(out, string(k))
	}
	sort.Strings(out)
	return out
}
