// Package c30: counter and delta functions follow the documented algorithms (reference monitor + laws).
package c30

import (
	"fmt"
	"math"
	"math/rand/v2"
	"sort"
	"strings"
	"time"

	"github.com/prometheus/prometheus/model/labels"
	"github.com/prometheus/prometheus/model/value"

	"verif/internal/core"
	"verif/internal/gen"
	ref "verif/internal/promqlref"
)

func init() {
	core.Register(&core.Prop{
		ID:        "C30",
		Title:     "Counter and delta functions follow the documented algorithms",
		Level:     "exploration",
		Technique: "reference-model runtime monitor plus laws: real promql.Engine on a real tsdb.DB vs a reference written from the function documentation",
		LevelText: "Generated float series (counters with resets at the first/last pair, equal values, gauges, a few hostile floats, staleness markers; irregular spacing; optional start timestamps absent/constant/reset stored with ST storage) are loaded into a tsdb.DB. For generated windows whose first/last gaps sit at 1.1 x the average interval (exactly, +-1 ms, far away), single-sample and empty windows, with offset/@ modifiers, rate/increase/delta/irate/idelta/resets/changes are run as instant (and some range) queries on the real engine and compared per series with the reference (presence exact, values within 1e-12 relative; resets/changes exact). Laws checked on the engine output alone: finite non-negative samples => rate>=0 and increase>=0; increase = rate x range seconds (1e-12 relative). Held on the observed queries only.",
		LevelNote: "Trusted: tsdb as sample store (self-checked after loading), labels.Matcher. Where the statement does not determine the result the oracle accepts every reading: a boundary gap exactly equal to 1.1 x average interval (both sides of the comparison accepted), start timestamp equal to the previous sample's timestamp, NaN/Inf samples or catastrophic cancellation in the window (value check skipped, presence still checked), negative first sample of a counter (zero-point rule undefined; value check skipped). The treatment of a first sample whose start timestamp lies inside the window (counter started from zero there) is the harness author's reading of 'start-timestamp resets'. Histogram inputs are out of scope (statement: float series).",
		DesignRef: "DESIGN.md §5 C30",
		Rule:      "case = one dataset (1-4 float series built around 2 designed windows) in a fresh TSDB, all 7 functions per window (+1 range query); a case is non-trivial iff at least one rate/increase/delta result was value-checked against the reference with >=2 samples in the window; distinct by dataset+queries",
		Cases: func(variant string, tier core.Tier) int {
			if variant != "default" {
				return 0
			}
			if tier == core.Thorough {
				return 20000
			}
			return 400
		},
		Run:            run,
		MinNontrivial:  func(t core.Tier) int { return 200 },
		CaseTimeoutSec: 120,
	})
}

const tol = 1e-12

var funcs = []string{"rate", "increase", "delta", "irate", "idelta", "resets", "changes"}

type serPlan struct {
	ser   *ref.Series
	tame  bool
	count bool // counter-like
}

// tameVal: values for which sums/differences are exact in float64.
func tameInc(r *rand.Rand) float64 {
	switch r.IntN(8) {
	case 0:
		return 0
	case 1:
		return 1
	case 2:
		return 0.25 * float64(1+r.IntN(40))
	case 3:
		return float64(1 + r.IntN(1000000))
	default:
		return float64(1 + r.IntN(50))
	}
}

// genTimes makes n increasing timestamps starting at t0 with base interval iv and jitter.
func genTimes(r *rand.Rand, t0 int64, n int, iv int64) []int64 {
	out := make([]int64, 0, n)
	t := t0
	mode := r.IntN(4) // 0 regular, 1 small jitter, 2 wild, 3 missing scrapes
	for i := 0; i < n; i++ {
		out = append(out, t)
		step := iv
		switch mode {
		case 1:
			step = iv + int64(r.IntN(5)) - 2
		case 2:
			step = 1 + r.Int64N(2*iv)
		case 3:
			step = iv * int64(1+r.IntN(3))
		}
		if step < 1 {
			step = 1
		}
		t += step
	}
	return out
}

type window struct{ rs, re int64 }

// designWindow places a window around ts[i..j] so that the gaps to the first/last sample relate to
// 1.1 x the average interval in a chosen way.
func designWindow(r *rand.Rand, ts []int64) window {
	n := len(ts)
	if n == 0 {
		return window{0, 1000}
	}
	i := 0
	j := n - 1
	if n > 2 && r.IntN(3) == 0 {
		i = r.IntN(n - 1)
		j = i + r.IntN(n-i)
	}
	first, last := ts[i], ts[j]
	k := int64(j - i)
	gap := func() int64 {
		// threshold in ms = 11*(last-first)/(10*k)
		var thr float64
		if k > 0 {
			thr = 11 * float64(last-first) / (10 * float64(k))
		} else {
			thr = 1000
		}
		fl := int64(math.Floor(thr))
		switch r.IntN(10) {
		case 0:
			return fl
		case 1:
			return fl + 1
		case 2:
			return fl - 1
		case 3:
			return fl + 2
		case 4:
			return 1 + r.Int64N(max(fl, 2))
		case 5:
			return fl + 1 + r.Int64N(3*max(fl, 2))
		case 6:
			return 0
		case 7:
			return 1
		default:
			return max(fl/2+int64(r.IntN(5))-2, 0)
		}
	}
	gs := gap()
	if gs < 1 {
		gs = 1 // a sample exactly on the left boundary is outside the window
	}
	ge := gap()
	if ge < 0 {
		ge = 0
	}
	// do not let the window swallow the neighbours unless intended
	if i > 0 && r.IntN(4) != 0 && first-gs < ts[i-1] {
		gs = first - ts[i-1] // left boundary exactly on the previous sample: that one is excluded
	}
	if j < n-1 && r.IntN(4) != 0 && last+ge >= ts[j+1] {
		ge = ts[j+1] - last - 1
	}
	return window{first - gs, last + ge}
}

func genSeries(r *rand.Rand, si int, ts []int64, useST bool) serPlan {
	p := serPlan{tame: r.IntN(7) != 0, count: r.IntN(4) != 0}
	ls := labels.FromStrings("__name__", "m", "s", fmt.Sprint(si))
	p.ser = &ref.Series{Labels: ls}
	n := len(ts)
	v := []float64{0, 0, 1, 5, 1000, 1e6, 0.5}[r.IntN(7)]
	if !p.count {
		v = float64(r.IntN(2000) - 1000)
	}
	resetAt := map[int]bool{}
	if p.count && n > 1 {
		switch r.IntN(6) {
		case 0:
			resetAt[1] = true // between first and second
		case 1:
			resetAt[n-1] = true // between the last two
		case 2:
			resetAt[1+r.IntN(n-1)] = true
			resetAt[1+r.IntN(n-1)] = true
		case 3:
			for i := 1; i < n; i++ {
				if r.IntN(3) == 0 {
					resetAt[i] = true
				}
			}
		}
	}
	// start timestamps
	stMode := 0 // absent
	if useST {
		stMode = r.IntN(4) // 0 absent, 1 constant, 2 follows resets, 3 follows resets + hidden resets
	}
	var curST int64
	if stMode != 0 && n > 0 {
		curST = ts[0] - 1 - r.Int64N(100000)
		if r.IntN(3) == 0 {
			curST = ts[0] - 1 - r.Int64N(50) // close before the first sample: often inside a window
		}
	}
	for i, t := range ts {
		x := ref.Smp{T: t}
		if r.IntN(25) == 0 {
			x.F = math.Float64frombits(value.StaleNaN)
			p.ser.Samples = append(p.ser.Samples, x)
			continue
		}
		hidden := false
		if i > 0 {
			switch {
			case !p.tame:
				v = gen.Float(r, false)
				if r.IntN(2) == 0 {
					v = math.Abs(float64(r.IntN(1000))) * []float64{1, 1e-3, 1e15, 1e300}[r.IntN(4)]
				}
			case !p.count:
				if r.IntN(4) == 0 {
					// equal value
				} else {
					v += float64(r.IntN(200)-100) * 0.5
				}
			case resetAt[i]:
				switch r.IntN(3) {
				case 0:
					v = 0
				case 1:
					v = math.Floor(v / 2)
				default:
					v = float64(r.IntN(3))
				}
			default:
				v += tameInc(r)
				if stMode == 3 && r.IntN(6) == 0 {
					hidden = true // counter restarted but already beyond the old value
				}
			}
		}
		x.F = v
		if stMode != 0 {
			if i > 0 && (stMode >= 2 && resetAt[i] || hidden) {
				prevT := ts[i-1]
				if t-prevT >= 2 {
					curST = prevT + 1 + r.Int64N(t-prevT-1)
				} else if r.IntN(2) == 0 {
					curST = prevT // ambiguous: coincides with the previous sample
				}
			}
			x.ST = curST
			if r.IntN(40) == 0 {
				x.ST = 0
			}
			if r.IntN(60) == 0 {
				x.ST = t // "unknown start" convention
			}
		}
		p.ser.Samples = append(p.ser.Samples, x)
	}
	return p
}

type modSpec struct {
	m ref.Mod
	t int64
}

func genMod(r *rand.Rand, te int64) modSpec {
	m := ref.Mod{AtFirst: r.IntN(2) == 0}
	t := te
	off := func() int64 {
		d := int64(1 + r.IntN(100000))
		if r.IntN(3) == 0 {
			d = -d
		}
		return d
	}
	switch r.IntN(8) {
	case 0, 1:
		m.Offset = off()
		t = te + m.Offset
	case 2:
		m.HasAt = true
		m.At = te
		t = te + int64(r.IntN(200000)) - 100000
	case 3:
		m.HasAt = true
		m.Offset = off()
		m.At = te + m.Offset
		t = te + int64(r.IntN(200000)) - 100000
	}
	return modSpec{m, t}
}

func windowOf(s *ref.Series, w window) []ref.FS {
	var out []ref.FS
	for _, x := range ref.Window(s, w.rs, w.re) {
		out = append(out, ref.FS{T: x.T, ST: x.ST, F: x.F})
	}
	return out
}

type wclass struct {
	finite, nonneg, cancel bool
}

func classify(w []ref.FS) wclass {
	c := wclass{finite: true, nonneg: true}
	sumAbs := 0.0
	for _, x := range w {
		if math.IsNaN(x.F) || math.IsInf(x.F, 0) {
			c.finite = false
		}
		if !(x.F >= 0) {
			c.nonneg = false
		}
		sumAbs += math.Abs(x.F)
	}
	if c.finite && len(w) > 0 {
		// exactness: all values multiples of 2^-10 and small enough for exact sums
		for _, x := range w {
			if math.Abs(x.F) > 1e12 || x.F*1024 != math.Trunc(x.F*1024) {
				c.cancel = true
			}
		}
		if math.IsInf(sumAbs, 0) {
			c.cancel = true
		}
	}
	return c
}

func run(c *core.Case) {
	r := c.Rng
	useST := r.IntN(3) == 0
	iv := []int64{1000, 15000, 15000, 10, 7, 60000, 30000}[r.IntN(7)]
	n := r.IntN(13)
	if r.IntN(5) == 0 {
		n = r.IntN(4)
	}
	base := int64(r.IntN(100000))
	ts0 := genTimes(r, base, n+2, iv) // incl. one potential neighbour on each side
	ns := 1 + r.IntN(4)
	ds := &ref.Dataset{}
	var plans []serPlan
	for si := 0; si < ns; si++ {
		ts := append([]int64(nil), ts0...)
		if si > 0 {
			// other series: same grid with per-sample jitter / drops so that they sit near the same thresholds
			var t2 []int64
			for _, t := range ts {
				if r.IntN(8) == 0 {
					continue
				}
				t += int64(r.IntN(3)) - 1
				if len(t2) > 0 && t <= t2[len(t2)-1] {
					continue
				}
				t2 = append(t2, t)
			}
			ts = t2
		}
		p := genSeries(r, si, ts, useST)
		plans = append(plans, p)
		ds.Series = append(ds.Series, p.ser)
	}
	st := ref.Load(c, ds, ref.StoreOpts{STStorage: useST})
	defer st.Close()
	eng := ref.NewEngine(ref.EngineOpts{Lookback: 5 * time.Minute, UseStartTimestamps: useST})

	var texts []string
	var samples []map[string]any
	valueChecked := false
	for wi := 0; wi < 2; wi++ {
		// design the window on one of the series' timestamps
		ps := plans[r.IntN(len(plans))]
		var tsNonStale []int64
		for _, x := range ps.ser.Samples {
			tsNonStale = append(tsNonStale, x.T)
		}
		w := designWindow(r, tsNonStale)
		if w.re <= w.rs {
			w.re = w.rs + 1
		}
		ms := genMod(r, w.re)
		rng := w.re - w.rs
		got := map[string]ref.Outcome{}
		for _, fn := range funcs {
			q := fmt.Sprintf("%s(m[%s]%s)", fn, ref.Dur(rng), ms.m.String())
			texts = append(texts, fmt.Sprintf("%s@%d", q, ms.t))
			out := st.Instant(eng, q, ms.t, 0)
			c.Count("instant_queries", 1)
			if out.Err != nil {
				c.Violatef("unexpected-error", "query %q at %d failed: %v\ndataset:\n%s", q, ms.t, out.Err, ds)
				return
			}
			if out.Dup != "" || out.Vec == nil {
				c.Violatef("malformed-result", "query %q at %d: %s", q, ms.t, out.Dup)
				return
			}
			got[fn] = out
			if checkVector(c, ds, fn, q, ms.t, w, out.Vec, useST, &valueChecked) {
				return
			}
		}
		// law: increase = rate * range seconds (on the engine output alone)
		for k, rv := range got["rate"].Vec {
			incv, ok := got["increase"].Vec[k]
			if !ok {
				c.Violatef("increase-rate-presence-differs", "series %s has a rate but no increase for window (%d,%d]\ndataset:\n%s", k, w.rs, w.re, ds)
				return
			}
			prod := rv.F * (float64(rng) / 1000)
			if math.IsNaN(prod) || math.IsInf(prod, 0) || math.IsNaN(incv.F) || math.IsInf(incv.F, 0) || math.Abs(prod) < 1e-290 || math.Abs(rv.F) < 1e-290 {
				c.Count("law_increase_rate_skipped_nonfinite", 1)
				continue
			}
			c.Count("law_increase_rate_checked", 1)
			if !ref.CloseRel(prod, incv.F, tol) {
				c.Violatef("increase-not-rate-times-range", "series %s window (%d,%d] range %dms mod %q: increase=%v, rate=%v, rate*range=%v\ndataset:\n%s", k, w.rs, w.re, rng, ms.m.String(), incv.F, rv.F, prod, ds)
				return
			}
		}
		for k := range got["increase"].Vec {
			if _, ok := got["rate"].Vec[k]; !ok {
				c.Violatef("increase-rate-presence-differs", "series %s has an increase but no rate for window (%d,%d]\ndataset:\n%s", k, w.rs, w.re, ds)
				return
			}
		}
		if len(samples) < 2 {
			samples = append(samples, map[string]any{"window": []int64{w.rs, w.re}, "mod": ms.m.String(), "t": ms.t, "rate": got["rate"].Vec.String(), "resets": got["resets"].Vec.String()})
		}

		// one range query of rate/increase/delta sliding across the window end
		// (steps at and above the range: consecutive windows share no sample, so nothing of the
		// previous step's buffers - points, start timestamps - may survive into the next one)
		rfns := []string{[]string{"rate", "increase", "delta", "irate", "resets"}[r.IntN(5)]}
		if useST {
			rfns = []string{"rate", "increase", "irate", "resets"}
		} else if wi == 1 {
			rfns = nil
		}
		step := []int64{1, iv, iv / 2, rng, 1000, rng + 1, 2 * rng, rng + iv}[r.IntN(8)]
		if step < 1 {
			step = 1
		}
		nst := int64(2 + r.IntN(5))
		if useST || r.IntN(3) == 0 {
			nst = int64(2 + r.IntN(11))
		}
		kk := int64(r.IntN(int(nst)))
		tiling := useST && wi == 1 && len(ts0) > 0 && !ms.m.HasAt
		if tiling {
			// tile the whole series with windows that do not overlap: every window after a non-empty
			// one starts from buffers that must have been emptied
			step = rng + []int64{0, 1, iv / 3, rng / 2}[r.IntN(4)]
			nst = (ts0[len(ts0)-1]-ts0[0])/step + 3
			if nst > 24 {
				nst = 24
			}
			c.Count("tiling_range_queries_with_start_timestamps", 1)
		}
		for _, fn := range rfns {
			q := fmt.Sprintf("%s(m[%s]%s)", fn, ref.Dur(rng), ms.m.String())
			k := kk
			start := ms.t - k*step
			if tiling {
				start = ts0[0] + ms.m.Offset + int64(r.IntN(int(rng)+1))
			}
			end := start + (nst-1)*step
			texts = append(texts, fmt.Sprintf("%s@%d..%d/%d", q, start, end, step))
			out := st.Range(eng, q, start, end, step, 0)
			c.Count("range_queries", 1)
			if out.Err != nil {
				c.Violatef("unexpected-error", "range query %q %d..%d/%d failed: %v\ndataset:\n%s", q, start, end, step, out.Err, ds)
				return
			}
			if out.Bad != "" {
				c.Violatef("malformed-result", "range query %q %d..%d/%d: %s", q, start, end, step, out.Bad)
				return
			}
			for t := start; t <= end; t += step {
				te := ms.m.Eff(t, start, end)
				vec := out.Steps[t]
				if vec == nil {
					vec = ref.Vec{}
				}
				c.Count("range_steps", 1)
				if checkVector(c, ds, fn, fmt.Sprintf("%s [range query %d..%d/%d, step %d]", q, start, end, step, t), t, window{te - rng, te}, vec, useST, &valueChecked) {
					return
				}
			}
		}
	}
	if useST {
		c.Count("cases_with_start_timestamps", 1)
	}
	if valueChecked {
		c.Nontrivial(ds.String(), strings.Join(texts, "\n"))
	}
	if c.Idx < 3 {
		c.Sample(map[string]any{"dataset": strings.Split(strings.TrimSpace(ds.String()), "\n"), "start_timestamps": useST, "windows": samples})
	}
}

// checkVector compares the engine's vector for fn over window w with the reference, per series.
// Returns true when a violation was recorded.
func checkVector(c *core.Case, ds *ref.Dataset, fn, q string, t int64, w window, got ref.Vec, useST bool, valueChecked *bool) bool {
	ctx := func(s *ref.Series, win []ref.FS) string {
		return fmt.Sprintf("query %q at t=%d, window (%d,%d], start timestamps used=%v\nseries %s window samples %v\ndataset:\n%s", q, t, w.rs, w.re, useST, s.Labels, win, ds)
	}
	seen := map[string]bool{}
	for _, s := range ds.Series {
		key := ref.DropName(s.Labels).String()
		seen[key] = true
		win := windowOf(s, w)
		cl := classify(win)
		gv, present := got[key]
		if present && gv.H != nil {
			c.Violatef(fn+"-value-mismatch", "histogram result for float input\n%s", ctx(s, win))
			return true
		}
		c.Seen("window_sizes", fmt.Sprint(min(len(win), 6)))
		switch fn {
		case "rate", "increase", "delta":
			isCounter := fn != "delta"
			res := ref.ExtrapolatedRate(win, w.rs, w.re, isCounter, fn == "rate", useST)
			if res.Present != present {
				c.Violatef(fn+"-presence-mismatch", "reference present=%v, engine present=%v (value %v)\n%s", res.Present, present, gv, ctx(s, win))
				return true
			}
			if !present {
				continue
			}
			// law: non-negative finite counter samples => result >= 0
			if isCounter && cl.finite && cl.nonneg {
				c.Count("law_nonnegative_checked", 1)
				if !(gv.F >= 0) {
					c.Violatef(fn+"-negative-for-nonnegative-counter", "%s = %v\n%s", fn, gv.F, ctx(s, win))
					return true
				}
			}
			switch {
			case !cl.finite:
				c.Count("value_skipped_nonfinite_input", 1)
				continue
			case cl.cancel:
				c.Count("value_skipped_inexact_input", 1)
				continue
			case res.Ambiguous:
				c.Count("value_skipped_ambiguous_start_timestamp", 1)
				continue
			case isCounter && win[0].F < 0:
				c.Count("value_skipped_negative_counter", 1)
				continue
			}
			ok := false
			for _, a := range res.Alt {
				if ref.CloseRel(a, gv.F, tol) {
					ok = true
				}
			}
			if !ok {
				c.Violatef(fn+"-value-mismatch", "engine %v, reference %v (raw increase %v, clamped=%v, resets=%d, st-resets=%d, st-start=%v)\n%s", gv.F, res.Alt, res.Raw, res.Clamped, res.Resets, res.STResets, res.STStart, ctx(s, win))
				return true
			}
			c.Count("extrapolated_values_checked", 1)
			if len(win) >= 2 {
				*valueChecked = true
			}
			if len(res.Alt) > 1 {
				c.Count("windows_gap_exactly_at_threshold", 1)
			}
			if res.NearThr {
				c.Count("windows_gap_within_1ms_of_threshold", 1)
			}
			if res.Clamped {
				c.Count("windows_zero_point_clamped", 1)
			}
			if res.Resets > 0 {
				c.Count("windows_with_value_resets", 1)
			}
			if res.STResets > 0 {
				c.Count("windows_with_start_timestamp_resets", 1)
			}
			if res.STStart {
				c.Count("windows_started_by_start_timestamp", 1)
			}
		case "irate", "idelta":
			v, wantPresent, amb := ref.InstantRate(win, fn == "irate", useST)
			if wantPresent != present {
				c.Violatef(fn+"-presence-mismatch", "reference present=%v, engine present=%v (value %v)\n%s", wantPresent, present, gv, ctx(s, win))
				return true
			}
			if !present {
				continue
			}
			last2 := classify(win[len(win)-2:])
			if !last2.finite || amb {
				c.Count("value_skipped_nonfinite_input", 1)
				continue
			}
			if !ref.CloseRel(v, gv.F, tol) {
				c.Violatef(fn+"-value-mismatch", "engine %v, reference %v (last two samples %v)\n%s", gv.F, v, win[len(win)-2:], ctx(s, win))
				return true
			}
			c.Count("instant_values_checked", 1)
		case "resets", "changes":
			var n int
			var ok bool
			if fn == "resets" {
				n, ok = ref.CountResets(win, useST)
			} else {
				n, ok = ref.CountChanges(win)
			}
			wantPresent := len(win) >= 1
			if wantPresent != present {
				c.Violatef(fn+"-presence-mismatch", "reference present=%v, engine present=%v (value %v)\n%s", wantPresent, present, gv, ctx(s, win))
				return true
			}
			if !present {
				continue
			}
			if gv.F != math.Trunc(gv.F) || gv.F < 0 || gv.F > float64(len(win)) {
				c.Violatef(fn+"-count-mismatch", "engine %v is not an integer in [0,%d]\n%s", gv.F, len(win), ctx(s, win))
				return true
			}
			if !ok {
				c.Count("count_skipped_nan_input", 1)
				continue
			}
			if gv.F != float64(n) {
				c.Violatef(fn+"-count-mismatch", "engine %v, direct count %d\n%s", gv.F, n, ctx(s, win))
				return true
			}
			c.Count("counts_checked", 1)
		}
	}
	var extra []string
	for k := range got {
		if !seen[k] {
			extra = append(extra, k)
		}
	}
	if len(extra) > 0 {
		sort.Strings(extra)
		c.Violatef(fn+"-presence-mismatch", "engine returned series that are not in the dataset: %v (query %q)", extra, q)
		return true
	}
	return false
}
