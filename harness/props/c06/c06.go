// Package c06: queries racing with compaction see each sample exactly once.
//
// Controlled part: the maintenance call (DB.Compact / CompactHead / CompactOOOHead) is an actor
// pausing at every step of the compaction/truncation protocol; at each pause the controller
// creates sample and chunk queriers over generated ranges, drains some at once and keeps others
// open across later steps; when the actor is blocked by the protocol itself (reader wait polls,
// Block.Close waiting for readers) the controller closes queriers and counts the polls the
// actor still needs (bounded progress).  Stress part: free-running queriers against a
// compaction loop with hook jitter, also under the race detector.
package c06

import (
	"context"
	"fmt"
	"math"
	"sort"
	"strings"
	"sync"
	"sync/atomic"
	"time"

	"github.com/prometheus/prometheus/model/labels"
	"github.com/prometheus/prometheus/storage"
	"github.com/prometheus/prometheus/tsdb"

	"verif/internal/core"
	"verif/internal/sched"
	"verif/internal/tsdbx"
)

var maintSites = []string{
	"tsdb.compactHead.afterWrite", "tsdb.compactHead.afterReload", "tsdb.compactHead.afterTruncate",
	"tsdb.reload.beforeSwap", "tsdb.reload.afterSwap", "tsdb.reload.beforeDelete",
	"tsdb.truncMem.afterTime", "tsdb.truncMem.afterFlag", "tsdb.truncMem.afterMinTime", "tsdb.truncMem.afterGC",
	"tsdb.compactOOO.afterWrite", "tsdb.compactOOO.afterReload", "tsdb.compactOOO.beforeTruncOOO", "tsdb.compactOOO.afterTruncOOO",
	"tsdb.deleteBlocks.afterRename", "tsdb.deleteBlocks.afterRemove",
	"tsdb.truncWAL.beforeCheckpoint", "tsdb.truncWAL.afterCheckpoint", "tsdb.truncWAL.afterTruncate",
}

func init() {
	core.Register(&core.Prop{
		ID:        "C06",
		Title:     "Queries racing with compaction see each sample exactly once",
		Level:     "exploration",
		Technique: "controlled scheduling over the compaction/truncation protocol's pause points (multiset-equality oracle, bounded reader-wait polls) + free-running stress under the race detector",
		LevelText: "A real DB is filled with in-order and out-of-order samples (unique (series,t), values encode identity) spanning several block ranges. The maintenance call runs as an actor that pauses at: block written, before/after the block list swap, before block deletion, after each rename/removal, truncation time published, truncation flag set, after the reader wait, minTime stored, after head GC, after out-of-order block reload, before/after out-of-order truncation, WAL checkpoint steps. At every pause the controller opens sample and chunk queriers over the whole range, sub-ranges and block-boundary ranges, drains some immediately and others several steps later (also after their block was replaced), and in a quarter of the cases parks a querier inside DB.Querier between head-querier creation and the truncation-collision check while the truncation proceeds. Every querier must return each committed sample in its range exactly once with its value. When the actor waits for readers (poll events) the controller closes queriers; after the last close it may poll at most 6 more times before making progress. Stress: 4 reader goroutines vs. a compaction loop with jitter, same oracle, also with -race. Held on the explored schedules only.",
		LevelNote: "No appends run during maintenance in the controlled part (the statement's set is 'samples committed before the query started'); retention disabled. 'Finishes once overlapping queries close' is restated as the bounded-poll rule; a wall-clock watchdog expiry is inconclusive. 'A block is never released while a query still reads it' is observed through draining queriers after their block was replaced/deleted (use-after-unmap crashes the worker = violation).",
		DesignRef: "DESIGN.md §5 C06",
		Rule:      "case = one schedule; non-trivial iff the maintenance produced ≥1 block, ≥1 querier was created at a protocol pause point between block write and the end of truncation, and ≥1 querier was drained later than it was created; distinct by decision sequence",
		Cases: func(variant string, tier core.Tier) int {
			switch variant {
			case "default":
				if tier == core.Thorough {
					return 2400
				}
				return 128
			case "race":
				if tier == core.Thorough {
					return 160
				}
				return 16
			}
			return 0
		},
		Variants:       []string{"race"},
		Run:            run,
		MinNontrivial:  func(t core.Tier) int { return 40 },
		CaseTimeoutSec: 400,
	})
}

func lbl(i int) labels.Labels { return labels.FromStrings("__name__", "m", "s", fmt.Sprint(i)) }

type dataset struct {
	db      *tsdb.DB
	R       int64
	series  int
	samples map[string]map[int64]float64 // series → t → value
	minT    int64
	maxT    int64
}

func build(c *core.Case, stress bool) *dataset {
	r := c.Rng
	R := []int64{200, 500, 1000}[r.IntN(3)]
	o := tsdb.DefaultOptions()
	o.MinBlockDuration = R
	o.MaxBlockDuration = R * []int64{1, 3}[r.IntN(2)]
	o.RetentionDuration = 0
	o.SamplesPerChunk = []int{4, 8, 30}[r.IntN(3)]
	o.NoLockfile = true
	o.WALSegmentSize = 32 * 1024
	ooo := r.IntN(3) != 0
	if ooo {
		o.OutOfOrderTimeWindow = R * 2
		o.OutOfOrderCapMax = 8
	}
	o.EnableOverlappingCompaction = r.IntN(2) == 0
	db, err := tsdb.Open(c.TempDir(), tsdbx.NopLogger(), nil, o, nil)
	core.Must(err, "open")
	db.DisableCompactions()
	ds := &dataset{db: db, R: R, series: 2 + r.IntN(3), samples: map[string]map[int64]float64{}, minT: math.MaxInt64, maxT: math.MinInt64}
	base := int64(r.IntN(3)) * R
	span := R*3 + R/2 + int64(r.IntN(int(R)))
	ctx := context.Background()
	n := 0
	add := func(s int, t int64) {
		k := lbl(s).String()
		if ds.samples[k] == nil {
			ds.samples[k] = map[int64]float64{}
		}
		if _, dup := ds.samples[k][t]; dup {
			return
		}
		v := float64(s*1_000_000 + n)
		n++
		app := db.Appender(ctx)
		if _, err := app.Append(0, lbl(s), t, v); err != nil {
			app.Rollback()
			return
		}
		core.Must(app.Commit(), "commit")
		ds.samples[k][t] = v
		if t < ds.minT {
			ds.minT = t
		}
		if t > ds.maxT {
			ds.maxT = t
		}
	}
	step := R / int64(6+r.IntN(10))
	for t := base; t <= base+span; t += 1 + r.Int64N(step) {
		for s := 0; s < ds.series; s++ {
			if r.IntN(4) != 0 {
				add(s, t)
			}
		}
	}
	if ooo {
		for i := 0; i < 10+r.IntN(20); i++ {
			add(r.IntN(ds.series), base+span-r.Int64N(2*R))
		}
	}
	if r.IntN(3) == 0 { // some data already in a block + m-mapped chunks
		db.ForceHeadMMap()
	}
	return ds
}

// expectIn returns the expected samples of a series in [a,b], sorted.
func (ds *dataset) expectIn(k string, a, b int64) []tsdbx.Sample {
	var out []tsdbx.Sample
	for t, v := range ds.samples[k] {
		if t >= a && t <= b {
			out = append(out, tsdbx.Sample{T: t, Kind: "f", F: v})
		}
	}
	sort.Slice(out, func(i, j int) bool { return out[i].T < out[j].T })
	return out
}

func (ds *dataset) verify(d tsdbx.Dump, a, b int64) string {
	for k := range ds.samples {
		want := ds.expectIn(k, a, b)
		var got []tsdbx.Sample
		for _, s := range d[k] {
			if s.T >= a && s.T <= b {
				got = append(got, s)
			}
		}
		wi := 0
		seen := map[int64]int{}
		for _, g := range got {
			seen[g.T]++
		}
		for t, n := range seen {
			if n > 1 {
				return fmt.Sprintf("series %s: sample t=%d returned %d times", k, t, n)
			}
		}
		for i := 1; i < len(got); i++ {
			if got[i].T <= got[i-1].T {
				return fmt.Sprintf("series %s: timestamps out of order: %d then %d", k, got[i-1].T, got[i].T)
			}
		}
		for _, g := range got {
			for wi < len(want) && want[wi].T < g.T {
				return fmt.Sprintf("series %s: sample t=%d missing (returned %d of %d expected samples in [%d,%d])", k, want[wi].T, len(got), len(want), a, b)
			}
			if wi >= len(want) || want[wi].T != g.T {
				return fmt.Sprintf("series %s: unexpected sample t=%d", k, g.T)
			}
			if g.Kind != "f" || g.F != want[wi].F {
				return fmt.Sprintf("series %s: wrong value at t=%d: %v, want %v", k, g.T, g.ValKey(), want[wi].F)
			}
			wi++
		}
		if wi < len(want) {
			return fmt.Sprintf("series %s: sample t=%d missing (returned %d of %d expected samples in [%d,%d])", k, want[wi].T, len(got), len(want), a, b)
		}
	}
	for k := range d {
		if _, ok := ds.samples[k]; !ok && len(d[k]) > 0 {
			return fmt.Sprintf("unknown series %s returned", k)
		}
	}
	return ""
}

type openQ struct {
	id    int
	chunk bool
	a, b  int64
	q     storage.Querier
	cq    storage.ChunkQuerier
	step  int
	site  string
}

func (ds *dataset) open(r interface{ IntN(int) int }, id, step int, site string) (*openQ, error) {
	a, b := int64(math.MinInt64), int64(math.MaxInt64)
	switch r.IntN(4) {
	case 0:
		a = ds.minT + int64(r.IntN(int(ds.maxT-ds.minT+1)))
		b = a + int64(r.IntN(int(2*ds.R)))
	case 1: // cut exactly at a block boundary
		bd := (ds.minT/ds.R + int64(1+r.IntN(4))) * ds.R
		if r.IntN(2) == 0 {
			a = bd
		} else {
			b = bd - 1 + int64(r.IntN(2))
		}
	}
	oq := &openQ{id: id, a: a, b: b, step: step, site: site, chunk: r.IntN(3) == 0}
	var err error
	if oq.chunk {
		oq.cq, err = ds.db.ChunkQuerier(a, b)
	} else {
		oq.q, err = ds.db.Querier(a, b)
	}
	return oq, err
}

func (ds *dataset) drain(oq *openQ) string {
	var d tsdbx.Dump
	var err error
	if oq.chunk {
		d, _, err = tsdbx.DumpChunkQuerier(oq.cq)
		oq.cq.Close()
	} else {
		d, _, err = tsdbx.DumpQuerier(oq.q)
		oq.q.Close()
	}
	if err != nil {
		return "query error: " + err.Error()
	}
	return ds.verify(d, oq.a, oq.b)
}

func run(c *core.Case) {
	if c.Variant == "race" || c.Idx%8 == 7 {
		runStress(c)
		return
	}
	runControlled(c)
}

func runControlled(c *core.Case) {
	r := c.Rng
	ds := build(c, false)
	defer ds.db.Close()
	ctl := sched.Install()
	defer ctl.Uninstall()
	kind := []string{"Compact", "Compact", "CompactHead", "CompactOOOHead"}[r.IntN(4)]
	var maintErr error
	maint := ctl.Go("maint", maintSites, func() {
		switch kind {
		case "Compact":
			maintErr = ds.db.Compact(context.Background())
			if maintErr == nil && r.IntN(2) == 0 {
				maintErr = ds.db.Compact(context.Background())
			}
		case "CompactHead":
			h := ds.db.Head()
			maxt := (h.MinTime()/ds.R+1)*ds.R - 1
			maintErr = ds.db.CompactHead(tsdb.NewRangeHead(h, h.MinTime(), maxt))
		case "CompactOOOHead":
			maintErr = ds.db.CompactOOOHead(context.Background())
		}
	})
	var open []*openQ
	var decisions []string
	nQ, lateDrains, protoQ := 0, 0, 0
	blocksBefore := len(ds.db.Blocks())
	closeOne := func(step int) bool {
		if len(open) == 0 {
			return true
		}
		i := r.IntN(len(open))
		oq := open[i]
		open = append(open[:i], open[i+1:]...)
		if oq.step < step {
			lateDrains++
		}
		if diff := ds.drain(oq); diff != "" {
			c.Violatef(classify(diff), "%s during %s: querier Q%d (chunk=%v) over [%d,%d] created at step %d (%s), drained at step %d: %s\nschedule: %v", kind, kind, oq.id, oq.chunk, oq.a, oq.b, oq.step, oq.site, step, diff, decisions)
			return false
		}
		decisions = append(decisions, fmt.Sprintf("drainQ%d", oq.id))
		return true
	}
	finish := func() {
		maint.SetPause()
		// unblock everything
		for len(open) > 0 {
			oq := open[0]
			open = open[1:]
			if oq.chunk {
				oq.cq.Close()
			} else {
				oq.q.Close()
			}
		}
		for !maint.IsDone() {
			ev, ok := maint.Next(30 * time.Second)
			if !ok {
				return
			}
			if ev.Paused {
				maint.Release()
			}
			if ev.Done {
				return
			}
		}
	}
	step := 0
	site := "start"
	done := false
	for !done {
		// wait for the next pause, watching for protocol-level blocking
		pollsSinceLastClose := 0
		for {
			ev, ok := maint.Next(60 * time.Second)
			if !ok {
				c.Inconclusive("maintenance actor neither paused, polled nor finished within the watchdog")
				finish()
				return
			}
			if ev.Done {
				if ev.Panic != nil {
					panic(ev.Panic)
				}
				done = true
				break
			}
			if ev.Paused {
				site = ev.Site
				break
			}
			// observe-only event
			switch ev.Site {
			case "tsdb.waitReaders.poll", "tsdb.waitOOOReaders.poll", "block.close.waiting":
				c.Seen("protocol_wait", ev.Site)
				if len(open) > 0 {
					// the protocol waits for our readers: close one (Block.Close announces its wait only
					// once, so there all of them)
					for first := true; len(open) > 0 && (first || ev.Site == "block.close.waiting"); first = false {
						if !closeOne(step) {
							finish()
							return
						}
					}
					pollsSinceLastClose = 0
				} else if ev.Site != "block.close.waiting" {
					pollsSinceLastClose++
					if pollsSinceLastClose > 6 {
						c.Violatef("maintenance-does-not-finish", "%s: %d reader-wait polls at %s although no querier is open any more\nschedule: %v", kind, pollsSinceLastClose, ev.Site, decisions)
						finish()
						return
					}
				}
			}
		}
		if done {
			break
		}
		step++
		decisions = append(decisions, "maint@"+strings.TrimPrefix(site, "tsdb."))
		inProtocol := strings.Contains(site, "compactHead") || strings.Contains(site, "truncMem") || strings.Contains(site, "reload") || strings.Contains(site, "compactOOO") || strings.Contains(site, "deleteBlocks")
		// create queriers at this step
		for i := r.IntN(3); i > 0; i-- {
			nQ++
			oq, err := ds.open(r, nQ, step, site)
			if err != nil {
				c.Violatef("querier-creation-failed", "%s at %s: %v", kind, site, err)
				finish()
				return
			}
			if inProtocol {
				protoQ++
			}
			decisions = append(decisions, fmt.Sprintf("Q%d", nQ))
			open = append(open, oq)
			if r.IntN(2) == 0 {
				if !closeOne(step) {
					finish()
					return
				}
			}
		}
		if len(open) > 0 && r.IntN(3) == 0 {
			if !closeOne(step) {
				finish()
				return
			}
		}
		// parked querier: inside DB.Querier between head querier creation and the collision check,
		// only where the block list swap is already over (no pending db.mtx.Lock)
		if (site == "tsdb.compactHead.afterReload" || site == "tsdb.truncMem.afterTime" || site == "tsdb.truncMem.afterFlag") && r.IntN(3) == 0 {
			var pq storage.Querier
			var perr error
			qa := ctl.Go("parkedQ", []string{"tsdb.querier.afterHead"}, func() {
				pq, perr = ds.db.Querier(math.MinInt64, math.MaxInt64)
			})
			ev, _, ok := qa.NextPauseOrDone(30 * time.Second)
			if ok && ev.Paused {
				decisions = append(decisions, "parkQ@"+strings.TrimPrefix(ev.Site, "tsdb."))
				// let the maintenance run on while the querier is parked: it reaches the reader wait
				// (poll events), its next pause point, or the end
				maint.Release()
				maint.Peek(5 * time.Second)
				qa.Release()
				if _, _, ok := qa.NextPauseOrDone(30 * time.Second); !ok {
					c.Inconclusive("parked querier did not finish")
					finish()
					return
				}
				if perr != nil {
					c.Violatef("querier-creation-failed", "parked querier: %v", perr)
					finish()
					return
				}
				nQ++
				protoQ++
				oq := &openQ{id: nQ, a: math.MinInt64, b: math.MaxInt64, q: pq, step: step, site: "parked@querier.afterHead"}
				decisions = append(decisions, fmt.Sprintf("Q%d(parked)", nQ))
				open = append(open, oq)
				if !closeOne(step + 1) {
					finish()
					return
				}
				c.Count("parked_queriers", 1)
				continue // the maintenance actor has already been released
			} else if ok && ev.Done {
				if pq != nil {
					pq.Close()
				}
			}
		}
		maint.Release()
	}
	for len(open) > 0 {
		if !closeOne(step + 1) {
			return
		}
	}
	if maintErr != nil {
		c.Violatef("maintenance-failed", "%s: %v\nschedule: %v", kind, maintErr, decisions)
		return
	}
	// final check
	fq, err := ds.db.Querier(math.MinInt64, math.MaxInt64)
	core.Must(err, "final querier")
	fd, _, err := tsdbx.DumpQuerier(fq)
	fq.Close()
	if err != nil {
		c.Violatef("query-error", "final query: %v", err)
		return
	}
	if diff := ds.verify(fd, math.MinInt64, math.MaxInt64); diff != "" {
		c.Violatef(classify(diff), "%s: final query after maintenance: %s\nschedule: %v", kind, diff, decisions)
		return
	}
	c.Count("schedules", 1)
	c.Count("queriers", int64(nQ))
	c.Count("queriers_at_protocol_steps", int64(protoQ))
	c.Count("late_drains", int64(lateDrains))
	c.Seen("maintenance", kind)
	for s, n := range ctl.Hits() {
		if n > 0 {
			c.Seen("hook_site", s)
		}
	}
	if len(ds.db.Blocks()) > blocksBefore && protoQ > 0 && lateDrains > 0 {
		c.Nontrivial(kind, decisions)
	}
	if c.Idx < 2 {
		c.Sample(map[string]any{"mode": "controlled", "maintenance": kind, "block_range": ds.R, "series": ds.series, "schedule": decisions})
	}
}

func classify(diff string) string {
	switch {
	case strings.Contains(diff, "missing"):
		return "sample-missing-during-maintenance"
	case strings.Contains(diff, "returned") && strings.Contains(diff, "times"):
		return "sample-duplicated-during-maintenance"
	case strings.Contains(diff, "unexpected"):
		return "unexpected-sample"
	case strings.Contains(diff, "wrong value"):
		return "wrong-value"
	case strings.Contains(diff, "out of order"):
		return "disorder"
	}
	return "query-error"
}

// ---------------------------------------------------------------- stress

func runStress(c *core.Case) {
	ds := build(c, true)
	defer ds.db.Close()
	ctl := sched.Install()
	defer ctl.Uninstall()
	ctl.SetJitter(200, uint64(c.Idx)+7)
	var stop atomic.Bool
	var wg sync.WaitGroup
	var mu sync.Mutex
	var firstDiff string
	var reads atomic.Int64
	seeds := []uint64{c.Rng.Uint64(), c.Rng.Uint64(), c.Rng.Uint64(), c.Rng.Uint64()}
	for i := 0; i < 4; i++ {
		wg.Add(1)
		go func(i int) {
			defer wg.Done()
			x := seeds[i]
			rnd := lcg{&x}
			for !stop.Load() {
				oq, err := ds.open(rnd, int(reads.Add(1)), 0, "stress")
				if err != nil {
					mu.Lock()
					if firstDiff == "" {
						firstDiff = "querier creation: " + err.Error()
					}
					mu.Unlock()
					return
				}
				if rnd.IntN(3) == 0 {
					time.Sleep(time.Duration(rnd.IntN(300)) * time.Microsecond)
				}
				if diff := ds.drain(oq); diff != "" {
					mu.Lock()
					if firstDiff == "" {
						firstDiff = fmt.Sprintf("querier (chunk=%v) over [%d,%d]: %s", oq.chunk, oq.a, oq.b, diff)
					}
					mu.Unlock()
					return
				}
			}
		}(i)
	}
	var merr error
	for round := 0; round < 3 && merr == nil; round++ {
		merr = ds.db.Compact(context.Background())
		if merr == nil {
			merr = ds.db.CompactOOOHead(context.Background())
		}
	}
	stop.Store(true)
	wg.Wait()
	if merr != nil {
		c.Violatef("maintenance-failed", "stress: %v", merr)
		return
	}
	if firstDiff != "" {
		c.Violatef(classify(firstDiff), "stress run (free-running queriers vs. compaction loop): %s", firstDiff)
		return
	}
	c.Count("stress_runs", 1)
	c.Count("stress_reads", reads.Load())
	if reads.Load() > 10 && len(ds.db.Blocks()) > 0 {
		c.Nontrivial("stress", c.Idx, c.Variant)
	}
	if c.Idx%8 == 7 && c.Idx < 16 {
		c.Sample(map[string]any{"mode": "stress", "reads": reads.Load(), "blocks_after": len(ds.db.Blocks())})
	}
}

type lcg struct{ x *uint64 }

func (l lcg) IntN(n int) int {
	*l.x = *l.x*6364136223846793005 + 1442695040888963407
	return int((*l.x >> 33) % uint64(n))
}
