// Package c51: the query API's JSON codec encodes result values losslessly (round trip against an
// independent decoder built on encoding/json, math/big and strconv).
package c51

import (
	"bytes"
	"encoding/json"
	"fmt"
	"math"
	"math/big"
	"math/rand/v2"
	"sort"
	"strconv"
	"strings"
	"unicode/utf8"

	"github.com/prometheus/prometheus/model/histogram"
	"github.com/prometheus/prometheus/model/labels"
	"github.com/prometheus/prometheus/promql"
	"github.com/prometheus/prometheus/promql/parser"
	v1 "github.com/prometheus/prometheus/web/api/v1"

	"verif/internal/core"
	"verif/internal/gen"
)

// Violation kinds.
//
// KindScalarTS and KindNegZero fire on the unchanged tree (known findings, /verif/known_findings.jsonl):
//
//   - KindNegZero: jsonutil.MarshalHistogram walks AllBucketIterator, which yields the zero bucket
//     only `if i.h.ZeroCount > 0` (model/histogram/float_histogram.go, allFloatBucketIterator.Next);
//     a histogram with a negative or NaN zero count (h1 - h2, h * NaN) loses that non-empty bucket in
//     the JSON although negative/NaN regular buckets are written.  Proposed repair: `!= 0`.
//   - KindScalarTS: promql.Scalar/String.MarshalJSON write float64(T)/1000; exact only below
//     2^42*1000 ms.  Vectors and matrices go through jsonutil.MarshalTimestamp and are exact.
const (
	KindEncodeErr   = "encode-error"
	KindInvalidJSON = "invalid-json"
	KindShape       = "json-shape"
	KindLabels      = "labels-mismatch"
	KindTimestamp   = "timestamp-mismatch"
	KindFloat       = "float-mismatch"
	KindString      = "string-mismatch"
	KindHistCount   = "histogram-count-sum-mismatch"
	KindBucketRef   = "bucket-mismatch-vs-reference"
	KindBucketIter  = "bucket-mismatch-vs-iterator"
	// Narrow kind: the value is a scalar or string result (timestamp rendered through float64(T)/1000),
	// |T| >= 2^42*1000 ms and the decoded timestamp is within relative 2^-51 of T.
	KindScalarTS = "scalar-timestamp-float64-rounding"
	// Narrow kind: the only bucket of the reference that the JSON lacks is the zero bucket and its
	// count is not greater than zero (negative or NaN), and the JSON has no unexpected bucket.
	KindNegZero = "nonpositive-zero-bucket-dropped"
)

func init() {
	core.Register(&core.Prop{
		ID:        "C51",
		Title:     "Query API JSON encodes values losslessly",
		Level:     "exploration",
		Technique: "round-trip runtime monitor: v1.JSONCodec.Encode output decoded by an independent decoder (encoding/json + big.Rat timestamps + strconv.ParseFloat) and compared with the encoded promql values and a bucket list derived from spans/schema",
		LevelText: "Each case encodes one generated v1.Response (vector, matrix, scalar or string result; float points from hostile classes incl. the 'f'/'e' formatting cut-offs 1e-6 and 1e21 ±1ulp, denormals, ±0, ±Inf, NaN payloads; timestamps over the whole API time range incl. negative ones with ms fractions; native float histograms with schemas -4..8 and custom bounds, gaps, zero buckets, zero/negative/fractional counts) with the real v1.JSONCodec and decodes the bytes with Go's encoding/json. Oracle: valid JSON of the documented shape; timestamp (exact decimal arithmetic, rounded to ms) equals T; float strings parse to the same bits (all NaNs equal); histogram count and sum likewise; the JSON bucket list equals (a) the non-empty buckets computed from spans, schema and custom bounds by the documented formulas (upper bound 2^(idx*2^-schema), positive buckets open-left, negative open-right, zero bucket closed) and (b) bit-exactly the non-empty buckets of AllBucketIterator. Held on the observed values only.",
		LevelNote: "Trusted: encoding/json, math/big and strconv as the independent decoder. Reference bucket bounds are computed with math.Exp2/Ldexp and compared with relative tolerance 1e-14 (the codec's bounds come from a lookup table); bit-exactness is demanded only against the in-memory bucket iterator. Where the zero threshold cuts through a populated bucket both the clamped and the unclamped boundary are accepted; for the first custom bucket (lower bound -Inf) inclusive and exclusive lower bound are both accepted. Bucket order inside the JSON array is not checked. Labels are compared only as a pairing sanity check (valid UTF-8 label sets). Timestamps outside [v1.MinTime, v1.MaxTime] are not generated. Exemplars, stats and error responses are out of scope.",
		DesignRef: "DESIGN.md §5 C51",
		Rule:      "case = one response with 1..24 points; non-trivial iff it was encoded, decoded and at least one float point and one timestamp with a non-zero ms fraction or one histogram with a non-empty bucket was compared; distinct by the encoded bytes",
		Assumptions: []string{
			"'non-empty bucket' means bucket count != 0 (the codec's own comment says empty buckets are not exposed)",
			"a decoder reads <unix_time> as a decimal number of seconds and rounds to the nearest millisecond",
		},
		Cases: func(variant string, tier core.Tier) int {
			if variant != "default" {
				return 0
			}
			if tier == core.Thorough {
				return 300000
			}
			return 6000
		},
		Run:            run,
		MinNontrivial:  func(t core.Tier) int { return 1000 },
		CaseTimeoutSec: 60,
	})
}

// ---------------------------------------------------------------- reporting

type reporter struct {
	c     *core.Case
	other []core.Violation
	known []core.Violation
}

func (rp *reporter) add(kind, format string, args ...any) {
	v := core.Violation{Kind: kind, Detail: fmt.Sprintf(format, args...)}
	if kind == KindScalarTS || kind == KindNegZero {
		rp.known = append(rp.known, v)
		rp.c.Count("hits_"+kind, 1)
	} else {
		rp.other = append(rp.other, v)
	}
}

func (rp *reporter) flush() {
	seen := map[string]int{}
	for _, v := range append(rp.other, rp.known...) {
		if seen[v.Kind] < 2 {
			rp.c.Violatef(v.Kind, "%s", v.Detail)
		}
		seen[v.Kind]++
	}
}

// ---------------------------------------------------------------- generators

var (
	minMs = v1.MinTime.UnixMilli()
	maxMs = v1.MaxTime.UnixMilli()
)

func genTimestamp(r *rand.Rand) (int64, string) {
	var t int64
	var class string
	switch r.IntN(12) {
	case 0:
		t, class = gen.Pick(r, []int64{0, 1, -1, 999, -999, 1000, -1000, 1001, -1001, 10, -10, 100, -100, -1005, -1050, 1005}), "small"
	case 1:
		t, class = -r.Int64N(100000), "negative-small"
	case 2:
		t, class = gen.Pick(r, []int64{minMs, maxMs, minMs + 1, maxMs - 1, minMs + 999, maxMs - 999}), "range-end"
	case 3:
		b := gen.Pick(r, []int64{1 << 53, -(1 << 53), 4398046511104000, -4398046511104000, 1 << 62, -(1 << 62)})
		t, class = b+r.Int64N(4001)-2000, "float-precision-edge"
	case 4:
		t, class = r.Int64N(maxMs), "uniform-range"
		if r.IntN(2) == 0 {
			t = -r.Int64N(-minMs)
		}
	case 5:
		t, class = -r.Int64N(1<<uint(10+r.IntN(50))), "negative-log"
	case 6:
		t, class = r.Int64N(1<<uint(10+r.IntN(50))), "positive-log"
	default:
		t, class = 1_700_000_000_000+r.Int64N(100_000_000_000)-50_000_000_000, "now"
	}
	if t < minMs {
		t = minMs
	}
	if t > maxMs {
		t = maxMs
	}
	return t, class
}

func genFloat(r *rand.Rand) (float64, string) {
	switch r.IntN(10) {
	case 0, 1:
		b := gen.Pick(r, []float64{1e-6, 1e21, 1e-7, 1e20, 1e22, 1e-5, 1, 1e15, 1e16, 1e17, 9007199254740992, 9223372036854775808, 0.1, 1e-320, 1e308})
		switch r.IntN(3) {
		case 0:
			b = math.Nextafter(b, math.Inf(1))
		case 1:
			b = math.Nextafter(b, math.Inf(-1))
		}
		if r.IntN(2) == 0 {
			b = -b
		}
		return b, "cutoff-neighbour"
	case 2:
		return gen.Pick(r, []float64{math.MaxFloat64, -math.MaxFloat64, math.SmallestNonzeroFloat64, -math.SmallestNonzeroFloat64, 2.2250738585072014e-308, 2.225073858507201e-308}), "extreme"
	case 3:
		return math.Pow(10, float64(r.IntN(640)-320)) * float64(1+r.IntN(9)), "power-of-ten"
	case 4:
		return math.Float64frombits(r.Uint64()), "random-bits"
	case 5:
		return float64(r.Int64N(1<<62)) / float64(int64(1)<<uint(r.IntN(62))), "dyadic"
	default:
		return gen.Float(r, true), "hostile"
	}
}

func genCount(r *rand.Rand, mode int) float64 {
	switch mode {
	case 0: // integer-valued, non-negative, zeros
		return float64(r.IntN(6) * r.IntN(50))
	case 1: // fractional
		if r.IntN(4) == 0 {
			return 0
		}
		return float64(r.IntN(100000)) / 64
	case 2: // gauge-like: negative values too
		return float64(r.IntN(200)-100) / 4
	default:
		f, _ := genFloat(r)
		return f
	}
}

func genSpans(r *rand.Rand, first int32, maxBuckets int) ([]histogram.Span, int) {
	var spans []histogram.Span
	n := 0
	ns := r.IntN(4)
	for i := 0; i < ns && n < maxBuckets; i++ {
		l := 1 + r.IntN(4)
		if n+l > maxBuckets {
			l = maxBuckets - n
		}
		off := int32(r.IntN(5))
		if i == 0 {
			off = first
		} else if r.IntN(3) == 0 {
			off = 0 // adjacent spans are legal
		}
		if r.IntN(10) == 0 {
			l = 0 // empty span
		}
		spans = append(spans, histogram.Span{Offset: off, Length: uint32(l)})
		n += l
	}
	return spans, n
}

func genHist(r *rand.Rand) (*histogram.FloatHistogram, string) {
	if r.IntN(4) == 0 {
		return gen.NewAbsHist(r, true).Float(r), "abs-integer"
	}
	mode := r.IntN(4)
	if mode == 3 && r.IntN(3) != 0 {
		mode = 2
	}
	h := &histogram.FloatHistogram{}
	counts := func(n int) []float64 {
		out := make([]float64, n)
		for i := range out {
			out[i] = genCount(r, mode)
		}
		return out
	}
	class := fmt.Sprintf("mode%d", mode)
	if r.IntN(4) == 0 {
		h.Schema = histogram.CustomBucketsSchema
		nb := 1 + r.IntN(6)
		v := float64(r.IntN(2000)-1000) / 8
		if r.IntN(5) == 0 {
			v, _ = genFloat(r)
			if math.IsNaN(v) || math.IsInf(v, 0) {
				v = -1
			}
		}
		for i := 0; i < nb; i++ {
			h.CustomValues = append(h.CustomValues, v)
			nv := v + float64(1+r.IntN(40))/8
			if r.IntN(6) == 0 {
				nv = math.Nextafter(v, math.Inf(1))
			}
			if !(nv > v) || math.IsInf(nv, 0) {
				break
			}
			v = nv
		}
		var n int
		h.PositiveSpans, n = genSpans(r, int32(r.IntN(2)), len(h.CustomValues)+1)
		// keep the spans inside the nb+1 buckets
		total := 0
		for i := range h.PositiveSpans {
			total += int(h.PositiveSpans[i].Offset) + int(h.PositiveSpans[i].Length)
			if total > len(h.CustomValues)+1 {
				h.PositiveSpans = h.PositiveSpans[:i]
				n = 0
				for _, s := range h.PositiveSpans {
					n += int(s.Length)
				}
				break
			}
		}
		h.PositiveBuckets = counts(n)
		class += "-custom"
	} else {
		h.Schema = int32(r.IntN(13) - 4)
		scale := 1
		if h.Schema > 0 {
			scale = 1 << h.Schema
		}
		first := func() int32 {
			switch r.IntN(8) {
			case 0: // far out, still finite and normal
				e := r.IntN(1900) - 950
				if h.Schema >= 0 {
					return int32(e * scale)
				}
				return int32(e >> uint(-h.Schema))
			case 1: // the documented top of the range (last regular bucket / overflow bucket)
				if h.Schema >= 0 {
					return int32(1024*scale - r.IntN(3))
				}
				return int32((1024 >> uint(-h.Schema)) - r.IntN(3))
			default:
				return int32(r.IntN(40*scale+1) - 20*scale)
			}
		}
		var n int
		h.PositiveSpans, n = genSpans(r, first(), 12)
		h.PositiveBuckets = counts(n)
		h.NegativeSpans, n = genSpans(r, first(), 8)
		h.NegativeBuckets = counts(n)
		if r.IntN(3) != 0 {
			h.ZeroThreshold = gen.Pick(r, []float64{0, 1e-128, 2.938735877055719e-39, 0.001, 0.5, 1, 1.5, 1024})
			h.ZeroCount = genCount(r, mode)
		}
	}
	h.Sum, _ = genFloat(r)
	if mode <= 1 {
		for _, c := range h.PositiveBuckets {
			h.Count += c
		}
		for _, c := range h.NegativeBuckets {
			h.Count += c
		}
		h.Count += h.ZeroCount
	} else {
		h.Count = genCount(r, mode)
	}
	return h, class
}

func genLabels(r *rand.Rand) labels.Labels {
	if r.IntN(10) == 0 {
		return labels.EmptyLabels()
	}
	return gen.LabelSet(r, 3)
}

// ---------------------------------------------------------------- reference buckets

type refBucket struct {
	code         int
	lower, upper float64
	altLower     float64 // acceptable alternative (clamping at the zero threshold); NaN if none
	altUpper     float64
	altCode      int // acceptable alternative inclusiveness code, -1 if none
	count        float64
	zero         bool
}

// expBound is the documented upper bound of exponential bucket idx: 2^(idx * 2^-schema), with the
// last regular bucket ending at MaxFloat64 and the overflow bucket at +Inf.
func expBound(idx, schema int32) float64 {
	var e int
	frac := 0.0
	if schema <= 0 {
		e = int(idx) << uint(-schema)
	} else {
		per := int32(1) << uint(schema)
		q := idx / per
		m := idx % per
		if m < 0 {
			m += per
			q--
		}
		e = int(q)
		frac = float64(m) / float64(per)
	}
	if e == 1024 && frac == 0 {
		return math.MaxFloat64
	}
	if e >= 1024 {
		return math.Inf(1)
	}
	return math.Ldexp(math.Exp2(frac), e)
}

func refBuckets(h *histogram.FloatHistogram) []refBucket {
	var out []refBucket
	nan := math.NaN()
	walk := func(spans []histogram.Span, counts []float64, f func(idx int32, c float64)) {
		idx := int32(0)
		j := 0
		for si, s := range spans {
			if si == 0 {
				idx = s.Offset
			} else {
				idx += s.Offset
			}
			for l := uint32(0); l < s.Length; l++ {
				if j < len(counts) {
					f(idx, counts[j])
				}
				j++
				idx++
			}
		}
	}
	if h.Schema == histogram.CustomBucketsSchema {
		cv := h.CustomValues
		walk(h.PositiveSpans, h.PositiveBuckets, func(idx int32, c float64) {
			if c == 0 || idx < 0 || int(idx) > len(cv) {
				return
			}
			b := refBucket{code: 0, lower: math.Inf(-1), upper: math.Inf(1), altLower: nan, altUpper: nan, altCode: -1, count: c}
			if idx > 0 {
				b.lower = cv[idx-1]
			} else {
				b.altCode = 3
			}
			if int(idx) < len(cv) {
				b.upper = cv[idx]
			}
			out = append(out, b)
		})
		return out
	}
	zt := h.ZeroThreshold
	walk(h.NegativeSpans, h.NegativeBuckets, func(idx int32, c float64) {
		if c == 0 {
			return
		}
		b := refBucket{code: 1, lower: -expBound(idx, h.Schema), upper: -expBound(idx-1, h.Schema), altLower: nan, altUpper: nan, altCode: -1, count: c}
		if -b.upper < zt {
			b.altUpper = -zt
		}
		out = append(out, b)
	})
	if h.ZeroCount != 0 {
		out = append(out, refBucket{code: 3, lower: -zt, upper: zt, altLower: nan, altUpper: nan, altCode: -1, count: h.ZeroCount, zero: true})
	}
	walk(h.PositiveSpans, h.PositiveBuckets, func(idx int32, c float64) {
		if c == 0 {
			return
		}
		b := refBucket{code: 0, lower: expBound(idx-1, h.Schema), upper: expBound(idx, h.Schema), altLower: nan, altUpper: nan, altCode: -1, count: c}
		if b.lower < zt {
			b.altLower = zt
		}
		out = append(out, b)
	})
	return out
}

// ---------------------------------------------------------------- independent decoder

type decBucket struct {
	code         int
	lower, upper float64
	count        float64
}

type decHist struct {
	count, sum float64
	buckets    []decBucket
}

type decPoint struct {
	ts   *big.Rat // seconds
	f    *float64
	s    *string
	hist *decHist
}

func sameFloat(a, b float64) bool {
	if math.IsNaN(a) || math.IsNaN(b) {
		return math.IsNaN(a) && math.IsNaN(b)
	}
	return math.Float64bits(a) == math.Float64bits(b)
}

func closeFloat(a, b float64) bool {
	if sameFloat(a, b) {
		return true
	}
	if math.IsInf(a, 0) || math.IsInf(b, 0) || math.IsNaN(a) || math.IsNaN(b) {
		return false
	}
	return math.Abs(a-b) <= 1e-14*math.Max(math.Abs(a), math.Abs(b))
}

func floatFromJSONString(v any) (float64, error) {
	s, ok := v.(string)
	if !ok {
		return 0, fmt.Errorf("expected a JSON string holding a float, got %T %v", v, v)
	}
	return strconv.ParseFloat(s, 64)
}

func tsFromJSON(v any) (*big.Rat, error) {
	n, ok := v.(json.Number)
	if !ok {
		return nil, fmt.Errorf("expected a JSON number as timestamp, got %T %v", v, v)
	}
	rat, ok := new(big.Rat).SetString(string(n))
	if !ok {
		return nil, fmt.Errorf("timestamp %q is not a decimal number", string(n))
	}
	return rat, nil
}

// msOf rounds seconds to the nearest millisecond (half away from zero).
func msOf(sec *big.Rat) *big.Int {
	x := new(big.Rat).Mul(sec, big.NewRat(1000, 1))
	neg := x.Sign() < 0
	if neg {
		x.Neg(x)
	}
	x.Add(x, big.NewRat(1, 2))
	q := new(big.Int).Quo(x.Num(), x.Denom())
	if neg {
		q.Neg(q)
	}
	return q
}

func decodeHist(v any) (*decHist, error) {
	m, ok := v.(map[string]any)
	if !ok {
		return nil, fmt.Errorf("histogram is not an object: %v", v)
	}
	out := &decHist{}
	var err error
	for k := range m {
		if k != "count" && k != "sum" && k != "buckets" {
			return nil, fmt.Errorf("unexpected histogram key %q", k)
		}
	}
	if out.count, err = floatFromJSONString(m["count"]); err != nil {
		return nil, fmt.Errorf("count: %w", err)
	}
	if out.sum, err = floatFromJSONString(m["sum"]); err != nil {
		return nil, fmt.Errorf("sum: %w", err)
	}
	if bs, ok := m["buckets"]; ok {
		arr, ok := bs.([]any)
		if !ok {
			return nil, fmt.Errorf("buckets is not an array")
		}
		for _, b := range arr {
			q, ok := b.([]any)
			if !ok || len(q) != 4 {
				return nil, fmt.Errorf("bucket %v is not a 4-element array", b)
			}
			cn, ok := q[0].(json.Number)
			if !ok {
				return nil, fmt.Errorf("boundary rule %v is not a number", q[0])
			}
			code, err := strconv.Atoi(string(cn))
			if err != nil || code < 0 || code > 3 {
				return nil, fmt.Errorf("boundary rule %q not in 0..3", string(cn))
			}
			d := decBucket{code: code}
			if d.lower, err = floatFromJSONString(q[1]); err != nil {
				return nil, fmt.Errorf("bucket lower: %w", err)
			}
			if d.upper, err = floatFromJSONString(q[2]); err != nil {
				return nil, fmt.Errorf("bucket upper: %w", err)
			}
			if d.count, err = floatFromJSONString(q[3]); err != nil {
				return nil, fmt.Errorf("bucket count: %w", err)
			}
			out.buckets = append(out.buckets, d)
		}
	}
	return out, nil
}

// decodePair decodes `[ts, "float"]`, `[ts, {hist}]` or `[ts, "string"]` (raw=true keeps the string).
func decodePair(v any, hist, raw bool) (decPoint, error) {
	arr, ok := v.([]any)
	if !ok || len(arr) != 2 {
		return decPoint{}, fmt.Errorf("expected a 2-element array, got %v", v)
	}
	ts, err := tsFromJSON(arr[0])
	if err != nil {
		return decPoint{}, err
	}
	p := decPoint{ts: ts}
	switch {
	case hist:
		p.hist, err = decodeHist(arr[1])
	case raw:
		s, ok := arr[1].(string)
		if !ok {
			return p, fmt.Errorf("expected a JSON string, got %T", arr[1])
		}
		p.s = &s
	default:
		var f float64
		f, err = floatFromJSONString(arr[1])
		p.f = &f
	}
	return p, err
}

func decodeLabels(v any) (map[string]string, error) {
	m, ok := v.(map[string]any)
	if !ok {
		return nil, fmt.Errorf("metric is not an object: %v", v)
	}
	out := map[string]string{}
	for k, x := range m {
		s, ok := x.(string)
		if !ok {
			return nil, fmt.Errorf("label value of %q is not a string", k)
		}
		out[k] = s
	}
	return out, nil
}

// ---------------------------------------------------------------- comparison

type checker struct {
	c            *core.Case
	rp           *reporter
	floats       int
	fracTS       int
	histNonEmpty int
	points       int
}

func (ck *checker) ts(where, typ string, want int64, got *big.Rat) {
	ck.points++
	if want%1000 != 0 {
		ck.fracTS++
	}
	ms := msOf(got)
	if ms.IsInt64() && ms.Int64() == want {
		return
	}
	// classify
	if typ == "scalar" || typ == "string" {
		abs := want
		if abs < 0 {
			abs = -abs
		}
		diff := new(big.Int).Sub(ms, big.NewInt(want))
		diff.Abs(diff)
		// |diff| <= |T| * 2^-51
		lim := new(big.Int).Rsh(new(big.Int).Abs(big.NewInt(want)), 51)
		if abs >= 4398046511104000 && diff.Cmp(lim) <= 0 {
			ck.rp.add(KindScalarTS, "%s: %s result timestamp T=%d ms is written as %s which decodes to %s ms (off by %s ms)", where, typ, want, got.FloatString(6), ms.String(), diff.String())
			return
		}
	}
	ck.rp.add(KindTimestamp, "%s: timestamp T=%d ms is written as %s s which decodes to %s ms", where, want, got.FloatString(9), ms.String())
}

func (ck *checker) float(where string, want float64, got float64) {
	ck.floats++
	if !sameFloat(want, got) {
		ck.rp.add(KindFloat, "%s: float %v (bits %016x) decodes to %v (bits %016x)", where, want, math.Float64bits(want), got, math.Float64bits(got))
	}
}

func fmtB(code int, lo, hi, c float64) string {
	return fmt.Sprintf("[%d,%v,%v,%v]", code, lo, hi, c)
}

func (ck *checker) hist(where string, h *histogram.FloatHistogram, got *decHist) {
	if !sameFloat(h.Count, got.count) || !sameFloat(h.Sum, got.sum) {
		ck.rp.add(KindHistCount, "%s: histogram count=%v sum=%v decode to count=%v sum=%v", where, h.Count, h.Sum, got.count, got.sum)
	}
	dec := append([]decBucket(nil), got.buckets...)
	sort.SliceStable(dec, func(i, j int) bool { return lessB(dec[i].lower, dec[i].upper, dec[j].lower, dec[j].upper) })

	// (b) bit-exact against the in-memory iterator
	var it []decBucket
	for bi := h.AllBucketIterator(); bi.Next(); {
		b := bi.At()
		if b.Count == 0 {
			continue
		}
		code := 2
		switch {
		case b.LowerInclusive && b.UpperInclusive:
			code = 3
		case b.LowerInclusive:
			code = 1
		case b.UpperInclusive:
			code = 0
		}
		it = append(it, decBucket{code, b.Lower, b.Upper, b.Count})
	}
	sort.SliceStable(it, func(i, j int) bool { return lessB(it[i].lower, it[i].upper, it[j].lower, it[j].upper) })
	if len(it) != len(dec) {
		ck.rp.add(KindBucketIter, "%s: JSON has %d buckets, AllBucketIterator has %d non-empty buckets; histogram %s", where, len(dec), len(it), h.String())
	} else {
		for i := range it {
			if it[i].code != dec[i].code || !sameFloat(it[i].lower, dec[i].lower) || !sameFloat(it[i].upper, dec[i].upper) || !sameFloat(it[i].count, dec[i].count) {
				ck.rp.add(KindBucketIter, "%s: bucket %d: JSON %s, in-memory iterator %s; histogram %s", where, i, fmtB(dec[i].code, dec[i].lower, dec[i].upper, dec[i].count), fmtB(it[i].code, it[i].lower, it[i].upper, it[i].count), h.String())
				break
			}
		}
	}

	// (a) against the reference computed from spans and schema
	ref := refBuckets(h)
	if len(ref) > 0 {
		ck.histNonEmpty++
	}
	used := make([]bool, len(dec))
	var missing []refBucket
	for _, rb := range ref {
		found := false
		for i, d := range dec {
			if used[i] {
				continue
			}
			if d.code != rb.code && d.code != rb.altCode {
				continue
			}
			if !sameFloat(d.count, rb.count) {
				continue
			}
			if !(closeFloat(d.lower, rb.lower) || (!math.IsNaN(rb.altLower) && closeFloat(d.lower, rb.altLower))) {
				continue
			}
			if !(closeFloat(d.upper, rb.upper) || (!math.IsNaN(rb.altUpper) && closeFloat(d.upper, rb.altUpper))) {
				continue
			}
			used[i] = true
			found = true
			break
		}
		if !found {
			missing = append(missing, rb)
		}
	}
	var extra []decBucket
	for i, d := range dec {
		if !used[i] {
			extra = append(extra, d)
		}
	}
	if len(missing) == 0 && len(extra) == 0 {
		return
	}
	if len(extra) == 0 && len(missing) == 1 && missing[0].zero && !(missing[0].count > 0) {
		ck.rp.add(KindNegZero, "%s: the zero bucket [%v,%v] has count %v (non-empty) but the JSON has no bucket for it; JSON buckets: %d; histogram %s", where, missing[0].lower, missing[0].upper, missing[0].count, len(dec), h.String())
		return
	}
	var sb strings.Builder
	for _, m := range missing {
		fmt.Fprintf(&sb, " missing %s", fmtB(m.code, m.lower, m.upper, m.count))
	}
	for _, x := range extra {
		fmt.Fprintf(&sb, " unexpected %s", fmtB(x.code, x.lower, x.upper, x.count))
	}
	ck.rp.add(KindBucketRef, "%s: JSON buckets differ from the buckets implied by spans/schema:%s; histogram %s", where, sb.String(), h.String())
}

func lessB(l1, u1, l2, u2 float64) bool {
	if l1 != l2 {
		return l1 < l2
	}
	return u1 < u2
}

func (ck *checker) labels(where string, want labels.Labels, got map[string]string) {
	ok := want.Len() == len(got)
	want.Range(func(l labels.Label) {
		if v, has := got[l.Name]; !has || v != l.Value {
			ok = false
		}
	})
	if !ok {
		ck.rp.add(KindLabels, "%s: labels %s decode to %v", where, want.String(), got)
	}
}

// ---------------------------------------------------------------- the case

func run(c *core.Case) {
	rp := &reporter{c: c}
	defer rp.flush()
	r := c.Rng
	ck := &checker{c: c, rp: rp}

	var val parser.Value
	var typ parser.ValueType
	point := func() (int64, float64, *histogram.FloatHistogram) {
		t, tc := genTimestamp(r)
		c.Seen("timestamp_class", tc)
		if r.IntN(3) == 0 {
			h, hc := genHist(r)
			c.Seen("histogram_class", hc)
			return t, 0, h
		}
		f, fc := genFloat(r)
		c.Seen("float_class", fc)
		return t, f, nil
	}
	switch k := r.IntN(10); {
	case k < 4:
		typ = parser.ValueTypeVector
		n := r.IntN(12)
		vec := make(promql.Vector, 0, n)
		for i := 0; i < n; i++ {
			t, f, h := point()
			vec = append(vec, promql.Sample{T: t, F: f, H: h, Metric: genLabels(r)})
		}
		val = vec
	case k < 8:
		typ = parser.ValueTypeMatrix
		n := r.IntN(5)
		mat := make(promql.Matrix, 0, n)
		for i := 0; i < n; i++ {
			s := promql.Series{Metric: genLabels(r)}
			np := r.IntN(8)
			for j := 0; j < np; j++ {
				t, f, h := point()
				if h != nil {
					s.Histograms = append(s.Histograms, promql.HPoint{T: t, H: h})
				} else {
					s.Floats = append(s.Floats, promql.FPoint{T: t, F: f})
				}
			}
			mat = append(mat, s)
		}
		val = mat
	case k < 9:
		typ = parser.ValueTypeScalar
		t, tc := genTimestamp(r)
		c.Seen("timestamp_class", tc)
		f, fc := genFloat(r)
		c.Seen("float_class", fc)
		val = promql.Scalar{T: t, V: f}
	default:
		typ = parser.ValueTypeString
		t, tc := genTimestamp(r)
		c.Seen("timestamp_class", tc)
		val = promql.String{T: t, V: gen.Pick(r, []string{"", "x", "q\"uote", "new\nline", "日本", "<html>&", " ", "\x00\x01"})}
	}
	c.Seen("result_type", string(typ))

	resp := &v1.Response{Status: "success", Data: &v1.QueryData{ResultType: typ, Result: val}}
	raw, err := v1.JSONCodec{}.Encode(resp)
	if err != nil {
		rp.add(KindEncodeErr, "Encode failed for a %s result: %v", typ, err)
		return
	}
	c.Count("encoded_bytes", int64(len(raw)))
	if !utf8.Valid(raw) {
		rp.add(KindInvalidJSON, "encoded response is not valid UTF-8")
	}
	dec := json.NewDecoder(bytes.NewReader(raw))
	dec.UseNumber()
	var top any
	if err := dec.Decode(&top); err != nil {
		rp.add(KindInvalidJSON, "encoding/json cannot decode the response: %v; bytes: %s", err, trunc(raw))
		return
	}
	if dec.More() {
		rp.add(KindInvalidJSON, "trailing data after the JSON document: %s", trunc(raw))
	}
	shape := func(format string, args ...any) {
		rp.add(KindShape, "%s; bytes: %s", fmt.Sprintf(format, args...), trunc(raw))
	}
	obj, ok := top.(map[string]any)
	if !ok || obj["status"] != "success" {
		shape("top level is not {status:success,…}")
		return
	}
	data, ok := obj["data"].(map[string]any)
	if !ok || data["resultType"] != string(typ) {
		shape("data.resultType is not %q", typ)
		return
	}
	res := data["result"]

	switch v := val.(type) {
	case promql.Vector:
		arr, ok := res.([]any)
		if !ok || len(arr) != len(v) {
			shape("vector result: expected an array of %d samples", len(v))
			return
		}
		for i, s := range v {
			where := fmt.Sprintf("vector[%d]", i)
			m, ok := arr[i].(map[string]any)
			if !ok {
				shape("%s is not an object", where)
				continue
			}
			lbl, err := decodeLabels(m["metric"])
			if err != nil {
				shape("%s: %v", where, err)
				continue
			}
			ck.labels(where, s.Metric, lbl)
			key, other := "value", "histogram"
			if s.H != nil {
				key, other = other, key
			}
			if _, has := m[other]; has {
				shape("%s has key %q although the sample is of the other kind", where, other)
			}
			p, err := decodePair(m[key], s.H != nil, false)
			if err != nil {
				shape("%s.%s: %v", where, key, err)
				continue
			}
			ck.ts(where, "vector", s.T, p.ts)
			if s.H != nil {
				ck.hist(where, s.H, p.hist)
			} else {
				ck.float(where, s.F, *p.f)
			}
		}
	case promql.Matrix:
		arr, ok := res.([]any)
		if !ok || len(arr) != len(v) {
			shape("matrix result: expected an array of %d series", len(v))
			return
		}
		for i, s := range v {
			where := fmt.Sprintf("matrix[%d]", i)
			m, ok := arr[i].(map[string]any)
			if !ok {
				shape("%s is not an object", where)
				continue
			}
			lbl, err := decodeLabels(m["metric"])
			if err != nil {
				shape("%s: %v", where, err)
				continue
			}
			ck.labels(where, s.Metric, lbl)
			var vals, hists []any
			if x, has := m["values"]; has {
				if vals, ok = x.([]any); !ok {
					shape("%s.values is not an array", where)
				}
			}
			if x, has := m["histograms"]; has {
				if hists, ok = x.([]any); !ok {
					shape("%s.histograms is not an array", where)
				}
			}
			if len(vals) != len(s.Floats) || len(hists) != len(s.Histograms) {
				shape("%s: %d values and %d histograms in JSON, series has %d and %d", where, len(vals), len(hists), len(s.Floats), len(s.Histograms))
				continue
			}
			for j, fp := range s.Floats {
				w := fmt.Sprintf("%s.values[%d]", where, j)
				p, err := decodePair(vals[j], false, false)
				if err != nil {
					shape("%s: %v", w, err)
					continue
				}
				ck.ts(w, "matrix", fp.T, p.ts)
				ck.float(w, fp.F, *p.f)
			}
			for j, hp := range s.Histograms {
				w := fmt.Sprintf("%s.histograms[%d]", where, j)
				p, err := decodePair(hists[j], true, false)
				if err != nil {
					shape("%s: %v", w, err)
					continue
				}
				ck.ts(w, "matrix", hp.T, p.ts)
				ck.hist(w, hp.H, p.hist)
			}
		}
	case promql.Scalar:
		p, err := decodePair(res, false, false)
		if err != nil {
			shape("scalar: %v", err)
			return
		}
		ck.ts("scalar", "scalar", v.T, p.ts)
		ck.float("scalar", v.V, *p.f)
	case promql.String:
		p, err := decodePair(res, false, true)
		if err != nil {
			shape("string: %v", err)
			return
		}
		ck.ts("string", "string", v.T, p.ts)
		want := strings.ToValidUTF8(v.V, "�")
		if *p.s != want {
			rp.add(KindString, "string result %q decodes to %q", v.V, *p.s)
		}
	}

	c.Count("points_compared", int64(ck.points))
	c.Count("floats_compared", int64(ck.floats))
	c.Count("timestamps_with_ms_fraction", int64(ck.fracTS))
	c.Count("histograms_with_nonempty_bucket", int64(ck.histNonEmpty))
	if (ck.floats > 0 && ck.fracTS > 0) || ck.histNonEmpty > 0 {
		c.Nontrivial(string(raw))
	}
	if c.Idx < 3 {
		c.Sample(map[string]any{"result_type": string(typ), "json": trunc(raw), "points": ck.points})
	}
}

func trunc(b []byte) string {
	if len(b) > 1500 {
		return string(b[:1500]) + "…"
	}
	return string(b)
}
