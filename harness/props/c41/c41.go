// Package c41: remote-write receivers (protocol 1.0 and 2.0) store exactly the valid samples and
// exemplars they are sent, and the written counts they report equal what was stored; write
// requests round-trip through the wire codecs.
package c41

import (
	"bytes"
	"context"
	"fmt"
	"math"
	"math/rand/v2"
	"net/http"
	"net/http/httptest"
	"sort"
	"strconv"
	"strings"

	"github.com/golang/snappy"
	remoteapi "github.com/prometheus/client_golang/exp/api/remote"
	"github.com/prometheus/common/model"

	"github.com/prometheus/prometheus/model/exemplar"
	"github.com/prometheus/prometheus/model/histogram"
	"github.com/prometheus/prometheus/model/labels"
	"github.com/prometheus/prometheus/prompb"
	writev2 "github.com/prometheus/prometheus/prompb/io/prometheus/write/v2"
	"github.com/prometheus/prometheus/storage/remote"
	"github.com/prometheus/prometheus/tsdb"

	"verif/internal/core"
	"verif/internal/gen"
	"verif/internal/tsdbx"
)

// Narrow kinds of the expected findings.
const (
	// v2: reported written samples/histograms exceed the stored delta exactly by the number of
	// samples that are out of order or duplicate only with respect to EARLIER SAMPLES OF THE SAME
	// REQUEST AND SERIES (they would be valid against the previously stored data); the stored
	// delta itself is exactly the valid samples.
	kindIntraRequest = "v2-written-count-exceeds-stored-by-samples-out-of-order-or-duplicate-within-same-request-and-series"
	// the same mechanism for exemplars (validated at append time against committed exemplars only)
	kindIntraRequestEx = "v2-written-exemplars-exceed-stored-by-exemplars-out-of-order-within-same-request-and-series"
	// 1.0 handler appends the exemplars of a series entry BEFORE its histograms; for a native
	// histogram series that does not exist yet AppendExemplar fails (unknown series) and the
	// exemplars are dropped although the request is answered 2xx.  Predicate: 1.0, 2xx, the stored
	// exemplars equal the reference computed WITHOUT the exemplars of entries that are the first
	// entry of a histogram series without stored samples; everything else as expected.
	kindV1ExemplarOrder = "v1-exemplars-of-new-native-histogram-series-dropped"
	// 2.0 with start-timestamp ingestion: the synthetic zero sample of a REJECTED sample is appended
	// anyway and shadows a later valid sample of the same request and series.  Predicate: every
	// missing valid sample has a timestamp <= a start timestamp declared by an earlier sample of the
	// same request and series which the reference classifies as invalid; everything else equal.
	kindSTShadow = "v2-valid-sample-shadowed-by-start-timestamp-zero-sample-of-rejected-sample"
	// codec: -0 in a double field is not encoded (gogo `v != 0` test) and decodes as +0
	kindCodecNegZero = "codec-negative-zero-double-decodes-as-positive-zero"
)

func init() {
	core.Register(&core.Prop{
		ID:        "C41",
		Title:     "Remote write receivers store exactly what they report as written",
		Level:     "exploration",
		Technique: "runtime monitor of remote.NewWriteHandler in front of a real tsdb.DB: statement-derived reference validation per request, stored delta (querier + exemplar querier) vs. status and written-count headers; codec round trip of every generated request",
		LevelText: "Per case a fresh tsdb.DB (exemplar storage on, no out-of-order window) receives 5 (quick) / 8 (thorough) generated snappy-framed requests through remote.NewWriteHandler (protocol 1.0 prompb.WriteRequest and 2.0 writev2.Request with a real symbol table, Marshal and OptimizedMarshal), optionally with start-timestamp zero-sample ingestion and metadata appending. Requests mix valid series (floats incl. NaN payloads and stale markers, integer/float/custom-bucket histograms, exemplars, metadata, unsorted label order, one label set split over two series entries) with invalid ones (no metric name, duplicate label names, invalid UTF-8, empty label name, label/metadata/exemplar symbol references outside the table, odd reference count, series without samples, invalid histograms) and with samples that are out of order, duplicate-timestamp or exact duplicates relative to stored data or to earlier samples of the same request. A reference classifies every sample (valid / invalid against stored data / invalid only within the request / exact duplicate) from the documented in-order rules. Oracle: the stored delta (full querier dump and exemplar dump before/after) is exactly the valid samples and exemplars under the decoded (sorted) label sets, nothing of an invalid series or sample is stored; 2.0: status 204 iff nothing was rejected, else 400, never 5xx, and the Samples/Histograms/Exemplars-Written headers equal the stored delta; 1.0: either 2xx with exactly the valid samples stored or 4xx with nothing stored. Every request is also decoded again from its bytes and compared field by field (labels via symbol table, timestamps, start timestamps, bitwise values, histograms, exemplars, metadata). Held on the observed requests only.",
		LevelNote: "Trusted: the tsdb querier/exemplar querier as the observer of what is stored. Reductions (oracle ladder): exact duplicates (same timestamp, same value as the newest sample) may or may not be counted and may give either status; with start-timestamp ingestion extra stored samples are allowed exactly at declared start timestamps (their acceptance rules are not modelled) and the reference's per-series state is re-synchronised from the observed dump after every judged request; for 1.0 a request with invalid items may be answered 2xx (valid part stored) or 4xx (nothing stored), the statement gives no counts there; exemplar timestamps are strictly increasing, exact duplicates or strictly older only (equal-timestamp ordering rules are not modelled); a float series never mixes sample types; type/unit label injection, OOO time window > 0, timestamps > now+10min and stored metadata are not driven; all timestamps lie in the past inside one hour so that head bounds never interfere. Five mechanisms fire on the unchanged tree and are reported under their own narrow kinds (FINDINGS.txt): 2.0 written counts taken at append time (samples/histograms, exemplars), a valid sample shadowed by the start-timestamp zero sample of a rejected sample (such samples are optional in the reference), 1.0 exemplars of a not yet existing native-histogram series dropped (accepted alternative per series entry), -0 doubles decoded as +0 (sent only in one extra codec-only request per case); exemplars are only generated for entries whose series has a valid sample stored before or in the same request.",
		DesignRef: "DESIGN.md §5 C41, §10 item 14",
		Rule:      "case = one DB + 5/8 generated requests; a request is non-trivial iff it carried at least one valid sample that had to be stored and the response was compared with the stored delta; distinct by (case, request index, protocol, request rendering hash)",
		Cases: func(variant string, tier core.Tier) int {
			if variant != "default" {
				return 0
			}
			if tier == core.Thorough {
				return 12000
			}
			return 600
		},
		Run:            run,
		MinNontrivial:  func(t core.Tier) int { return 1000 },
		CaseTimeoutSec: 300,
	})
}

// ---------------------------------------------------------------- request specification

type sampleSpec struct {
	t, st int64
	kind  string // f | h | fh
	f     float64
	h     *histogram.Histogram
	fh    *histogram.FloatHistogram
	bad   bool // deliberately invalid histogram
}

func (s sampleSpec) obs() tsdbx.Sample {
	return tsdbx.Sample{T: s.t, Kind: s.kind, F: s.f, H: s.h, FH: s.fh}
}

type exSpec struct {
	ls      labels.Labels
	v       float64
	ts      int64
	badRefs bool // v2 only: label refs outside of the symbol table
	tooLong bool
}

type metaSpec struct {
	typ        model.MetricType
	help, unit string
	badRef     bool // v2 only
}

type entrySpec struct {
	raw       []labels.Label // as sent (order and repetitions preserved)
	invalid   string         // "" or the reason the series entry must be rejected as a whole
	oddRefs   bool           // v2: odd number of label refs
	badRefs   bool           // v2: label ref outside of the symbol table
	kind      string
	samples   []sampleSpec
	exemplars []exSpec
	meta      metaSpec
}

func (e entrySpec) sortedLabels() labels.Labels {
	b := labels.NewScratchBuilder(len(e.raw))
	for _, l := range e.raw {
		b.Add(l.Name, l.Value)
	}
	b.Sort()
	return b.Labels()
}

type seriesState struct {
	ls      labels.Labels
	kind    string
	prev    *gen.AbsHist
	maxT    int64 // newest stored sample (math.MinInt64 = none)
	maxKey  string
	exMaxTs int64
	exLast  *exemplar.Exemplar
}

// ---------------------------------------------------------------- encoding

func encodeV1(es []entrySpec) *prompb.WriteRequest {
	req := &prompb.WriteRequest{}
	for _, e := range es {
		ts := prompb.TimeSeries{}
		for _, l := range e.raw {
			ts.Labels = append(ts.Labels, prompb.Label{Name: l.Name, Value: l.Value})
		}
		for _, s := range e.samples {
			switch s.kind {
			case "f":
				ts.Samples = append(ts.Samples, prompb.Sample{Timestamp: s.t, Value: s.f})
			case "h":
				ts.Histograms = append(ts.Histograms, prompb.FromIntHistogram(s.t, s.h))
			case "fh":
				ts.Histograms = append(ts.Histograms, prompb.FromFloatHistogram(s.t, s.fh))
			}
		}
		for _, x := range e.exemplars {
			ts.Exemplars = append(ts.Exemplars, prompb.Exemplar{Labels: prompb.FromLabels(x.ls, nil), Value: x.v, Timestamp: x.ts})
		}
		req.Timeseries = append(req.Timeseries, ts)
		if e.meta.typ != "" {
			name := ""
			for _, l := range e.raw {
				if l.Name == "__name__" {
					name = l.Value
				}
			}
			req.Metadata = append(req.Metadata, prompb.MetricMetadata{Type: prompb.FromMetadataType(e.meta.typ), MetricFamilyName: name, Help: e.meta.help, Unit: e.meta.unit})
		}
	}
	return req
}

func encodeV2(es []entrySpec, r *rand.Rand) *writev2.Request {
	st := writev2.NewSymbolTable()
	req := &writev2.Request{}
	const outside = 1 << 20
	for _, e := range es {
		ts := writev2.TimeSeries{}
		for _, l := range e.raw {
			ts.LabelsRefs = append(ts.LabelsRefs, st.Symbolize(l.Name), st.Symbolize(l.Value))
		}
		if e.oddRefs {
			ts.LabelsRefs = append(ts.LabelsRefs, st.Symbolize("odd"))
		}
		if e.badRefs {
			ts.LabelsRefs[r.IntN(len(ts.LabelsRefs))] = outside + uint32(r.IntN(5))
		}
		for _, s := range e.samples {
			switch s.kind {
			case "f":
				ts.Samples = append(ts.Samples, writev2.Sample{Timestamp: s.t, Value: s.f, StartTimestamp: s.st})
			case "h":
				ts.Histograms = append(ts.Histograms, writev2.FromIntHistogram(s.st, s.t, s.h))
			case "fh":
				ts.Histograms = append(ts.Histograms, writev2.FromFloatHistogram(s.st, s.t, s.fh))
			}
		}
		for _, x := range e.exemplars {
			ex := writev2.Exemplar{Value: x.v, Timestamp: x.ts}
			ex.LabelsRefs = st.SymbolizeLabels(x.ls, nil)
			if x.badRefs {
				ex.LabelsRefs = append(ex.LabelsRefs, outside, outside+1)
			}
			ts.Exemplars = append(ts.Exemplars, ex)
		}
		ts.Metadata = writev2.Metadata{Type: writev2.FromMetadataType(e.meta.typ), HelpRef: st.Symbolize(e.meta.help), UnitRef: st.Symbolize(e.meta.unit)}
		if e.meta.badRef {
			ts.Metadata.HelpRef = outside
		}
		req.Timeseries = append(req.Timeseries, ts)
	}
	req.Symbols = st.Symbols()
	return req
}

// ---------------------------------------------------------------- codec round trip

func f64eq(a, b float64) bool { return math.Float64bits(a) == math.Float64bits(b) }

type rtDiff struct {
	other   []string // real differences
	negZero int      // -0 sent, +0 decoded
}

func (d *rtDiff) float(what string, sent, got float64) {
	if f64eq(sent, got) {
		return
	}
	if math.Float64bits(sent) == 1<<63 && math.Float64bits(got) == 0 {
		d.negZero++
		return
	}
	d.other = append(d.other, fmt.Sprintf("%s: sent %x decoded %x", what, math.Float64bits(sent), math.Float64bits(got)))
}

func (d *rtDiff) add(format string, a ...any) {
	if len(d.other) < 6 {
		d.other = append(d.other, fmt.Sprintf(format, a...))
	}
}

func cmpIntHist(d *rtDiff, what string, sent, got *histogram.Histogram) {
	if got == nil {
		d.add("%s: decoded as nil", what)
		return
	}
	a, b := sent.Copy(), got.Copy()
	d.float(what+".sum", a.Sum, b.Sum)
	d.float(what+".zero_threshold", a.ZeroThreshold, b.ZeroThreshold)
	a.Sum, b.Sum, a.ZeroThreshold, b.ZeroThreshold = 0, 0, 0, 0
	for i := range a.CustomValues {
		if i < len(b.CustomValues) {
			d.float(what+".custom_value", a.CustomValues[i], b.CustomValues[i])
		}
	}
	if len(a.CustomValues) != len(b.CustomValues) {
		d.add("%s: %d custom values decoded as %d", what, len(a.CustomValues), len(b.CustomValues))
	}
	a.CustomValues, b.CustomValues = nil, nil
	if a.CounterResetHint != b.CounterResetHint {
		d.add("%s: reset hint %d decoded as %d", what, a.CounterResetHint, b.CounterResetHint)
	}
	if !a.Equals(b) {
		d.add("%s: sent %s decoded %s", what, a, b)
	}
}

func cmpFloatHist(d *rtDiff, what string, sent, got *histogram.FloatHistogram) {
	if got == nil {
		d.add("%s: decoded as nil", what)
		return
	}
	a, b := sent.Copy(), got.Copy()
	d.float(what+".sum", a.Sum, b.Sum)
	d.float(what+".zero_threshold", a.ZeroThreshold, b.ZeroThreshold)
	d.float(what+".zero_count", a.ZeroCount, b.ZeroCount)
	d.float(what+".count", a.Count, b.Count)
	a.Sum, b.Sum, a.ZeroThreshold, b.ZeroThreshold, a.ZeroCount, b.ZeroCount, a.Count, b.Count = 0, 0, 0, 0, 0, 0, 0, 0
	if len(a.CustomValues) != len(b.CustomValues) {
		d.add("%s: %d custom values decoded as %d", what, len(a.CustomValues), len(b.CustomValues))
	} else {
		for i := range a.CustomValues {
			d.float(what+".custom_value", a.CustomValues[i], b.CustomValues[i])
		}
	}
	a.CustomValues, b.CustomValues = nil, nil
	if len(a.PositiveBuckets) == len(b.PositiveBuckets) && len(a.NegativeBuckets) == len(b.NegativeBuckets) {
		for i := range a.PositiveBuckets {
			d.float(what+".positive_count", a.PositiveBuckets[i], b.PositiveBuckets[i])
			a.PositiveBuckets[i], b.PositiveBuckets[i] = 0, 0
		}
		for i := range a.NegativeBuckets {
			d.float(what+".negative_count", a.NegativeBuckets[i], b.NegativeBuckets[i])
			a.NegativeBuckets[i], b.NegativeBuckets[i] = 0, 0
		}
	}
	if a.CounterResetHint != b.CounterResetHint {
		d.add("%s: reset hint %d decoded as %d", what, a.CounterResetHint, b.CounterResetHint)
	}
	if !a.Equals(b) {
		d.add("%s: sent %s decoded %s", what, a, b)
	}
}

func cmpExemplar(d *rtDiff, what string, x exSpec, got exemplar.Exemplar) {
	if !labels.Equal(got.Labels, x.ls) {
		d.add("%s: labels sent %s decoded %s", what, x.ls, got.Labels)
	}
	d.float(what+".value", x.v, got.Value)
	if got.Ts != x.ts || got.HasTs != (x.ts != 0) {
		d.add("%s: timestamp sent %d decoded %d hasTs=%v", what, x.ts, got.Ts, got.HasTs)
	}
}

// roundTripV1 decodes the wire bytes again and compares them with the specification.
func roundTripV1(es []entrySpec, wire []byte) *rtDiff {
	d := &rtDiff{}
	var req prompb.WriteRequest
	if err := req.Unmarshal(wire); err != nil {
		d.add("unmarshal: %v", err)
		return d
	}
	if len(req.Timeseries) != len(es) {
		d.add("%d series sent, %d decoded", len(es), len(req.Timeseries))
		return d
	}
	b := labels.NewScratchBuilder(0)
	mi := 0
	for i, e := range es {
		ts := req.Timeseries[i]
		what := fmt.Sprintf("series[%d]", i)
		if got := ts.ToLabels(&b, nil); !labels.Equal(got, e.sortedLabels()) {
			d.add("%s: labels sent %s decoded %s", what, e.sortedLabels(), got)
		}
		si, hi := 0, 0
		for j, s := range e.samples {
			w := fmt.Sprintf("%s.sample[%d]", what, j)
			switch s.kind {
			case "f":
				if si >= len(ts.Samples) {
					d.add("%s missing", w)
					continue
				}
				g := ts.Samples[si]
				si++
				if g.Timestamp != s.t {
					d.add("%s: t sent %d decoded %d", w, s.t, g.Timestamp)
				}
				d.float(w+".value", s.f, g.Value)
			default:
				if hi >= len(ts.Histograms) {
					d.add("%s missing", w)
					continue
				}
				g := ts.Histograms[hi]
				hi++
				if g.Timestamp != s.t {
					d.add("%s: t sent %d decoded %d", w, s.t, g.Timestamp)
				}
				if g.IsFloatHistogram() != (s.kind == "fh") {
					d.add("%s: float-ness changed", w)
					continue
				}
				if s.kind == "h" {
					cmpIntHist(d, w, s.h, g.ToIntHistogram())
				} else {
					cmpFloatHist(d, w, s.fh, g.ToFloatHistogram())
				}
			}
		}
		if si != len(ts.Samples) || hi != len(ts.Histograms) {
			d.add("%s: extra samples decoded", what)
		}
		if len(ts.Exemplars) != len(e.exemplars) {
			d.add("%s: %d exemplars sent, %d decoded", what, len(e.exemplars), len(ts.Exemplars))
		} else {
			for j, x := range e.exemplars {
				cmpExemplar(d, fmt.Sprintf("%s.exemplar[%d]", what, j), x, ts.Exemplars[j].ToExemplar(&b, nil))
			}
		}
		if e.meta.typ != "" {
			if mi >= len(req.Metadata) {
				d.add("%s: metadata missing", what)
				continue
			}
			m := req.Metadata[mi]
			mi++
			if m.Type != prompb.FromMetadataType(e.meta.typ) || m.Help != e.meta.help || m.Unit != e.meta.unit {
				d.add("%s: metadata sent %+v decoded %v/%q/%q", what, e.meta, m.Type, m.Help, m.Unit)
			}
		}
	}
	return d
}

func roundTripV2(es []entrySpec, wire []byte) *rtDiff {
	d := &rtDiff{}
	var req writev2.Request
	if err := req.Unmarshal(wire); err != nil {
		d.add("unmarshal: %v", err)
		return d
	}
	if len(req.Timeseries) != len(es) {
		d.add("%d series sent, %d decoded", len(es), len(req.Timeseries))
		return d
	}
	b := labels.NewScratchBuilder(0)
	for i, e := range es {
		ts := req.Timeseries[i]
		what := fmt.Sprintf("series[%d]", i)
		got, err := ts.ToLabels(&b, req.Symbols)
		switch {
		case e.oddRefs || e.badRefs:
			if err == nil {
				d.add("%s: broken label references decoded without error to %s", what, got)
			}
		case err != nil:
			d.add("%s: ToLabels: %v", what, err)
		case !labels.Equal(got, e.sortedLabels()):
			d.add("%s: labels sent %s decoded %s", what, e.sortedLabels(), got)
		}
		si, hi := 0, 0
		for j, s := range e.samples {
			w := fmt.Sprintf("%s.sample[%d]", what, j)
			switch s.kind {
			case "f":
				if si >= len(ts.Samples) {
					d.add("%s missing", w)
					continue
				}
				g := ts.Samples[si]
				si++
				if g.Timestamp != s.t || g.StartTimestamp != s.st {
					d.add("%s: t/st sent %d/%d decoded %d/%d", w, s.t, s.st, g.Timestamp, g.StartTimestamp)
				}
				d.float(w+".value", s.f, g.Value)
			default:
				if hi >= len(ts.Histograms) {
					d.add("%s missing", w)
					continue
				}
				g := ts.Histograms[hi]
				hi++
				if g.Timestamp != s.t || g.StartTimestamp != s.st {
					d.add("%s: t/st sent %d/%d decoded %d/%d", w, s.t, s.st, g.Timestamp, g.StartTimestamp)
				}
				if g.IsFloatHistogram() != (s.kind == "fh") {
					d.add("%s: float-ness changed", w)
					continue
				}
				if s.kind == "h" {
					cmpIntHist(d, w, s.h, g.ToIntHistogram())
				} else {
					cmpFloatHist(d, w, s.fh, g.ToFloatHistogram())
				}
			}
		}
		if si != len(ts.Samples) || hi != len(ts.Histograms) {
			d.add("%s: extra samples decoded", what)
		}
		if len(ts.Exemplars) != len(e.exemplars) {
			d.add("%s: %d exemplars sent, %d decoded", what, len(e.exemplars), len(ts.Exemplars))
		} else {
			for j, x := range e.exemplars {
				ge, err := ts.Exemplars[j].ToExemplar(&b, req.Symbols)
				w := fmt.Sprintf("%s.exemplar[%d]", what, j)
				if x.badRefs {
					if err == nil {
						d.add("%s: broken references decoded without error", w)
					}
					continue
				}
				if err != nil {
					d.add("%s: %v", w, err)
					continue
				}
				cmpExemplar(d, w, x, ge)
			}
		}
		m, err := ts.ToMetadata(req.Symbols)
		switch {
		case e.meta.badRef:
			if err == nil {
				d.add("%s: broken metadata reference decoded without error", what)
			}
		case err != nil:
			d.add("%s: ToMetadata: %v", what, err)
		default:
			wantT := e.meta.typ
			if wantT == "" {
				wantT = model.MetricTypeUnknown
			}
			if m.Type != wantT || m.Help != e.meta.help || m.Unit != e.meta.unit {
				d.add("%s: metadata sent %+v decoded %+v", what, e.meta, m)
			}
		}
	}
	return d
}

// ---------------------------------------------------------------- generation

var metaTypes = []model.MetricType{model.MetricTypeCounter, model.MetricTypeGauge, model.MetricTypeHistogram, model.MetricTypeGaugeHistogram, model.MetricTypeSummary, model.MetricTypeInfo, model.MetricTypeStateset, model.MetricTypeUnknown}

func genMeta(r *rand.Rand, v2 bool) metaSpec {
	if r.IntN(3) == 0 {
		if v2 {
			return metaSpec{typ: model.MetricTypeUnknown}
		}
		return metaSpec{}
	}
	return metaSpec{typ: gen.Pick(r, metaTypes), help: gen.Pick(r, []string{"", "help text", "日本 \"q\"\n"}), unit: gen.Pick(r, []string{"", "seconds", "bytes"})}
}

func nextValue(r *rand.Rand, st *seriesState, codecOnly bool) sampleSpec {
	switch st.kind {
	case "f":
		v := gen.Float(r, true)
		if !codecOnly && math.Float64bits(v) == 1<<63 {
			v = 0 // -0 is exercised by the codec-only requests (kindCodecNegZero)
		}
		return sampleSpec{kind: "f", f: v}
	default:
		for tries := 0; ; tries++ {
			if st.prev == nil || gen.Chance(r, 10) {
				st.prev = gen.NewAbsHist(r, true)
			} else {
				st.prev = st.prev.Mutate(r)
			}
			a := st.prev.Clone()
			switch r.IntN(12) {
			case 0:
				a.Sum = math.NaN()
			case 1:
				a.Sum = math.Inf(1)
			case 2:
				if codecOnly {
					a.Sum = math.Copysign(0, -1)
				}
			case 3:
				a.Sum = -a.Sum
			}
			if st.kind == "h" {
				h := a.Int(r)
				if r.IntN(10) == 0 {
					h.CounterResetHint = histogram.CounterReset
				}
				if h.Validate() == nil {
					return sampleSpec{kind: "h", h: h}
				}
			} else {
				fh := a.Float(r)
				if fh.Validate() == nil {
					return sampleSpec{kind: "fh", fh: fh}
				}
			}
			if tries > 20 {
				st.prev = nil
			}
		}
	}
}

func differentValue(r *rand.Rand, st *seriesState, s sampleSpec) sampleSpec {
	for i := 0; i < 50; i++ {
		n := nextValue(r, st, false)
		if n.obs().ValKey() != s.obs().ValKey() {
			return n
		}
	}
	return sampleSpec{kind: "f", f: 12345.5}
}

func breakHistogram(r *rand.Rand, s sampleSpec) sampleSpec {
	s.bad = true
	if r.IntN(3) == 0 {
		// a schema of the reserved range below the valid ones (-9..-5): known to the format, not
		// storable, and - unlike the reserved range above - not reducible to a valid resolution
		sch := int32(-5 - r.IntN(5))
		if s.kind == "h" && s.h.Schema != histogram.CustomBucketsSchema {
			h := s.h.Copy()
			h.Schema = sch
			s.h = h
			return s
		}
		if s.kind != "h" && s.fh.Schema != histogram.CustomBucketsSchema {
			fh := s.fh.Copy()
			fh.Schema = sch
			s.fh = fh
			return s
		}
	}
	if s.kind == "h" {
		h := s.h.Copy()
		if r.IntN(2) == 0 || math.IsNaN(h.Sum) {
			h.PositiveSpans = append(h.PositiveSpans, histogram.Span{Offset: 1, Length: 3}) // spans need more buckets than present
		} else {
			h.Count += 7 // observation count mismatch
		}
		s.h = h
	} else {
		fh := s.fh.Copy()
		fh.PositiveSpans = append(fh.PositiveSpans, histogram.Span{Offset: 1, Length: 3})
		s.fh = fh
	}
	return s
}

var invalidSeriesKinds = []string{"no-name", "dup-label", "bad-utf8-value", "bad-utf8-name", "empty-name", "empty-metric-name"}

func genInvalidRaw(r *rand.Rand, why string) []labels.Label {
	base := []labels.Label{{Name: "__name__", Value: "bad_series"}, {Name: "job", Value: "x"}, {Name: "why", Value: why}}
	switch why {
	case "no-name":
		return base[1:]
	case "dup-label":
		return append(base, labels.Label{Name: "job", Value: gen.Pick(r, []string{"x", "y"})})
	case "bad-utf8-value":
		return append(base, labels.Label{Name: "v", Value: "a\xffb"})
	case "bad-utf8-name":
		return append(base, labels.Label{Name: "n\xff", Value: "v"})
	case "empty-name":
		return append(base, labels.Label{Name: "", Value: "v"})
	case "empty-metric-name":
		base[0].Value = ""
		return base
	}
	return base
}

// ---------------------------------------------------------------- exemplar reference

type exItem struct {
	entry int
	x     exSpec
}

// classifyEx applies the in-order exemplar rules (strictly newer = valid, identical to the newest =
// exact duplicate, strictly older = out of order; equal timestamps with different content are never
// generated) to the exemplars of one series in request order.
func classifyEx(committedMax int64, committedLast *exemplar.Exemplar, items []exItem, skip map[int]bool) (stored []exObs, cc classCount, rejected, silent int) {
	runMax, runLast := committedMax, committedLast
	for _, it := range items {
		if skip[it.entry] {
			continue
		}
		x := it.x
		cur := exemplar.Exemplar{Labels: x.ls, Value: x.v, Ts: x.ts, HasTs: true}
		storedPasses := committedMax == math.MinInt64 || x.ts > committedMax || (committedLast != nil && committedLast.Equals(cur))
		switch {
		case x.badRefs:
			cc.detect++
			rejected++
		case x.tooLong:
			silent++
		case runMax == math.MinInt64 || x.ts > runMax:
			cc.valid++
			runMax = x.ts
			cp := cur
			runLast = &cp
			stored = append(stored, exObs{ls: x.ls, v: x.v, ts: x.ts})
		case runLast != nil && runLast.Equals(cur):
			cc.dup++
		case storedPasses:
			cc.intra++
		default:
			cc.detect++
			rejected++
		}
	}
	return stored, cc, rejected, silent
}

// ---------------------------------------------------------------- observation

type exObs struct {
	ls labels.Labels
	v  float64
	ts int64
}

func (e exObs) String() string {
	return fmt.Sprintf("%s %x @%d", e.ls, math.Float64bits(e.v), e.ts)
}

func dumpAll(db *tsdb.DB) (tsdbx.Dump, map[string][]exObs, error) {
	q, err := db.Querier(math.MinInt64, math.MaxInt64)
	if err != nil {
		return nil, nil, err
	}
	defer q.Close()
	d, _, err := tsdbx.DumpQuerier(q)
	if err != nil {
		return nil, nil, err
	}
	eq, err := db.ExemplarQuerier(context.Background())
	if err != nil {
		return nil, nil, err
	}
	res, err := eq.Select(math.MinInt64, math.MaxInt64, []*labels.Matcher{tsdbx.MatchAll()})
	if err != nil {
		return nil, nil, err
	}
	ex := map[string][]exObs{}
	for _, qr := range res {
		k := qr.SeriesLabels.String()
		for _, e := range qr.Exemplars {
			ex[k] = append(ex[k], exObs{ls: e.Labels, v: e.Value, ts: e.Ts})
		}
	}
	return d, ex, nil
}

// ---------------------------------------------------------------- run

type classCount struct{ valid, dup, intra, detect, cand int }

func run(c *core.Case) {
	r := c.Rng
	dir := c.TempDir()
	opts := tsdb.DefaultOptions()
	opts.NoLockfile = true
	opts.EnableExemplarStorage = true
	opts.MaxExemplars = 100000
	db, err := tsdb.Open(dir, tsdbx.NopLogger(), nil, opts, nil)
	core.Must(err, "tsdb.Open")
	defer db.Close()
	db.DisableCompactions()

	ingestST := r.IntN(4) == 0
	appendMeta := r.IntN(2) == 0
	h := remote.NewWriteHandler(tsdbx.NopLogger(), nil, db, remoteapi.MessageTypes{remoteapi.WriteV1MessageType, remoteapi.WriteV2MessageType}, ingestST, false, appendMeta)
	c.Seen("handler_flags", fmt.Sprintf("ingestST=%v appendMetadata=%v", ingestST, appendMeta))

	// series pool
	nSeries := 3 + r.IntN(5)
	var pool []*seriesState
	for i, ls := range gen.SeriesSet(r, nSeries) {
		b := labels.NewBuilder(ls)
		b.Del("long")
		b.Set("idx", strconv.Itoa(i)) // keep the pool's label sets distinct from the invalid ones
		pool = append(pool, &seriesState{ls: b.Labels(), kind: gen.Pick(r, []string{"f", "f", "h", "fh"}), maxT: math.MinInt64, exMaxTs: math.MinInt64})
	}
	base := int64(1_600_000_000_000) + int64(r.IntN(1_000_000))
	clock := base

	nReq := 5
	if c.Tier == core.Thorough {
		nReq = 8
	}
	before, exBefore, err := dumpAll(db)
	core.Must(err, "initial dump")
	var samples []any
	for ri := 0; ri <= nReq; ri++ {
		codecOnly := ri == nReq // the last request is only encoded and decoded (may contain -0)
		v2 := r.IntN(3) != 0
		proto := "v1"
		if v2 {
			proto = "v2"
		}
		// ---------------- build the request and classify it with the reference
		var es []entrySpec
		nEntries := 1 + r.IntN(6)
		run := map[string]*seriesState{} // running reference state per decoded label set
		cls := map[string]*classCount{"f": {}, "h": {}}
		exCls := classCount{}
		exItems := map[string][]exItem{}
		seenEntry := map[string]bool{}
		v1Early := map[int]bool{} // 1.0 entries of histogram series that do not exist yet
		var expectNew = map[string][]tsdbx.Sample{}
		var expectEx = map[string][]exObs{}
		stAllowed := map[string]map[int64]bool{}
		invalidST := map[string]int64{}           // per series: highest start timestamp declared by a rejected sample
		shadowCand := map[string]map[int64]bool{} // valid samples at or below such a start timestamp
		rejected := 0                             // items that must make a 2.0 response a 400
		silentInvalid := 0                        // items that are invalid but need not change the status (too long exemplar labels)
		for ei := 0; ei < nEntries; ei++ {
			if r.IntN(14) == 0 { // an invalid series entry
				why := gen.Pick(r, invalidSeriesKinds)
				e := entrySpec{raw: genInvalidRaw(r, why), invalid: why, kind: "f", meta: genMeta(r, v2)}
				if v2 && r.IntN(3) == 0 {
					e.raw = genInvalidRaw(r, "ok")
					switch r.IntN(3) {
					case 0:
						e.oddRefs, e.invalid = true, "odd-label-refs"
					case 1:
						e.badRefs, e.invalid = true, "label-ref-outside-symbols"
					default:
						e.meta.badRef, e.invalid = true, "metadata-ref-outside-symbols"
					}
				}
				clock += 1 + int64(r.IntN(100))
				e.samples = []sampleSpec{{kind: "f", f: 1, t: clock}}
				es = append(es, e)
				rejected++
				c.Seen("invalid_series_kind", e.invalid)
				continue
			}
			ps := pool[r.IntN(len(pool))]
			key := ps.ls.String()
			st := run[key]
			if st == nil {
				cp := *ps
				st = &cp
				run[key] = st
			}
			e := entrySpec{kind: ps.kind, meta: genMeta(r, v2)}
			ps.ls.Range(func(l labels.Label) { e.raw = append(e.raw, l) })
			if r.IntN(4) == 0 { // unsorted on the wire; the decoded label set is the sorted one
				r.Shuffle(len(e.raw), func(i, j int) { e.raw[i], e.raw[j] = e.raw[j], e.raw[i] })
			}
			if v2 && r.IntN(30) == 0 { // series entry without samples
				es = append(es, e)
				rejected++
				c.Seen("invalid_series_kind", "no-samples")
				continue
			}
			nS := 1 + r.IntN(5)
			ck := "f"
			if ps.kind != "f" {
				ck = "h"
			}
			var lastValid *sampleSpec
			for si := 0; si < nS; si++ {
				s := nextValue(r, ps, codecOnly)
				st.prev = ps.prev
				problem := ""
				if r.IntN(13) == 0 {
					problem = gen.Pick(r, []string{"older-in-request", "dup-ts-in-request", "exact-dup", "older-than-stored", "dup-ts-of-stored", "invalid-histogram"})
				}
				floor := max(st.maxT, ps.maxT)
				switch problem {
				case "older-in-request":
					if st.maxT > ps.maxT+1 && st.maxT != math.MinInt64 && ps.maxT != math.MinInt64 {
						s.t = ps.maxT + 1 + r.Int64N(st.maxT-ps.maxT-1)
					} else if st.maxT != math.MinInt64 && ps.maxT == math.MinInt64 {
						s.t = st.maxT - 1 - int64(r.IntN(50))
					}
				case "dup-ts-in-request":
					if lastValid != nil {
						s = differentValue(r, ps, *lastValid)
						s.t = st.maxT
					}
				case "exact-dup":
					if lastValid != nil {
						s = *lastValid
					}
				case "older-than-stored":
					if ps.maxT != math.MinInt64 {
						s.t = ps.maxT - 1 - int64(r.IntN(500))
					}
				case "dup-ts-of-stored":
					if ps.maxT != math.MinInt64 {
						s.t = ps.maxT
					}
				case "invalid-histogram":
					if s.kind != "f" {
						s = breakHistogram(r, s)
					}
				}
				if s.t == 0 {
					if floor == math.MinInt64 {
						floor = clock
					}
					s.t = max(floor, clock-500) + 1 + int64(r.IntN(300))
					clock = max(clock, s.t)
				}
				if v2 && r.IntN(5) == 0 {
					s.st = s.t - 1 - int64(r.IntN(2000))
				}
				e.samples = append(e.samples, s)

				// ---- reference classification (documented in-order rules, no OOO window)
				k := s.obs().ValKey()
				storedCheckPasses := ps.maxT == math.MinInt64 || s.t > ps.maxT || (s.t == ps.maxT && k == ps.maxKey)
				invalid := false
				switch {
				case s.bad:
					cls[ck].detect++
					rejected++
					invalid = true
					c.Seen("sample_class", "invalid-histogram")
				case st.maxT == math.MinInt64 || s.t > st.maxT:
					cls[ck].valid++
					st.maxT, st.maxKey = s.t, k
					expectNew[key] = append(expectNew[key], s.obs())
					cpy := s
					lastValid = &cpy
					c.Seen("sample_class", "valid")
					if hi, ok := invalidST[key]; ok && s.t <= hi {
						// an earlier REJECTED sample of this request and series declared a start timestamp
						// >= this sample's timestamp: its synthetic zero sample may shadow this one
						cls[ck].cand++
						if shadowCand[key] == nil {
							shadowCand[key] = map[int64]bool{}
						}
						shadowCand[key][s.t] = true
						c.Seen("sample_class", "valid-but-behind-start-timestamp-of-rejected-sample")
					}
				case s.t == st.maxT && k == st.maxKey:
					cls[ck].dup++
					c.Seen("sample_class", "exact-duplicate")
				case storedCheckPasses:
					cls[ck].intra++
					invalid = true
					c.Seen("sample_class", "invalid-only-within-request")
				default:
					cls[ck].detect++
					rejected++
					invalid = true
					c.Seen("sample_class", "invalid-against-stored")
				}
				if invalid && s.st != 0 && ingestST && v2 {
					if hi, ok := invalidST[key]; !ok || s.st > hi {
						invalidST[key] = s.st
					}
				}
				if s.st != 0 && ingestST {
					if stAllowed[key] == nil {
						stAllowed[key] = map[int64]bool{}
					}
					stAllowed[key][s.st] = true
				}
			}
			// exemplars
			nX := []int{0, 0, 1, 1, 2, 3}[r.IntN(6)]
			if st.maxT == math.MinInt64 {
				nX = 0 // the series would not exist: whether such exemplars can be kept is not specified
			}
			for xi := 0; xi < nX; xi++ {
				// finite or infinite values only: NaN exemplars never compare equal, which would make
				// "exact duplicate" meaningless
				x := exSpec{v: float64(r.IntN(4000)-1000) / 8, ls: labels.FromStrings("trace_id", fmt.Sprintf("t%d", r.IntN(1000)))}
				if r.IntN(10) == 0 {
					x.v = math.Inf(1 - 2*r.IntN(2))
				}
				if codecOnly && r.IntN(4) == 0 {
					x.v = math.Copysign(0, -1)
				}
				if r.IntN(4) == 0 {
					x.ls = labels.EmptyLabels()
				}
				runMax := max(st.exMaxTs, ps.exMaxTs)
				problem := ""
				if r.IntN(13) == 0 {
					problem = gen.Pick(r, []string{"older-in-request", "exact-dup", "older-than-stored", "too-long", "bad-refs"})
				}
				switch problem {
				case "older-in-request":
					if st.exMaxTs > ps.exMaxTs+1 && ps.exMaxTs != math.MinInt64 {
						x.ts = ps.exMaxTs + 1 + r.Int64N(st.exMaxTs-ps.exMaxTs-1)
					} else if st.exMaxTs != math.MinInt64 && ps.exMaxTs == math.MinInt64 {
						x.ts = st.exMaxTs - 1 - int64(r.IntN(50))
					}
				case "exact-dup":
					if st.exLast != nil {
						x = exSpec{ls: st.exLast.Labels, v: st.exLast.Value, ts: st.exLast.Ts}
					}
				case "older-than-stored":
					if ps.exMaxTs != math.MinInt64 {
						x.ts = ps.exMaxTs - 1 - int64(r.IntN(500))
					}
				case "too-long":
					x.ls = labels.FromStrings("trace_id", strings.Repeat("é", 130))
					x.tooLong = true
				case "bad-refs":
					if v2 {
						x.badRefs = true
					}
				}
				if x.ts == 0 {
					if runMax == math.MinInt64 {
						runMax = clock
					}
					x.ts = max(runMax, clock-500) + 1 + int64(r.IntN(300))
					clock = max(clock, x.ts)
				}
				e.exemplars = append(e.exemplars, x)
				exItems[key] = append(exItems[key], exItem{entry: len(es), x: x})
				// running state, only to shape the following exemplars
				if !x.badRefs && !x.tooLong && (st.exMaxTs == math.MinInt64 || x.ts > st.exMaxTs) {
					st.exMaxTs = x.ts
					st.exLast = &exemplar.Exemplar{Labels: x.ls, Value: x.v, Ts: x.ts, HasTs: true}
				}
			}
			if !v2 && ps.kind != "f" && ps.maxT == math.MinInt64 && !seenEntry[key] && len(e.exemplars) > 0 {
				// 1.0 handler order is samples, exemplars, histograms: candidate for kindV1ExemplarOrder
				v1Early[len(es)] = true
			}
			seenEntry[key] = true
			es = append(es, e)
		}

		// ---------------- exemplar reference (pure function of stored state + request)
		altEx := map[string][]exObs{}
		for _, ps := range pool {
			k := ps.ls.String()
			if len(exItems[k]) == 0 {
				continue
			}
			stored, cc, rej, silent := classifyEx(ps.exMaxTs, ps.exLast, exItems[k], nil)
			expectEx[k] = stored
			exCls.valid += cc.valid
			exCls.dup += cc.dup
			exCls.intra += cc.intra
			exCls.detect += cc.detect
			rejected += rej
			silentInvalid += silent
			alt, _, _, _ := classifyEx(ps.exMaxTs, ps.exLast, exItems[k], v1Early)
			altEx[k] = alt
		}
		for _, cl := range []struct {
			n    int
			name string
		}{{exCls.valid, "valid"}, {exCls.dup, "exact-duplicate"}, {exCls.intra, "older-only-within-request"}, {exCls.detect, "older-than-stored-or-bad-refs"}, {silentInvalid, "labels-too-long"}} {
			if cl.n > 0 {
				c.Seen("exemplar_class", cl.name)
			}
		}

		// ---------------- encode
		var wire []byte
		if v2 {
			req := encodeV2(es, r)
			wire, err = req.Marshal()
			core.Must(err, "marshal v2")
			if r.IntN(2) == 0 {
				w2, err := req.OptimizedMarshal(nil)
				core.Must(err, "optimized marshal v2")
				if d := roundTripV2(es, w2); len(d.other) > 0 {
					c.Violatef("codec-roundtrip-mismatch", "writev2 OptimizedMarshal+Unmarshal: %v", d.other)
					return
				}
				wire = w2
				c.Count("v2_optimized_marshal", 1)
			}
		} else {
			wire, err = encodeV1(es).Marshal()
			core.Must(err, "marshal v1")
		}
		var d *rtDiff
		if v2 {
			d = roundTripV2(es, wire)
		} else {
			d = roundTripV1(es, wire)
		}
		c.Count("codec_round_trips", 1)
		if len(d.other) > 0 {
			c.Violatef("codec-roundtrip-mismatch", "%s Marshal+Unmarshal differs: %v", proto, d.other)
			return
		}
		if d.negZero > 0 {
			c.Violatef(kindCodecNegZero, "%s request: %d double field(s) sent as -0 (bits 8000000000000000) decode as +0; every other field round-trips", proto, d.negZero)
		}
		if codecOnly {
			break
		}

		// ---------------- send
		hreq := httptest.NewRequest(http.MethodPost, "/api/v1/write", bytes.NewReader(snappy.Encode(nil, wire)))
		hreq.Header.Set("Content-Encoding", "snappy")
		if v2 {
			hreq.Header.Set("Content-Type", "application/x-protobuf;proto=io.prometheus.write.v2.Request")
			hreq.Header.Set("X-Prometheus-Remote-Write-Version", "2.0.0")
		} else {
			hreq.Header.Set("Content-Type", gen.Pick(r, []string{"application/x-protobuf", "application/x-protobuf;proto=prometheus.WriteRequest"}))
			hreq.Header.Set("X-Prometheus-Remote-Write-Version", "0.1.0")
		}
		rec := httptest.NewRecorder()
		h.ServeHTTP(rec, hreq)
		status := rec.Code
		after, exAfter, err := dumpAll(db)
		core.Must(err, "dump after request")
		c.Count("requests_"+proto, 1)
		c.Seen("status", fmt.Sprintf("%s:%d", proto, status))

		desc := func() string {
			return fmt.Sprintf("request #%d %s status=%d headers[S/H/E]=%s/%s/%s body=%q\nreference: floats %+v histograms %+v exemplars %+v rejected-items=%d\nrequest: %s",
				ri, proto, status, rec.Header().Get("X-Prometheus-Remote-Write-Samples-Written"), rec.Header().Get("X-Prometheus-Remote-Write-Histograms-Written"), rec.Header().Get("X-Prometheus-Remote-Write-Exemplars-Written"),
				trunc(strings.TrimSpace(rec.Body.String()), 300), *cls["f"], *cls["h"], exCls, rejected, renderReq(es))
		}

		// ---------------- stored delta
		rolledBack := false
		var shadowedAll []string
		if !v2 && status/100 != 2 {
			// 1.0: an error answer must not have stored anything
			if diff := tsdbx.EqualDumps(before, after); diff != "" {
				c.Violatef("v1-partial-commit-on-error", "1.0 request answered %d but the stored data changed: %s\n%s", status, diff, desc())
				return
			}
			if diff := diffEx(exBefore, exAfter, nil, nil); diff != "" {
				c.Violatef("v1-partial-commit-on-error", "1.0 request answered %d but the stored exemplars changed: %s\n%s", status, diff, desc())
				return
			}
			totalInvalid := rejected + cls["f"].intra + cls["h"].intra
			if totalInvalid == 0 && cls["f"].dup+cls["h"].dup == 0 {
				c.Violatef("v1-valid-request-rejected", "a 1.0 request with only valid items was answered %d\n%s", status, desc())
				return
			}
			rolledBack = true
			c.Count("v1_requests_rejected_as_a_whole", 1)
		}
		if v2 && status/100 == 5 {
			c.Violatef("unexpected-5xx", "2.0 request answered %d\n%s", status, desc())
			return
		}
		if !rolledBack {
			// invalid series must not exist
			for k := range after {
				if strings.Contains(k, `why="`) && len(after[k]) > 0 {
					c.Violatef("invalid-series-stored", "samples of an invalid series entry were stored under %s\n%s", k, desc())
					return
				}
			}
			want := tsdbx.Dump{}
			for k, v := range before {
				want[k] = append([]tsdbx.Sample{}, v...)
			}
			for k, v := range expectNew {
				want[k] = append(want[k], v...)
			}
			got := tsdbx.Dump{}
			extraST := 0
			for k, v := range after {
				wantT := map[int64]bool{}
				for _, s := range want[k] {
					wantT[s.T] = true
				}
				for _, s := range v {
					if !wantT[s.T] && stAllowed[k][s.T] {
						extraST++
						continue
					}
					got[k] = append(got[k], s)
				}
			}
			c.Count("start_timestamp_zero_samples_stored", int64(extraST))
			shadowed := []string{}
			for k, cands := range shadowCand {
				have := map[int64]string{}
				for _, s := range got[k] {
					have[s.T] = s.ValKey()
				}
				drop := map[int64]bool{}
				var kept []tsdbx.Sample
				for _, s := range want[k] {
					if cands[s.T] && have[s.T] != s.ValKey() {
						shadowed = append(shadowed, fmt.Sprintf("%s t=%d", k, s.T))
						drop[s.T] = true
						continue
					}
					kept = append(kept, s)
				}
				want[k] = kept
				var keptGot []tsdbx.Sample
				for _, s := range got[k] {
					if drop[s.T] && stAllowed[k][s.T] {
						continue // the zero sample itself sits on the shadowed sample's timestamp
					}
					keptGot = append(keptGot, s)
				}
				got[k] = keptGot
			}
			shadowedAll = shadowed
			if diff := tsdbx.EqualDumps(want, got); diff != "" {
				c.Violatef("stored-delta-mismatch", "stored data after the request differs from 'before + valid samples' (want vs got): %s\n%s", diff, desc())
				return
			}
			if diff := diffEx(exBefore, exAfter, expectEx, &exCls); diff != "" {
				// 1.0: per series either the full reference or the one without the early entry's exemplars
				lost := 0
				mixed := map[string][]exObs{}
				for k, v := range expectEx {
					mixed[k] = v
				}
				if !v2 {
					for k := range altEx {
						if diffEx(map[string][]exObs{k: exBefore[k]}, map[string][]exObs{k: exAfter[k]}, map[string][]exObs{k: expectEx[k]}, nil) != "" {
							mixed[k] = altEx[k]
							lost++
						}
					}
				}
				if lost > 0 && diffEx(exBefore, exAfter, mixed, nil) == "" {
					c.Violatef(kindV1ExemplarOrder, "1.0 request answered %d: the exemplars of %d series entr(y/ies) whose native-histogram series had no stored samples before the entry were not stored, everything else (incl. all other exemplars) is stored as expected: %s\n%s", status, lost, diff, desc())
				} else {
					c.Violatef("stored-exemplars-mismatch", "%s\n%s", diff, desc())
					return
				}
			}
		}

		if len(shadowedAll) > 0 {
			c.Violatef(kindSTShadow, "start-timestamp ingestion on: %d valid sample(s) were not stored (%v); each of them lies at or below the start timestamp declared by an EARLIER sample of the same request and series that the receiver rejected (invalid histogram / out of order) - the synthetic zero sample of the rejected sample was appended anyway and makes the valid sample out of order at commit; everything else is stored as expected\n%s", len(shadowedAll), shadowedAll, desc())
		}

		// ---------------- status and counts (2.0)
		if v2 {
			intra := cls["f"].intra + cls["h"].intra + exCls.intra
			dups := cls["f"].dup + cls["h"].dup + exCls.dup
			finding := ""
			switch {
			case rejected > 0 && status != http.StatusBadRequest:
				c.Violatef("status-mismatch", "2.0 request with %d rejected item(s) answered %d, want 400\n%s", rejected, status, desc())
				return
			case rejected == 0 && intra == 0 && dups == 0 && silentInvalid == 0 && status != http.StatusNoContent:
				c.Violatef("status-mismatch", "2.0 request with only valid items answered %d, want 204\n%s", status, desc())
				return
			case rejected == 0 && intra > 0 && status == http.StatusNoContent:
				finding = "status 204 although samples were dropped"
			case status != http.StatusNoContent && status != http.StatusBadRequest:
				c.Violatef("status-mismatch", "2.0 request answered %d\n%s", status, desc())
				return
			}
			hdr := func(name string) (int, bool) {
				n, err := strconv.Atoi(rec.Header().Get(name))
				return n, err == nil
			}
			check := func(name string, cc classCount, ex bool) bool {
				n, ok := hdr(name)
				if !ok {
					c.Violatef("written-header-missing", "2.0 response without a parsable %s header\n%s", name, desc())
					return false
				}
				if n >= cc.valid-cc.cand && n <= cc.valid+cc.dup {
					return true
				}
				if cc.intra > 0 && n >= cc.valid-cc.cand+cc.intra && n <= cc.valid+cc.intra+cc.dup {
					k := kindIntraRequest
					if ex {
						k = kindIntraRequestEx
					}
					c.Violatef(k, "%s=%d, stored delta=%d (exactly the valid ones), %d item(s) of the request are out of order/duplicate only with respect to earlier items of the same request and series, %d exact duplicate(s); %s\n%s", name, n, cc.valid, cc.intra, cc.dup, finding, desc())
					return true
				}
				c.Violatef("written-count-mismatch", "%s=%d but %d were stored (%d exact duplicates tolerated, %d intra-request-invalid)\n%s", name, n, cc.valid, cc.dup, cc.intra, desc())
				return false
			}
			if !check("X-Prometheus-Remote-Write-Samples-Written", *cls["f"], false) ||
				!check("X-Prometheus-Remote-Write-Histograms-Written", *cls["h"], false) ||
				!check("X-Prometheus-Remote-Write-Exemplars-Written", exCls, true) {
				return
			}
		} else if status/100 == 2 && cls["f"].intra+cls["h"].intra > 0 {
			c.Count("v1_2xx_with_silently_dropped_intra_request_invalid_samples", 1)
		}

		nValid := cls["f"].valid + cls["h"].valid
		c.Count("valid_samples", int64(nValid))
		c.Count("valid_exemplars", int64(exCls.valid))
		if nValid > 0 && !rolledBack {
			c.Nontrivial(c.Idx, ri, proto, renderReq(es))
		}
		if c.Idx < 2 && len(samples) < 2 {
			samples = append(samples, map[string]any{"proto": proto, "status": status, "samples_written": rec.Header().Get("X-Prometheus-Remote-Write-Samples-Written"), "reference_floats": fmt.Sprintf("%+v", *cls["f"]), "request": trunc(renderReq(es), 600)})
		}

		// ---------------- re-synchronise the reference with the observed state
		before, exBefore = after, exAfter
		for _, ps := range pool {
			k := ps.ls.String()
			if v := after[k]; len(v) > 0 {
				ps.maxT, ps.maxKey = v[len(v)-1].T, v[len(v)-1].ValKey()
			}
			if xs := exAfter[k]; len(xs) > 0 {
				l := xs[len(xs)-1]
				ps.exMaxTs = l.ts
				ps.exLast = &exemplar.Exemplar{Labels: l.ls, Value: l.v, Ts: l.ts, HasTs: true}
			}
			clock = max(clock, ps.maxT, ps.exMaxTs)
		}
	}
	if samples != nil {
		c.Sample(samples)
	}
}

// diffEx compares exemplar dumps: after must be before plus the expected new exemplars (in order).
func diffEx(before, after map[string][]exObs, add map[string][]exObs, cc *classCount) string {
	keys := map[string]bool{}
	for k := range before {
		keys[k] = true
	}
	for k := range after {
		keys[k] = true
	}
	for k := range add {
		keys[k] = true
	}
	var ks []string
	for k := range keys {
		ks = append(ks, k)
	}
	sort.Strings(ks)
	for _, k := range ks {
		want := append(append([]exObs{}, before[k]...), add[k]...)
		got := after[k]
		if len(want) != len(got) {
			return fmt.Sprintf("series %s: stored exemplars %v, want 'before + valid exemplars' %v", k, got, want)
		}
		for i := range want {
			if want[i].ts != got[i].ts || !f64eq(want[i].v, got[i].v) || !labels.Equal(want[i].ls, got[i].ls) {
				return fmt.Sprintf("series %s: stored exemplar %d = %s, want %s", k, i, got[i], want[i])
			}
		}
	}
	return ""
}

func trunc(s string, n int) string {
	if len(s) > n {
		return s[:n] + "…"
	}
	return s
}

func renderReq(es []entrySpec) string {
	var sb strings.Builder
	for i, e := range es {
		if i > 0 {
			sb.WriteString(" | ")
		}
		fmt.Fprintf(&sb, "%s", e.sortedLabels())
		if e.invalid != "" {
			fmt.Fprintf(&sb, "<INVALID:%s>", e.invalid)
		}
		sb.WriteString(" s=[")
		for _, s := range e.samples {
			v := s.obs().ValKey()
			if len(v) > 24 {
				v = v[:24] + "…"
			}
			fmt.Fprintf(&sb, "%d", s.t)
			if s.st != 0 {
				fmt.Fprintf(&sb, "(st=%d)", s.st)
			}
			if s.bad {
				sb.WriteString("(bad)")
			}
			fmt.Fprintf(&sb, "=%s ", v)
		}
		sb.WriteString("] x=[")
		for _, x := range e.exemplars {
			fmt.Fprintf(&sb, "%d", x.ts)
			if x.badRefs {
				sb.WriteString("(badrefs)")
			}
			if x.tooLong {
				sb.WriteString("(toolong)")
			}
			sb.WriteString(" ")
		}
		sb.WriteString("]")
	}
	return sb.String()
}
