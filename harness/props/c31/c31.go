// Package c31: native histogram arithmetic (Add/Sub/KahanAdd, Compact, ReduceResolution, ToFloat,
// DetectReset) against a bucket-map reference on absolute bucket identities.
package c31

import (
	"fmt"
	"math"
	"math/rand/v2"
	"sort"
	"strings"

	"github.com/prometheus/prometheus/model/histogram"

	"verif/internal/core"
	"verif/internal/gen"
)

// Violation kinds.  KindAddDouble fires on the unchanged tree (known finding): in Add/Sub/KahanAdd
// with other.Schema > h.Schema and a wider zero bucket on h's side, other's buckets below the
// threshold are counted into the zero bucket by reconcileZeroBuckets and once more by addBuckets,
// because other is merged down to h's schema first and the merged bucket's upper bound is above
// the threshold.  Minimal input: h={schema -3, zt 68.87, neg[2]:30}, other={schema 7, zt 63.74,
// pos[774]:2, neg[768]:58}: result has zero bucket 60, (1,256]:2, [-256,-1):58+0 → buckets sum to
// 150, Count 90.
const (
	KindAddErr    = "add-unexpected-error"
	KindAddSchema = "add-result-schema"
	KindAddZT     = "add-zero-threshold"
	KindAddTotal  = "add-total-not-conserved"
	// Narrow kind: the grand total is off by exactly doubleCounted(...) != 0 (see there).
	KindAddDouble     = "add-double-counts-buckets-absorbed-from-higher-resolution-operand"
	KindAddBucket     = "add-bucket-mismatch"
	KindAddCountSum   = "add-count-or-sum"
	KindAddBounds     = "add-custom-bounds"
	KindCompact       = "compact-changed-bucket"
	KindReduce        = "reduce-resolution-bucket"
	KindReduceErr     = "reduce-resolution-error"
	KindToFloat       = "tofloat-mismatch"
	KindResetMissed   = "reset-not-reported"
	KindResetSpurious = "reset-reported-without-cause"
)

func init() {
	core.Register(&core.Prop{
		ID:        "C31",
		Title:     "Native histogram arithmetic preserves bucket semantics",
		Level:     "exploration",
		Technique: "runtime monitor with a bucket-map reference model: real FloatHistogram/Histogram methods on generated histograms, results read back through spans/buckets into maps keyed by absolute bucket index and compared with conservation and bucket-wise laws derived from the property text",
		LevelText: "Each case generates 2..4 valid histograms (exponential schemas -4..8 with clustered positive/negative buckets, gaps, explicit empty buckets, zero thresholds on bucket boundaries, inside buckets and 0; custom-bucket histograms with equal, nested and partially overlapping bounds; integer-valued or fractional counts) and applies Add, Sub, KahanAdd (also chained), Compact(0..3), ReduceResolution (float and integer), Histogram.ToFloat and DetectReset of the real code. Oracle for sums: result schema = lowest input schema; zero threshold >= every input's (equal to the widest input threshold for two operands when that threshold cuts no populated bucket); the grand total of all buckets incl. the zero bucket is conserved; every result bucket lying outside the result's zero bucket equals the signed sum of the input buckets that map into it (index arithmetic 2^(schema difference)); Count and Sum fields are the signed sums; custom bounds = intersection, each source bucket credited to the smallest surviving bound >= its own. Compact/ReduceResolution: every bucket total (after index mapping) unchanged, other fields unchanged. ToFloat: every count, bound and field preserved. DetectReset: compared with the statement's list evaluated on the bucket maps; inputs on which the statement is ambiguous (new zero threshold inside a merged lower-resolution bucket whose constituents lie on both sides, floating ties) are skipped and counted. Integer-valued counts are compared exactly, fractional counts with relative tolerance 1e-9. Held on the observed operand tuples only.",
		LevelNote: "Reduction of the planned oracle: inside the result's zero region (the zero bucket and result buckets whose lower bound is below the result's zero threshold) only conservation of the total is checked, not the exact split between zero bucket and overlapping buckets, because the statement does not fix the order of 'lower resolution' and 'wider zero bucket'. Bucket bounds used to classify buckets against zero thresholds are computed with math.Exp2 (tolerance 1e-12). Counter-reset hints CounterReset/NotCounterReset (documented shortcuts) are not generated for DetectReset. Inputs are valid per FloatHistogram.Validate (non-negative counts, no populated bucket entirely inside its own zero bucket); negative counts only arise as intermediate results of Sub in chains. KahanAdd is judged on the main histogram (compensation term ignored, covered by the tolerance).",
		DesignRef: "DESIGN.md §5 C31",
		Rule:      "case = one operand tuple with all operations applied; non-trivial iff at least one Add/Sub/KahanAdd result with a populated bucket was fully compared and a DetectReset verdict was compared (not skipped as ambiguous); distinct by the canonical rendering of the operands",
		Assumptions: []string{
			"a bucket is identified by (sign, index at the histogram's schema) resp. by its custom upper bound; spans and (delta-)bucket slices are decoded per the documented struct layout",
			"'populated' means count != 0",
		},
		Cases: func(variant string, tier core.Tier) int {
			if variant != "default" {
				return 0
			}
			if tier == core.Thorough {
				return 500000
			}
			return 30000
		},
		Run:            run,
		MinNontrivial:  func(t core.Tier) int { return 8000 },
		CaseTimeoutSec: 60,
	})
}

// ---------------------------------------------------------------- abstract histogram

type absH struct {
	custom   bool
	schema   int32
	zt, zc   float64
	pos, neg map[int32]float64
	bounds   []float64
	count    float64
	sum      float64
	hint     histogram.CounterResetHint
}

func (a *absH) clone() *absH {
	c := *a
	c.pos = map[int32]float64{}
	c.neg = map[int32]float64{}
	for k, v := range a.pos {
		c.pos[k] = v
	}
	for k, v := range a.neg {
		c.neg[k] = v
	}
	c.bounds = append([]float64(nil), a.bounds...)
	return &c
}

func (a *absH) total() float64 {
	t := a.zc
	for _, v := range a.pos {
		t += v
	}
	for _, v := range a.neg {
		t += v
	}
	return t
}

func (a *absH) String() string {
	f := func(m map[int32]float64) string {
		ks := make([]int32, 0, len(m))
		for k := range m {
			ks = append(ks, k)
		}
		sort.Slice(ks, func(i, j int) bool { return ks[i] < ks[j] })
		var sb strings.Builder
		for _, k := range ks {
			fmt.Fprintf(&sb, "%d:%v ", k, m[k])
		}
		return sb.String()
	}
	if a.custom {
		return fmt.Sprintf("{custom bounds=%v buckets=[%s] count=%v sum=%v hint=%d}", a.bounds, f(a.pos), a.count, a.sum, a.hint)
	}
	return fmt.Sprintf("{schema=%d zt=%v zc=%v pos=[%s] neg=[%s] count=%v sum=%v hint=%d}", a.schema, a.zt, a.zc, f(a.pos), f(a.neg), a.count, a.sum, a.hint)
}

// expBound is the documented upper bound of bucket idx: 2^(idx * 2^-schema).
func expBound(idx, schema int32) float64 {
	if schema <= 0 {
		return math.Ldexp(1, int(idx)<<uint(-schema))
	}
	per := int32(1) << uint(schema)
	q, m := idx/per, idx%per
	if m < 0 {
		m += per
		q--
	}
	return math.Ldexp(math.Exp2(float64(m)/float64(per)), int(q))
}

// cmpTol compares x with bound b: -1 below, +1 above, 0 equal within relative 1e-12.
func cmpTol(x, b float64) int {
	d := 1e-12 * math.Max(math.Abs(x), math.Abs(b))
	switch {
	case x < b-d:
		return -1
	case x > b+d:
		return 1
	}
	return 0
}

// realBounds asks the real code for the bounds of positive bucket idx (used only to choose inputs).
func realBounds(idx, schema int32) (lower, upper float64) {
	h := &histogram.FloatHistogram{Schema: schema, PositiveSpans: []histogram.Span{{Offset: idx, Length: 1}}, PositiveBuckets: []float64{1}}
	it := h.PositiveBucketIterator()
	it.Next()
	b := it.At()
	return b.Lower, b.Upper
}

// mapIdx maps bucket idx of schema from to the containing bucket of the lower-resolution schema to:
// bucket idx covers (idx-1, idx] in units of 2^-from on the log2 axis; 2^(from-to) of them form one.
func mapIdx(idx, from, to int32) int32 {
	k := int32(1) << uint(from-to)
	x := idx - 1
	q := x / k
	if x%k < 0 {
		q--
	}
	return q + 1
}

func (a *absH) reduced(to int32) *absH {
	c := a.clone()
	if a.custom || to >= a.schema {
		return c
	}
	c.schema = to
	c.pos, c.neg = map[int32]float64{}, map[int32]float64{}
	for k, v := range a.pos {
		c.pos[mapIdx(k, a.schema, to)] += v
	}
	for k, v := range a.neg {
		c.neg[mapIdx(k, a.schema, to)] += v
	}
	return c
}

// ---------------------------------------------------------------- generation

type genOpts struct {
	fractional bool
}

func genCount(r *rand.Rand, o genOpts) float64 {
	if o.fractional {
		switch r.IntN(4) {
		case 0:
			return float64(1+r.IntN(1000)) / 64
		case 1:
			return r.Float64() * 1000
		case 2:
			return float64(1+r.IntN(20)) * 0.1
		}
	}
	return float64(1 + r.IntN(60))
}

func genExp(r *rand.Rand, o genOpts, schema int32, center int32) *absH {
	a := &absH{schema: schema, pos: map[int32]float64{}, neg: map[int32]float64{}}
	np, nn := r.IntN(7), r.IntN(4)
	if r.IntN(10) == 0 {
		np = 0
	}
	for i := 0; i < np; i++ {
		a.pos[center+int32(r.IntN(17))-8] = genCount(r, o)
	}
	for i := 0; i < nn; i++ {
		a.neg[center+int32(r.IntN(17))-8] = genCount(r, o)
	}
	if r.IntN(12) == 0 {
		a.pos[center+int32(r.IntN(400))-200] = genCount(r, o)
	}
	// zero threshold
	switch r.IntN(8) {
	case 0:
		a.zt = 0
	case 1:
		a.zt = 1e-128
	case 2, 3, 4: // on a real bucket boundary near the populated buckets
		lo, up := realBounds(center+int32(r.IntN(14))-10, schema)
		a.zt = lo
		if r.IntN(2) == 0 {
			a.zt = up
		}
	case 5: // clearly inside a bucket
		lo, up := realBounds(center+int32(r.IntN(14))-10, schema)
		a.zt = lo + (up-lo)*(0.25+0.5*r.Float64())
	default:
		a.zt = gen.Pick(r, []float64{0.001, 0.5, 1, 1.5, 2, 3})
	}
	if math.IsInf(a.zt, 0) || math.IsNaN(a.zt) || a.zt < 0 {
		a.zt = 0
	}
	if a.zt > 0 || r.IntN(3) == 0 {
		if r.IntN(4) != 0 {
			a.zc = genCount(r, o)
		}
	}
	a.sanitize(r.IntN(4) == 0)
	a.sum = float64(r.IntN(20000)-5000) / 8
	a.count = a.total()
	if r.IntN(6) == 0 {
		a.hint = histogram.GaugeType
	}
	return a
}

// sanitize removes buckets that a valid histogram cannot have populated: entirely inside its own
// zero bucket; buckets cut by the zero threshold are kept only if keepCut.
func (a *absH) sanitize(keepCut bool) {
	for _, m := range []map[int32]float64{a.pos, a.neg} {
		for k := range m {
			up := expBound(k, a.schema)
			lo := expBound(k-1, a.schema)
			if cmpTol(a.zt, up) >= 0 {
				delete(m, k)
			} else if cmpTol(a.zt, lo) > 0 && !keepCut {
				delete(m, k)
			}
		}
	}
}

func genCustom(r *rand.Rand, o genOpts, bounds []float64) *absH {
	a := &absH{custom: true, schema: histogram.CustomBucketsSchema, pos: map[int32]float64{}, neg: map[int32]float64{}, bounds: bounds}
	for i := 0; i <= len(bounds); i++ {
		if r.IntN(3) != 0 {
			a.pos[int32(i)] = genCount(r, o)
		}
	}
	a.sum = float64(r.IntN(20000)-5000) / 8
	a.count = a.total()
	if r.IntN(6) == 0 {
		a.hint = histogram.GaugeType
	}
	return a
}

func genBounds(r *rand.Rand) []float64 {
	n := 1 + r.IntN(7)
	v := float64(r.IntN(20)-10) / 2
	var out []float64
	for i := 0; i < n; i++ {
		out = append(out, v)
		v += float64(1+r.IntN(6)) / 2
	}
	return out
}

// relatedBounds derives bounds sharing some values with b.
func relatedBounds(r *rand.Rand, b []float64) []float64 {
	switch r.IntN(5) {
	case 0:
		return append([]float64(nil), b...)
	case 1: // subset
		var out []float64
		for _, x := range b {
			if r.IntN(2) == 0 {
				out = append(out, x)
			}
		}
		if len(out) == 0 {
			out = []float64{b[len(b)-1]}
		}
		return out
	case 2: // superset / interleaved
		set := map[float64]bool{}
		for _, x := range b {
			if r.IntN(4) != 0 {
				set[x] = true
			}
			if r.IntN(2) == 0 {
				set[x+0.25] = true
			}
		}
		set[b[0]-1] = true
		var out []float64
		for x := range set {
			out = append(out, x)
		}
		sort.Float64s(out)
		return out
	case 3: // disjoint
		out := make([]float64, len(b))
		for i, x := range b {
			out[i] = x + 0.125
		}
		return out
	default:
		return genBounds(r)
	}
}

// layout renders index→count as spans + absolute counts with random explicit empty buckets.
func layout(r *rand.Rand, m map[int32]float64, custom bool, nBounds int) ([]histogram.Span, []float64) {
	ks := make([]int32, 0, len(m))
	for k := range m {
		ks = append(ks, k)
	}
	sort.Slice(ks, func(i, j int) bool { return ks[i] < ks[j] })
	if len(ks) == 0 {
		return nil, nil
	}
	merge := int32(r.IntN(4))
	var spans []histogram.Span
	var counts []float64
	last := int32(0)
	for i, k := range ks {
		if i == 0 {
			pad := int32(0)
			if r.IntN(5) == 0 {
				pad = int32(1 + r.IntN(2))
				if custom && k-pad < 0 {
					pad = k
				}
			}
			spans = append(spans, histogram.Span{Offset: k - pad, Length: uint32(pad) + 1})
			for p := int32(0); p < pad; p++ {
				counts = append(counts, 0)
			}
			counts = append(counts, m[k])
			last = k
			continue
		}
		gap := k - last - 1
		if gap <= merge {
			for g := int32(0); g < gap; g++ {
				counts = append(counts, 0)
			}
			spans[len(spans)-1].Length += uint32(gap) + 1
		} else {
			spans = append(spans, histogram.Span{Offset: gap, Length: 1})
		}
		counts = append(counts, m[k])
		last = k
	}
	if r.IntN(5) == 0 { // trailing empty buckets
		pad := int32(1 + r.IntN(2))
		if custom && int(last+pad) > nBounds {
			pad = int32(nBounds) - last
		}
		if pad > 0 {
			spans[len(spans)-1].Length += uint32(pad)
			for p := int32(0); p < pad; p++ {
				counts = append(counts, 0)
			}
		}
	}
	return spans, counts
}

func (a *absH) float(r *rand.Rand) *histogram.FloatHistogram {
	h := &histogram.FloatHistogram{Schema: a.schema, Count: a.count, Sum: a.sum, CounterResetHint: a.hint}
	h.PositiveSpans, h.PositiveBuckets = layout(r, a.pos, a.custom, len(a.bounds))
	if a.custom {
		h.CustomValues = append([]float64(nil), a.bounds...)
		return h
	}
	h.ZeroThreshold, h.ZeroCount = a.zt, a.zc
	h.NegativeSpans, h.NegativeBuckets = layout(r, a.neg, false, 0)
	return h
}

func (a *absH) integral() bool {
	ok := a.zc == math.Trunc(a.zc) && a.zc >= 0
	for _, m := range []map[int32]float64{a.pos, a.neg} {
		for _, v := range m {
			if v != math.Trunc(v) || v < 0 {
				ok = false
			}
		}
	}
	return ok
}

func (a *absH) int(r *rand.Rand) *histogram.Histogram {
	h := &histogram.Histogram{Schema: a.schema, Count: uint64(a.count), Sum: a.sum, CounterResetHint: a.hint}
	d := func(c []float64) []int64 {
		if len(c) == 0 {
			return nil
		}
		out := make([]int64, len(c))
		prev := int64(0)
		for i, v := range c {
			out[i] = int64(v) - prev
			prev = int64(v)
		}
		return out
	}
	sp, c := layout(r, a.pos, a.custom, len(a.bounds))
	h.PositiveSpans, h.PositiveBuckets = sp, d(c)
	if a.custom {
		h.CustomValues = append([]float64(nil), a.bounds...)
		return h
	}
	h.ZeroThreshold, h.ZeroCount = a.zt, uint64(a.zc)
	sp, c = layout(r, a.neg, false, 0)
	h.NegativeSpans, h.NegativeBuckets = sp, d(c)
	return h
}

// ---------------------------------------------------------------- comparison helpers

type cmp struct {
	exact bool
	scale float64 // magnitude of the terms involved (for the tolerance)
}

func (c cmp) eq(a, b float64) bool {
	if a == b {
		return true
	}
	if c.exact {
		return false
	}
	return math.Abs(a-b) <= 1e-9*math.Max(c.scale, math.Max(math.Abs(a), math.Abs(b)))
}

func mapsOfFloat(h *histogram.FloatHistogram) (pos, neg map[int32]float64) {
	return gen.BucketMapFloat(h)
}

func toF(m map[int32]uint64) map[int32]float64 {
	out := map[int32]float64{}
	for k, v := range m {
		out[k] = float64(v)
	}
	return out
}

func diffMaps(c cmp, want, got map[int32]float64) string {
	keys := map[int32]bool{}
	for k := range want {
		keys[k] = true
	}
	for k := range got {
		keys[k] = true
	}
	ks := make([]int32, 0, len(keys))
	for k := range keys {
		ks = append(ks, k)
	}
	sort.Slice(ks, func(i, j int) bool { return ks[i] < ks[j] })
	for _, k := range ks {
		if !c.eq(want[k], got[k]) {
			return fmt.Sprintf("bucket index %d: expected %v, observed %v", k, want[k], got[k])
		}
	}
	return ""
}

func sumMap(m map[int32]float64) float64 {
	t := 0.0
	for _, v := range m {
		t += v
	}
	return t
}

// ---------------------------------------------------------------- oracle: sums

type term struct {
	a    *absH
	sign float64
}

func intersect(a, b []float64) []float64 {
	var out []float64
	i, j := 0, 0
	for i < len(a) && j < len(b) {
		switch {
		case a[i] == b[j]:
			out = append(out, a[i])
			i++
			j++
		case a[i] < b[j]:
			i++
		default:
			j++
		}
	}
	return out
}

func sameBounds(a, b []float64) bool {
	if len(a) != len(b) {
		return false
	}
	for i := range a {
		if math.Float64bits(a[i]) != math.Float64bits(b[i]) {
			return false
		}
	}
	return true
}

func describe(terms []term) string {
	var sb strings.Builder
	for i, t := range terms {
		op := "+"
		if t.sign < 0 {
			op = "-"
		}
		if i == 0 {
			op = ""
		}
		fmt.Fprintf(&sb, " %s %s", op, t.a)
	}
	return sb.String()
}

// stepObs is the receiver's observed layout after one operation of a chain (used only to classify a
// conservation failure, never to derive the expectation).
type stepObs struct {
	schema int32
	zt     float64
}

func obs(h *histogram.FloatHistogram) stepObs { return stepObs{h.Schema, h.ZeroThreshold} }

// doubleCounted computes, for the failure mechanism of the known finding, the amount by which the
// grand total must be off: operand i (i >= 1) has a higher resolution than the receiver has after
// step i, some of its populated buckets lie entirely inside the zero bucket the receiver has after
// step i (so they were added to the zero count), but the lower-resolution bucket they merge into
// reaches above that zero threshold (so the merged bucket was added as well).
func doubleCounted(terms []term, steps []stepObs) float64 {
	d := 0.0
	for i := 1; i < len(terms) && i-1 < len(steps); i++ {
		x, st := terms[i].a, steps[i-1]
		if x.custom || x.schema <= st.schema {
			continue
		}
		for _, m := range []map[int32]float64{x.pos, x.neg} {
			for k, v := range m {
				if v == 0 {
					continue
				}
				if cmpTol(expBound(k, x.schema), st.zt) <= 0 && cmpTol(expBound(mapIdx(k, x.schema, st.schema), st.schema), st.zt) > 0 {
					d += terms[i].sign * v
				}
			}
		}
	}
	return d
}

func checkSum(c *core.Case, op string, res *histogram.FloatHistogram, terms []term, steps []stepObs, exact bool) bool {
	scale := 0.0
	wantCount, wantSum, sumScale := 0.0, 0.0, 0.0
	for _, t := range terms {
		scale += t.a.total()
		wantCount += t.sign * t.a.count
		wantSum += t.sign * t.a.sum
		sumScale += math.Abs(t.a.sum)
	}
	cm := cmp{exact: exact, scale: scale}
	ok := true
	fail := func(kind, format string, args ...any) {
		ok = false
		c.Violatef(kind, "%s: %s\n operands:%s\n result: %s", op, fmt.Sprintf(format, args...), describe(terms), res.String())
	}
	if !cm.eq(wantCount, res.Count) {
		fail(KindAddCountSum, "Count is %v, expected %v", res.Count, wantCount)
	}
	if math.Abs(wantSum-res.Sum) > 1e-9*math.Max(sumScale, 1) {
		fail(KindAddCountSum, "Sum is %v, expected %v", res.Sum, wantSum)
	}
	rp, rn := mapsOfFloat(res)

	if terms[0].a.custom {
		ib := terms[0].a.bounds
		for _, t := range terms[1:] {
			if !sameBounds(ib, t.a.bounds) {
				ib = intersect(ib, t.a.bounds)
			}
		}
		if !sameBounds(ib, res.CustomValues) && !(len(ib) == 0 && len(res.CustomValues) == 0) {
			fail(KindAddBounds, "custom bounds are %v, expected the intersection %v", res.CustomValues, ib)
			return ok
		}
		want := map[int32]float64{}
		for _, t := range terms {
			for idx, v := range t.a.pos {
				target := int32(len(ib))
				if int(idx) < len(t.a.bounds) {
					ub := t.a.bounds[idx]
					for k, x := range ib {
						if x >= ub {
							target = int32(k)
							break
						}
					}
				}
				want[target] += t.sign * v
			}
		}
		if d := diffMaps(cm, want, rp); d != "" {
			fail(KindAddBucket, "%s (bucket index on the intersected bounds %v)", d, ib)
		}
		if len(rn) != 0 || res.ZeroCount != 0 {
			fail(KindAddBucket, "custom-bucket result has negative buckets or a zero count")
		}
		return ok
	}

	minSchema := terms[0].a.schema
	maxZT := 0.0
	for _, t := range terms {
		if t.a.schema < minSchema {
			minSchema = t.a.schema
		}
		if t.a.zt > maxZT {
			maxZT = t.a.zt
		}
	}
	if res.Schema != minSchema {
		fail(KindAddSchema, "result schema %d, expected the lowest operand schema %d", res.Schema, minSchema)
		return ok
	}
	if res.ZeroThreshold < maxZT {
		fail(KindAddZT, "result zero threshold %v is narrower than an operand's %v", res.ZeroThreshold, maxZT)
	}
	if len(terms) == 2 && res.ZeroThreshold != maxZT {
		cut := false
		for _, t := range terms {
			for _, m := range []map[int32]float64{t.a.pos, t.a.neg} {
				for k, v := range m {
					if v != 0 && cmpTol(maxZT, expBound(k-1, t.a.schema)) > 0 && cmpTol(maxZT, expBound(k, t.a.schema)) < 0 {
						cut = true
					}
				}
			}
		}
		if !cut {
			fail(KindAddZT, "result zero threshold %v differs from the widest operand threshold %v although that threshold cuts no populated bucket", res.ZeroThreshold, maxZT)
		}
	}
	// grand total
	wantTotal := 0.0
	for _, t := range terms {
		wantTotal += t.sign * t.a.total()
	}
	gotTotal := res.ZeroCount + sumMap(rp) + sumMap(rn)
	if !cm.eq(wantTotal, gotTotal) {
		if d := doubleCounted(terms, steps); d != 0 && cm.eq(wantTotal+d, gotTotal) {
			c.Count("hits_"+KindAddDouble, 1)
			fail(KindAddDouble, "zero bucket + all buckets sum to %v, expected %v (Count field says %v); the excess %v is exactly the population of the higher-resolution operand's buckets that were merged into the zero bucket AND added again through the lower-resolution bucket they belong to (receiver layout after each step: %v)", gotTotal, wantTotal, res.Count, d, steps)
		} else {
			fail(KindAddTotal, "zero bucket + all buckets sum to %v, expected %v", gotTotal, wantTotal)
		}
	}
	// buckets outside the result's zero bucket
	for side := 0; side < 2; side++ {
		got := rp
		if side == 1 {
			got = rn
		}
		want := map[int32]float64{}
		for _, t := range terms {
			src := t.a.pos
			if side == 1 {
				src = t.a.neg
			}
			for k, v := range src {
				want[mapIdx2(k, t.a.schema, minSchema)] += t.sign * v
			}
		}
		keys := map[int32]bool{}
		for k := range want {
			keys[k] = true
		}
		for k := range got {
			keys[k] = true
		}
		for k := range keys {
			if cmpTol(expBound(k-1, minSchema), res.ZeroThreshold) < 0 {
				continue // overlaps the result's zero bucket: covered by the conservation check only
			}
			if !cm.eq(want[k], got[k]) {
				sn := "positive"
				if side == 1 {
					sn = "negative"
				}
				fail(KindAddBucket, "%s bucket index %d (schema %d, lower bound %v >= zero threshold %v): expected %v, observed %v", sn, k, minSchema, expBound(k-1, minSchema), res.ZeroThreshold, want[k], got[k])
				break
			}
		}
	}
	return ok
}

func mapIdx2(idx, from, to int32) int32 {
	if from == to {
		return idx
	}
	return mapIdx(idx, from, to)
}

// ---------------------------------------------------------------- oracle: DetectReset

// refReset evaluates the statement's list.  ambiguous is set where the statement does not decide.
func refReset(cur, prev *absH, exact bool) (reset bool, why string, ambiguous bool) {
	if cur.custom != prev.custom {
		return true, "bucket type changed", false
	}
	tol := func(a, b float64) float64 {
		if exact {
			return 0
		}
		return 1e-9 * math.Max(math.Abs(a), math.Abs(b))
	}
	// less: a < b; second result = too close to call.  multi says that a or b is a sum the code
	// under test may have accumulated in another order.
	less := func(a, b float64, multi bool) (bool, bool) {
		if exact || !multi {
			return a < b, false
		}
		t := tol(a, b)
		if a < b-t {
			return true, false
		}
		if a <= b+t {
			return false, true
		}
		return false, false
	}
	if cur.count < prev.count {
		if l, amb := less(cur.count, prev.count, false); l {
			return true, "count decreased", false
		} else if amb {
			ambiguous = true
		}
	}
	if cur.custom {
		cb, pb := cur.bounds, prev.bounds
		ib := cb
		if !sameBounds(cb, pb) {
			ib = intersect(cb, pb)
		}
		nContrib := map[int32]int{}
		roll := func(a *absH) map[int32]float64 {
			out := map[int32]float64{}
			seen := map[int32]int{}
			for idx, v := range a.pos {
				target := int32(len(ib))
				if int(idx) < len(a.bounds) {
					for k, x := range ib {
						if x >= a.bounds[idx] {
							target = int32(k)
							break
						}
					}
				}
				out[target] += v
				seen[target]++
			}
			for k, n := range seen {
				nContrib[k] = max(nContrib[k], n)
			}
			return out
		}
		cm, pm := roll(cur), roll(prev)
		for k, pv := range pm {
			if l, amb := less(cm[k], pv, nContrib[k] > 1); l {
				return true, fmt.Sprintf("bucket %d on intersected bounds %v decreased from %v to %v", k, ib, pv, cm[k]), false
			} else if amb {
				ambiguous = true
			}
		}
		return false, "", ambiguous
	}
	if cur.schema > prev.schema {
		return true, "resolution increased", false
	}
	if cur.zt < prev.zt {
		return true, "zero threshold decreased", false
	}
	absorbed, absorbedN := prev.zc, 0
	n2 := map[bool]map[int32]int{false: {}, true: {}}
	r1 := map[bool]map[int32]float64{false: {}, true: {}} // absorbed buckets removed
	r2 := map[bool]map[int32]float64{false: {}, true: {}} // absorbed buckets kept when their merged bucket reaches above the threshold
	for _, negSide := range []bool{false, true} {
		src := prev.pos
		if negSide {
			src = prev.neg
		}
		for k, v := range src {
			if v == 0 {
				continue
			}
			lo, up := expBound(k-1, prev.schema), expBound(k, prev.schema)
			target := mapIdx2(k, prev.schema, cur.schema)
			if cur.zt > prev.zt {
				if cmpTol(cur.zt, lo) > 0 && cmpTol(cur.zt, up) < 0 {
					return true, fmt.Sprintf("new zero threshold %v cuts through populated bucket %d (%v,%v] of the previous histogram", cur.zt, k, lo, up), false
				}
			}
			if cmpTol(cur.zt, up) >= 0 && cur.zt > prev.zt {
				absorbed += v
				absorbedN++
				if cmpTol(expBound(target, cur.schema), cur.zt) > 0 {
					r2[negSide][target] += v
					n2[negSide][target]++
				}
				continue
			}
			r1[negSide][target] += v
			r2[negSide][target] += v
			n2[negSide][target]++
		}
	}
	verdict := func(pm map[bool]map[int32]float64) (bool, string, bool) {
		amb := false
		if l, a := less(cur.zc, absorbed, absorbedN > 0); l {
			return true, fmt.Sprintf("zero count decreased from %v (aligned) to %v", absorbed, cur.zc), false
		} else if a {
			amb = true
		}
		for _, negSide := range []bool{false, true} {
			cm := cur.pos
			if negSide {
				cm = cur.neg
			}
			for k, pv := range pm[negSide] {
				if l, a := less(cm[k], pv, n2[negSide][k] > 1); l {
					return true, fmt.Sprintf("bucket %d (negative=%v) decreased from %v (aligned) to %v", k, negSide, pv, cm[k]), false
				} else if a {
					amb = true
				}
			}
		}
		return false, "", amb
	}
	v1, why1, a1 := verdict(r1)
	v2, _, a2 := verdict(r2)
	if v1 != v2 || a1 || a2 {
		ambiguous = true
	}
	return v1, why1, ambiguous
}

// ---------------------------------------------------------------- the case

func run(c *core.Case) {
	r := c.Rng
	o := genOpts{fractional: r.IntN(3) == 0}
	exact := !o.fractional
	nops := 2 + r.IntN(3)
	var ops []*absH
	custom := r.IntN(4) == 0
	if custom {
		b := genBounds(r)
		ops = append(ops, genCustom(r, o, b))
		for len(ops) < nops {
			ops = append(ops, genCustom(r, o, relatedBounds(r, ops[r.IntN(len(ops))].bounds)))
		}
		c.Seen("bucket_type", "custom")
	} else {
		// all operands populate the same region of the real axis: center is given on the log2 axis
		base := float64(r.IntN(13) - 6)
		if r.IntN(8) == 0 {
			base = float64(r.IntN(200) - 100)
		}
		for len(ops) < nops {
			schema := int32(r.IntN(13) - 4)
			if len(ops) > 0 && r.IntN(3) == 0 {
				schema = ops[0].schema
			}
			center := int32(math.Round(base * math.Pow(2, float64(schema))))
			ops = append(ops, genExp(r, o, schema, center))
		}
		c.Seen("bucket_type", "exponential")
	}
	var key []string
	for _, a := range ops {
		key = append(key, a.String())
		if err := a.float(r).Validate(); err != nil {
			core.Must(fmt.Errorf("%w: %s", err, a), "generated operand is not a valid histogram")
		}
	}
	summed := false

	// ---- Add / Sub / KahanAdd on pairs
	a, b := ops[0], ops[1]
	if !custom {
		c.Seen("schema_relation", fmt.Sprint(sign(int(a.schema)-int(b.schema))))
		c.Seen("zero_threshold_relation", fmt.Sprint(sign2(a.zt, b.zt)))
	} else {
		c.Seen("custom_bounds_relation", boundsRelation(a.bounds, b.bounds))
	}
	{
		h := a.float(r)
		res, _, _, err := h.Add(b.float(r))
		if err != nil {
			c.Violatef(KindAddErr, "Add of compatible histograms failed: %v; operands:%s", err, describe([]term{{a, 1}, {b, 1}}))
		} else if checkSum(c, "Add", res, []term{{a, 1}, {b, 1}}, []stepObs{obs(res)}, exact) {
			summed = summed || len(res.PositiveBuckets)+len(res.NegativeBuckets) > 0
			checkCompactReduce(c, r, res, exact)
		}
		c.Count("add_checked", 1)
	}
	{
		h := a.float(r)
		res, _, _, err := h.Sub(b.float(r))
		if err != nil {
			c.Violatef(KindAddErr, "Sub of compatible histograms failed: %v; operands:%s", err, describe([]term{{a, 1}, {b, -1}}))
		} else {
			checkSum(c, "Sub", res, []term{{a, 1}, {b, -1}}, []stepObs{obs(res)}, exact)
		}
		c.Count("sub_checked", 1)
	}
	{
		h := a.float(r)
		_, _, _, err := h.KahanAdd(b.float(r), nil)
		if err != nil {
			c.Violatef(KindAddErr, "KahanAdd of compatible histograms failed: %v; operands:%s", err, describe([]term{{a, 1}, {b, 1}}))
		} else {
			checkSum(c, "KahanAdd", h, []term{{a, 1}, {b, 1}}, []stepObs{obs(h)}, exact)
		}
		c.Count("kahanadd_checked", 1)
	}
	// ---- chains
	if len(ops) > 2 {
		h := a.float(r)
		terms := []term{{a, 1}}
		var err error
		var steps []stepObs
		desc := "chain"
		for _, x := range ops[1:] {
			if r.IntN(3) == 0 {
				_, _, _, err = h.Sub(x.float(r))
				terms = append(terms, term{x, -1})
				desc += "-Sub"
			} else {
				_, _, _, err = h.Add(x.float(r))
				terms = append(terms, term{x, 1})
				desc += "-Add"
			}
			if err != nil {
				c.Violatef(KindAddErr, "%s failed: %v; operands:%s", desc, err, describe(terms))
				break
			}
			steps = append(steps, obs(h))
		}
		if err == nil {
			checkSum(c, desc, h, terms, steps, exact)
		}
		// Kahan chain with a carried compensation histogram
		h = a.float(r)
		terms = []term{{a, 1}}
		var comp *histogram.FloatHistogram
		steps = nil
		for _, x := range ops[1:] {
			comp, _, _, err = h.KahanAdd(x.float(r), comp)
			terms = append(terms, term{x, 1})
			if err != nil {
				c.Violatef(KindAddErr, "KahanAdd chain failed: %v; operands:%s", err, describe(terms))
				break
			}
			steps = append(steps, obs(h))
		}
		if err == nil {
			checkSum(c, "KahanAdd-chain", h, terms, steps, exact)
		}
		c.Count("chains_checked", 2)
	}

	// ---- Compact / ReduceResolution / ToFloat on the operands themselves
	for _, x := range ops {
		checkCompactReduce(c, r, x.float(r), exact)
		if x.integral() {
			checkInt(c, r, x)
		}
	}

	// ---- DetectReset
	resetCompared := false
	for i := 0; i < 3; i++ {
		prev := ops[r.IntN(len(ops))]
		var cur *absH
		how := ""
		if i == 0 && r.IntN(3) == 0 {
			cur, how = ops[r.IntN(len(ops))], "independent"
		} else {
			cur, how = evolve(r, prev, o)
		}
		if cur.hint != histogram.GaugeType {
			cur.hint = histogram.UnknownCounterReset
		}
		if err := cur.float(r).Validate(); err != nil {
			c.Count("reset_successor_invalid_skipped", 1)
			c.Logf("invalid successor (%s): %v: %s", how, err, cur)
			continue
		}
		want, why, amb := refReset(cur, prev, exact)
		got := cur.float(r).DetectReset(prev.float(r))
		c.Seen("reset_scenario", how)
		if amb {
			c.Count("reset_ambiguous_skipped", 1)
			continue
		}
		resetCompared = true
		c.Seen("reset_verdict", fmt.Sprint(want))
		c.Count("reset_compared", 1)
		if want && !got {
			c.Violatef(KindResetMissed, "DetectReset=false but the statement requires a reset: %s\n scenario %s\n previous: %s\n current:  %s", why, how, prev, cur)
		}
		if !want && got {
			c.Violatef(KindResetSpurious, "DetectReset=true but none of the statement's conditions holds\n scenario %s\n previous: %s\n current:  %s", how, prev, cur)
		}
	}

	if summed && resetCompared {
		c.Nontrivial(strings.Join(key, "|"))
	}
	if c.Idx < 3 {
		c.Sample(map[string]any{"operands": key, "fractional_counts": o.fractional})
	}
}

func sign(x int) int {
	switch {
	case x < 0:
		return -1
	case x > 0:
		return 1
	}
	return 0
}

func sign2(a, b float64) int {
	switch {
	case a < b:
		return -1
	case a > b:
		return 1
	}
	return 0
}

func boundsRelation(a, b []float64) string {
	if sameBounds(a, b) {
		return "equal"
	}
	ib := intersect(a, b)
	switch {
	case len(ib) == 0:
		return "disjoint"
	case len(ib) == len(a) || len(ib) == len(b):
		return "nested"
	}
	return "overlapping"
}

// evolve derives a successor of prev for the reset check.
func evolve(r *rand.Rand, prev *absH, o genOpts) (*absH, string) {
	cur := prev.clone()
	cur.hint = histogram.UnknownCounterReset
	grow := func() {
		for _, m := range []map[int32]float64{cur.pos, cur.neg} {
			for k := range m {
				if r.IntN(2) == 0 {
					m[k] += genCount(r, o)
				}
			}
		}
		if !cur.custom && (cur.zt > 0 || cur.zc > 0) && r.IntN(2) == 0 {
			cur.zc += genCount(r, o)
		}
	}
	how := "grow"
	grow()
	rounds := 1
	if r.IntN(4) == 0 {
		rounds = 2
	}
	for round := 0; round < rounds; round++ {
		how = evolveStep(r, prev, cur, o, how)
		if how == "" {
			return cur.clone(), "type-change"
		}
	}
	cur.count = cur.total()
	if r.IntN(10) == 0 && cur.count > 0 {
		how += "+count-field-lower"
		cur.count = math.Max(0, prev.count-1)
	} else if cur.count < prev.count && r.IntN(2) == 0 {
		// keep the count field from deciding, so that the bucket-level conditions are exercised
		cur.count = prev.count
	}
	return cur, how
}

// evolveStep applies one mutation to cur in place and returns the scenario name ("" = type change,
// cur has been replaced wholesale).
func evolveStep(r *rand.Rand, prev, cur *absH, o genOpts, how string) string {
	if how != "grow" {
		how += "&"
	} else {
		how = ""
	}
	switch r.IntN(14) {
	case 0:
		how += "identical"
		*cur = *prev.clone()
		cur.hint = histogram.UnknownCounterReset
	case 1: // one bucket decreases
		how += "bucket-decrease"
		cm, pm := cur.pos, prev.pos
		if len(prev.neg) > 0 && r.IntN(3) == 0 {
			cm, pm = cur.neg, prev.neg
		}
		sameLayout := cur.schema == prev.schema && sameBounds(cur.bounds, prev.bounds)
		for k, v := range cm {
			if v <= 0 {
				continue
			}
			if pv, ok := pm[k]; ok && sameLayout && pv > 0 {
				cm[k] = pv - math.Min(pv, float64(1+r.IntN(3)))
			} else {
				cm[k] = math.Max(0, v-float64(1+r.IntN(80)))
			}
			if cm[k] == 0 && r.IntN(2) == 0 {
				delete(cm, k)
			}
			break
		}
	case 2: // a bucket vanishes
		how += "bucket-vanishes"
		for k := range cur.pos {
			delete(cur.pos, k)
			break
		}
	case 3:
		how += "zero-count-decrease"
		if cur.zc > 0 {
			cur.zc = prev.zc - math.Min(prev.zc, 1)
		}
	case 4, 5: // lower resolution
		how += "schema-decrease"
		if !cur.custom && cur.schema > -4 {
			*cur = *cur.reduced(cur.schema - int32(1+r.IntN(int(cur.schema+4))))
			if r.IntN(3) == 0 { // and something shrinks after merging
				for k, v := range cur.pos {
					cur.pos[k] = math.Max(0, v-float64(1+r.IntN(80)))
					break
				}
				how += "+maybe-shrink"
			}
		}
	case 6:
		how += "schema-increase"
		if !cur.custom && cur.schema < 8 {
			// re-create the buckets at a higher resolution (counts placed in one sub-bucket each)
			ns := cur.schema + 1
			np, nn := map[int32]float64{}, map[int32]float64{}
			for k, v := range cur.pos {
				np[2*k-int32(r.IntN(2))] = v
			}
			for k, v := range cur.neg {
				nn[2*k-int32(r.IntN(2))] = v
			}
			cur.schema, cur.pos, cur.neg = ns, np, nn
		}
	case 7, 8: // zero threshold grows to a boundary or into a bucket
		how += "zero-threshold-increase"
		if !cur.custom {
			var ks []int32
			for k := range prev.pos {
				ks = append(ks, k)
			}
			for k := range prev.neg {
				ks = append(ks, k)
			}
			if len(ks) > 0 {
				sort.Slice(ks, func(i, j int) bool { return ks[i] < ks[j] })
				k := ks[r.IntN(len(ks))] - int32(r.IntN(3))
				lo, up := realBounds(k, prev.schema)
				nz := gen.Pick(r, []float64{lo, up, lo + (up-lo)/2})
				if nz > cur.zt && !math.IsInf(nz, 0) {
					// absorb what the new zero bucket covers
					for _, m := range []map[int32]float64{cur.pos, cur.neg} {
						for kk, v := range m {
							if cmpTol(nz, expBound(kk, cur.schema)) >= 0 {
								cur.zc += v
								delete(m, kk)
							}
						}
					}
					cur.zt = nz
					if r.IntN(3) != 0 {
						cur.sanitize(false)
					}
				}
			}
		}
	case 9:
		how += "zero-threshold-decrease"
		if !cur.custom && cur.zt > 0 {
			cur.zt = cur.zt / 2
		}
	case 10: // custom bounds change
		how += "custom-bounds-change"
		if cur.custom {
			nb := relatedBounds(r, prev.bounds)
			// re-bucket prev's (grown) counts onto the new bounds by upper bound
			np := map[int32]float64{}
			for idx, v := range cur.pos {
				target := int32(len(nb))
				if int(idx) < len(prev.bounds) {
					for k, x := range nb {
						if x >= prev.bounds[idx] {
							target = int32(k)
							break
						}
					}
				}
				np[target] += v
			}
			cur.bounds, cur.pos = nb, np
			if r.IntN(3) == 0 {
				for k, v := range cur.pos {
					cur.pos[k] = math.Max(0, v-float64(1+r.IntN(80)))
					break
				}
				how += "+maybe-shrink"
			}
		}
	case 11:
		how += "type-change"
		if cur.custom {
			*cur = *genExp(r, o, 0, 0)
		} else {
			*cur = *genCustom(r, o, genBounds(r))
		}
		cur.count = math.Max(cur.total(), prev.count+1)
		cur.hint = histogram.UnknownCounterReset
		return ""
	}
	if how == "" {
		how = "grow"
	}
	return how
}

// ---------------------------------------------------------------- Compact / ReduceResolution / ToFloat

func sameFields(a, b *histogram.FloatHistogram) string {
	switch {
	case a.Schema != b.Schema:
		return "Schema"
	case math.Float64bits(a.ZeroThreshold) != math.Float64bits(b.ZeroThreshold):
		return "ZeroThreshold"
	case math.Float64bits(a.ZeroCount) != math.Float64bits(b.ZeroCount):
		return "ZeroCount"
	case math.Float64bits(a.Count) != math.Float64bits(b.Count):
		return "Count"
	case math.Float64bits(a.Sum) != math.Float64bits(b.Sum):
		return "Sum"
	case !sameBounds(a.CustomValues, b.CustomValues):
		return "CustomValues"
	}
	return ""
}

func checkCompactReduce(c *core.Case, r *rand.Rand, h *histogram.FloatHistogram, exact bool) {
	before := h.Copy()
	bp, bn := mapsOfFloat(before)
	k := r.IntN(4)
	cp := h.Copy().Compact(k)
	ap, an := mapsOfFloat(cp)
	ex := cmp{exact: true}
	if d := diffMaps(ex, bp, ap); d != "" {
		c.Violatef(KindCompact, "Compact(%d) changed a positive bucket: %s\n before: %s spans=%v buckets=%v\n after: spans=%v buckets=%v", k, d, before, before.PositiveSpans, before.PositiveBuckets, cp.PositiveSpans, cp.PositiveBuckets)
	}
	if d := diffMaps(ex, bn, an); d != "" {
		c.Violatef(KindCompact, "Compact(%d) changed a negative bucket: %s\n before: %s spans=%v buckets=%v\n after: spans=%v buckets=%v", k, d, before, before.NegativeSpans, before.NegativeBuckets, cp.NegativeSpans, cp.NegativeBuckets)
	}
	if f := sameFields(before, cp); f != "" {
		c.Violatef(KindCompact, "Compact(%d) changed field %s\n before: %s\n after: %s", k, f, before, cp)
	}
	c.Count("compact_checked", 1)

	if h.UsesCustomBuckets() || h.Schema <= -4 {
		return
	}
	target := h.Schema - int32(1+r.IntN(int(h.Schema+4)))
	rd := h.Copy()
	if err := rd.ReduceResolution(target); err != nil {
		c.Violatef(KindReduceErr, "ReduceResolution(%d) from schema %d failed: %v\n histogram: %s spans=%v/%v", target, h.Schema, err, before, before.PositiveSpans, before.NegativeSpans)
		return
	}
	wantP, wantN := map[int32]float64{}, map[int32]float64{}
	scale := 0.0
	for kk, v := range bp {
		wantP[mapIdx(kk, h.Schema, target)] += v
		scale += math.Abs(v)
	}
	for kk, v := range bn {
		wantN[mapIdx(kk, h.Schema, target)] += v
		scale += math.Abs(v)
	}
	gp, gn := mapsOfFloat(rd)
	cm := cmp{exact: exact, scale: scale}
	if d := diffMaps(cm, wantP, gp); d != "" {
		c.Violatef(KindReduce, "ReduceResolution(%d→%d) positive side: %s\n before: %s", h.Schema, target, d, before)
	}
	if d := diffMaps(cm, wantN, gn); d != "" {
		c.Violatef(KindReduce, "ReduceResolution(%d→%d) negative side: %s\n before: %s", h.Schema, target, d, before)
	}
	want := before.Copy()
	want.Schema = target
	if f := sameFields(want, rd); f != "" {
		c.Violatef(KindReduce, "ReduceResolution(%d→%d) changed field %s\n before: %s\n after: %s", h.Schema, target, f, before, rd)
	}
	c.Count("reduce_checked", 1)
}

func checkInt(c *core.Case, r *rand.Rand, a *absH) {
	h := a.int(r)
	if err := h.Validate(); err != nil {
		// the count field may have been adjusted by evolve; only operands come here, so this is a harness bug
		core.Must(fmt.Errorf("%w: %s", err, a), "generated integer histogram invalid")
	}
	ip, in := gen.BucketMapInt(h)
	wantP, wantN := toF(ip), toF(in)
	ex := cmp{exact: true}
	// the integer rendering itself must describe the abstract histogram (harness self-check)
	if d := diffMaps(ex, nz(a.pos), wantP); d != "" {
		core.Must(fmt.Errorf("%s", d), "integer rendering differs from the abstract histogram")
	}
	fh := h.ToFloat(nil)
	fp, fn := mapsOfFloat(fh)
	if d := diffMaps(ex, wantP, fp); d != "" {
		c.Violatef(KindToFloat, "ToFloat positive side: %s\n integer histogram: %s", d, h)
	}
	if d := diffMaps(ex, wantN, fn); d != "" {
		c.Violatef(KindToFloat, "ToFloat negative side: %s\n integer histogram: %s", d, h)
	}
	if fh.Schema != h.Schema || fh.ZeroThreshold != h.ZeroThreshold || fh.ZeroCount != float64(h.ZeroCount) || fh.Count != float64(h.Count) ||
		math.Float64bits(fh.Sum) != math.Float64bits(h.Sum) || !sameBounds(fh.CustomValues, h.CustomValues) || fh.CounterResetHint != h.CounterResetHint {
		c.Violatef(KindToFloat, "ToFloat changed a field\n integer: %s\n float: %s", h, fh)
	}
	c.Count("tofloat_checked", 1)

	k := r.IntN(4)
	cp := h.Copy().Compact(k)
	cpP, cpN := gen.BucketMapInt(cp)
	if d := diffMaps(ex, wantP, toF(cpP)); d != "" {
		c.Violatef(KindCompact, "Histogram.Compact(%d) changed a positive bucket: %s\n before: %s spans=%v deltas=%v\n after: spans=%v deltas=%v", k, d, h, h.PositiveSpans, h.PositiveBuckets, cp.PositiveSpans, cp.PositiveBuckets)
	}
	if d := diffMaps(ex, wantN, toF(cpN)); d != "" {
		c.Violatef(KindCompact, "Histogram.Compact(%d) changed a negative bucket: %s\n before: %s spans=%v deltas=%v\n after: spans=%v deltas=%v", k, d, h, h.NegativeSpans, h.NegativeBuckets, cp.NegativeSpans, cp.NegativeBuckets)
	}
	if cp.Count != h.Count || cp.ZeroCount != h.ZeroCount || cp.Schema != h.Schema || cp.ZeroThreshold != h.ZeroThreshold {
		c.Violatef(KindCompact, "Histogram.Compact(%d) changed a field\n before: %s\n after: %s", k, h, cp)
	}
	c.Count("int_compact_checked", 1)

	if a.custom || h.Schema <= -4 {
		return
	}
	target := h.Schema - int32(1+r.IntN(int(h.Schema+4)))
	rd := h.Copy()
	if err := rd.ReduceResolution(target); err != nil {
		c.Violatef(KindReduceErr, "Histogram.ReduceResolution(%d) from schema %d failed: %v\n histogram: %s", target, h.Schema, err, h)
		return
	}
	mp, mn := map[int32]float64{}, map[int32]float64{}
	for kk, v := range wantP {
		mp[mapIdx(kk, h.Schema, target)] += v
	}
	for kk, v := range wantN {
		mn[mapIdx(kk, h.Schema, target)] += v
	}
	gp, gn := gen.BucketMapInt(rd)
	if d := diffMaps(ex, mp, toF(gp)); d != "" {
		c.Violatef(KindReduce, "Histogram.ReduceResolution(%d→%d) positive side: %s\n before: %s", h.Schema, target, d, h)
	}
	if d := diffMaps(ex, mn, toF(gn)); d != "" {
		c.Violatef(KindReduce, "Histogram.ReduceResolution(%d→%d) negative side: %s\n before: %s", h.Schema, target, d, h)
	}
	if rd.Schema != target || rd.Count != h.Count || rd.ZeroCount != h.ZeroCount || rd.ZeroThreshold != h.ZeroThreshold {
		c.Violatef(KindReduce, "Histogram.ReduceResolution(%d→%d) changed a field\n before: %s\n after: %s", h.Schema, target, h, rd)
	}
	c.Count("int_reduce_checked", 1)
}

func nz(m map[int32]float64) map[int32]float64 {
	out := map[int32]float64{}
	for k, v := range m {
		if v != 0 {
			out[k] = v
		}
	}
	return out
}
