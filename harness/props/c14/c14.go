// Package c14: WAL record encoding round trips (record.Encoder -> record.Decoder identity).
package c14

import (
	"fmt"
	"hash/fnv"
	"math"
	"math/rand/v2"
	"strings"

	"github.com/prometheus/prometheus/model/histogram"
	"github.com/prometheus/prometheus/model/labels"
	"github.com/prometheus/prometheus/storage"
	"github.com/prometheus/prometheus/tsdb/chunks"
	"github.com/prometheus/prometheus/tsdb/record"
	"github.com/prometheus/prometheus/tsdb/tombstones"

	"verif/internal/core"
	"verif/internal/gen"
	"verif/internal/tsdbx"
)

func init() {
	core.Register(&core.Prop{
		ID:        "C14",
		Title:     "WAL record encoding round-trips",
		Level:     "exploration",
		Technique: "round-trip identity monitor: record.Encoder output decoded by record.Decoder and compared field by field (floats bitwise) with the generated input; conservation law for the exponential/custom-bucket histogram split",
		LevelText: "Every case generates one batch per record type (series, float samples V1 and V2, tombstones, exemplars, metadata, m-map markers, integer and float histograms in V1 and V2 form, mixed exponential/custom-bucket batches) from hostile value classes (reference deltas that are negative or wrap around 2^63/2^64, timestamps at the int64 limits, start-timestamp patterns none/same/explicit/mixed, NaN payloads and stale markers, empty and 100+-label sets, long strings, raw spans/buckets at the integer limits), encodes it with the real record.Encoder and decodes the bytes with the real record.Decoder. The decoded list must equal the input element-wise; for V1 histogram batches the exponential record plus the custom-bucket record made from the returned leftovers must together contain every input sample exactly once, each in the record type that matches its schema, in input order. Held on the observed batches only.",
		LevelNote: "Reductions: V1 sample/histogram records have no start-timestamp field, so V1 inputs carry ST=0 (the V1 value domain). Histogram schemas are drawn from the storable set (-4..8 and custom -53); reserved schemas, which the decoder deliberately reduces or skips, are outside the statement's 'same value' domain. Tombstones are compared as the flattened (ref, interval) list, which is what a record can express. An empty exponential record for an all-custom-bucket V1 batch is the documented contract and is accepted (then not decoded). Decoding is checked into an empty destination slice (the way every caller in the repository uses it); label sets are compared in the default (stringlabels) build only.",
		DesignRef: "DESIGN.md §5 C14",
		Rule:      "case = 13 generated batches (one per record type / version), 0..40 entries each; non-trivial iff at least 9 of them were non-empty and went through encode+decode; distinct by the FNV hash of all encoded bytes of the case",
		Cases: func(variant string, tier core.Tier) int {
			if variant != "default" {
				return 0
			}
			if tier == core.Thorough {
				return 80000
			}
			return 2500
		},
		Run:           run,
		MinNontrivial: func(t core.Tier) int { return 500 },
	})
}

// ---------------------------------------------------------------- generators

func genRef(r *rand.Rand, prev uint64) uint64 {
	switch r.IntN(12) {
	case 0:
		return r.Uint64()
	case 1:
		return math.MaxUint64 - uint64(r.IntN(3))
	case 2:
		return uint64(math.MaxInt64) + uint64(r.IntN(5)) - 2
	case 3:
		return uint64(r.IntN(3))
	case 4:
		return prev // same series again
	case 5:
		return prev - uint64(1+r.IntN(1000)) // negative delta (may wrap)
	case 6:
		return prev + uint64(1)<<uint(r.IntN(64))
	default:
		return prev + uint64(1+r.IntN(20))
	}
}

func genT(r *rand.Rand, prev int64) int64 {
	switch r.IntN(14) {
	case 0:
		return math.MaxInt64 - int64(r.IntN(3))
	case 1:
		return math.MinInt64 + int64(r.IntN(3))
	case 2:
		return int64(r.IntN(5)) - 2
	case 3:
		return int64(r.Uint64())
	case 4:
		return prev
	case 5:
		return prev - int64(r.IntN(100000))
	default:
		return prev + int64(r.IntN(30000))
	}
}

// stPattern: 0 none, 1 same, 2 explicit (all different), 3 mixed.
func genST(r *rand.Rand, pattern int, same int64, prev, t int64) int64 {
	switch pattern {
	case 0:
		return 0
	case 1:
		return same
	case 2:
		return genT(r, t-1000)
	default:
		switch r.IntN(6) {
		case 0:
			return 0
		case 1:
			return prev
		case 2:
			return same
		case 3:
			return t
		default:
			return genT(r, t-int64(r.IntN(100000)))
		}
	}
}

var nameAlphabet = []string{"a", "b", "job", "instance", "le", "__name__", "très", "日本", "x\x00y", "\xff\xfe", " ", "q\"", "n\nl", "Z", "_", "0"}

func genStr(r *rand.Rand, allowEmpty bool) string {
	switch r.IntN(20) {
	case 0:
		if allowEmpty {
			return ""
		}
		return "e"
	case 1:
		return strings.Repeat(gen.Pick(r, nameAlphabet), 100+r.IntN(300))
	case 2:
		// around the 1- and 2-byte uvarint length boundaries
		return strings.Repeat("v", gen.Pick(r, []int{127, 128, 129, 16383, 16384, 16385}))
	case 3:
		b := make([]byte, 1+r.IntN(12))
		for i := range b {
			b[i] = byte(r.IntN(256))
		}
		return string(b)
	default:
		n := 1 + r.IntN(3)
		var sb strings.Builder
		for i := 0; i < n; i++ {
			sb.WriteString(gen.Pick(r, nameAlphabet))
		}
		return sb.String()
	}
}

func genLabels(r *rand.Rand) labels.Labels {
	var n int
	switch r.IntN(10) {
	case 0:
		n = 0
	case 1:
		n = 60 + r.IntN(120)
	default:
		n = 1 + r.IntN(6)
	}
	m := map[string]string{}
	for tries := 0; len(m) < n && tries < 10*n+10; tries++ {
		name := genStr(r, false)
		if n > 20 {
			name = fmt.Sprintf("%s%d", name, tries)
		}
		m[name] = genStr(r, true)
	}
	return labels.FromMap(m)
}

func genFloat(r *rand.Rand) float64 { return gen.Float(r, true) }

// genIntHist: a storable integer histogram, either rendered from an abstract one or raw/hostile.
func genIntHist(r *rand.Rand, custom bool) *histogram.Histogram {
	if r.IntN(12) == 0 {
		return gen.StaleHist()
	}
	if r.IntN(3) != 0 {
		for {
			a := gen.NewAbsHist(r, custom)
			if custom != (a.Schema == histogram.CustomBucketsSchema) {
				continue // NewAbsHist picks custom buckets with probability 1/4 only
			}
			h := a.Int(r)
			if r.IntN(4) == 0 {
				h.CounterResetHint = histogram.CounterResetHint(r.IntN(4))
			}
			return h
		}
	}
	h := &histogram.Histogram{
		CounterResetHint: histogram.CounterResetHint(r.IntN(4)),
		ZeroThreshold:    genFloat(r),
		ZeroCount:        genU64(r),
		Count:            genU64(r),
		Sum:              genFloat(r),
	}
	if custom {
		h.Schema = histogram.CustomBucketsSchema
		n := r.IntN(6)
		for i := 0; i < n; i++ {
			h.CustomValues = append(h.CustomValues, genFloat(r))
		}
	} else {
		h.Schema = int32(r.IntN(13)) - 4
	}
	h.PositiveSpans = genSpans(r)
	h.PositiveBuckets = genDeltas(r)
	if !custom || r.IntN(4) == 0 {
		h.NegativeSpans = genSpans(r)
		h.NegativeBuckets = genDeltas(r)
	}
	return h
}

func genFloatHist(r *rand.Rand, custom bool) *histogram.FloatHistogram {
	if r.IntN(12) == 0 {
		return gen.StaleFloatHist()
	}
	if r.IntN(3) != 0 {
		h := genIntHist(r, custom)
		fh := &histogram.FloatHistogram{
			CounterResetHint: h.CounterResetHint, Schema: h.Schema, ZeroThreshold: h.ZeroThreshold,
			ZeroCount: float64(h.ZeroCount), Count: float64(h.Count), Sum: h.Sum,
			PositiveSpans: h.PositiveSpans, NegativeSpans: h.NegativeSpans, CustomValues: h.CustomValues,
		}
		for _, d := range h.PositiveBuckets {
			fh.PositiveBuckets = append(fh.PositiveBuckets, float64(d)+float64(r.IntN(4))/4)
		}
		for _, d := range h.NegativeBuckets {
			fh.NegativeBuckets = append(fh.NegativeBuckets, float64(d)+float64(r.IntN(4))/4)
		}
		return fh
	}
	fh := &histogram.FloatHistogram{
		CounterResetHint: histogram.CounterResetHint(r.IntN(4)),
		ZeroThreshold:    genFloat(r), ZeroCount: genFloat(r), Count: genFloat(r), Sum: genFloat(r),
	}
	if custom {
		fh.Schema = histogram.CustomBucketsSchema
		n := r.IntN(6)
		for i := 0; i < n; i++ {
			fh.CustomValues = append(fh.CustomValues, genFloat(r))
		}
	} else {
		fh.Schema = int32(r.IntN(13)) - 4
	}
	fh.PositiveSpans = genSpans(r)
	n := r.IntN(6)
	for i := 0; i < n; i++ {
		fh.PositiveBuckets = append(fh.PositiveBuckets, genFloat(r))
	}
	if !custom || r.IntN(4) == 0 {
		fh.NegativeSpans = genSpans(r)
		n = r.IntN(6)
		for i := 0; i < n; i++ {
			fh.NegativeBuckets = append(fh.NegativeBuckets, genFloat(r))
		}
	}
	return fh
}

func genU64(r *rand.Rand) uint64 {
	switch r.IntN(6) {
	case 0:
		return math.MaxUint64
	case 1:
		return r.Uint64()
	case 2:
		return 0
	default:
		return uint64(r.IntN(100000))
	}
}

func genSpans(r *rand.Rand) []histogram.Span {
	n := r.IntN(5)
	var out []histogram.Span
	for i := 0; i < n; i++ {
		s := histogram.Span{Offset: int32(r.IntN(40)) - 10, Length: uint32(r.IntN(6))}
		switch r.IntN(12) {
		case 0:
			s.Offset = math.MinInt32
		case 1:
			s.Offset = math.MaxInt32
		case 2:
			s.Length = math.MaxUint32
		}
		out = append(out, s)
	}
	return out
}

func genDeltas(r *rand.Rand) []int64 {
	n := r.IntN(8)
	var out []int64
	for i := 0; i < n; i++ {
		switch r.IntN(10) {
		case 0:
			out = append(out, math.MinInt64)
		case 1:
			out = append(out, math.MaxInt64)
		default:
			out = append(out, int64(r.IntN(200))-100)
		}
	}
	return out
}

func batchLen(r *rand.Rand) int {
	switch r.IntN(10) {
	case 0:
		return 0
	case 1:
		return 1
	default:
		return 2 + r.IntN(39)
	}
}

// ---------------------------------------------------------------- comparison

func sameF(a, b float64) bool { return math.Float64bits(a) == math.Float64bits(b) }

func sameSpans(a, b []histogram.Span) bool {
	if len(a) != len(b) {
		return false
	}
	for i := range a {
		if a[i] != b[i] {
			return false
		}
	}
	return true
}

func sameFloats(a, b []float64) bool {
	if len(a) != len(b) {
		return false
	}
	for i := range a {
		if !sameF(a[i], b[i]) {
			return false
		}
	}
	return true
}

func sameInts(a, b []int64) bool {
	if len(a) != len(b) {
		return false
	}
	for i := range a {
		if a[i] != b[i] {
			return false
		}
	}
	return true
}

func diffHist(a, b *histogram.Histogram) string {
	switch {
	case a == nil || b == nil:
		if a != b {
			return "nil histogram"
		}
		return ""
	case a.CounterResetHint != b.CounterResetHint:
		return fmt.Sprintf("CounterResetHint %d vs %d", a.CounterResetHint, b.CounterResetHint)
	case a.Schema != b.Schema:
		return fmt.Sprintf("Schema %d vs %d", a.Schema, b.Schema)
	case !sameF(a.ZeroThreshold, b.ZeroThreshold):
		return fmt.Sprintf("ZeroThreshold %x vs %x", math.Float64bits(a.ZeroThreshold), math.Float64bits(b.ZeroThreshold))
	case a.ZeroCount != b.ZeroCount:
		return fmt.Sprintf("ZeroCount %d vs %d", a.ZeroCount, b.ZeroCount)
	case a.Count != b.Count:
		return fmt.Sprintf("Count %d vs %d", a.Count, b.Count)
	case !sameF(a.Sum, b.Sum):
		return fmt.Sprintf("Sum %x vs %x", math.Float64bits(a.Sum), math.Float64bits(b.Sum))
	case !sameSpans(a.PositiveSpans, b.PositiveSpans):
		return fmt.Sprintf("PositiveSpans %v vs %v", a.PositiveSpans, b.PositiveSpans)
	case !sameSpans(a.NegativeSpans, b.NegativeSpans):
		return fmt.Sprintf("NegativeSpans %v vs %v", a.NegativeSpans, b.NegativeSpans)
	case !sameInts(a.PositiveBuckets, b.PositiveBuckets):
		return fmt.Sprintf("PositiveBuckets %v vs %v", a.PositiveBuckets, b.PositiveBuckets)
	case !sameInts(a.NegativeBuckets, b.NegativeBuckets):
		return fmt.Sprintf("NegativeBuckets %v vs %v", a.NegativeBuckets, b.NegativeBuckets)
	case !sameFloats(a.CustomValues, b.CustomValues):
		return fmt.Sprintf("CustomValues %v vs %v", a.CustomValues, b.CustomValues)
	}
	return ""
}

func diffFloatHist(a, b *histogram.FloatHistogram) string {
	switch {
	case a == nil || b == nil:
		if a != b {
			return "nil histogram"
		}
		return ""
	case a.CounterResetHint != b.CounterResetHint:
		return fmt.Sprintf("CounterResetHint %d vs %d", a.CounterResetHint, b.CounterResetHint)
	case a.Schema != b.Schema:
		return fmt.Sprintf("Schema %d vs %d", a.Schema, b.Schema)
	case !sameF(a.ZeroThreshold, b.ZeroThreshold):
		return "ZeroThreshold"
	case !sameF(a.ZeroCount, b.ZeroCount):
		return "ZeroCount"
	case !sameF(a.Count, b.Count):
		return "Count"
	case !sameF(a.Sum, b.Sum):
		return "Sum"
	case !sameSpans(a.PositiveSpans, b.PositiveSpans):
		return fmt.Sprintf("PositiveSpans %v vs %v", a.PositiveSpans, b.PositiveSpans)
	case !sameSpans(a.NegativeSpans, b.NegativeSpans):
		return fmt.Sprintf("NegativeSpans %v vs %v", a.NegativeSpans, b.NegativeSpans)
	case !sameFloats(a.PositiveBuckets, b.PositiveBuckets):
		return fmt.Sprintf("PositiveBuckets %v vs %v", a.PositiveBuckets, b.PositiveBuckets)
	case !sameFloats(a.NegativeBuckets, b.NegativeBuckets):
		return fmt.Sprintf("NegativeBuckets %v vs %v", a.NegativeBuckets, b.NegativeBuckets)
	case !sameFloats(a.CustomValues, b.CustomValues):
		return fmt.Sprintf("CustomValues %v vs %v", a.CustomValues, b.CustomValues)
	}
	return ""
}

// diffLabels compares label sets exactly: same pairs, same order, byte for byte.
func diffLabels(a, b labels.Labels) string {
	var pa, pb []labels.Label
	a.Range(func(l labels.Label) { pa = append(pa, l) })
	b.Range(func(l labels.Label) { pb = append(pb, l) })
	if len(pa) != len(pb) {
		return fmt.Sprintf("%d labels vs %d labels", len(pa), len(pb))
	}
	for i := range pa {
		if pa[i].Name != pb[i].Name || pa[i].Value != pb[i].Value {
			return fmt.Sprintf("label %d: %q=%q vs %q=%q", i, clip(pa[i].Name), clip(pa[i].Value), clip(pb[i].Name), clip(pb[i].Value))
		}
	}
	if !labels.Equal(a, b) {
		return "labels.Equal reports a difference although all pairs agree"
	}
	return ""
}

func clip(s string) string {
	if len(s) > 60 {
		return s[:60] + "…"
	}
	return s
}

// ---------------------------------------------------------------- the case

type state struct {
	c        *core.Case
	r        *rand.Rand
	dec      record.Decoder
	hash     uint64
	nonEmpty int
}

func (s *state) note(rec []byte) {
	h := fnv.New64a()
	var b [8]byte
	for i := 0; i < 8; i++ {
		b[i] = byte(s.hash >> (8 * i))
	}
	h.Write(b[:])
	h.Write(rec)
	s.hash = h.Sum64()
	s.c.Count("records_encoded", 1)
	s.c.Count("bytes_encoded", int64(len(rec)))
}

// outBuf returns the destination for an Encoder call: nil or an empty slice with spare capacity
// (what the repository's callers pass).
func (s *state) outBuf() []byte {
	if s.r.IntN(2) == 0 {
		return nil
	}
	return make([]byte, 0, s.r.IntN(4096))
}

func (s *state) checkType(kind string, rec []byte, want record.Type) bool {
	if got := s.dec.Type(rec); got != want {
		s.c.Violatef(kind, "Decoder.Type reports %v (%d) for a record produced as %v (%d), first byte %d", got, got, want, want, first(rec))
		return false
	}
	return true
}

func first(b []byte) int {
	if len(b) == 0 {
		return -1
	}
	return int(b[0])
}

func run(c *core.Case) {
	s := &state{c: c, r: c.Rng, dec: record.NewDecoder(labels.NewSymbolTable(), tsdbx.NopLogger())}
	s.series()
	s.samples(false)
	s.samples(true)
	s.tombstones()
	s.exemplars()
	s.metadata()
	s.mmapMarkers()
	s.intHists(false)
	s.intHists(true)
	s.floatHists(false)
	s.floatHists(true)
	s.customOnlyV1Int()
	s.customOnlyV1Float()
	if s.nonEmpty >= 9 && !c.Violated() {
		c.Nontrivial(fmt.Sprintf("%016x", s.hash))
	}
}

func (s *state) series() {
	r := s.r
	n := batchLen(r)
	in := make([]record.RefSeries, n)
	ref := r.Uint64N(1000)
	for i := range in {
		ref = genRef(r, ref)
		in[i] = record.RefSeries{Ref: chunks.HeadSeriesRef(ref), Labels: genLabels(r)}
	}
	var enc record.Encoder
	enc.EnableSTStorage = r.IntN(2) == 0
	rec := enc.Series(in, s.outBuf())
	s.note(rec)
	if !s.checkType("series-roundtrip", rec, record.Series) {
		return
	}
	out, err := s.dec.Series(rec, nil)
	if err != nil {
		s.c.Violatef("series-roundtrip", "decoding an encoded series record (%d series, %d bytes) failed: %v", n, len(rec), err)
		return
	}
	if len(out) != n {
		s.c.Violatef("series-roundtrip", "series record: %d series in, %d out", n, len(out))
		return
	}
	for i := range in {
		if in[i].Ref != out[i].Ref {
			s.c.Violatef("series-roundtrip", "series %d: ref %d decoded as %d", i, in[i].Ref, out[i].Ref)
			return
		}
		if d := diffLabels(in[i].Labels, out[i].Labels); d != "" {
			s.c.Violatef("series-roundtrip", "series %d (ref %d): labels differ: %s", i, in[i].Ref, d)
			return
		}
		s.c.Seen("label_count_class", lenClass(in[i].Labels.Len()))
	}
	if n > 0 {
		s.nonEmpty++
	}
	s.c.Count("series_entries", int64(n))
}

func lenClass(n int) string {
	switch {
	case n == 0:
		return "0"
	case n <= 6:
		return "1-6"
	default:
		return ">=60"
	}
}

func (s *state) genSamples(v2 bool) ([]record.RefSample, int) {
	r := s.r
	n := batchLen(r)
	in := make([]record.RefSample, n)
	ref := r.Uint64N(1000)
	t := int64(1_700_000_000_000) + int64(r.IntN(1000000))
	pattern := r.IntN(4)
	same := genT(r, t-5000)
	if same == 0 {
		same = 1
	}
	var prevST int64
	for i := range in {
		ref = genRef(r, ref)
		t = genT(r, t)
		in[i] = record.RefSample{Ref: chunks.HeadSeriesRef(ref), T: t, V: genFloat(r)}
		if v2 {
			in[i].ST = genST(r, pattern, same, prevST, t)
			prevST = in[i].ST
		}
	}
	return in, pattern
}

var stPatternName = []string{"none", "same", "explicit", "mixed"}

func (s *state) samples(v2 bool) {
	in, pattern := s.genSamples(v2)
	n := len(in)
	enc := record.Encoder{EnableSTStorage: v2}
	kind, want := "samples-v1-roundtrip", record.Samples
	if v2 {
		kind, want = "samples-v2-roundtrip", record.SamplesV2
	}
	rec := enc.Samples(in, s.outBuf())
	s.note(rec)
	if !s.checkType(kind, rec, want) {
		return
	}
	var dst []record.RefSample
	if s.r.IntN(2) == 0 {
		dst = make([]record.RefSample, 0, s.r.IntN(64))
	}
	out, err := s.dec.Samples(rec, dst)
	if err != nil {
		s.c.Violatef(kind, "decoding an encoded samples record (%d samples, ST pattern %s) failed: %v", n, stPatternName[pattern], err)
		return
	}
	if len(out) != n {
		s.c.Violatef(kind, "samples record: %d samples in, %d out", n, len(out))
		return
	}
	for i := range in {
		a, b := in[i], out[i]
		if a.Ref != b.Ref || a.T != b.T || a.ST != b.ST || !sameF(a.V, b.V) {
			s.c.Violatef(kind, "sample %d of %d (ST pattern %s): in {ref=%d st=%d t=%d v=%x} out {ref=%d st=%d t=%d v=%x}", i, n, stPatternName[pattern],
				a.Ref, a.ST, a.T, math.Float64bits(a.V), b.Ref, b.ST, b.T, math.Float64bits(b.V))
			return
		}
	}
	if n > 0 {
		s.nonEmpty++
		if v2 {
			s.c.Seen("st_pattern_float", stPatternName[pattern])
		}
	}
	if v2 {
		s.c.Count("samples_v2_entries", int64(n))
	} else {
		s.c.Count("samples_v1_entries", int64(n))
	}
	if s.c.Idx < 2 && v2 && n > 0 {
		k := min(n, 4)
		smp := make([]map[string]any, k)
		for i := 0; i < k; i++ {
			smp[i] = map[string]any{"ref": uint64(in[i].Ref), "st": in[i].ST, "t": in[i].T, "v_bits": fmt.Sprintf("%016x", math.Float64bits(in[i].V))}
		}
		s.c.Sample(map[string]any{"record": "samples_v2", "st_pattern": stPatternName[pattern], "entries": n, "bytes": len(rec), "first_entries": smp})
	}
}

func (s *state) tombstones() {
	r := s.r
	n := batchLen(r)
	in := make([]tombstones.Stone, n)
	type flat struct {
		ref        storage.SeriesRef
		mint, maxt int64
	}
	var want []flat
	ref := r.Uint64N(1000)
	for i := range in {
		ref = genRef(r, ref)
		k := 1 + r.IntN(3)
		if r.IntN(10) == 0 {
			k = 0
		}
		st := tombstones.Stone{Ref: storage.SeriesRef(ref)}
		t := genT(r, 0)
		for j := 0; j < k; j++ {
			mint := genT(r, t)
			maxt := genT(r, mint)
			st.Intervals = append(st.Intervals, tombstones.Interval{Mint: mint, Maxt: maxt})
			want = append(want, flat{st.Ref, mint, maxt})
			t = maxt
		}
		in[i] = st
	}
	var enc record.Encoder
	rec := enc.Tombstones(in, s.outBuf())
	s.note(rec)
	if !s.checkType("tombstones-roundtrip", rec, record.Tombstones) {
		return
	}
	out, err := s.dec.Tombstones(rec, nil)
	if err != nil {
		s.c.Violatef("tombstones-roundtrip", "decoding an encoded tombstones record failed: %v", err)
		return
	}
	var got []flat
	for _, st := range out {
		for _, iv := range st.Intervals {
			got = append(got, flat{st.Ref, iv.Mint, iv.Maxt})
		}
	}
	if len(got) != len(want) {
		s.c.Violatef("tombstones-roundtrip", "tombstones record: %d (ref,interval) pairs in, %d out", len(want), len(got))
		return
	}
	for i := range want {
		if want[i] != got[i] {
			s.c.Violatef("tombstones-roundtrip", "tombstone %d: in %+v out %+v", i, want[i], got[i])
			return
		}
	}
	if len(want) > 0 {
		s.nonEmpty++
	}
	s.c.Count("tombstone_entries", int64(len(want)))
}

func (s *state) exemplars() {
	r := s.r
	n := batchLen(r)
	in := make([]record.RefExemplar, n)
	ref := r.Uint64N(1000)
	t := int64(r.IntN(1000000))
	for i := range in {
		ref = genRef(r, ref)
		t = genT(r, t)
		in[i] = record.RefExemplar{Ref: chunks.HeadSeriesRef(ref), T: t, V: genFloat(r), Labels: genLabels(r)}
	}
	var enc record.Encoder
	rec := enc.Exemplars(in, s.outBuf())
	s.note(rec)
	if !s.checkType("exemplars-roundtrip", rec, record.Exemplars) {
		return
	}
	out, err := s.dec.Exemplars(rec, nil)
	if err != nil {
		s.c.Violatef("exemplars-roundtrip", "decoding an encoded exemplars record (%d) failed: %v", n, err)
		return
	}
	if len(out) != n {
		s.c.Violatef("exemplars-roundtrip", "exemplars record: %d in, %d out", n, len(out))
		return
	}
	for i := range in {
		a, b := in[i], out[i]
		if a.Ref != b.Ref || a.T != b.T || !sameF(a.V, b.V) {
			s.c.Violatef("exemplars-roundtrip", "exemplar %d: in {ref=%d t=%d v=%x} out {ref=%d t=%d v=%x}", i, a.Ref, a.T, math.Float64bits(a.V), b.Ref, b.T, math.Float64bits(b.V))
			return
		}
		if d := diffLabels(a.Labels, b.Labels); d != "" {
			s.c.Violatef("exemplars-roundtrip", "exemplar %d: labels differ: %s", i, d)
			return
		}
	}
	if n > 0 {
		s.nonEmpty++
	}
	s.c.Count("exemplar_entries", int64(n))
}

func (s *state) metadata() {
	r := s.r
	n := batchLen(r)
	in := make([]record.RefMetadata, n)
	ref := r.Uint64N(1000)
	for i := range in {
		ref = genRef(r, ref)
		in[i] = record.RefMetadata{Ref: chunks.HeadSeriesRef(ref), Type: uint8(r.IntN(256)), Unit: genStr(r, true), Help: genStr(r, true)}
		if r.IntN(3) != 0 {
			in[i].Type = uint8(r.IntN(8))
		}
	}
	var enc record.Encoder
	rec := enc.Metadata(in, s.outBuf())
	s.note(rec)
	if !s.checkType("metadata-roundtrip", rec, record.Metadata) {
		return
	}
	out, err := s.dec.Metadata(rec, nil)
	if err != nil {
		s.c.Violatef("metadata-roundtrip", "decoding an encoded metadata record (%d) failed: %v", n, err)
		return
	}
	if len(out) != n {
		s.c.Violatef("metadata-roundtrip", "metadata record: %d in, %d out", n, len(out))
		return
	}
	for i := range in {
		if in[i] != out[i] {
			s.c.Violatef("metadata-roundtrip", "metadata %d: in {ref=%d type=%d unit=%q help=%q} out {ref=%d type=%d unit=%q help=%q}", i,
				in[i].Ref, in[i].Type, clip(in[i].Unit), clip(in[i].Help), out[i].Ref, out[i].Type, clip(out[i].Unit), clip(out[i].Help))
			return
		}
	}
	if n > 0 {
		s.nonEmpty++
	}
	s.c.Count("metadata_entries", int64(n))
}

func (s *state) mmapMarkers() {
	r := s.r
	n := batchLen(r)
	in := make([]record.RefMmapMarker, n)
	ref := r.Uint64N(1000)
	for i := range in {
		ref = genRef(r, ref)
		in[i] = record.RefMmapMarker{Ref: chunks.HeadSeriesRef(ref), MmapRef: chunks.ChunkDiskMapperRef(genU64(r))}
	}
	var enc record.Encoder
	rec := enc.MmapMarkers(in, s.outBuf())
	s.note(rec)
	if !s.checkType("mmap-roundtrip", rec, record.MmapMarkers) {
		return
	}
	out, err := s.dec.MmapMarkers(rec, nil)
	if err != nil {
		s.c.Violatef("mmap-roundtrip", "decoding an encoded m-map marker record (%d) failed: %v", n, err)
		return
	}
	if len(out) != n {
		s.c.Violatef("mmap-roundtrip", "m-map marker record: %d in, %d out", n, len(out))
		return
	}
	for i := range in {
		if in[i] != out[i] {
			s.c.Violatef("mmap-roundtrip", "m-map marker %d: in %+v out %+v", i, in[i], out[i])
			return
		}
	}
	if n > 0 {
		s.nonEmpty++
	}
	s.c.Count("mmap_entries", int64(n))
}

// customMix: 0 = exponential only, 1 = custom only, 2 = mixed.
func (s *state) genIntHistBatch(v2 bool, mix int) []record.RefHistogramSample {
	r := s.r
	n := batchLen(r)
	in := make([]record.RefHistogramSample, n)
	ref := r.Uint64N(1000)
	t := int64(1_700_000_000_000)
	pattern := r.IntN(4)
	same := genT(r, t-5000)
	if same == 0 {
		same = 1
	}
	var prevST int64
	for i := range in {
		ref = genRef(r, ref)
		t = genT(r, t)
		custom := mix == 1 || (mix == 2 && r.IntN(2) == 0)
		in[i] = record.RefHistogramSample{Ref: chunks.HeadSeriesRef(ref), T: t, H: genIntHist(r, custom)}
		if v2 {
			in[i].ST = genST(r, pattern, same, prevST, t)
			prevST = in[i].ST
		}
	}
	if v2 && n > 0 {
		s.c.Seen("st_pattern_hist", stPatternName[pattern])
	}
	return in
}

func (s *state) genFloatHistBatch(v2 bool, mix int) []record.RefFloatHistogramSample {
	r := s.r
	n := batchLen(r)
	in := make([]record.RefFloatHistogramSample, n)
	ref := r.Uint64N(1000)
	t := int64(1_700_000_000_000)
	pattern := r.IntN(4)
	same := genT(r, t-5000)
	if same == 0 {
		same = 1
	}
	var prevST int64
	for i := range in {
		ref = genRef(r, ref)
		t = genT(r, t)
		custom := mix == 1 || (mix == 2 && r.IntN(2) == 0)
		in[i] = record.RefFloatHistogramSample{Ref: chunks.HeadSeriesRef(ref), T: t, FH: genFloatHist(r, custom)}
		if v2 {
			in[i].ST = genST(r, pattern, same, prevST, t)
			prevST = in[i].ST
		}
	}
	if v2 && n > 0 {
		s.c.Seen("st_pattern_fhist", stPatternName[pattern])
	}
	return in
}

func diffIntSample(a, b record.RefHistogramSample) string {
	if a.Ref != b.Ref || a.T != b.T || a.ST != b.ST {
		return fmt.Sprintf("in {ref=%d st=%d t=%d} out {ref=%d st=%d t=%d}", a.Ref, a.ST, a.T, b.Ref, b.ST, b.T)
	}
	if d := diffHist(a.H, b.H); d != "" {
		return fmt.Sprintf("ref=%d t=%d: %s", a.Ref, a.T, d)
	}
	return ""
}

func diffFloatSample(a, b record.RefFloatHistogramSample) string {
	if a.Ref != b.Ref || a.T != b.T || a.ST != b.ST {
		return fmt.Sprintf("in {ref=%d st=%d t=%d} out {ref=%d st=%d t=%d}", a.Ref, a.ST, a.T, b.Ref, b.ST, b.T)
	}
	if d := diffFloatHist(a.FH, b.FH); d != "" {
		return fmt.Sprintf("ref=%d t=%d: %s", a.Ref, a.T, d)
	}
	return ""
}

// intHists: one batch with a random exponential/custom mix through HistogramSamples (+ the
// custom-bucket record for the leftovers in V1).
func (s *state) intHists(v2 bool) {
	mix := s.r.IntN(4)
	if mix == 3 {
		mix = 2
	}
	s.intHistBatch(v2, s.genIntHistBatch(v2, mix))
}

func (s *state) customOnlyV1Int() { s.intHistBatch(false, s.genIntHistBatch(false, 1)) }

func (s *state) intHistBatch(v2 bool, in []record.RefHistogramSample) {
	n := len(in)
	enc := record.Encoder{EnableSTStorage: v2}
	rec, left := enc.HistogramSamples(in, s.outBuf())
	s.note(rec)
	nCustom := 0
	for _, h := range in {
		if h.H.Schema == histogram.CustomBucketsSchema {
			nCustom++
		}
	}
	if v2 {
		kind := "hist-v2-roundtrip"
		if len(left) != 0 {
			s.c.Violatef("hist-split-lost-or-dup", "V2 HistogramSamples returned %d leftovers (a V2 record holds both kinds)", len(left))
			return
		}
		if !s.checkType(kind, rec, record.HistogramSamplesV2) {
			return
		}
		out, err := s.dec.HistogramSamples(rec, nil)
		if err != nil {
			s.c.Violatef(kind, "decoding an encoded V2 histogram record (%d, %d custom) failed: %v", n, nCustom, err)
			return
		}
		if len(out) != n {
			s.c.Violatef("hist-split-lost-or-dup", "V2 histogram record: %d histograms in (%d custom), %d out", n, nCustom, len(out))
			return
		}
		for i := range in {
			if d := diffIntSample(in[i], out[i]); d != "" {
				s.c.Violatef(kind, "V2 histogram %d of %d: %s", i, n, d)
				return
			}
		}
		// custom-bucket batches may also go through CustomBucketsHistogramSamples with V2 on
		if nCustom == n && n > 0 {
			rec2 := enc.CustomBucketsHistogramSamples(in, s.outBuf())
			s.note(rec2)
			out2, err := s.dec.HistogramSamples(rec2, nil)
			if err != nil || len(out2) != n {
				s.c.Violatef(kind, "V2 CustomBucketsHistogramSamples record: %d in, %d out, err=%v", n, len(out2), err)
				return
			}
			for i := range in {
				if d := diffIntSample(in[i], out2[i]); d != "" {
					s.c.Violatef(kind, "V2 custom-bucket histogram %d of %d: %s", i, n, d)
					return
				}
			}
		}
		if n > 0 {
			s.nonEmpty++
		}
		s.c.Count("hist_v2_entries", int64(n))
		return
	}
	// V1: exponential record + leftovers
	kind := "hist-v1-roundtrip"
	var expIn, cbIn []record.RefHistogramSample
	for _, h := range in {
		if h.H.Schema == histogram.CustomBucketsSchema {
			cbIn = append(cbIn, h)
		} else {
			expIn = append(expIn, h)
		}
	}
	if len(left) != len(cbIn) {
		s.c.Violatef("hist-split-lost-or-dup", "V1 HistogramSamples: batch of %d with %d custom-bucket histograms, %d leftovers returned", n, len(cbIn), len(left))
		return
	}
	for i := range left {
		if d := diffIntSample(cbIn[i], left[i]); d != "" {
			s.c.Violatef("hist-split-lost-or-dup", "V1 leftover %d is not the %d-th custom-bucket input: %s", i, i, d)
			return
		}
	}
	var expOut []record.RefHistogramSample
	if len(rec) == 0 {
		// documented: nothing to log for an all-custom batch
		if len(expIn) != 0 {
			s.c.Violatef("hist-split-lost-or-dup", "V1 HistogramSamples returned an empty record although %d exponential histograms were in the batch", len(expIn))
			return
		}
		s.c.Count("hist_v1_empty_exponential_record", 1)
	} else {
		if !s.checkType(kind, rec, record.HistogramSamples) {
			return
		}
		var err error
		expOut, err = s.dec.HistogramSamples(rec, nil)
		if err != nil {
			s.c.Violatef(kind, "decoding an encoded V1 histogram record (%d exponential of %d) failed: %v", len(expIn), n, err)
			return
		}
	}
	if len(expOut) != len(expIn) {
		s.c.Violatef("hist-split-lost-or-dup", "V1 exponential histogram record: %d exponential histograms in the batch of %d, %d decoded", len(expIn), n, len(expOut))
		return
	}
	for i := range expIn {
		if d := diffIntSample(expIn[i], expOut[i]); d != "" {
			s.c.Violatef(kind, "V1 exponential histogram %d of %d: %s", i, len(expIn), d)
			return
		}
	}
	if len(left) > 0 {
		rec2 := enc.CustomBucketsHistogramSamples(left, s.outBuf())
		s.note(rec2)
		if !s.checkType(kind, rec2, record.CustomBucketsHistogramSamples) {
			return
		}
		cbOut, err := s.dec.HistogramSamples(rec2, nil)
		if err != nil {
			s.c.Violatef(kind, "decoding an encoded V1 custom-bucket histogram record (%d) failed: %v", len(left), err)
			return
		}
		if len(cbOut) != len(cbIn) {
			s.c.Violatef("hist-split-lost-or-dup", "V1 custom-bucket histogram record: %d in, %d decoded", len(cbIn), len(cbOut))
			return
		}
		for i := range cbIn {
			if d := diffIntSample(cbIn[i], cbOut[i]); d != "" {
				s.c.Violatef(kind, "V1 custom-bucket histogram %d of %d: %s", i, len(cbIn), d)
				return
			}
		}
		if len(expIn) > 0 {
			s.c.Count("hist_v1_mixed_batches", 1)
			if s.c.Idx < 4 {
				s.c.Sample(map[string]any{"record": "histogram_samples (V1 split)", "batch": n, "exponential": len(expIn), "custom_buckets": len(cbIn), "bytes_exponential_record": len(rec), "bytes_custom_record": len(rec2)})
			}
		}
	}
	if n > 0 {
		s.nonEmpty++
	}
	s.c.Count("hist_v1_entries", int64(n))
}

func (s *state) floatHists(v2 bool) {
	mix := s.r.IntN(4)
	if mix == 3 {
		mix = 2
	}
	s.floatHistBatch(v2, s.genFloatHistBatch(v2, mix))
}

func (s *state) customOnlyV1Float() { s.floatHistBatch(false, s.genFloatHistBatch(false, 1)) }

func (s *state) floatHistBatch(v2 bool, in []record.RefFloatHistogramSample) {
	n := len(in)
	enc := record.Encoder{EnableSTStorage: v2}
	rec, left := enc.FloatHistogramSamples(in, s.outBuf())
	s.note(rec)
	nCustom := 0
	for _, h := range in {
		if h.FH.Schema == histogram.CustomBucketsSchema {
			nCustom++
		}
	}
	if v2 {
		kind := "fhist-v2-roundtrip"
		if len(left) != 0 {
			s.c.Violatef("hist-split-lost-or-dup", "V2 FloatHistogramSamples returned %d leftovers (a V2 record holds both kinds)", len(left))
			return
		}
		if !s.checkType(kind, rec, record.FloatHistogramSamplesV2) {
			return
		}
		out, err := s.dec.FloatHistogramSamples(rec, nil)
		if err != nil {
			s.c.Violatef(kind, "decoding an encoded V2 float histogram record (%d, %d custom) failed: %v", n, nCustom, err)
			return
		}
		if len(out) != n {
			s.c.Violatef("hist-split-lost-or-dup", "V2 float histogram record: %d histograms in (%d custom), %d out", n, nCustom, len(out))
			return
		}
		for i := range in {
			if d := diffFloatSample(in[i], out[i]); d != "" {
				s.c.Violatef(kind, "V2 float histogram %d of %d: %s", i, n, d)
				return
			}
		}
		if nCustom == n && n > 0 {
			rec2 := enc.CustomBucketsFloatHistogramSamples(in, s.outBuf())
			s.note(rec2)
			out2, err := s.dec.FloatHistogramSamples(rec2, nil)
			if err != nil || len(out2) != n {
				s.c.Violatef(kind, "V2 CustomBucketsFloatHistogramSamples record: %d in, %d out, err=%v", n, len(out2), err)
				return
			}
			for i := range in {
				if d := diffFloatSample(in[i], out2[i]); d != "" {
					s.c.Violatef(kind, "V2 custom-bucket float histogram %d of %d: %s", i, n, d)
					return
				}
			}
		}
		if n > 0 {
			s.nonEmpty++
		}
		s.c.Count("fhist_v2_entries", int64(n))
		return
	}
	kind := "fhist-v1-roundtrip"
	var expIn, cbIn []record.RefFloatHistogramSample
	for _, h := range in {
		if h.FH.Schema == histogram.CustomBucketsSchema {
			cbIn = append(cbIn, h)
		} else {
			expIn = append(expIn, h)
		}
	}
	if len(left) != len(cbIn) {
		s.c.Violatef("hist-split-lost-or-dup", "V1 FloatHistogramSamples: batch of %d with %d custom-bucket histograms, %d leftovers returned", n, len(cbIn), len(left))
		return
	}
	for i := range left {
		if d := diffFloatSample(cbIn[i], left[i]); d != "" {
			s.c.Violatef("hist-split-lost-or-dup", "V1 float leftover %d is not the %d-th custom-bucket input: %s", i, i, d)
			return
		}
	}
	var expOut []record.RefFloatHistogramSample
	if len(rec) == 0 {
		if len(expIn) != 0 {
			s.c.Violatef("hist-split-lost-or-dup", "V1 FloatHistogramSamples returned an empty record although %d exponential histograms were in the batch", len(expIn))
			return
		}
		s.c.Count("fhist_v1_empty_exponential_record", 1)
	} else {
		if !s.checkType(kind, rec, record.FloatHistogramSamples) {
			return
		}
		var err error
		expOut, err = s.dec.FloatHistogramSamples(rec, nil)
		if err != nil {
			s.c.Violatef(kind, "decoding an encoded V1 float histogram record (%d exponential of %d) failed: %v", len(expIn), n, err)
			return
		}
	}
	if len(expOut) != len(expIn) {
		s.c.Violatef("hist-split-lost-or-dup", "V1 exponential float histogram record: %d exponential histograms in the batch of %d, %d decoded", len(expIn), n, len(expOut))
		return
	}
	for i := range expIn {
		if d := diffFloatSample(expIn[i], expOut[i]); d != "" {
			s.c.Violatef(kind, "V1 exponential float histogram %d of %d: %s", i, len(expIn), d)
			return
		}
	}
	if len(left) > 0 {
		rec2 := enc.CustomBucketsFloatHistogramSamples(left, s.outBuf())
		s.note(rec2)
		if !s.checkType(kind, rec2, record.CustomBucketsFloatHistogramSamples) {
			return
		}
		cbOut, err := s.dec.FloatHistogramSamples(rec2, nil)
		if err != nil {
			s.c.Violatef(kind, "decoding an encoded V1 custom-bucket float histogram record (%d) failed: %v", len(left), err)
			return
		}
		if len(cbOut) != len(cbIn) {
			s.c.Violatef("hist-split-lost-or-dup", "V1 custom-bucket float histogram record: %d in, %d decoded", len(cbIn), len(cbOut))
			return
		}
		for i := range cbIn {
			if d := diffFloatSample(cbIn[i], cbOut[i]); d != "" {
				s.c.Violatef(kind, "V1 custom-bucket float histogram %d of %d: %s", i, len(cbIn), d)
				return
			}
		}
		if len(expIn) > 0 {
			s.c.Count("fhist_v1_mixed_batches", 1)
		}
	}
	if n > 0 {
		s.nonEmpty++
	}
	s.c.Count("fhist_v1_entries", int64(n))
}
