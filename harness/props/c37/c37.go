// Package c37: scraping stores exactly the exposed samples and marks vanished series stale.
//
// The real scrape.Manager scrapes local HTTP handlers that serve generated exposition bodies; a
// recording wrapper around the appenders of a real TSDB (Appendable or AppendableV2) logs every
// append with its result and every commit/rollback.  Per target the committed transactions are
// cut into scrapes at the `up` sample; the k-th scrape is compared with the k-th served response
// by a reference scrape model written from the property statement and docs/configuration
// (honor_labels, honor_timestamps, track_timestamps_staleness, limits, metric relabeling).
// The scrape time is the timestamp of that scrape's `up` sample; no wall clock enters a verdict
// (the handlers use the clock only to place explicit timestamps just behind "now").
package c37

import (
	"context"
	"fmt"
	"log/slog"
	"math"
	"math/rand/v2"
	"net/http"
	"net/http/httptest"
	"os"
	"regexp"
	"sort"
	"strconv"
	"strings"
	"sync"
	"time"

	"github.com/prometheus/client_golang/prometheus"
	"github.com/prometheus/common/model"

	"github.com/prometheus/prometheus/config"
	"github.com/prometheus/prometheus/discovery/targetgroup"
	"github.com/prometheus/prometheus/model/exemplar"
	"github.com/prometheus/prometheus/model/histogram"
	"github.com/prometheus/prometheus/model/labels"
	"github.com/prometheus/prometheus/model/metadata"
	"github.com/prometheus/prometheus/model/value"
	"github.com/prometheus/prometheus/scrape"
	"github.com/prometheus/prometheus/storage"
	"github.com/prometheus/prometheus/tsdb"

	"verif/internal/core"
	"verif/internal/gen"
	"verif/internal/tsdbx"
)

const (
	kSampleMissing   = "exposed-sample-not-offered-to-storage"
	kSampleExtra     = "stored-sample-not-exposed"
	kFailedCommitted = "samples-committed-despite-failed-scrape"
	kUpOnFailure     = "failed-scrape-reported-up"
	kStaleMissing    = "vanished-series-not-marked-stale"
	kStaleFailMiss   = "failed-scrape-tracked-series-not-marked-stale"
	// narrow: the scrape failed AFTER part of the body had been processed (parse error behind valid
	// lines, or a sample/label limit) and every unmarked series is re-exposed in that failing body
	kStalePartial   = "partially-processed-failed-scrape-leaves-reexposed-series-unmarked"
	kStaleUntracked = "staleness-marker-for-untracked-series"
	kStaleExposed   = "staleness-marker-for-exposed-series"
	kReport         = "report-series-wrong"
	kReportMissing  = "report-series-missing"
	kEndOfRun       = "end-of-run-staleness-missing"
	kEndOfRunSeries = "end-of-run-series-not-marked-stale"
	kTimeOrder      = "scrape-times-not-increasing"
)

var reportNames = []string{"up", "scrape_duration_seconds", "scrape_samples_scraped", "scrape_samples_post_metric_relabeling", "scrape_series_added"}

func isReport(n string) bool {
	for _, r := range reportNames {
		if r == n {
			return true
		}
	}
	return false
}

func init() {
	core.Register(&core.Prop{
		ID:        "C37",
		Title:     "Scraping stores exactly the exposed samples and marks vanished series stale",
		Level:     "exploration",
		Technique: "runtime monitor with a reference scrape model: real scrape.Manager (NewManager/ApplyConfig/Run, static target groups) against local HTTP handlers, recording wrapper around real TSDB appenders (Appendable and AppendableV2), committed transactions cut into scrapes at the `up` sample",
		LevelText: "Each case runs one manager with 2-3 scrape configs (honor_labels, honor_timestamps, track_timestamps_staleness, sample/label-count/label-name-length/label-value-length/body-size limits, metric relabeling drop/keep/replace/labeldrop, 30-80 ms intervals) and 5-8 targets; every target serves a generated history of 10-30 (quick) / 10-50 (thorough) responses: text exposition with churning series, conflicting labels (job, instance, target labels), escaped values, hostile floats, duplicate series inside a body, explicit timestamps, empty bodies, HTTP 500, garbage behind valid lines, limit breaches, oversized bodies, timeouts; some targets are removed at the end. For every scrape (transaction(s) up to the `up` sample) the reference model computes from the served body: the label set of each sample (exposed labels merged with target labels per honor_labels, then metric relabeling), its timestamp (explicit if honoured, else the scrape's `up` time) and value; the offered samples must be exactly those (later occurrences of a series/timestamp within one body are optional); every series tracked by the previous scrape and absent now gets a StaleNaN at this scrape's time and nothing else does; failed scrapes commit no sample, mark every tracked series stale and report up=0; report series are checked (up, scrape_samples_scraped, scrape_samples_post_metric_relabeling exact on successes; scrape_series_added bounded); removed targets get end-of-run markers for all tracked series and the report series. Held on the observed histories only.",
		LevelNote: "The oracle is about what the appender RECEIVES and commits (the recording wrapper), not about what the TSDB then keeps (C01/C02). Scrape-to-response association is by count per target and double-checked by a sequence-marker series in every successful body (mismatch = inconclusive). Reductions: a scrape that should have succeeded but reported up=0 is accepted as a fetch failure (timeouts under load are legitimate) and then held to the failed-scrape rules; limits are decisive only where the documented wording is unambiguous (sample_limit: first occurrences vs all occurrences; label_limit: with/without the metric name), otherwise both outcomes are accepted; scrape_series_added ('approximate') is only bounded; report values of failed scrapes are only checked for up=0 (and zero counts on HTTP errors); every series keeps one timestamp mode (explicit or not) for the whole history; appends that the storage rejected make the series' tracking state unknown (either outcome accepted). 'Eventually' for end-of-run staleness is decided after a surviving target completed 25 further scrapes (the code waits two intervals by design). Metric relabeling reference covers drop, keep, replace, labeldrop with fully anchored regexes.",
		DesignRef: "DESIGN.md §5 C37",
		Rule:      "case = one manager run; non-trivial iff at least 40 scrapes were compared, at least one staleness marker for a vanished series and one failed scrape with staleness markers were verified; distinct by the digest of configs and response plans",
		Assumptions: []string{
			"target labels = job, instance (= address) and the target group's labels; report series carry exactly these",
			"a body is parsed line by line; garbage behind valid lines fails the whole scrape",
		},
		Cases: func(variant string, tier core.Tier) int {
			if variant != "default" {
				return 0
			}
			if tier == core.Thorough {
				return 1500
			}
			return 48
		},
		Run:            run,
		MinNontrivial:  func(t core.Tier) int { return 24 },
		CaseTimeoutSec: 240,
	})
}

// ---------------------------------------------------------------- recording appenders

type recSample struct {
	lset labels.Labels
	t    int64
	v    float64
	hist bool
	err  error
}

type session struct {
	id        int
	samples   []recSample
	committed bool
	closed    bool
	commitErr error
}

type recorder struct {
	mu       sync.Mutex
	sessions []*session
}

func (r *recorder) open() *session {
	r.mu.Lock()
	defer r.mu.Unlock()
	s := &session{id: len(r.sessions)}
	r.sessions = append(r.sessions, s)
	return s
}

type recAppendable struct {
	rec   *recorder
	inner storage.Appendable
}

func (a *recAppendable) Appender(ctx context.Context) storage.Appender {
	return &recAppender{Appender: a.inner.Appender(ctx), rec: a.rec, s: a.rec.open()}
}

type recAppender struct {
	storage.Appender
	rec *recorder
	s   *session
}

func (a *recAppender) add(l labels.Labels, t int64, v float64, hist bool, err error) {
	a.rec.mu.Lock()
	a.s.samples = append(a.s.samples, recSample{l.Copy(), t, v, hist, err})
	a.rec.mu.Unlock()
}

func (a *recAppender) Append(ref storage.SeriesRef, l labels.Labels, t int64, v float64) (storage.SeriesRef, error) {
	r, err := a.Appender.Append(ref, l, t, v)
	a.add(l, t, v, false, err)
	return r, err
}

func (a *recAppender) AppendHistogram(ref storage.SeriesRef, l labels.Labels, t int64, h *histogram.Histogram, fh *histogram.FloatHistogram) (storage.SeriesRef, error) {
	r, err := a.Appender.AppendHistogram(ref, l, t, h, fh)
	a.add(l, t, 0, true, err)
	return r, err
}

func (a *recAppender) Commit() error {
	err := a.Appender.Commit()
	a.rec.mu.Lock()
	a.s.closed, a.s.committed, a.s.commitErr = true, err == nil, err
	a.rec.mu.Unlock()
	return err
}

func (a *recAppender) Rollback() error {
	err := a.Appender.Rollback()
	a.rec.mu.Lock()
	a.s.closed = true
	a.rec.mu.Unlock()
	return err
}

type recAppendableV2 struct {
	rec   *recorder
	inner storage.AppendableV2
}

func (a *recAppendableV2) AppenderV2(ctx context.Context) storage.AppenderV2 {
	return &recAppenderV2{AppenderV2: a.inner.AppenderV2(ctx), rec: a.rec, s: a.rec.open()}
}

type recAppenderV2 struct {
	storage.AppenderV2
	rec *recorder
	s   *session
}

func (a *recAppenderV2) Append(ref storage.SeriesRef, ls labels.Labels, st, t int64, v float64, h *histogram.Histogram, fh *histogram.FloatHistogram, opts storage.AppendV2Options) (storage.SeriesRef, error) {
	r, err := a.AppenderV2.Append(ref, ls, st, t, v, h, fh, opts)
	a.rec.mu.Lock()
	a.s.samples = append(a.s.samples, recSample{ls.Copy(), t, v, h != nil || fh != nil, err})
	a.rec.mu.Unlock()
	return r, err
}

func (a *recAppenderV2) Commit() error {
	err := a.AppenderV2.Commit()
	a.rec.mu.Lock()
	a.s.closed, a.s.committed, a.s.commitErr = true, err == nil, err
	a.rec.mu.Unlock()
	return err
}

func (a *recAppenderV2) Rollback() error {
	err := a.AppenderV2.Rollback()
	a.rec.mu.Lock()
	a.s.closed = true
	a.rec.mu.Unlock()
	return err
}

var _ = exemplar.Exemplar{}
var _ = metadata.Metadata{}

// causeHandler records the error texts of "Scrape failed" / "Append failed" log lines as evidence.
type causeHandler struct {
	c  *core.Case
	re *regexp.Regexp
}

func (h *causeHandler) Enabled(context.Context, slog.Level) bool { return true }
func (h *causeHandler) WithAttrs([]slog.Attr) slog.Handler       { return h }
func (h *causeHandler) WithGroup(string) slog.Handler            { return h }
func (h *causeHandler) Handle(_ context.Context, r slog.Record) error {
	if r.Message != "Scrape failed" && r.Message != "Append failed" && r.Message != "Appending scrape report failed" && r.Message != "Scrape commit failed" {
		return nil
	}
	r.Attrs(func(a slog.Attr) bool {
		if a.Key == "err" {
			txt := a.Value.String()
			if i := strings.Index(txt, "\": "); i >= 0 {
				txt = txt[i+3:]
			}
			if len(txt) > 90 {
				txt = txt[:90]
			}
			h.c.Seen("failure_causes_logged", r.Message+": "+h.re.ReplaceAllString(txt, "N"))
		}
		return true
	})
	return nil
}

// ---------------------------------------------------------------- configs (generation + reference)

type relabelRule struct {
	action      string // drop keep replace labeldrop
	source      []string
	regex       string
	target      string
	replacement string
	re          *regexp.Regexp
}

func (r relabelRule) yaml() string {
	var sb strings.Builder
	sb.WriteString("  - action: " + r.action + "\n")
	if len(r.source) > 0 {
		sb.WriteString("    source_labels: [" + strings.Join(r.source, ", ") + "]\n")
	}
	fmt.Fprintf(&sb, "    regex: %q\n", r.regex)
	if r.action == "replace" {
		fmt.Fprintf(&sb, "    target_label: %s\n    replacement: %q\n", r.target, r.replacement)
	}
	return sb.String()
}

// apply is the documented relabel semantics for the four generated forms: source label values
// joined with ";", regex fully anchored.  Returns nil for "drop the sample".
func (r relabelRule) apply(b *labels.Builder) bool {
	switch r.action {
	case "labeldrop":
		var del []string
		b.Range(func(l labels.Label) {
			if r.re.MatchString(l.Name) {
				del = append(del, l.Name)
			}
		})
		b.Del(del...)
		return true
	}
	vals := make([]string, len(r.source))
	for i, s := range r.source {
		vals[i] = b.Get(s)
	}
	val := strings.Join(vals, ";")
	switch r.action {
	case "drop":
		return !r.re.MatchString(val)
	case "keep":
		return r.re.MatchString(val)
	case "replace":
		idx := r.re.FindStringSubmatchIndex(val)
		if idx == nil {
			return true
		}
		res := r.re.ExpandString(nil, r.replacement, val, idx)
		b.Set(r.target, string(res)) // empty value removes the label
		return true
	}
	return true
}

type jobCfg struct {
	name              string
	interval          time.Duration
	honorLabels       bool
	honorTimestamps   bool
	trackTS           bool
	sampleLimit       int
	labelLimit        int
	labelNameLenLimit int
	labelValLenLimit  int
	bodySizeLimit     int
	fallback          bool // fallback_scrape_protocol set (a failed body read leaves no content type)
	relabel           []relabelRule
}

func (j jobCfg) yaml() string {
	var sb strings.Builder
	fmt.Fprintf(&sb, "- job_name: %s\n  scrape_interval: %dms\n  scrape_timeout: %dms\n  honor_labels: %v\n  honor_timestamps: %v\n  track_timestamps_staleness: %v\n",
		j.name, j.interval.Milliseconds(), j.interval.Milliseconds(), j.honorLabels, j.honorTimestamps, j.trackTS)
	if j.sampleLimit > 0 {
		fmt.Fprintf(&sb, "  sample_limit: %d\n", j.sampleLimit)
	}
	if j.labelLimit > 0 {
		fmt.Fprintf(&sb, "  label_limit: %d\n", j.labelLimit)
	}
	if j.labelNameLenLimit > 0 {
		fmt.Fprintf(&sb, "  label_name_length_limit: %d\n", j.labelNameLenLimit)
	}
	if j.labelValLenLimit > 0 {
		fmt.Fprintf(&sb, "  label_value_length_limit: %d\n", j.labelValLenLimit)
	}
	if j.bodySizeLimit > 0 {
		fmt.Fprintf(&sb, "  body_size_limit: %dB\n", j.bodySizeLimit)
	}
	if j.fallback {
		sb.WriteString("  fallback_scrape_protocol: PrometheusText0.0.4\n")
	}
	if len(j.relabel) > 0 {
		sb.WriteString("  metric_relabel_configs:\n")
		for _, r := range j.relabel {
			sb.WriteString(r.yaml())
		}
	}
	return sb.String()
}

func genJob(r *rand.Rand, i int) jobCfg {
	j := jobCfg{name: fmt.Sprintf("job%d", i), interval: gen.Pick(r, []time.Duration{30 * time.Millisecond, 50 * time.Millisecond, 80 * time.Millisecond}),
		honorLabels: r.IntN(2) == 0, honorTimestamps: r.IntN(4) != 0, trackTS: r.IntN(2) == 0}
	if r.IntN(2) == 0 {
		j.sampleLimit = 8 + r.IntN(8)
	}
	if r.IntN(4) == 0 {
		j.labelLimit = 12
	}
	if r.IntN(3) == 0 {
		j.labelNameLenLimit = 24
	}
	if r.IntN(3) == 0 {
		j.labelValLenLimit = 40
	}
	if r.IntN(3) == 0 {
		j.bodySizeLimit = 6000
	}
	j.fallback = r.IntN(2) == 0
	add := func(rr relabelRule) {
		rr.re = regexp.MustCompile("^(?s:" + rr.regex + ")$")
		j.relabel = append(j.relabel, rr)
	}
	if r.IntN(2) == 0 {
		add(relabelRule{action: "drop", source: []string{"__name__"}, regex: "drop_.*"})
	}
	if r.IntN(3) == 0 {
		add(relabelRule{action: "replace", source: []string{"a"}, regex: "(.+)", target: gen.Pick(r, []string{"z", "b"}), replacement: "${1}-x"})
	}
	if r.IntN(3) == 0 {
		add(relabelRule{action: "labeldrop", regex: "tmp_.*"})
	}
	if r.IntN(4) == 0 {
		add(relabelRule{action: "keep", source: []string{"__name__"}, regex: "(m|seq_marker|filler|http_.*|drop_.*|wide)"})
	}
	if r.IntN(5) == 0 {
		add(relabelRule{action: "drop", source: []string{"a", "b"}, regex: "x;1"})
	}
	return j
}

// ---------------------------------------------------------------- response plans

type line struct {
	lbls    labels.Labels // exposed labels incl. __name__
	v       float64
	explTS  bool
	tsDelta int64 // explicit timestamp = serve time - 5 ms - tsDelta
	ts      int64 // filled when served
	raw     string
}

type response struct {
	kind    string // ok empty http500 garbage timeout (limit breaches are "ok" bodies that the model judges)
	lines   []line
	garbage int // index before which the garbage line sits (kind garbage)
	pad     int // bytes of comment padding (body size limit)
	served  bool
	size    int
	at      int64 // wall clock (ms) at which the handler picked this response
	// kind cut: the declared Content-Length is the full body, the connection is closed after
	// cutFrac of it (moved back to a line boundary if cutAtLine)
	cutFrac   float64
	cutAtLine bool
}

type seriesGen struct {
	lbls   labels.Labels
	expl   bool
	pOn    float64
	pOff   float64
	on     bool
	hostil bool
}

type target struct {
	id     string
	job    *jobCfg
	srv    *httptest.Server
	addr   string
	tlbls  labels.Labels // full target labels: job, instance, group labels
	plan   []*response
	mu     sync.Mutex
	served []*response
	remove bool
}

func escLabel(s string) string {
	s = strings.ReplaceAll(s, `\`, `\\`)
	s = strings.ReplaceAll(s, "\n", `\n`)
	return strings.ReplaceAll(s, `"`, `\"`)
}

func fmtFloat(v float64) string {
	switch {
	case math.IsNaN(v):
		return "NaN"
	case math.IsInf(v, 1):
		return "+Inf"
	case math.IsInf(v, -1):
		return "-Inf"
	}
	return strconv.FormatFloat(v, 'g', -1, 64)
}

func (l *line) render(now int64) string {
	var sb strings.Builder
	sb.WriteString(l.lbls.Get(labels.MetricName))
	first := true
	l.lbls.Range(func(x labels.Label) {
		if x.Name == labels.MetricName {
			return
		}
		if first {
			sb.WriteByte('{')
			first = false
		} else {
			sb.WriteByte(',')
		}
		sb.WriteString(x.Name + `="` + escLabel(x.Value) + `"`)
	})
	if !first {
		sb.WriteByte('}')
	}
	sb.WriteByte(' ')
	sb.WriteString(fmtFloat(l.v))
	if l.explTS {
		l.ts = now - 5 - l.tsDelta
		sb.WriteString(" " + strconv.FormatInt(l.ts, 10))
	}
	sb.WriteByte('\n')
	return sb.String()
}

func genPlan(r *rand.Rand, j *jobCfg, n int) []*response {
	// series universe of this target
	var univ []*seriesGen
	names := []string{"m", "m", "http_requests_total", "drop_me", "wide", "other_metric"}
	seen := map[string]bool{}
	ns := 4 + r.IntN(7)
	for tries := 0; len(univ) < ns && tries < 100; tries++ {
		b := labels.NewBuilder(labels.EmptyLabels())
		b.Set(labels.MetricName, gen.Pick(r, names))
		if r.IntN(4) != 0 {
			b.Set("a", gen.Pick(r, []string{"x", "y", "z", "日本", "q\"uo\\te", "new\nline", "with space"}))
		}
		if r.IntN(2) == 0 {
			b.Set("b", gen.Pick(r, []string{"1", "2"}))
		}
		switch r.IntN(10) {
		case 0:
			b.Set("job", "exposed-job")
		case 1:
			b.Set("instance", "exposed:1")
		case 2:
			b.Set("env", "exposed-env")
		case 3:
			b.Set("tmp_x", "t")
		case 4:
			b.Set("job", "exposed-job")
			b.Set("instance", "exposed:2")
		}
		ls := b.Labels()
		if seen[ls.String()] {
			continue
		}
		seen[ls.String()] = true
		univ = append(univ, &seriesGen{lbls: ls, expl: r.IntN(4) == 0, pOn: gen.Pick(r, []float64{0.3, 0.6, 0.9}), pOff: gen.Pick(r, []float64{0.05, 0.2, 0.5}), on: r.IntN(2) == 0, hostil: r.IntN(6) == 0})
	}
	var plan []*response
	for k := 0; k < n; k++ {
		resp := &response{kind: "ok"}
		switch x := r.IntN(40); {
		case x < 3:
			resp.kind = "http500"
		case x == 3:
			resp.kind = "empty"
		case x == 4 && k > 2:
			resp.kind = "timeout"
		case x < 8:
			resp.kind = "garbage"
		case x < 10 && k > 1:
			resp.kind = "cut" // the connection is closed in the middle of the body
		}
		// marker first (alignment check); value = index of this response
		resp.lines = append(resp.lines, line{lbls: labels.FromStrings(labels.MetricName, "seq_marker"), v: float64(k)})
		for _, s := range univ {
			if s.on {
				if r.Float64() < s.pOff {
					s.on = false
				}
			} else if r.Float64() < s.pOn {
				s.on = true
			}
			if !s.on {
				continue
			}
			v := float64(r.IntN(100000)) / 16
			if s.hostil {
				v = gen.Float(r, false)
			}
			resp.lines = append(resp.lines, line{lbls: s.lbls, v: v, explTS: s.expl})
			if r.IntN(12) == 0 { // duplicate inside the body
				d := line{lbls: s.lbls, v: v, explTS: s.expl}
				if r.IntN(2) == 0 {
					d.v = v + 1
				}
				if s.expl && r.IntN(2) == 0 {
					d.tsDelta = 1
				}
				resp.lines = append(resp.lines, d)
			}
		}
		// shuffle everything behind the marker
		rest := resp.lines[1:]
		r.Shuffle(len(rest), func(a, b int) { rest[a], rest[b] = rest[b], rest[a] })
		// limit breaches
		if j.sampleLimit > 0 && r.IntN(8) == 0 {
			for i := 0; i < j.sampleLimit+1+r.IntN(3); i++ {
				resp.lines = append(resp.lines, line{lbls: labels.FromStrings(labels.MetricName, "filler", "i", fmt.Sprint(i)), v: float64(i)})
			}
		}
		if j.labelValLenLimit > 0 && r.IntN(10) == 0 {
			resp.lines = append(resp.lines, line{lbls: labels.FromStrings(labels.MetricName, "wide", "a", strings.Repeat("v", j.labelValLenLimit+5+r.IntN(20))), v: 1})
		}
		if j.labelNameLenLimit > 0 && r.IntN(10) == 0 {
			resp.lines = append(resp.lines, line{lbls: labels.FromStrings(labels.MetricName, "wide", strings.Repeat("n", j.labelNameLenLimit+3+r.IntN(10)), "1"), v: 1})
		}
		if j.labelLimit > 0 && r.IntN(10) == 0 {
			b := labels.NewBuilder(labels.FromStrings(labels.MetricName, "wide"))
			for i := 0; i < j.labelLimit+2; i++ {
				b.Set(fmt.Sprintf("l%02d", i), "v")
			}
			resp.lines = append(resp.lines, line{lbls: b.Labels(), v: 1})
		}
		if j.bodySizeLimit > 0 && r.IntN(10) == 0 {
			resp.pad = j.bodySizeLimit + 500
		}
		if resp.kind == "garbage" {
			resp.garbage = r.IntN(len(resp.lines) + 1)
		}
		if resp.kind == "cut" {
			resp.cutFrac, resp.cutAtLine = 0.2+0.7*r.Float64(), r.IntN(2) == 0
		}
		plan = append(plan, resp)
	}
	return plan
}

func (t *target) handler(w http.ResponseWriter, req *http.Request) {
	t.mu.Lock()
	k := len(t.served)
	var resp *response
	if k < len(t.plan) {
		resp = t.plan[k]
	} else {
		// steady tail: repeat the last planned successful shape with a fresh marker
		last := t.plan[len(t.plan)-1]
		resp = &response{kind: "ok"}
		for _, l := range last.lines {
			resp.lines = append(resp.lines, line{lbls: l.lbls, v: l.v, explTS: l.explTS, tsDelta: l.tsDelta})
		}
		if last.kind != "ok" || last.pad > 0 {
			resp.lines = resp.lines[:1]
		}
		resp.lines[0].v = float64(k)
	}
	now := time.Now().UnixMilli()
	var sb strings.Builder
	if resp.kind == "ok" || resp.kind == "garbage" || resp.kind == "cut" {
		sb.WriteString("# HELP m a generated metric\n# TYPE m gauge\n")
		for i := range resp.lines {
			if resp.kind == "garbage" && i == resp.garbage {
				sb.WriteString("7&-this is not exposition format\n")
			}
			l := &resp.lines[i]
			l.raw = l.render(now)
			sb.WriteString(l.raw)
		}
		if resp.kind == "garbage" && resp.garbage >= len(resp.lines) {
			sb.WriteString("7&-this is not exposition format\n")
		}
		if resp.pad > 0 {
			sb.WriteString("# " + strings.Repeat("p", resp.pad) + "\n")
		}
	}
	resp.size = sb.Len()
	resp.served = true
	resp.at = now
	t.served = append(t.served, resp)
	t.mu.Unlock()

	switch resp.kind {
	case "http500":
		http.Error(w, "boom", http.StatusInternalServerError)
		return
	case "timeout":
		select {
		case <-req.Context().Done():
		case <-time.After(4 * t.job.interval):
		}
		return
	case "cut":
		body := sb.String()
		n := int(resp.cutFrac * float64(len(body)))
		if resp.cutAtLine {
			if i := strings.LastIndexByte(body[:n], '\n'); i >= 0 {
				n = i + 1
			}
		}
		if hj, ok := w.(http.Hijacker); ok {
			if conn, bw, err := hj.Hijack(); err == nil {
				fmt.Fprintf(bw, "HTTP/1.1 200 OK\r\nContent-Type: text/plain; version=0.0.4; charset=utf-8\r\nContent-Length: %d\r\n\r\n%s", len(body), body[:n])
				bw.Flush()
				conn.Close()
				return
			}
		}
		http.Error(w, "boom", http.StatusInternalServerError)
		return
	}
	w.Header().Set("Content-Type", "text/plain; version=0.0.4; charset=utf-8")
	w.WriteHeader(200)
	_, _ = w.Write([]byte(sb.String()))
}

func (t *target) nServed() int {
	t.mu.Lock()
	defer t.mu.Unlock()
	return len(t.served)
}

// ---------------------------------------------------------------- reference scrape model

// mutate: exposed labels merged with the target labels per honor_labels, then metric relabeling.
// ok=false: the sample is dropped.
func (t *target) mutate(exposed labels.Labels) (labels.Labels, bool) {
	b := labels.NewBuilder(exposed)
	if t.job.honorLabels {
		t.tlbls.Range(func(l labels.Label) {
			if !exposed.Has(l.Name) {
				b.Set(l.Name, l.Value)
			}
		})
	} else {
		t.tlbls.Range(func(l labels.Label) {
			if exposed.Has(l.Name) {
				b.Set("exported_"+l.Name, exposed.Get(l.Name))
			}
			b.Set(l.Name, l.Value)
		})
	}
	for _, r := range t.job.relabel {
		if !r.apply(b) {
			return labels.EmptyLabels(), false
		}
	}
	return b.Labels(), true
}

type expSample struct {
	series string
	lset   labels.Labels
	ts     int64 // 0 = scrape time
	hasTS  bool
	v      float64
	must   bool
	line   int
}

type verdict int

const (
	vOK verdict = iota
	vFail
	vEither
)

type modelled struct {
	exp       []expSample
	total     int // samples in the body
	keptAll   int
	keptFirst int
	outcome   verdict
	why       string
	partial   bool // a failure that happens after part of the body was processed
	fetchFail bool
}

func (t *target) model(resp *response) modelled {
	m := modelled{}
	j := t.job
	switch resp.kind {
	case "http500", "timeout", "cut":
		m.outcome, m.why, m.fetchFail = vFail, resp.kind, true
		return m
	case "empty":
		m.outcome = vOK
		return m
	}
	if j.bodySizeLimit > 0 && resp.size > j.bodySizeLimit {
		m.outcome, m.why, m.fetchFail = vFail, "body_size_limit", true
		return m
	}
	firstSeen := map[string]bool{}
	outcome, why := vOK, ""
	fail := func(v verdict, w string) {
		if outcome == vOK || (outcome == vEither && v == vFail) {
			outcome, why = v, w
		}
	}
	for i, l := range resp.lines {
		m.total++
		ls, ok := t.mutate(l.lbls)
		if !ok {
			continue
		}
		m.keptAll++
		e := expSample{series: ls.String(), lset: ls, v: l.v, line: i}
		if l.explTS && j.honorTimestamps {
			e.hasTS, e.ts = true, l.ts
		}
		key := fmt.Sprintf("%s|%v|%d", e.series, e.hasTS, e.ts)
		if !firstSeen[key] {
			firstSeen[key] = true
			e.must = true
			m.keptFirst++
		}
		m.exp = append(m.exp, e)
		// label limits (post relabeling)
		n := ls.Len()
		if j.labelLimit > 0 {
			if n-1 > j.labelLimit {
				fail(vFail, "label_limit")
			} else if n > j.labelLimit {
				fail(vEither, "label_limit (with or without the metric name)")
			}
		}
		ls.Range(func(x labels.Label) {
			if j.labelNameLenLimit > 0 && len(x.Name) > j.labelNameLenLimit {
				fail(vFail, "label_name_length_limit")
			}
			if j.labelValLenLimit > 0 && len(x.Value) > j.labelValLenLimit {
				fail(vFail, "label_value_length_limit")
			}
		})
	}
	if j.sampleLimit > 0 {
		if m.keptFirst > j.sampleLimit {
			fail(vFail, "sample_limit")
		} else if m.keptAll > j.sampleLimit {
			fail(vEither, "sample_limit (duplicates counted or not)")
		}
	}
	if resp.kind == "garbage" {
		outcome, why = vFail, "parse error"
	}
	m.outcome, m.why = outcome, why
	m.partial = outcome != vOK
	return m
}

// ---------------------------------------------------------------- observed scrapes

type obsScrape struct {
	t        int64
	report   map[string]float64
	normal   []recSample
	stale    []recSample
	endOfRun bool
	appErrs  int
	bad      string
	lost     string // the transaction carrying the report was not committed / the report was rejected
}

func floatEq(a, b float64) bool {
	return math.Float64bits(a) == math.Float64bits(b) || (math.IsNaN(a) && math.IsNaN(b) && !value.IsStaleNaN(a) && !value.IsStaleNaN(b))
}

func run(c *core.Case) {
	r := c.Rng
	var digest strings.Builder
	nScrapes := 10 + r.IntN(21)
	if c.Tier == core.Thorough {
		nScrapes = 10 + r.IntN(41)
	}
	v2 := r.IntN(2) == 0
	nJobs := 2 + r.IntN(2)
	jobs := make([]*jobCfg, nJobs)
	var cfgText strings.Builder
	cfgText.WriteString("global:\n  scrape_interval: 1s\n  scrape_timeout: 1s\nscrape_configs:\n")
	for i := range jobs {
		j := genJob(r, i)
		jobs[i] = &j
		cfgText.WriteString(j.yaml())
	}
	digest.WriteString(cfgText.String())
	c.Logf("config:\n%s", cfgText.String())
	cfg, err := config.Load(cfgText.String(), tsdbx.NopLogger())
	if err != nil {
		core.Must(err, "generated scrape config must load:\n"+cfgText.String())
	}

	nTargets := 5 + r.IntN(4)
	var targets []*target
	for i := 0; i < nTargets; i++ {
		t := &target{id: fmt.Sprintf("t%d", i), job: jobs[i%nJobs]}
		n := nScrapes - r.IntN(4)
		t.plan = genPlan(r, t.job, n)
		t.remove = i > 0 && r.IntN(3) == 0
		t.srv = httptest.NewServer(http.HandlerFunc(t.handler))
		t.addr = strings.TrimPrefix(t.srv.URL, "http://")
		grp := labels.FromStrings("tid", t.id)
		if r.IntN(2) == 0 {
			grp = labels.FromStrings("tid", t.id, "env", "prod")
		}
		b := labels.NewBuilder(grp)
		b.Set("job", t.job.name)
		b.Set("instance", t.addr)
		t.tlbls = b.Labels()
		targets = append(targets, t)
		for _, p := range t.plan {
			fmt.Fprintf(&digest, "%s:%s:%d:%d;", t.id, p.kind, len(p.lines), p.garbage)
			for _, l := range p.lines {
				fmt.Fprintf(&digest, "%s=%x,%v;", l.lbls.String(), math.Float64bits(l.v), l.explTS)
			}
		}
	}
	defer func() {
		for _, t := range targets {
			t.srv.CloseClientConnections()
			t.srv.Close()
		}
	}()

	opts := tsdb.DefaultOptions()
	opts.NoLockfile = true
	db, err := tsdb.Open(c.TempDir(), tsdbx.NopLogger(), nil, opts, nil)
	core.Must(err, "open tsdb")
	defer db.Close()
	rec := &recorder{}
	var app storage.Appendable
	var appV2 storage.AppendableV2
	if v2 {
		appV2 = &recAppendableV2{rec: rec, inner: db}
	} else {
		app = &recAppendable{rec: rec, inner: db}
	}
	// the manager's log is only used to label failure causes in the evidence (never in a verdict)
	mlog := slog.New(&causeHandler{c: c, re: regexp.MustCompile(`[0-9]{2,}`)})
	if c.Verbose {
		mlog = slog.New(slog.NewTextHandler(os.Stderr, &slog.HandlerOptions{Level: slog.LevelDebug}))
	}
	mgr, err := scrape.NewManager(&scrape.Options{DiscoveryReloadInterval: model.Duration(10 * time.Millisecond)}, mlog, nil, app, appV2, prometheus.NewRegistry())
	core.Must(err, "scrape.NewManager")
	core.Must(mgr.ApplyConfig(cfg), "ApplyConfig")
	tsets := make(chan map[string][]*targetgroup.Group)
	runDone := make(chan struct{})
	go func() { _ = mgr.Run(tsets); close(runDone) }()
	groupsFor := func(include func(*target) bool) map[string][]*targetgroup.Group {
		out := map[string][]*targetgroup.Group{}
		for _, j := range jobs {
			out[j.name] = []*targetgroup.Group{}
		}
		for _, t := range targets {
			if !include(t) {
				continue
			}
			ls := model.LabelSet{}
			t.tlbls.Range(func(l labels.Label) {
				if l.Name != "job" && l.Name != "instance" {
					ls[model.LabelName(l.Name)] = model.LabelValue(l.Value)
				}
			})
			out[t.job.name] = append(out[t.job.name], &targetgroup.Group{
				Source:  t.id,
				Targets: []model.LabelSet{{model.AddressLabel: model.LabelValue(t.addr)}},
				Labels:  ls,
			})
		}
		return out
	}
	stopped := false
	stop := func() {
		if !stopped {
			stopped = true
			mgr.Stop()
			<-runDone
		}
	}
	defer stop()
	tsets <- groupsFor(func(*target) bool { return true })

	deadline := time.Now().Add(150 * time.Second)
	waitFor := func(what string, cond func() bool) bool {
		for !cond() {
			if time.Now().After(deadline) {
				c.Inconclusive("watchdog while waiting for %s", what)
				return false
			}
			time.Sleep(15 * time.Millisecond)
		}
		return true
	}
	ok := waitFor("all planned responses to be served", func() bool {
		for _, t := range targets {
			if t.nServed() < len(t.plan) {
				return false
			}
		}
		return true
	})
	anyRemoved := false
	if ok {
		for _, t := range targets {
			anyRemoved = anyRemoved || t.remove
		}
		if anyRemoved {
			tsets <- groupsFor(func(t *target) bool { return !t.remove })
			base := targets[0].nServed()
			ok = waitFor("25 scrapes of the surviving target after the removal", func() bool { return targets[0].nServed() >= base+25 })
		}
	}
	stop()
	if !ok {
		return
	}

	// ---------------------------------------------------------------- analysis
	byTarget := map[string][]*session{}
	rec.mu.Lock()
	sessions := rec.sessions
	rec.mu.Unlock()
	digits := regexp.MustCompile(`[0-9.e+-]{3,}`)
	for _, s := range sessions {
		if len(s.samples) == 0 {
			continue
		}
		for _, x := range s.samples {
			if x.err != nil {
				what := "normal"
				if value.IsStaleNaN(x.v) {
					what = "stale-marker"
				}
				if isReport(x.lset.Get(labels.MetricName)) {
					what = "report"
				}
				c.Seen("append_errors", fmt.Sprintf("%s committed=%v: %s", what, s.committed, digits.ReplaceAllString(x.err.Error(), "N")))
			}
		}
		tid := s.samples[0].lset.Get("tid")
		for _, x := range s.samples {
			if x.lset.Get("tid") != tid {
				core.Must(fmt.Errorf("session %d mixes targets %q and %q", s.id, tid, x.lset.Get("tid")), "target identification")
			}
		}
		byTarget[tid] = append(byTarget[tid], s)
	}
	totalScrapes, staleVerified, failedWithStale, tolerated := 0, 0, 0, 0
	for _, t := range targets {
		st := analyse(c, t, byTarget[t.id], anyRemoved)
		totalScrapes += st.scrapes
		staleVerified += st.stale
		failedWithStale += st.failedWithStale
		tolerated += st.tolerated
	}
	c.Count("scrapes_compared", int64(totalScrapes))
	c.Count("stale_markers_verified", int64(staleVerified))
	c.Count("failed_scrapes_with_stale_markers", int64(failedWithStale))
	c.Count("unexpected_failures_tolerated(timeouts under load)", int64(tolerated))
	c.Seen("appender", map[bool]string{true: "AppendableV2", false: "Appendable"}[v2])
	if totalScrapes >= 40 && staleVerified > 0 && failedWithStale > 0 {
		c.Nontrivial(digest.String())
	}
	if c.Idx < 2 {
		t := targets[0]
		var bodies []string
		for i, p := range t.served {
			if i >= 3 {
				break
			}
			var sb strings.Builder
			sb.WriteString(p.kind + ": ")
			for _, l := range p.lines {
				sb.WriteString(strings.TrimSpace(l.raw) + " | ")
			}
			bodies = append(bodies, sb.String())
		}
		c.Sample(map[string]any{"appender": map[bool]string{true: "AppendableV2", false: "Appendable"}[v2], "config": cfgText.String(), "targets": nTargets,
			"planned_scrapes_per_target": nScrapes, "scrapes_compared": totalScrapes, "stale_verified": staleVerified, "first_bodies_of_t0": bodies})
	}
}

type stats struct{ scrapes, stale, failedWithStale, tolerated int }

func analyse(c *core.Case, t *target, sess []*session, anyRemoved bool) stats {
	var st stats
	// cut into scrapes at the `up` sample
	var scrapes []*obsScrape
	cur := &obsScrape{report: map[string]float64{}}
	tl := t.tlbls
	for _, s := range sess {
		hasUp := false
		if !s.committed {
			// rolled back (first transaction of a failed scrape) or commit failed: contributes no
			// content; if it carried the report the whole scrape is lost
			for _, x := range s.samples {
				if x.lset.Get(labels.MetricName) == "up" && labels.Equal(labels.NewBuilder(x.lset).Del(labels.MetricName).Labels(), tl) {
					cur.lost = fmt.Sprintf("transaction with the report was not committed (commit error: %v)", s.commitErr)
					cur.t = x.t
					scrapes = append(scrapes, cur)
					cur = &obsScrape{report: map[string]float64{}}
				}
			}
			continue
		}
		for _, x := range s.samples {
			name := x.lset.Get(labels.MetricName)
			isRep := isReport(name) && labels.Equal(labels.NewBuilder(x.lset).Del(labels.MetricName).Labels(), tl)
			switch {
			case isRep:
				if _, dup := cur.report[name]; dup {
					cur.bad = "report series " + name + " appended twice in one scrape"
				}
				cur.report[name] = x.v
				if name == "up" {
					hasUp = true
					cur.t = x.t
					cur.endOfRun = value.IsStaleNaN(x.v)
				} else if cur.t != 0 && x.t != cur.t {
					cur.bad = fmt.Sprintf("report series %s at %d, up at %d", name, x.t, cur.t)
				}
				if x.err != nil {
					cur.lost = fmt.Sprintf("report series %s rejected by the storage: %v", name, x.err)
				}
			case x.hist:
				cur.bad = "histogram sample appended for a text-format float body"
			case value.IsStaleNaN(x.v):
				cur.stale = append(cur.stale, x)
			default:
				cur.normal = append(cur.normal, x)
			}
			if x.err != nil && !isRep {
				cur.appErrs++
			}
		}
		if hasUp {
			scrapes = append(scrapes, cur)
			cur = &obsScrape{report: map[string]float64{}}
		}
	}
	if len(cur.normal)+len(cur.stale)+len(cur.report) > 0 {
		c.Violatef(kReportMissing, "target %s: a committed transaction without an `up` sample ends the history (%d samples, %d staleness markers)", t.id, len(cur.normal), len(cur.stale))
	}
	t.mu.Lock()
	served := t.served
	t.mu.Unlock()

	// ---- associate scrapes with served responses.  Every successful scrape carries the marker
	// series whose value is the index of the response; failed scrapes in between are matched
	// one-to-one with the responses in between if the counts agree, otherwise (a scrape failed
	// before it reached the handler, e.g. a connect timeout under load) they are only held to
	// the generic failed-scrape rules.
	type assignment struct {
		resp  *response
		idx   int
		cands []*response
	}
	assign := map[*obsScrape]assignment{}
	var order []*obsScrape
	for _, sc := range scrapes {
		if !sc.endOfRun {
			order = append(order, sc)
		}
	}
	idxOf := make([]int, len(order))
	last := -1
	for i, sc := range order {
		idxOf[i] = -1
		if sc.lost != "" || sc.report["up"] != 1 {
			continue
		}
		mv := -1
		for _, x := range sc.normal {
			if x.lset.Get(labels.MetricName) == "seq_marker" && x.v == math.Trunc(x.v) && x.v >= 0 {
				mv = int(x.v)
			}
		}
		if mv < 0 {
			continue // a successful scrape of an empty body carries no marker
		}
		if mv <= last || mv >= len(served) {
			c.Inconclusive("target %s: successful scrape at %d carries marker %d (previous %d, %d responses served): association lost", t.id, sc.t, mv, last, len(served))
			return st
		}
		idxOf[i], last = mv, mv
	}
	for i := 0; i < len(order); {
		if idxOf[i] >= 0 {
			assign[order[i]] = assignment{resp: served[idxOf[i]], idx: idxOf[i]}
			i++
			continue
		}
		j := i
		for j < len(order) && idxOf[j] < 0 {
			j++
		}
		a, b := -1, len(served)
		if i > 0 {
			a = idxOf[i-1]
		}
		if j < len(order) {
			b = idxOf[j]
		}
		cands := served[a+1 : b]
		// The positional match is only trusted when the handler times fit: a scrape's report
		// timestamp is taken before its request is sent (alignment only moves it backwards), so
		// its response was picked at or after that time, before the next scrape started and
		// within the scrape timeout (= interval).  Otherwise a scrape that failed before reaching
		// the handler and one cut off by the shutdown can shift the match by one.
		positional := len(cands) == j-i
		for x := i; positional && x < j; x++ {
			at := cands[x-i].at
			if at < order[x].t || at > order[x].t+t.job.interval.Milliseconds() || (x+1 < len(order) && at >= order[x+1].t) {
				positional = false
				c.Count("positional_associations_rejected_by_handler_time", 1)
			}
		}
		for x := i; x < j; x++ {
			if positional {
				assign[order[x]] = assignment{resp: cands[x-i], idx: a + 1 + x - i}
			} else {
				assign[order[x]] = assignment{idx: -1, cands: cands}
			}
		}
		i = j
	}

	tracked := map[string]bool{} // series that must be marked stale when they vanish
	maybe := map[string]bool{}   // series that may be marked stale (tracking state unknown)
	var lastT int64 = math.MinInt64
	var hist []string // summaries of the last scrapes, for witnesses
	for _, sc := range scrapes {
		if sc.bad != "" {
			c.Violatef(kReport, "target %s scrape at %d: %s", t.id, sc.t, sc.bad)
		}
		if sc.t < lastT {
			c.Violatef(kTimeOrder, "target %s: scrape time %d after %d", t.id, sc.t, lastT)
		}
		if sc.t == lastT && sc.lost == "" {
			// two scrapes were given the same (aligned) timestamp: a timing artefact of tiny
			// intervals under load; the storage rejects most of the second one
			sc.lost = "same timestamp as the previous scrape"
		}
		lastT = sc.t
		if sc.lost != "" && !sc.endOfRun {
			c.Count("scrapes_lost(report rejected/not committed/duplicate timestamp)", 1)
			c.Seen("scrape_kinds", "lost")
			// tracking state unknown from here on
			for s := range tracked {
				maybe[s] = true
			}
			la := assign[sc]
			for _, cnd := range append(append([]*response{}, la.cands...), la.resp) {
				if cnd != nil {
					for _, e := range t.model(cnd).exp {
						maybe[e.series] = true
					}
				}
			}
			tracked = map[string]bool{}
			continue
		}
		if sc.endOfRun {
			// end-of-run staleness: all tracked series and the report series
			if !t.remove {
				// Manager.Stop stops the loops first and cancels the pool context afterwards; when
				// that takes longer than two intervals the loops write their end-of-run markers
				// during shutdown.  Not covered by the statement: accepted at the very end only.
				if sc != scrapes[len(scrapes)-1] {
					c.Violatef(kReport, "target %s was never removed but got end-of-run staleness at %d in the middle of its history", t.id, sc.t)
				}
				c.Count("end_of_run_markers_written_during_shutdown", 1)
			}
			for _, n := range reportNames {
				if v, ok := sc.report[n]; !ok || !value.IsStaleNaN(v) {
					c.Violatef(kReport, "target %s end-of-run at %d: report series %s is not a staleness marker (%v, present=%v)", t.id, sc.t, n, v, ok)
				}
			}
			if len(sc.normal) > 0 {
				c.Violatef(kSampleExtra, "target %s end-of-run transaction carries %d normal samples", t.id, len(sc.normal))
			}
			got := map[string]bool{}
			for _, x := range sc.stale {
				got[x.lset.String()] = true
				if x.t != sc.t {
					c.Violatef(kReport, "target %s end-of-run: staleness marker of %s at %d, report at %d", t.id, x.lset, x.t, sc.t)
				}
				if !tracked[x.lset.String()] && !maybe[x.lset.String()] {
					c.Violatef(kStaleUntracked, "target %s end-of-run: staleness marker for %s which was not tracked", t.id, x.lset)
				}
			}
			for s := range tracked {
				if !got[s] {
					c.Violatef(kEndOfRunSeries, "target %s end-of-run at %d: tracked series %s not marked stale", t.id, sc.t, s)
				} else {
					st.stale++
				}
			}
			c.Seen("scrape_kinds", "end-of-run")
			tracked, maybe = map[string]bool{}, map[string]bool{}
			continue
		}
		as := assign[sc]
		hist = append(hist, fmt.Sprintf("[t=%d up=%v idx=%d kind=%s normal=%d stale=%d lost=%q cands=%d]", sc.t, sc.report["up"], as.idx, func() string {
			if as.resp != nil {
				return as.resp.kind
			}
			return "?"
		}(), len(sc.normal), len(sc.stale), sc.lost, len(as.cands)))
		if len(hist) > 5 {
			hist = hist[1:]
		}
		c.Logf("target %s scrape t=%d up=%v idx=%d normal=%d stale=%d lost=%q kind=%s tracked=%d maybe=%d", t.id, sc.t, sc.report["up"], as.idx, len(sc.normal), len(sc.stale), sc.lost, func() string {
			if as.resp != nil {
				return as.resp.kind
			}
			return "?"
		}(), len(tracked), len(maybe))
		k := as.idx + 1 // messages print k-1 = index of the response (-1: unknown)
		var resp *response
		var m modelled
		if as.resp != nil {
			resp = as.resp
			m = t.model(resp)
		} else {
			resp = &response{kind: "unknown"}
			m = modelled{outcome: vFail, why: "no response can be attributed (failed before reaching the handler?)", fetchFail: true}
			if sc.report["up"] == 1 {
				// success without marker: an empty body
				resp.kind = "empty"
				m = modelled{outcome: vOK}
				as.cands = nil
			}
			for _, cnd := range as.cands {
				cm := t.model(cnd)
				if cm.outcome != vOK {
					m.partial = true
				}
				m.exp = append(m.exp, cm.exp...)
			}
			c.Count("failed_scrapes_without_attributable_response", 1)
		}
		for _, n := range reportNames {
			if _, ok := sc.report[n]; !ok {
				c.Violatef(kReportMissing, "target %s scrape %d at %d: report series %s missing (have %v)", t.id, k-1, sc.t, n, sc.report)
			}
		}
		up := sc.report["up"]
		if up != 0 && up != 1 {
			c.Violatef(kReport, "target %s scrape %d: up = %v", t.id, k-1, up)
			continue
		}
		failed := up == 0
		unknownCause := false
		switch {
		case m.outcome == vFail && !failed:
			c.Violatef(kUpOnFailure, "target %s scrape %d (%s: %s): the scrape must fail but up=1; body:\n%s", t.id, k-1, resp.kind, m.why, bodyOf(resp))
			continue
		case m.outcome == vOK && failed:
			st.tolerated++
			c.Logf("target %s response %d: unexpected failure; body:\n%s", t.id, as.idx, bodyOf(resp))
			// cause unknown (timeout while connecting, while reading, ...): it is not known how
			// much of the body was processed, so the failure is treated as possibly partial
			m.fetchFail, m.partial, unknownCause = true, true, true
			c.Seen("scrape_kinds", "unexpected-failure(tolerated)")
		}
		st.scrapes++
		if sc.appErrs > 0 {
			c.Count("appends_rejected_by_storage", int64(sc.appErrs))
		}
		seen := map[string]bool{}
		trackNow := map[string]bool{} // series with a sample that makes it eligible for staleness tracking
		rejected := map[string]bool{} // exposed now, but the storage rejected the append
		if !failed {
			c.Seen("scrape_kinds", "success:"+resp.kind)
			// offered samples = exposed samples
			used := make([]bool, len(m.exp))
			for _, x := range sc.normal {
				found := false
				for i, e := range m.exp {
					ts := e.ts
					if !e.hasTS {
						ts = sc.t
					}
					if !used[i] && e.series == x.lset.String() && ts == x.t && floatEq(e.v, x.v) {
						used[i], found = true, true
						if !e.hasTS || t.job.trackTS {
							trackNow[e.series] = true
						}
						break
					}
				}
				if !found {
					c.Violatef(kSampleExtra, "target %s scrape %d at %d: committed sample %s t=%d v=%v does not correspond to an exposed sample (honor_labels=%v honor_timestamps=%v relabel=%d rules); body:\n%s", t.id, k-1, sc.t, x.lset, x.t, x.v, t.job.honorLabels, t.job.honorTimestamps, len(t.job.relabel), bodyOf(resp))
				}
				seen[x.lset.String()] = true
				if x.err != nil {
					maybe[x.lset.String()] = true
					rejected[x.lset.String()] = true
				}
			}
			for i, e := range m.exp {
				if e.must && !used[i] {
					// a later duplicate with the same value may have been matched instead
					alt := false
					for j2, e2 := range m.exp {
						if j2 != i && used[j2] && e2.series == e.series && e2.hasTS == e.hasTS && e2.ts == e.ts && floatEq(e2.v, e.v) {
							alt = true
						}
					}
					if !alt {
						c.Violatef(kSampleMissing, "target %s scrape %d at %d: exposed sample %s v=%v (line %d, explicit ts %v %d) was not offered to the storage; body:\n%s", t.id, k-1, sc.t, e.series, e.v, e.line, e.hasTS, e.ts, bodyOf(resp))
					}
				}
			}
			// report values
			if v := sc.report["scrape_samples_scraped"]; v != float64(m.total) {
				c.Violatef(kReport, "target %s scrape %d: scrape_samples_scraped=%v, body has %d samples", t.id, k-1, v, m.total)
			}
			if v := sc.report["scrape_samples_post_metric_relabeling"]; v < float64(m.keptFirst) || v > float64(m.keptAll) {
				c.Violatef(kReport, "target %s scrape %d: scrape_samples_post_metric_relabeling=%v, expected %d..%d", t.id, k-1, v, m.keptFirst, m.keptAll)
			}
			if v := sc.report["scrape_series_added"]; v < 0 || v > float64(m.keptAll) {
				c.Violatef(kReport, "target %s scrape %d: scrape_series_added=%v outside 0..%d", t.id, k-1, v, m.keptAll)
			}
		} else {
			c.Seen("scrape_kinds", "failed:"+map[bool]string{true: m.why, false: "unexpected"}[m.why != ""])
			if len(sc.normal) > 0 {
				c.Violatef(kFailedCommitted, "target %s scrape %d at %d failed (up=0, %s %s) but %d samples were committed, e.g. %s", t.id, k-1, sc.t, resp.kind, m.why, len(sc.normal), sc.normal[0].lset)
			}
			if resp.kind == "http500" || resp.kind == "cut" {
				for _, n := range []string{"scrape_samples_scraped", "scrape_samples_post_metric_relabeling", "scrape_series_added"} {
					if sc.report[n] != 0 {
						c.Violatef(kReport, "target %s scrape %d (%s: no body was received in full): %s=%v, want 0", t.id, k-1, resp.kind, n, sc.report[n])
					}
				}
			}
		}
		// staleness markers of this scrape
		gotStale := map[string]bool{}
		for _, x := range sc.stale {
			s := x.lset.String()
			gotStale[s] = true
			if x.t != sc.t {
				c.Violatef(kStaleMissing, "target %s scrape %d: staleness marker of %s at %d, scrape time %d", t.id, k-1, s, x.t, sc.t)
			}
			if seen[s] && rejected[s] {
				// tracking state unknown after a rejected append
			} else if seen[s] && !trackNow[s] && (tracked[s] || maybe[s]) {
				// the stored series is still fed by an exposed series with explicit timestamps
				// (not tracked), while the exposed series that was tracked vanished: legitimate
			} else if seen[s] {
				c.Violatef(kStaleExposed, "target %s scrape %d at %d: series %s is exposed in this scrape and also marked stale", t.id, k-1, sc.t, s)
			} else if !tracked[s] && !maybe[s] {
				c.Violatef(kStaleUntracked, "target %s scrape %d at %d: staleness marker for %s which was not tracked (explicit timestamps without track_timestamps_staleness, or never stored); track=%v; recent scrapes %v; exposed in the last 3 responses: %v", t.id, k-1, sc.t, s, t.job.trackTS, hist, exposedRecently(t, served, as.idx, s))
			}
		}
		exposedNow := map[string]bool{}
		for _, e := range m.exp {
			exposedNow[e.series] = true
		}
		nextTracked, nextMaybe := map[string]bool{}, map[string]bool{}
		if !failed {
			for s := range tracked {
				if seen[s] {
					continue
				}
				if !gotStale[s] {
					c.Violatef(kStaleMissing, "target %s scrape %d at %d: series %s was stored by the previous scrape, is not exposed now, but got no staleness marker; body:\n%s", t.id, k-1, sc.t, s, bodyOf(resp))
				} else {
					st.stale++
				}
			}
			for _, x := range sc.normal {
				s := x.lset.String()
				if x.err != nil {
					nextMaybe[s] = true
					continue
				}
				if trackNow[s] {
					nextTracked[s] = true
				}
			}
			for s := range nextMaybe {
				delete(nextTracked, s)
			}
		} else {
			unmarked := 0
			partialOnly := true
			for s := range tracked {
				if gotStale[s] {
					st.stale++
					continue
				}
				unmarked++
				if !(m.partial && exposedNow[s]) {
					partialOnly = false
					c.Violatef(kStaleFailMiss, "target %s scrape %d at %d failed (%s %s) but tracked series %s got no staleness marker", t.id, k-1, sc.t, resp.kind, m.why, s)
				} else {
					// the implementation keeps tracking it; follow the observation
					nextTracked[s] = true
				}
			}
			if unmarked > 0 && partialOnly && unknownCause {
				c.Count("unmarked_series_after_failure_of_unknown_cause(accepted)", int64(unmarked))
			} else if unmarked > 0 && partialOnly {
				c.Violatef(kStalePartial, "target %s scrape %d at %d failed after part of the body was processed (%s: %s): %d previously stored series that are re-exposed in the failing body got no staleness marker although none of the body's samples was committed", t.id, k-1, sc.t, resp.kind, m.why, unmarked)
			}
			if len(tracked) > 0 && unmarked < len(tracked) {
				st.failedWithStale++
			}
			if m.partial {
				// series first seen in the failing body may have entered the tracking state
				for s := range exposedNow {
					if !nextTracked[s] {
						nextMaybe[s] = true
					}
				}
			}
			if unknownCause {
				for s := range maybe {
					if !nextTracked[s] && !gotStale[s] {
						nextMaybe[s] = true
					}
				}
			}
		}
		tracked, maybe = nextTracked, nextMaybe
	}
	if t.remove && anyRemoved {
		found := false
		for _, sc := range scrapes {
			found = found || sc.endOfRun
		}
		if !found {
			c.Violatef(kEndOfRun, "target %s was removed; a surviving target completed 25 further scrapes but no end-of-run staleness transaction was committed (last scrape at %d)", t.id, lastT)
		}
	}
	return st
}

// exposedRecently reports, for the responses idx-3..idx, whether series s is among the modelled samples.
func exposedRecently(t *target, served []*response, idx int, s string) []string {
	var out []string
	for i := idx - 3; i <= idx; i++ {
		if i < 0 || i >= len(served) {
			continue
		}
		found := false
		m := t.model(served[i])
		for _, e := range m.exp {
			if e.series == s {
				found = true
			}
		}
		out = append(out, fmt.Sprintf("%d:%s:%v:%s", i, served[i].kind, found, m.why))
	}
	return out
}

func bodyOf(resp *response) string {
	var sb strings.Builder
	for i, l := range resp.lines {
		if resp.kind == "garbage" && i == resp.garbage {
			sb.WriteString("<garbage line>\n")
		}
		sb.WriteString(l.raw)
		if sb.Len() > 2500 {
			sb.WriteString("…\n")
			break
		}
	}
	return sb.String()
}

var _ = sort.Strings
