// Package c20: deletion removes exactly the requested data.
//
// Three kinds of cases share the case index space (see layout):
//   - history cases: tsdbhist histories with a high delete weight, crafted deletes (adjacent,
//     nested, single-sample, int64 extremes, spanning head and blocks), CleanTombstones and
//     restarts, decided by the reference model of tsdbhist (Exec.Check) plus form/subset/file
//     checks over the tombstones.Reader of the head and of every block;
//   - interval cases: generated insertion sequences through tombstones.Intervals.Add and
//     MemTombstones.AddInterval, and the WriteFile/ReadTombstones round trip, decided by an
//     independent sort-and-sweep reference and by membership probes;
//   - exhaustive slices: every insertion sequence of ≤3 (quick) / ≤4 (thorough) intervals over a
//     9-point domain under 5 embeddings into int64 (incl. both extremes).
package c20

import (
	"errors"
	"fmt"
	"math"
	"math/rand/v2"
	"os"
	"path/filepath"
	"sort"
	"strings"

	"github.com/prometheus/prometheus/model/labels"
	"github.com/prometheus/prometheus/storage"
	"github.com/prometheus/prometheus/tsdb"
	"github.com/prometheus/prometheus/tsdb/chunks"
	"github.com/prometheus/prometheus/tsdb/tombstones"

	"verif/internal/core"
	"verif/internal/tsdbhist"
	"verif/internal/tsdbx"
)

const (
	nEmbeddings  = 5
	domainPoints = 9
	nDomainIvs   = domainPoints * (domainPoints + 1) / 2 // 45
	nExhaustive  = nEmbeddings * nDomainIvs              // 225 slices: (embedding, first interval)
	seqPerCase   = 100
)

func layout(t core.Tier) (hist, ivs int) {
	if t == core.Thorough {
		return 3000, 2000
	}
	return 120, 200
}

func init() {
	core.Register(&core.Prop{
		ID:        "C20",
		Title:     "Deletion removes exactly the requested data",
		Level:     "exploration",
		Technique: "reference-model runtime monitor over delete-heavy histories on a real tsdb.DB; differential monitor of tombstones.Intervals against a sort-and-sweep reference incl. exhaustive small-domain enumeration; tombstone file round-trip identity",
		LevelText: "History cases: generated histories (appends in/out of order, floats and native histograms, commit/rollback, compactions, restart) with ~25% deletes incl. crafted ones (adjacent to / nested in / repeating an earlier delete, exactly one stored sample, block-boundary ends, int64 extremes, spanning head and several blocks), CleanTombstones and restarts run against a real DB; after every state change the sample and chunk queriers (full range, random range, block-boundary range) must return exactly the model (a delete removes the model samples of the selected series in the closed range, nothing else), and the tombstones.Reader of the head and of every block must hold, per series, sorted non-overlapping non-adjacent intervals that lie inside the union of the ranges requested for that series; every block's tombstones file must read back (ReadTombstones) equal to the block's in-memory reader. Interval cases: generated insertion sequences (≤14 intervals over hostile point sets: contiguous, clustered at MinInt64/0/MaxInt64, random anchors ±2) through Intervals.Add and MemTombstones.AddInterval (refs incl. 0 and MaxUint64) must equal the unique canonical form computed by an independent sort-and-sweep and agree with it on membership at every endpoint and endpoint±1; WriteFile→ReadTombstones must return the same ref→intervals map, the reported size must be the file size, no temporary file may remain. Exhaustive slices: all insertion sequences of ≤3 (quick) / ≤4 (thorough) intervals over a 9-point domain, under 5 embeddings of the domain into int64 (0..8; MinInt64..MinInt64+8; MaxInt64-8..MaxInt64; three clusters of three at MinInt64, -1..1, MaxInt64; a gapped set), each prefix compared with a brute-force bitmask of the domain and its off-domain neighbours. Held on the observed cases only (the exhaustive part: on the whole stated space).",
		LevelNote: "Head.Delete/Block.Delete clamp a request to the data bounds, so at DB level only 'inside the union of the requested ranges' (not 'equal to') is asserted for the stored intervals; equality with the union is asserted where requests are applied verbatim (Intervals.Add, AddInterval, file round trip). The query oracle is tsdbhist's model; its allowed-not-required classes are reported here as known findings when they concern deleted data (out-of-order head samples ignored by Delete; deleted sample replayed from the WAL after its block was dropped; out-of-order append hidden by an older head tombstone) and only counted otherwise (WBL orphans, in-order samples lost behind a merged out-of-order block). Only intervals with Mint ≤ Maxt are inserted in the interval cases. Background compaction is disabled; single thread.",
		DesignRef: "DESIGN.md §5 C20",
		Rule:      "case index < H: one history of 25–90 ops, non-trivial iff ≥1 delete removed ≥1 model sample, a compaction/CleanTombstones/restart followed such a delete, ≥1 block existed and ≥1 tombstone interval was observed in a reader; distinct by (config, op list). Next I indexes: 100 generated interval sequences each (every 4th also through the file), non-trivial iff ≥1 sequence merged intervals (result shorter than input); distinct by the first sequence. Last 225 indexes: exhaustive slice (embedding, first interval), always non-trivial, distinct by slice.",
		Assumptions: []string{
			"the admission decision of an append is Append's return value (tsdbhist model)",
			"intervals passed to Intervals.Add have Mint ≤ Maxt and the receiver is the result of earlier Adds",
		},
		Exhaustive: true,
		Cases: func(variant string, tier core.Tier) int {
			if variant != "default" {
				return 0
			}
			h, i := layout(tier)
			return h + i + nExhaustive
		},
		Run: run,
		MinNontrivial: func(t core.Tier) int {
			if t == core.Thorough {
				return 2500
			}
			return 330
		},
		CaseTimeoutSec: 300,
	})
}

func run(c *core.Case) {
	h, i := layout(c.Tier)
	switch {
	case c.Idx < h:
		runHistory(c)
	case c.Idx < h+i:
		runIntervals(c)
	default:
		runExhaustive(c, c.Idx-h-i)
	}
}

// ---------------------------------------------------------------- interval reference

type iv = tombstones.Interval

// canon is the reference: the unique sorted, non-overlapping, non-adjacent list of closed
// int64 intervals covering exactly the union of the inputs (sort by start, sweep).
func canon(in []iv) []iv {
	s := append([]iv(nil), in...)
	sort.Slice(s, func(a, b int) bool {
		if s[a].Mint != s[b].Mint {
			return s[a].Mint < s[b].Mint
		}
		return s[a].Maxt < s[b].Maxt
	})
	var out []iv
	for _, x := range s {
		if n := len(out); n > 0 {
			last := &out[n-1]
			touches := x.Mint <= last.Maxt || (last.Maxt != math.MaxInt64 && x.Mint == last.Maxt+1)
			if touches {
				if x.Maxt > last.Maxt {
					last.Maxt = x.Maxt
				}
				continue
			}
		}
		out = append(out, x)
	}
	return out
}

// formDefect returns "" when the list is sorted, non-overlapping, non-adjacent with Mint ≤ Maxt.
func formDefect(x []iv) string {
	for i, v := range x {
		if v.Mint > v.Maxt {
			return fmt.Sprintf("interval %d {%d,%d} has Mint > Maxt", i, v.Mint, v.Maxt)
		}
		if i > 0 {
			p := x[i-1]
			switch {
			case v.Mint <= p.Maxt:
				return fmt.Sprintf("intervals %d {%d,%d} and %d {%d,%d} overlap or are out of order", i-1, p.Mint, p.Maxt, i, v.Mint, v.Maxt)
			case p.Maxt != math.MaxInt64 && v.Mint == p.Maxt+1:
				return fmt.Sprintf("intervals %d {%d,%d} and %d {%d,%d} are adjacent (not merged)", i-1, p.Mint, p.Maxt, i, v.Mint, v.Maxt)
			}
		}
	}
	return ""
}

func member(x []iv, t int64) bool {
	for _, v := range x {
		if t >= v.Mint && t <= v.Maxt {
			return true
		}
	}
	return false
}

func equalIvs(a, b []iv) bool {
	if len(a) != len(b) {
		return false
	}
	for i := range a {
		if a[i] != b[i] {
			return false
		}
	}
	return true
}

// probes: every endpoint and its two neighbours (where representable).
func probes(in []iv) []int64 {
	seen := map[int64]bool{}
	var out []int64
	add := func(t int64) {
		if !seen[t] {
			seen[t] = true
			out = append(out, t)
		}
	}
	add(math.MinInt64)
	add(math.MaxInt64)
	add(0)
	for _, v := range in {
		for _, e := range []int64{v.Mint, v.Maxt} {
			add(e)
			if e != math.MinInt64 {
				add(e - 1)
			}
			if e != math.MaxInt64 {
				add(e + 1)
			}
		}
	}
	return out
}

// addGuarded calls Intervals.Add and converts a panic into an error text (the witness then
// names the exact input; the harness would otherwise only report the stack).
func addGuarded(in tombstones.Intervals, n iv) (out tombstones.Intervals, panicked string) {
	defer func() {
		if r := recover(); r != nil {
			panicked = fmt.Sprint(r)
		}
	}()
	return in.Add(n), ""
}

// checkAgainstInputs compares a result with the inputs applied so far.
func checkAgainstInputs(got []iv, inputs []iv) (kind, msg string) {
	if d := formDefect(got); d != "" {
		return "intervals-not-canonical", d
	}
	want := canon(inputs)
	if !equalIvs(got, want) {
		// name a point on which they differ when there is one among the probes
		for _, t := range probes(append(append([]iv(nil), inputs...), got...)) {
			if member(got, t) != member(inputs, t) {
				return "intervals-cover-mismatch", fmt.Sprintf("t=%d: in result %v, in union of requests %v; want %v", t, member(got, t), member(inputs, t), want)
			}
		}
		return "intervals-cover-mismatch", fmt.Sprintf("result differs from the canonical union %v", want)
	}
	for _, t := range probes(inputs) {
		if member(got, t) != member(inputs, t) {
			return "intervals-cover-mismatch", fmt.Sprintf("t=%d: in result %v, in union of requests %v", t, member(got, t), member(inputs, t))
		}
	}
	return "", ""
}

// ---------------------------------------------------------------- interval cases

func genPoints(r *rand.Rand) []int64 {
	set := map[int64]bool{}
	addAround := func(a int64, w int) {
		for d := -w; d <= w; d++ {
			t := a + int64(d)
			if (d < 0 && t > a) || (d > 0 && t < a) { // overflow
				continue
			}
			set[t] = true
		}
	}
	switch r.IntN(5) {
	case 0: // contiguous run
		base := []int64{0, math.MinInt64, math.MaxInt64 - 11, -6, r.Int64() >> 1}[r.IntN(5)]
		for i := int64(0); i < 12; i++ {
			set[base+i] = true
		}
	case 1: // three clusters
		addAround(math.MinInt64, 3)
		addAround(0, 2)
		addAround(math.MaxInt64, 3)
	case 2: // random anchors with neighbours
		for i := 0; i < 4; i++ {
			addAround(int64(r.Uint64()), 2)
		}
	case 3: // gapped small set
		t := int64(r.IntN(10)) - 5
		for i := 0; i < 12; i++ {
			set[t] = true
			t += 1 + int64(r.IntN(3))
		}
	default: // extremes plus a mid run
		addAround(math.MaxInt64, 4)
		addAround(math.MinInt64, 1)
		addAround(int64(r.IntN(1000)), 3)
	}
	out := make([]int64, 0, len(set))
	for t := range set {
		out = append(out, t)
	}
	sort.Slice(out, func(a, b int) bool { return out[a] < out[b] })
	return out
}

func genInterval(r *rand.Rand, pts []int64) iv {
	i := r.IntN(len(pts))
	j := i
	switch r.IntN(4) {
	case 0:
	case 1:
		j = i + r.IntN(3)
	default:
		j = i + r.IntN(len(pts)-i)
	}
	if j >= len(pts) {
		j = len(pts) - 1
	}
	return iv{Mint: pts[i], Maxt: pts[j]}
}

func runIntervals(c *core.Case) {
	r := c.Rng
	dir := c.TempDir()
	merged := 0
	var firstKey string
	for s := 0; s < seqPerCase; s++ {
		pts := genPoints(r)
		n := 1 + r.IntN(14)
		// (a) Intervals.Add chained
		var cur tombstones.Intervals
		var inputs []iv
		for k := 0; k < n; k++ {
			x := genInterval(r, pts)
			inputs = append(inputs, x)
			before := append(tombstones.Intervals(nil), cur...)
			if r.IntN(3) == 0 { // spare capacity, as a long-lived slice has
				cp := make(tombstones.Intervals, len(cur), len(cur)+1+r.IntN(4))
				copy(cp, cur)
				cur = cp
			}
			var p string
			cur, p = addGuarded(cur, x)
			if p != "" {
				c.Violatef("panic-in-repo-code", "Intervals%v.Add(%v) panicked: %s", before, x, p)
				return
			}
			if kind, msg := checkAgainstInputs(cur, inputs); kind != "" {
				c.Violatef(kind, "Intervals%v.Add(%v) = %v: %s (insertion sequence %v)", before, x, cur, msg, inputs)
				return
			}
		}
		if s == 0 {
			firstKey = fmt.Sprint(inputs)
		}
		if len(cur) < len(inputs) {
			merged++
		}
		c.Count("interval_sequences", 1)
		c.Count("intervals_inserted", int64(n))
		touchesExtreme := false
		for _, x := range inputs {
			if x.Mint == math.MinInt64 || x.Maxt == math.MaxInt64 {
				touchesExtreme = true
			}
		}
		if touchesExtreme {
			c.Count("interval_sequences_touching_int64_extremes", 1)
		}
		// (b) MemTombstones.AddInterval over several refs
		refs := []storage.SeriesRef{0, 1, 2, storage.SeriesRef(math.MaxUint64), storage.SeriesRef(r.Uint64()), storage.SeriesRef(1 + r.IntN(1000))}
		nrefs := 1 + r.IntN(len(refs))
		refs = refs[:nrefs]
		mt := tombstones.NewMemTombstones()
		perRef := map[storage.SeriesRef][]iv{}
		nn := r.IntN(20)
		for k := 0; k < nn; k++ {
			ref := refs[r.IntN(len(refs))]
			x := genInterval(r, pts)
			if r.IntN(4) == 0 { // variadic form
				y := genInterval(r, pts)
				mt.AddInterval(ref, x, y)
				perRef[ref] = append(perRef[ref], x, y)
			} else {
				mt.AddInterval(ref, x)
				perRef[ref] = append(perRef[ref], x)
			}
		}
		if kind, msg := checkReader(mt, perRef); kind != "" {
			c.Violatef("memtombstones-"+kind, "MemTombstones after AddInterval: %s; inputs %v", msg, perRef)
			return
		}
		// (c) file round trip
		if s%4 == 0 {
			size, err := tombstones.WriteFile(tsdbx.NopLogger(), dir, mt)
			if err != nil {
				c.Violatef("tombstone-file-write-failed", "WriteFile: %v; contents %v", err, perRef)
				return
			}
			fi, err := os.Stat(filepath.Join(dir, tombstones.TombstonesFilename))
			core.Must(err, "stat tombstones file")
			if fi.Size() != size {
				c.Violatef("tombstone-file-size-mismatch", "WriteFile reported %d bytes, file has %d; contents %v", size, fi.Size(), perRef)
				return
			}
			es, err := os.ReadDir(dir)
			core.Must(err, "readdir")
			if len(es) != 1 {
				var names []string
				for _, e := range es {
					names = append(names, e.Name())
				}
				c.Violatef("tombstone-file-leftover", "after WriteFile the directory holds %v", names)
				return
			}
			rd, rsize, err := tombstones.ReadTombstones(dir)
			if err != nil {
				c.Violatef("tombstone-file-roundtrip-mismatch", "ReadTombstones after WriteFile: %v; written %v", err, perRef)
				return
			}
			if rsize != size {
				c.Violatef("tombstone-file-size-mismatch", "ReadTombstones reported %d bytes, WriteFile %d", rsize, size)
				return
			}
			if kind, msg := checkReader(rd, perRef); kind != "" {
				c.Violatef("tombstone-file-roundtrip-mismatch", "read back differs from what was written (%s): %s; written %v", kind, msg, perRef)
				return
			}
			rd.Close()
			c.Count("file_round_trips", 1)
		}
		if c.Idx%50 == 0 && s == 0 {
			c.Sample(map[string]any{"part": "intervals", "insertion_sequence": fmt.Sprint(inputs), "result": fmt.Sprint(cur)})
		}
	}
	c.Count("interval_sequences_with_merges", int64(merged))
	if merged > 0 {
		c.Nontrivial("intervals", firstKey)
	}
}

// checkReader compares a tombstones.Reader with the per-ref inputs (verbatim application).
func checkReader(tr tombstones.Reader, perRef map[storage.SeriesRef][]iv) (kind, msg string) {
	var total uint64
	for ref, in := range perRef {
		got, err := tr.Get(ref)
		if err != nil {
			return "get-failed", fmt.Sprintf("Get(%d): %v", ref, err)
		}
		if k, m := checkAgainstInputs(got, in); k != "" {
			return k, fmt.Sprintf("ref %d: Get = %v: %s", ref, got, m)
		}
		total += uint64(len(got))
	}
	if tr.Total() != total {
		return "total-mismatch", fmt.Sprintf("Total() = %d, sum of interval counts = %d", tr.Total(), total)
	}
	visited := map[storage.SeriesRef]int{}
	err := tr.Iter(func(ref storage.SeriesRef, ivs tombstones.Intervals) error {
		visited[ref]++
		if !equalIvs(ivs, canon(perRef[ref])) {
			return fmt.Errorf("Iter gave ref %d %v, want %v", ref, ivs, canon(perRef[ref]))
		}
		return nil
	})
	if err != nil {
		return "iter-mismatch", err.Error()
	}
	for ref := range perRef {
		if visited[ref] != 1 {
			return "iter-mismatch", fmt.Sprintf("Iter visited ref %d %d times", ref, visited[ref])
		}
	}
	if len(visited) != len(perRef) {
		return "iter-mismatch", fmt.Sprintf("Iter visited %d refs, %d were written", len(visited), len(perRef))
	}
	return "", ""
}

// ---------------------------------------------------------------- exhaustive slices

func embedding(k int) [domainPoints]int64 {
	var d [domainPoints]int64
	switch k {
	case 0:
		for i := range d {
			d[i] = int64(i)
		}
	case 1:
		for i := range d {
			d[i] = math.MinInt64 + int64(i)
		}
	case 2:
		for i := range d {
			d[i] = math.MaxInt64 - 8 + int64(i)
		}
	case 3:
		d = [domainPoints]int64{math.MinInt64, math.MinInt64 + 1, math.MinInt64 + 2, -1, 0, 1, math.MaxInt64 - 2, math.MaxInt64 - 1, math.MaxInt64}
	default: // gaps of 1 (adjacent), 2 (one missing point) and more
		d = [domainPoints]int64{-7, -6, -4, -3, -2, 0, 3, 4, 6}
	}
	return d
}

type exh struct {
	c      *core.Case
	dom    [domainPoints]int64
	off    []int64 // off-domain neighbours of domain points
	ivs    [nDomainIvs][2]int
	depth  int
	seqs   int64
	merges int64
	stop   bool
}

func runExhaustive(c *core.Case, slice int) {
	x := &exh{c: c, dom: embedding(slice / nDomainIvs), depth: 3}
	if c.Tier == core.Thorough {
		x.depth = 4
	}
	inDom := map[int64]bool{}
	for _, t := range x.dom {
		inDom[t] = true
	}
	for _, t := range x.dom {
		if t != math.MinInt64 && !inDom[t-1] {
			x.off = append(x.off, t-1)
		}
		if t != math.MaxInt64 && !inDom[t+1] {
			x.off = append(x.off, t+1)
		}
	}
	n := 0
	for a := 0; a < domainPoints; a++ {
		for b := a; b < domainPoints; b++ {
			x.ivs[n] = [2]int{a, b}
			n++
		}
	}
	first := slice % nDomainIvs
	x.step(nil, 0, nil, first)
	c.Count("exhaustive_sequences", x.seqs)
	c.Count("exhaustive_sequences_with_merges", x.merges)
	c.Seen("exhaustive_embedding", fmt.Sprint(slice/nDomainIvs))
	if !x.stop {
		c.Nontrivial("exhaustive", slice, x.depth)
	}
	if slice == 0 || slice == 3*nDomainIvs+44 {
		c.Sample(map[string]any{"part": "exhaustive", "domain": fmt.Sprint(x.dom), "first_interval": fmt.Sprint(x.ivs[first]), "max_len": x.depth, "sequences": x.seqs})
	}
}

// step applies interval #k to a copy of cur and recurses over all continuations.
func (x *exh) step(cur tombstones.Intervals, mask uint, seq []int, k int) {
	if x.stop {
		return
	}
	a, b := x.ivs[k][0], x.ivs[k][1]
	n := iv{Mint: x.dom[a], Maxt: x.dom[b]}
	cp := make(tombstones.Intervals, len(cur), len(cur)+len(seq)%2) // alternate exact / spare capacity
	copy(cp, cur)
	got, p := addGuarded(cp, n)
	seq = append(seq, k)
	fail := func(kind, msg string) {
		var ins []iv
		for _, q := range seq {
			ins = append(ins, iv{Mint: x.dom[x.ivs[q][0]], Maxt: x.dom[x.ivs[q][1]]})
		}
		x.c.Violatef(kind, "Intervals%v.Add(%v) = %v: %s (insertion sequence %v)", cur, n, got, msg, ins)
		x.stop = true
	}
	if p != "" {
		fail("panic-in-repo-code", "panicked: "+p)
		return
	}
	for i := a; i <= b; i++ {
		mask |= 1 << uint(i)
	}
	x.seqs++
	if d := formDefect(got); d != "" {
		fail("intervals-not-canonical", d)
		return
	}
	for i, t := range x.dom {
		if member(got, t) != (mask&(1<<uint(i)) != 0) {
			fail("intervals-cover-mismatch", fmt.Sprintf("t=%d: in result %v, in union of requests %v", t, member(got, t), mask&(1<<uint(i)) != 0))
			return
		}
	}
	for _, t := range x.off {
		if member(got, t) {
			// a point outside the domain is covered only if both domain neighbours' run spans it:
			// off-domain points are never inside a requested interval unless the interval spans
			// across them, i.e. some requested interval has Mint < t < Maxt.
			spanned := false
			for _, q := range seq {
				if x.dom[x.ivs[q][0]] < t && t < x.dom[x.ivs[q][1]] {
					spanned = true
					break
				}
			}
			if !spanned {
				fail("intervals-cover-mismatch", fmt.Sprintf("t=%d (outside every requested interval) is covered by the result", t))
				return
			}
		} else {
			for _, q := range seq {
				if x.dom[x.ivs[q][0]] < t && t < x.dom[x.ivs[q][1]] {
					fail("intervals-cover-mismatch", fmt.Sprintf("t=%d lies inside a requested interval but not in the result", t))
					return
				}
			}
		}
	}
	if len(got) < len(seq) {
		x.merges++
	}
	if len(seq) >= x.depth {
		return
	}
	for k2 := 0; k2 < nDomainIvs; k2++ {
		x.step(got, mask, seq, k2)
	}
}

// ---------------------------------------------------------------- history cases

type histState struct {
	e                          *tsdbhist.Exec
	cfg                        tsdbhist.Config
	r                          *rand.Rand
	req                        map[string][]iv // series key → requested ranges
	prev                       []tsdbhist.Op   // earlier deletes
	removed                    int             // model samples removed by deletes
	effectiveDeletes, followed int
	pendingEffective           bool
	tombIntervalsSeen          int
	kindsSeen                  map[string]bool
	inverted                   string // first observation of a Mint>Maxt entry in the head's tombstones
	invertedReported           bool
	invertedSeen               int
}

// modelTimes returns the sorted timestamps of one series in the model.
func (h *histState) modelTimes(si int) []int64 {
	m := h.e.Model[h.e.Series[si].String()]
	ts := make([]int64, 0, len(m))
	for t := range m {
		ts = append(ts, t)
	}
	sort.Slice(ts, func(a, b int) bool { return ts[a] < ts[b] })
	return ts
}

func (h *histState) randomSel() []int {
	n := 1 + h.r.IntN(h.cfg.NumSeries)
	sel := h.r.Perm(h.cfg.NumSeries)[:n]
	sort.Ints(sel)
	return sel
}

// craftedDelete draws a delete related to earlier deletes / stored samples / block layout.
func (h *histState) craftedDelete() (tsdbhist.Op, string) {
	r := h.r
	R := h.cfg.BlockRange
	op := tsdbhist.Op{Kind: "delete", SeriesSel: h.randomSel()}
	var p *tsdbhist.Op
	if len(h.prev) > 0 {
		p = &h.prev[r.IntN(len(h.prev))]
		if r.IntN(3) != 0 {
			op.SeriesSel = p.SeriesSel
		}
	}
	si := op.SeriesSel[r.IntN(len(op.SeriesSel))]
	ts := h.modelTimes(si)
	choice := r.IntN(10)
	switch {
	case choice == 0 && p != nil && p.Maxt != math.MaxInt64:
		op.Mint = p.Maxt + 1
		op.Maxt = op.Mint + r.Int64N(R+1)
		if op.Maxt < op.Mint {
			op.Maxt = math.MaxInt64
		}
		return op, "adjacent-after"
	case choice == 1 && p != nil && p.Mint != math.MinInt64:
		op.Maxt = p.Mint - 1
		op.Mint = op.Maxt - r.Int64N(R+1)
		if op.Mint > op.Maxt {
			op.Mint = math.MinInt64
		}
		return op, "adjacent-before"
	case choice == 2 && p != nil && p.Mint != math.MinInt64 && p.Maxt != math.MaxInt64 && p.Maxt-p.Mint >= 2:
		w := p.Maxt - p.Mint
		op.Mint = p.Mint + r.Int64N(w/2+1)
		op.Maxt = op.Mint + r.Int64N(p.Maxt-op.Mint+1)
		return op, "nested"
	case choice == 3 && p != nil:
		op.Mint, op.Maxt = p.Mint, p.Maxt
		return op, "repeat"
	case choice == 4 && len(ts) > 0:
		t := ts[r.IntN(len(ts))]
		op.Mint, op.Maxt = t, t
		return op, "single-sample"
	case choice == 5 && len(ts) > 0:
		t := ts[r.IntN(len(ts))]
		b := (floorDiv(t, R) + 1) * R
		op.Mint = t
		op.Maxt = b - 1 + int64(r.IntN(2)) // last point of the block range / first of the next
		return op, "to-block-boundary"
	case choice == 6 && len(ts) > 1:
		// strictly between two stored samples: removes nothing
		i := r.IntN(len(ts) - 1)
		if ts[i+1]-ts[i] >= 2 {
			op.Mint, op.Maxt = ts[i]+1, ts[i+1]-1
			return op, "between-samples"
		}
	case choice == 7 && len(ts) > 0:
		t := ts[r.IntN(len(ts))]
		if r.IntN(2) == 0 {
			op.Mint, op.Maxt = math.MinInt64, t
		} else {
			op.Mint, op.Maxt = t, math.MaxInt64
		}
		return op, "half-line"
	case choice == 8:
		op.Mint, op.Maxt = math.MinInt64, math.MaxInt64
		op.SeriesSel = op.SeriesSel[:1]
		return op, "whole-line-one-series"
	case choice == 9 && len(h.e.DB.Blocks()) > 0:
		// from inside the oldest block into the head
		bs := h.e.DB.Blocks()
		m := bs[0].Meta()
		op.Mint = m.MinTime + r.Int64N(m.MaxTime-m.MinTime)
		hm := h.e.DB.Head().MaxTime()
		if hm > op.Mint {
			op.Maxt = hm - r.Int64N(min(R, hm-op.Mint)+1)
			return op, "spanning-blocks-and-head"
		}
	}
	// fallback: a range around a stored sample
	if len(ts) > 0 {
		t := ts[r.IntN(len(ts))]
		op.Mint = t - r.Int64N(R/2+1)
		op.Maxt = t + r.Int64N(R/2+1)
		return op, "around-sample"
	}
	op.Mint = h.cfg.Base - R
	op.Maxt = h.cfg.Base + 2*R
	return op, "fallback"
}

func floorDiv(a, b int64) int64 {
	q := a / b
	if (a%b != 0) && ((a < 0) != (b < 0)) {
		q--
	}
	return q
}

func runHistory(c *core.Case) {
	r := c.Rng
	cfg := tsdbhist.GenConfig(r)
	e, err := tsdbhist.NewExec(c.TempDir(), cfg)
	core.Must(err, "open fresh db")
	defer e.Close()
	g := tsdbhist.NewGen(r, cfg)
	g.WDelete, g.WCompact, g.WRestart = 12, 16, 7
	h := &histState{e: e, cfg: cfg, r: r, req: map[string][]iv{}, kindsSeen: map[string]bool{}}
	nops := 25 + r.IntN(66)
	checks := 0
	for i := 0; i < nops; i++ {
		var op tsdbhist.Op
		crafted := ""
		switch w := r.IntN(100); {
		case w < 12 && i > 4:
			op, crafted = h.craftedDelete()
		case w < 17 && i > 4:
			op = tsdbhist.Op{Kind: "cleanTombstones"}
		default:
			op = g.Next()
		}
		c.Logf("op %d: %s %s", i, op, crafted)
		if c.Verbose && (op.Kind == "restart" || strings.HasPrefix(op.Kind, "compact")) {
			c.Logf("  disk before: %s", tsdbhist.DiskSummary(e.Dir))
			c.Logf("  refs before: %v", e.DB.Head().VerifSeriesRefs())
		}
		before := 0
		if op.Kind == "delete" {
			before = e.Model.NumSamples()
		}
		if err := e.Apply(op); err != nil {
			c.Violatef("operation-failed:"+strings.SplitN(fmt.Sprint(err), ":", 2)[0], "config {%s}\nstep %d (%s) failed: %v\nhistory: %s", cfg, i, op, err, tail(e.History()))
			return
		}
		if e.DB == nil {
			return
		}
		switch op.Kind {
		case "delete":
			if crafted == "" {
				crafted = "generated"
			}
			h.kindsSeen[crafted] = true
			c.Seen("delete_shape", crafted)
			if op.Mint == math.MinInt64 || op.Maxt == math.MaxInt64 {
				c.Count("deletes_at_int64_extremes", 1)
			}
			nb := 0
			for _, b := range e.DB.Blocks() {
				if b.OverlapsClosedInterval(op.Mint, op.Maxt) {
					nb++
				}
			}
			if nb >= 2 && e.DB.Head().OverlapsClosedInterval(op.Mint, op.Maxt) {
				c.Count("deletes_spanning_head_and_several_blocks", 1)
			}
			for _, si := range op.SeriesSel {
				k := e.Series[si].String()
				h.req[k] = append(h.req[k], iv{Mint: op.Mint, Maxt: op.Maxt})
			}
			h.prev = append(h.prev, op)
			if d := before - e.Model.NumSamples(); d > 0 {
				h.removed += d
				h.effectiveDeletes++
				h.pendingEffective = true
			}
		case "compact", "compactHead", "compactOOO", "compactStale", "cleanTombstones", "restart":
			if h.pendingEffective {
				h.followed++
				h.pendingEffective = false
				c.Seen("followed_effective_delete", op.Kind)
			}
		}
		doCheck := op.Kind != "append" || r.IntN(4) == 0 || i == nops-1
		if doCheck {
			checks++
			if diff := e.Check(r); diff != "" {
				kind := classify(diff)
				if k2, why := h.explainExtras(); kind == "unexpected-sample" && k2 != "" {
					kind, diff = k2, diff+"\nclassification: "+why
				}
				c.Violatef(kind, "config {%s}\nafter step %d (%s): %s\nhistory: %s\nstate:\n%s", cfg, i, op, diff, tail(e.History()), e.Diagnose())
				return
			}
		}
		if op.Kind != "append" {
			if kind, msg := h.checkDBTombstones(); kind != "" {
				c.Violatef(kind, "config {%s}\nafter step %d (%s): %s\nhistory: %s\nstate:\n%s", cfg, i, op, msg, tail(e.History()), e.Diagnose())
				return
			}
			if h.inverted != "" && !h.invertedReported {
				// recorded once per case; the history goes on (the entries are inert for queries)
				h.invertedReported = true
				c.Violatef("head-delete-stores-inverted-tombstone", "config {%s}\nafter step %d (%s): %s\nhistory: %s", cfg, i, op, h.inverted, tail(e.History()))
			}
		}
	}
	c.Count("history_ops", int64(nops))
	c.Count("query_checks", int64(checks))
	c.Count("deletes", int64(e.Deletes))
	c.Count("deletes_removing_model_samples", int64(h.effectiveDeletes))
	c.Count("model_samples_removed_by_deletes", int64(h.removed))
	c.Count("maintenance_or_restart_after_effective_delete", int64(h.followed))
	c.Count("tombstone_intervals_observed_in_readers", int64(h.tombIntervalsSeen))
	c.Count("compactions", int64(e.Compactions))
	c.Count("restarts", int64(e.Restarts))
	c.Count("samples_accepted", int64(e.Accepted))
	c.Count("ooo_samples_accepted", int64(e.OOOAccepted))
	c.Count("wbl_orphans_missing_tolerated", int64(e.OrphansMissing))
	c.Count("inorder_lost_behind_ooo_merge_tolerated", int64(e.LostBehindOOOMerge))
	c.Count("zombie_samples_observed", int64(e.ZombiesObserved))
	c.Count("resurrected_samples_observed", int64(e.Resurrected))
	c.Count("ghost_samples_missing", int64(e.GhostsMissing))
	c.Count("inverted_head_tombstones_observed", int64(h.invertedSeen))
	// tsdbhist's allowed-not-required classes that concern deleted data are findings of this
	// property as well (known; same kinds as under C01).
	if e.ZombiesObserved > 0 {
		c.Violatef("delete-ignores-ooo-head-samples", "config {%s}: %d samples that were out-of-order at append time and lie in a range deleted with DB.Delete were still returned\nhistory: %s", cfg, e.ZombiesObserved, tail(e.History()))
	}
	if e.Resurrected > 0 {
		c.Violatef("deleted-sample-replayed-from-wal-after-its-block-was-dropped", "config {%s}: %d query results contained a sample that had been deleted with DB.Delete, whose tombstoned block was then removed and which a later restart replayed from the WAL\nhistory: %s", cfg, e.Resurrected, tail(e.History()))
	}
	if e.GhostsMissing > 0 {
		c.Violatef("ooo-append-hidden-by-earlier-delete", "config {%s}: %d query results lacked a sample that was appended out-of-order AFTER a DB.Delete covering its timestamp (the head's old tombstone hides it: the delete removed data that was not requested)\nhistory: %s", cfg, e.GhostsMissing, tail(e.History()))
	}
	if h.removed > 0 && h.followed > 0 && e.BlocksSeen > 0 && h.tombIntervalsSeen > 0 {
		c.Nontrivial("history", cfg.String(), e.History())
	}
	if c.Idx < 2 {
		c.Sample(map[string]any{"part": "history", "config": cfg.String(), "history": tail(e.History()), "model_samples": e.Model.NumSamples(), "removed_by_deletes": h.removed})
	}
}

type seriesLookup interface {
	Series(ref storage.SeriesRef, builder *labels.ScratchBuilder, chks *[]chunks.Meta) error
}

// checkDBTombstones inspects the tombstones.Reader of the head and of every block.
func (h *histState) checkDBTombstones() (kind, msg string) {
	db := h.e.DB
	check := func(where string, tr tombstones.Reader, ir seriesLookup) (string, string) {
		type ent struct {
			ref storage.SeriesRef
			ivs []iv
		}
		var ents []ent
		if err := tr.Iter(func(ref storage.SeriesRef, ivs tombstones.Intervals) error {
			ents = append(ents, ent{ref, append([]iv(nil), ivs...)})
			return nil
		}); err != nil {
			return "tombstone-reader-failed", fmt.Sprintf("%s: Iter: %v", where, err)
		}
		sort.Slice(ents, func(a, b int) bool { return ents[a].ref < ents[b].ref })
		var total uint64
		for _, en := range ents {
			total += uint64(len(en.ivs))
			h.tombIntervalsSeen += len(en.ivs)
			if len(en.ivs) == 0 {
				continue
			}
			if d := formDefect(en.ivs); d != "" {
				// narrow class: the only defect is the presence of empty (Mint > Maxt) intervals
				var valid []iv
				for _, v := range en.ivs {
					if v.Mint <= v.Maxt {
						valid = append(valid, v)
					}
				}
				if where == "head" && len(valid) < len(en.ivs) {
					// narrow class (known finding): continue with the non-empty entries
					h.invertedSeen += len(en.ivs) - len(valid)
					if h.inverted == "" {
						h.inverted = fmt.Sprintf("head tombstones of series ref %d are %v: %s (the list holds %d entries with Mint > Maxt)", en.ref, en.ivs, d, len(en.ivs)-len(valid))
					}
					en.ivs = valid
				} else {
					return "db-tombstones-not-canonical", fmt.Sprintf("%s: series ref %d has intervals %v: %s", where, en.ref, en.ivs, d)
				}
			}
			var b labels.ScratchBuilder
			var chks []chunks.Meta
			if err := ir.Series(en.ref, &b, &chks); err != nil {
				if errors.Is(err, storage.ErrNotFound) {
					continue // series gone; nothing to attribute the intervals to
				}
				return "tombstone-reader-failed", fmt.Sprintf("%s: Series(%d): %v", where, en.ref, err)
			}
			want := canon(h.req[b.Labels().String()])
			for _, v := range en.ivs {
				ok := false
				for _, w := range want {
					if v.Mint >= w.Mint && v.Maxt <= w.Maxt {
						ok = true
						break
					}
				}
				if !ok {
					return "db-tombstone-outside-requested-ranges", fmt.Sprintf("%s: series %s (ref %d) has tombstone {%d,%d} which is not inside the union of the ranges requested for it %v", where, b.Labels(), en.ref, v.Mint, v.Maxt, want)
				}
			}
		}
		if tr.Total() != total {
			return "db-tombstones-total-mismatch", fmt.Sprintf("%s: Total() = %d, intervals iterated = %d", where, tr.Total(), total)
		}
		return "", ""
	}
	head := db.Head()
	htr, err := head.Tombstones()
	if err != nil {
		return "tombstone-reader-failed", fmt.Sprintf("head.Tombstones: %v", err)
	}
	hir, err := head.Index()
	if err != nil {
		return "tombstone-reader-failed", fmt.Sprintf("head.Index: %v", err)
	}
	k, m := check("head", htr, hir)
	hir.Close()
	if k != "" {
		return k, m
	}
	for _, b := range db.Blocks() {
		k, m := h.checkBlock(b, check)
		if k != "" {
			return k, m
		}
	}
	return "", ""
}

func (h *histState) checkBlock(b *tsdb.Block, check func(string, tombstones.Reader, seriesLookup) (string, string)) (string, string) {
	where := "block " + b.Meta().ULID.String()
	tr, err := b.Tombstones()
	if err != nil {
		return "tombstone-reader-failed", fmt.Sprintf("%s: Tombstones: %v", where, err)
	}
	defer tr.Close()
	ir, err := b.Index()
	if err != nil {
		return "tombstone-reader-failed", fmt.Sprintf("%s: Index: %v", where, err)
	}
	defer ir.Close()
	if k, m := check(where, tr, ir); k != "" {
		return k, m
	}
	if tr.Total() != b.Meta().Stats.NumTombstones {
		return "block-meta-tombstone-count-mismatch", fmt.Sprintf("%s: reader holds %d intervals, meta says %d", where, tr.Total(), b.Meta().Stats.NumTombstones)
	}
	// the file must read back what the block holds in memory
	fr, _, err := tombstones.ReadTombstones(b.Dir())
	if err != nil {
		return "block-tombstone-file-differs-from-memory", fmt.Sprintf("%s: ReadTombstones: %v", where, err)
	}
	defer fr.Close()
	mem := map[storage.SeriesRef][]iv{}
	tr.Iter(func(ref storage.SeriesRef, ivs tombstones.Intervals) error {
		if len(ivs) > 0 {
			mem[ref] = append([]iv(nil), ivs...)
		}
		return nil
	})
	file := map[storage.SeriesRef][]iv{}
	fr.Iter(func(ref storage.SeriesRef, ivs tombstones.Intervals) error {
		if len(ivs) > 0 {
			file[ref] = append([]iv(nil), ivs...)
		}
		return nil
	})
	if len(mem) != len(file) {
		return "block-tombstone-file-differs-from-memory", fmt.Sprintf("%s: memory %v, file %v", where, mem, file)
	}
	for ref, a := range mem {
		if !equalIvs(a, file[ref]) {
			return "block-tombstone-file-differs-from-memory", fmt.Sprintf("%s: ref %d memory %v, file %v", where, ref, a, file[ref])
		}
	}
	return "", ""
}

// explainExtras is called when Exec.Check reported an unexpected sample.  It recomputes the
// full-range extras (returned samples that the model does not allow) and recognises two
// mechanisms that tsdbhist does not (yet) classify; "" when the extras fit neither.
func (h *histState) explainExtras() (kind, why string) {
	e := h.e
	if e.DB == nil || e.Restarts == 0 {
		return "", ""
	}
	q, err := e.DB.Querier(math.MinInt64, math.MaxInt64)
	if err != nil {
		return "", ""
	}
	d, _, err := tsdbx.DumpQuerier(q)
	q.Close()
	if err != nil {
		return "", ""
	}
	inOrderCovered := func(t int64) bool {
		for _, b := range e.DB.Blocks() {
			m := b.Meta()
			if !m.Compaction.FromOutOfOrder() && m.MinTime <= t && t < m.MaxTime {
				return true
			}
		}
		return false
	}
	keys := make([]string, 0, len(d))
	for k := range d {
		keys = append(keys, k)
	}
	sort.Strings(keys)
	nExtra, nDeleted, nForeign := 0, 0, 0
	var first string
	for _, k := range keys {
		for _, s := range d[k] {
			v := s.ValKey()
			if e.Model[k][s.T][v] || e.Zombies[k][s.T][v] {
				continue
			}
			nExtra++
			switch {
			case e.DeletedVals[k][s.T][v] && !inOrderCovered(s.T):
				nDeleted++
			default:
				// accepted with this timestamp and value for ANOTHER series?
				for k2 := range e.Model {
					if k2 != k && (e.Model[k2][s.T][v] || e.DeletedVals[k2][s.T][v]) {
						nForeign++
						if first == "" {
							first = fmt.Sprintf("%s returned t=%d which was appended to %s", k, s.T, k2)
						}
						break
					}
				}
			}
		}
	}
	switch {
	case nExtra == 0:
		return "", ""
	case nDeleted == nExtra:
		return "deleted-sample-replayed-from-wal-after-its-block-was-dropped", fmt.Sprintf("all %d extra samples had been removed by a Delete, carry the deleted value, a restart happened and no in-order block covers their timestamp (blocks with the from-out-of-order hint do not bound WAL replay)", nExtra)
	case nForeign == nExtra:
		return "sample-replayed-into-other-series-after-restart", fmt.Sprintf("all %d extra samples were accepted with the same timestamp and value for a different series and a restart happened (series ref reissued; an old WAL/WBL sample record is applied to the new owner of the ref), e.g. %s", nExtra, first)
	}
	return "", ""
}

func tail(s string) string {
	if len(s) > 3500 {
		return "… " + s[len(s)-3500:]
	}
	return s
}

func classify(diff string) string {
	switch {
	case strings.Contains(diff, "missing sample"):
		return "missing-sample"
	case strings.Contains(diff, "unexpected sample"):
		return "unexpected-sample"
	case strings.Contains(diff, "wrong value"):
		return "wrong-value"
	case strings.Contains(diff, "not strictly increasing"):
		return "duplicate-or-disorder"
	}
	return "query-error"
}
