// Package c12: counter-reset hints returned by queries are sound (result-level monitor over head,
// out-of-order head, m-mapped chunks, blocks and their vertical merges in a real tsdb.DB).
package c12

import (
	"context"
	"errors"
	"fmt"
	"hash/fnv"
	"math"
	"math/rand/v2"
	"sort"

	"github.com/prometheus/prometheus/model/histogram"
	"github.com/prometheus/prometheus/model/labels"
	"github.com/prometheus/prometheus/model/value"
	"github.com/prometheus/prometheus/storage"
	"github.com/prometheus/prometheus/tsdb"
	"github.com/prometheus/prometheus/tsdb/chunkenc"

	"verif/internal/core"
	"verif/internal/gen"
	"verif/internal/tsdbx"
	"verif/props/c11/histx"
)

const (
	// KindFirstInRange: the by-design literal violation (DESIGN.md §10 item 8).  Predicate: the
	// flagged sample is the FIRST sample of its series in the result (a time-range query, or
	// the sample an iterator Seek landed on), and in the full-range result of the same series
	// taken in the same DB state the sample has a predecessor relative to which the hint is
	// sound (non-stale histogram, same schema/zero threshold/custom bounds, no count lower).
	// I.e. the hint is true for the stored data, only the predecessor is not part of the result.
	// Minimal reproducer: six growing counter histograms at t=1000,1010,...,1050 in one series,
	// db.Querier(1025, 2000): the first returned sample t=1030 carries NotCounterReset.  Cause:
	// tsdb/chunkenc/histogram_meta.go counterResetHint() derives the hint from the position in the
	// chunk (numRead > 1) and the range-trimming iterators / Seek pass it through unchanged.
	KindFirstInRange = "first-in-result-flagged-predecessor-outside-result"
	// KindFirstUnsound: first of its series in the result, has a stored predecessor, and the
	// hint is NOT sound relative to that stored predecessor.
	KindFirstUnsound = "first-in-result-flagged-unsound-vs-stored-predecessor"
	// KindFirstInterleaved: like KindFirstInRange, but the hint is false relative to the stored
	// predecessor and true relative to an earlier stored sample p' (the nearest earlier sample for
	// which the relation holds - the flagged sample's neighbour inside its chunk), and at least one
	// sample in (p', flagged] was accepted as an out-of-order insertion.  Out-of-order data lives in
	// separate chunks (OOO head chunks are cut by insertion batch, not by time; OOO blocks overlap
	// in-order blocks), so the samples between p' and the flagged one sit in other chunks, and a
	// result that starts at the flagged sample does not consult those chunks.  Same mechanism
	// (positional hint survives trimming); in full-range results the merge iterator resets such
	// hints to unknown.  Without any out-of-order insertion in (p', flagged] the chunk neighbour IS
	// the stored predecessor and the witness keeps KindFirstUnsound.
	KindFirstInterleaved = "first-in-result-flagged-true-for-earlier-sample-ooo-interleaved"
	// KindFirstEver: flagged although the series has no earlier sample at all.
	KindFirstEver = "first-sample-of-series-flagged"
	// KindUnsound: a non-first flagged sample violates the relation to its predecessor in the result.
	KindUnsound = "unsound-not-counter-reset-hint"
)

func init() {
	core.Register(&core.Prop{
		ID:        "C12",
		Title:     "Counter-reset hints returned by queries are sound",
		Level:     "exploration",
		Technique: "result-level reference check of every sample flagged NotCounterReset against its predecessor in the same result, on a real tsdb.DB whose series are split across head, out-of-order head, m-mapped chunks and (overlapping) blocks",
		LevelText: "Generated integer/float/mixed counter and gauge histogram series (resets, layout and schema/threshold/custom-bound changes, staleness markers, explicit CounterReset hints, long calm stretches with recodes) are appended to 3..6 series of a real tsdb.DB with tiny block ranges and an out-of-order window: an in-order phase with held-back samples, out-of-order insertion of the held-back samples, ForceHeadMMap, compaction of head and OOO head (optionally leaving overlapping blocks), further in-order and out-of-order appends on top of the blocks, a second compaction. At up to 6 checkpoints the check reads every series through Querier over the full range, over random sub-ranges, through iterators that Seek to a random time first, and through ChunkQuerier (decoded chunk iterators, concatenated). Oracle (one-directional, the statement itself): for every returned non-stale, non-gauge histogram sample whose CounterResetHint is NotCounterReset, the preceding sample of that series in the same result exists, is a non-stale histogram with equal schema, zero threshold and custom bounds, and count, zero count and every bucket count (absent = 0) of the flagged sample are >= the predecessor's. Nothing is demanded of Unknown/CounterReset hints. Held on the observed results only.",
		LevelNote: "The first sample of a sub-range/Seek result that is flagged is classified against the full-range result of the same DB state: if its stored predecessor satisfies the relation it is the known by-design literal violation (hint is positional inside the chunk and survives range trimming); otherwise it keeps a different, unexplained kind. Data correctness of the returned histograms is C11's concern and not re-checked here. Appends rejected as too old / out of order are not modelled (the oracle only uses what queries return).",
		DesignRef: "DESIGN.md §5 C12",
		Rule:      "case = one DB with 3..6 series of 40..160 (quick) / ..300 (thorough) histograms each and up to 6 checkpoints; non-trivial iff at least 20 flagged non-first samples were judged and at least one checkpoint was read after a compaction; distinct by a hash of the appended (series, t, canonical key)",
		Cases: func(variant string, tier core.Tier) int {
			if variant != "default" {
				return 0
			}
			if tier == core.Thorough {
				return 6000
			}
			return 300
		},
		Run:            run,
		MinNontrivial:  func(t core.Tier) int { return 100 },
		CaseTimeoutSec: 240,
	})
}

// ---------------------------------------------------------------- oracle

func isHist(s tsdbx.Sample) bool { return s.Kind == "h" || s.Kind == "fh" }

func hint(s tsdbx.Sample) histogram.CounterResetHint {
	switch s.Kind {
	case "h":
		return s.H.CounterResetHint
	case "fh":
		return s.FH.CounterResetHint
	}
	return histogram.UnknownCounterReset
}

func isStale(s tsdbx.Sample) bool {
	switch s.Kind {
	case "h":
		return value.IsStaleNaN(s.H.Sum)
	case "fh":
		return value.IsStaleNaN(s.FH.Sum)
	}
	return value.IsStaleNaN(s.F)
}

type layout struct {
	schema int32
	zt     uint64
	cv     []float64
}

func layoutOf(s tsdbx.Sample) layout {
	if s.Kind == "h" {
		return layout{s.H.Schema, math.Float64bits(s.H.ZeroThreshold), s.H.CustomValues}
	}
	return layout{s.FH.Schema, math.Float64bits(s.FH.ZeroThreshold), s.FH.CustomValues}
}

func sameLayout(a, b layout) bool {
	if a.schema != b.schema || a.zt != b.zt || len(a.cv) != len(b.cv) {
		return false
	}
	for i := range a.cv {
		if math.Float64bits(a.cv[i]) != math.Float64bits(b.cv[i]) {
			return false
		}
	}
	return true
}

type counts struct {
	count, zero float64
	ucount, uz  uint64
	exact       bool
	pos, neg    map[int32]float64
	upos, uneg  map[int32]uint64
}

func countsOf(s tsdbx.Sample) counts {
	if s.Kind == "h" {
		up, un := gen.BucketMapInt(s.H)
		c := counts{exact: true, ucount: s.H.Count, uz: s.H.ZeroCount, upos: up, uneg: un,
			count: float64(s.H.Count), zero: float64(s.H.ZeroCount), pos: map[int32]float64{}, neg: map[int32]float64{}}
		for k, v := range up {
			c.pos[k] = float64(v)
		}
		for k, v := range un {
			c.neg[k] = float64(v)
		}
		return c
	}
	p, n := gen.BucketMapFloat(s.FH)
	return counts{count: s.FH.Count, zero: s.FH.ZeroCount, pos: p, neg: n}
}

// sound reports whether cur (flagged NotCounterReset) stands in the stated relation to prev.
func sound(prev, cur tsdbx.Sample) (bool, string) {
	if !isHist(prev) {
		return false, "the preceding sample is a float, not a histogram"
	}
	if isStale(prev) {
		return false, "the preceding sample is a staleness marker"
	}
	if !sameLayout(layoutOf(prev), layoutOf(cur)) {
		return false, fmt.Sprintf("layout differs from the preceding sample (schema/zero threshold/custom bounds %v vs %v)", layoutOf(prev), layoutOf(cur))
	}
	p, c := countsOf(prev), countsOf(cur)
	if p.exact && c.exact {
		if c.ucount < p.ucount {
			return false, fmt.Sprintf("count %d < preceding %d", c.ucount, p.ucount)
		}
		if c.uz < p.uz {
			return false, fmt.Sprintf("zero count %d < preceding %d", c.uz, p.uz)
		}
		for k, v := range p.upos {
			if c.upos[k] < v {
				return false, fmt.Sprintf("positive bucket %d: %d < preceding %d", k, c.upos[k], v)
			}
		}
		for k, v := range p.uneg {
			if c.uneg[k] < v {
				return false, fmt.Sprintf("negative bucket %d: %d < preceding %d", k, c.uneg[k], v)
			}
		}
		return true, ""
	}
	if c.count < p.count {
		return false, fmt.Sprintf("count %v < preceding %v", c.count, p.count)
	}
	if c.zero < p.zero {
		return false, fmt.Sprintf("zero count %v < preceding %v", c.zero, p.zero)
	}
	for k, v := range p.pos {
		if c.pos[k] < v {
			return false, fmt.Sprintf("positive bucket %d: %v < preceding %v", k, c.pos[k], v)
		}
	}
	for k, v := range p.neg {
		if c.neg[k] < v {
			return false, fmt.Sprintf("negative bucket %d: %v < preceding %v", k, c.neg[k], v)
		}
	}
	return true, ""
}

func flagged(s tsdbx.Sample) bool {
	return isHist(s) && !isStale(s) && hint(s) == histogram.NotCounterReset
}

type stats struct {
	judged, firstKnown, firstInterleaved, samples, unknown, reset, gauge int64
	stop                                                                 bool
	// ooo[series][t] = the sample was accepted as an out-of-order insertion (t <= the series'
	// newest accepted timestamp at append time)
	ooo map[string]map[int64]bool
}

// judge applies the oracle to one series of one result.  full is the full-range result of the
// same series in the same DB state (nil when res itself is the full-range result).
func judge(c *core.Case, st *stats, where, series string, res, full []tsdbx.Sample) {
	for i, s := range res {
		st.samples++
		if isHist(s) && !isStale(s) {
			switch hint(s) {
			case histogram.UnknownCounterReset:
				st.unknown++
			case histogram.CounterReset:
				st.reset++
			case histogram.GaugeType:
				st.gauge++
			}
		}
		if !flagged(s) {
			continue
		}
		if i > 0 {
			st.judged++
			if ok, why := sound(res[i-1], s); !ok {
				c.Violatef(KindUnsound, "%s series %s: sample t=%d %s is flagged NotCounterReset but %s; preceding sample in the result: t=%d %s", where, series, s.T, histx.KeyOf(s), why, res[i-1].T, histx.KeyOf(res[i-1]))
				st.stop = true
				return
			}
			continue
		}
		// first sample of the series in this result, flagged
		if full == nil {
			c.Violatef(KindFirstEver, "%s series %s: the first sample of the series in a full-range result, t=%d %s, is flagged NotCounterReset", where, series, s.T, histx.KeyOf(s))
			st.stop = true
			return
		}
		j := sort.Search(len(full), func(k int) bool { return full[k].T >= s.T })
		switch {
		case j >= len(full) || full[j].T != s.T:
			c.Violatef("result-inconsistent", "%s series %s: sample t=%d is not part of the full-range result of the same DB state", where, series, s.T)
			st.stop = true
			return
		case j == 0:
			c.Violatef(KindFirstEver, "%s series %s: sample t=%d %s is flagged NotCounterReset but is the first stored sample of the series", where, series, s.T, histx.KeyOf(s))
			st.stop = true
			return
		}
		if ok, why := sound(full[j-1], s); ok {
			st.firstKnown++
			if st.firstKnown <= 1 {
				c.Violatef(KindFirstInRange, "%s series %s: first returned sample t=%d is flagged NotCounterReset although it has no predecessor in the result (stored predecessor t=%d is outside the result and the hint is true relative to it)", where, series, s.T, full[j-1].T)
			}
		} else if p, found := chunkNeighbour(st, series, full, j); found {
			st.firstInterleaved++
			if st.firstInterleaved <= 1 {
				c.Violatef(KindFirstInterleaved, "%s series %s: first returned sample t=%d (out-of-order insertion: %v) is flagged NotCounterReset, has no predecessor in the result; stored predecessor t=%d %s (out-of-order insertion: %v) breaks the relation (%s); the nearest earlier stored sample that satisfies it is t=%d and out-of-order insertions lie in between", where, series, s.T, st.ooo[series][s.T], full[j-1].T, histx.KeyOf(full[j-1]), st.ooo[series][full[j-1].T], why, p.T)
			}
		} else {
			for k := max(0, j-8); k <= j; k++ {
				c.Logf("stored #%d t=%d ooo=%v hint=%v %s", k, full[k].T, st.ooo[series][full[k].T], hint(full[k]), histx.KeyOf(full[k]))
			}
			c.Violatef(KindFirstUnsound, "%s series %s: first returned sample t=%d %s is flagged NotCounterReset, has no predecessor in the result, and relative to the stored predecessor t=%d %s: %s", where, series, s.T, histx.KeyOf(s), full[j-1].T, histx.KeyOf(full[j-1]), why)
			st.stop = true
			return
		}
	}
}

// chunkNeighbour walks back from full[j] to the nearest earlier stored sample relative to which
// the hint of full[j] is sound; found only if an out-of-order insertion lies in (that sample, full[j]].
func chunkNeighbour(st *stats, series string, full []tsdbx.Sample, j int) (tsdbx.Sample, bool) {
	sawOOO := st.ooo[series][full[j].T]
	for k := j - 1; k >= 0; k-- {
		if ok, _ := sound(full[k], full[j]); ok {
			return full[k], sawOOO
		}
		if st.ooo[series][full[k].T] {
			sawOOO = true
		}
	}
	return tsdbx.Sample{}, false
}

// seekDump reads every series with an iterator that first Seeks to x and then uses Next.
func seekDump(q storage.Querier, x int64) (tsdbx.Dump, error) {
	ss := q.Select(context.Background(), true, nil, tsdbx.MatchAll())
	d := tsdbx.Dump{}
	for ss.Next() {
		s := ss.At()
		it := s.Iterator(nil)
		var out []tsdbx.Sample
		for vt := it.Seek(x); vt != chunkenc.ValNone; vt = it.Next() {
			switch vt {
			case chunkenc.ValFloat:
				t, v := it.At()
				out = append(out, tsdbx.Sample{T: t, Kind: "f", F: v})
			case chunkenc.ValHistogram:
				t, h := it.AtHistogram(nil)
				out = append(out, tsdbx.Sample{T: t, Kind: "h", H: h.Copy()})
			case chunkenc.ValFloatHistogram:
				t, fh := it.AtFloatHistogram(nil)
				out = append(out, tsdbx.Sample{T: t, Kind: "fh", FH: fh.Copy()})
			}
		}
		if err := it.Err(); err != nil {
			return d, err
		}
		d[s.Labels().String()] = out
	}
	return d, ss.Err()
}

func checkpoint(c *core.Case, r *rand.Rand, db *tsdb.DB, st *stats, name, desc string, tmin, tmax int64) bool {
	where := func(mode string) string { return fmt.Sprintf("checkpoint %s, %s [%s]", name, mode, desc) }
	q, err := db.Querier(math.MinInt64, math.MaxInt64)
	core.Must(err, "Querier")
	full, _, err := tsdbx.DumpQuerier(q)
	q.Close()
	if err != nil {
		c.Violatef("query-error", "%s: %v", where("full-range Querier"), err)
		return false
	}
	keys := make([]string, 0, len(full))
	for k := range full {
		keys = append(keys, k)
	}
	sort.Strings(keys)
	for _, k := range keys {
		judge(c, st, where("full-range Querier"), k, full[k], nil)
		if st.stop {
			return false
		}
	}
	for i := 0; i < 3; i++ {
		a := tmin + r.Int64N(tmax-tmin+1)
		b := a + r.Int64N(tmax-a+1)
		q, err := db.Querier(a, b)
		core.Must(err, "Querier")
		d, _, err := tsdbx.DumpQuerier(q)
		q.Close()
		if err != nil {
			c.Violatef("query-error", "%s: %v", where(fmt.Sprintf("Querier[%d,%d]", a, b)), err)
			return false
		}
		for _, k := range keys {
			judge(c, st, where(fmt.Sprintf("Querier[%d,%d]", a, b)), k, d[k], full[k])
			if st.stop {
				return false
			}
		}
	}
	for i := 0; i < 2; i++ {
		x := tmin + r.Int64N(tmax-tmin+1)
		q, err := db.Querier(math.MinInt64, math.MaxInt64)
		core.Must(err, "Querier")
		d, err := seekDump(q, x)
		q.Close()
		if err != nil {
			c.Violatef("query-error", "%s: %v", where(fmt.Sprintf("Seek(%d)+Next", x)), err)
			return false
		}
		for _, k := range keys {
			judge(c, st, where(fmt.Sprintf("full-range Querier, iterator Seek(%d) then Next", x)), k, d[k], full[k])
			if st.stop {
				return false
			}
		}
	}
	cq, err := db.ChunkQuerier(math.MinInt64, math.MaxInt64)
	core.Must(err, "ChunkQuerier")
	cd, _, err := tsdbx.DumpChunkQuerier(cq)
	cq.Close()
	if err != nil {
		c.Violatef("query-error", "%s: %v", where("ChunkQuerier"), err)
		return false
	}
	for _, k := range keys {
		judge(c, st, where("full-range ChunkQuerier (decoded chunks concatenated)"), k, cd[k], nil)
		if st.stop {
			return false
		}
	}
	c.Count("checkpoints", 1)
	return true
}

// ---------------------------------------------------------------- workload

type ser struct {
	ls    labels.Labels
	items []*histx.Item // index-aligned with the timeline; nil = no sample
	late  map[int]bool  // held back, appended out of order later
	maxT  int64
	ooo   map[int64]bool // accepted with t <= newest accepted timestamp of the series
}

type appendStats struct{ ok, tooOld, ooo, oob, dup, other int64 }

func (a *appendStats) note(err error) {
	switch {
	case err == nil:
		a.ok++
	case errors.Is(err, storage.ErrTooOldSample):
		a.tooOld++
	case errors.Is(err, storage.ErrOutOfOrderSample):
		a.ooo++
	case errors.Is(err, storage.ErrOutOfBounds):
		a.oob++
	case errors.Is(err, storage.ErrDuplicateSampleForTimestamp):
		a.dup++
	default:
		a.other++
	}
}

// appendIdx appends the samples with the given timeline indexes (in the given order), time-aligned
// across series, in random commit batches.
func appendIdx(r *rand.Rand, db *tsdb.DB, v2 bool, sers []*ser, idxs []int, pick func(s *ser, i int) bool, as *appendStats) error {
	b := histx.NewBatch(db, v2)
	inBatch, size := 0, 1+r.IntN(40)
	for _, i := range idxs {
		for _, s := range sers {
			if s.items[i] == nil || !pick(s, i) {
				continue
			}
			err := b.Append(s.ls, s.items[i])
			as.note(err)
			if err == nil {
				if t := s.items[i].T; t > s.maxT {
					s.maxT = t
				} else {
					s.ooo[t] = true
				}
			}
			inBatch++
		}
		if inBatch >= size {
			if err := b.Commit(); err != nil {
				return err
			}
			b = histx.NewBatch(db, v2)
			inBatch, size = 0, 1+r.IntN(40)
		}
	}
	return b.Commit()
}

func compact(c *core.Case, r *rand.Rand, db *tsdb.DB, info histx.DBInfo) (string, error) {
	ctx := context.Background()
	head := db.Head()
	span := (head.MaxTime() - head.MinTime()) / info.BlockRange
	mode := ""
	oooFirst := r.IntN(2) == 0
	if oooFirst && info.OOOWindow > 0 {
		mode += "CompactOOOHead+"
		if err := db.CompactOOOHead(ctx); err != nil {
			return mode, err
		}
	}
	if r.IntN(2) == 0 && span <= 4 {
		mode += "Compact"
		if err := db.Compact(ctx); err != nil {
			return mode, err
		}
	} else {
		mode += "CompactHead"
		if err := db.CompactHead(tsdb.NewRangeHead(head, head.MinTime(), head.MaxTime())); err != nil {
			return mode, err
		}
	}
	if !oooFirst && info.OOOWindow > 0 && r.IntN(3) != 0 {
		mode += "+CompactOOOHead"
		if err := db.CompactOOOHead(ctx); err != nil {
			return mode, err
		}
	}
	return mode, nil
}

func overlapping(db *tsdb.DB) bool {
	bs := db.Blocks()
	for i := 0; i < len(bs); i++ {
		for j := i + 1; j < len(bs); j++ {
			a, b := bs[i].Meta(), bs[j].Meta()
			if a.MinTime < b.MaxTime && b.MinTime < a.MaxTime {
				return true
			}
		}
	}
	return false
}

func run(c *core.Case) {
	r := c.Rng
	dir := c.TempDir()
	// out-of-order window: none, moderate, or covering everything
	w := []int64{0, 3000, 3000, 10_000_000, 10_000_000, 10_000_000}[r.IntN(6)]
	db, info, err := histx.OpenDB(dir, r, w)
	core.Must(err, "tsdb.Open")
	defer db.Close()

	maxN := 160
	if c.Tier == core.Thorough {
		maxN = 300
	}
	n := 40 + r.IntN(maxN-39)
	ts := histx.Timestamps(r, n, int64(r.IntN(100000)))
	nSeries := 3 + r.IntN(4)
	hh := fnv.New64a()
	var sers []*ser
	for si := 0; si < nSeries; si++ {
		kind := []string{"int", "float", "mixed", "int"}[r.IntN(4)]
		raw := histx.GenSeq(r, histx.SeqOpts{N: n, Kind: kind, AllowCustom: true, StaleOneIn: []int{0, 0, 25}[r.IntN(3)], ResetHintIn: []int{0, 40}[r.IntN(2)], Calm: r.IntN(3) != 0})
		s := &ser{ls: labels.FromStrings("__name__", "h", "s", fmt.Sprint(si), "kind", kind), items: make([]*histx.Item, n), late: map[int]bool{}, maxT: math.MinInt64, ooo: map[int64]bool{}}
		lateOneIn := []int{0, 4, 10, 30}[r.IntN(4)]
		skip := []int{0, 0, 6}[r.IntN(3)]
		for i, it := range raw {
			if it.Valid() != nil || (skip > 0 && i > 0 && r.IntN(skip) == 0) {
				continue
			}
			it.T = ts[i]
			if r.IntN(2) == 0 {
				it.ST = ts[i] - int64(r.IntN(500))
			}
			s.items[i] = it
			if lateOneIn > 0 && i > 0 && r.IntN(lateOneIn) == 0 {
				s.late[i] = true
				if r.IntN(3) == 0 { // a run of held-back samples
					for k := i + 1; k < n && k < i+1+r.IntN(6); k++ {
						s.late[k] = true
					}
				}
			}
			fmt.Fprintf(hh, "%d|%d|%s\n", si, it.T, it.Keys[0])
		}
		sers = append(sers, s)
	}
	tmin, tmax := ts[0], ts[n-1]
	n1 := n/2 + r.IntN(n/3+1)
	idx := func(from, to int) []int {
		out := make([]int, 0, to-from)
		for i := from; i < to; i++ {
			out = append(out, i)
		}
		return out
	}
	shuffled := func(from, to int) []int {
		out := idx(from, to)
		if r.IntN(2) == 0 {
			r.Shuffle(len(out), func(i, j int) { out[i], out[j] = out[j], out[i] })
		}
		return out
	}
	inOrder := func(s *ser, i int) bool { return !s.late[i] }
	lateOnly := func(s *ser, i int) bool { return s.late[i] }

	var as appendStats
	st := stats{ooo: map[string]map[int64]bool{}}
	for _, s := range sers {
		st.ooo[s.ls.String()] = s.ooo
	}
	afterCompaction := false
	desc := info.Desc
	fail := func(what string, err error) {
		c.Violatef("storage-error", "%s: %v [%s]", what, err, desc)
	}
	cp := func(name string) bool { return checkpoint(c, r, db, &st, name, desc, tmin, tmax) }

	finish := func() {
		c.Count("samples_returned", st.samples)
		c.Count("flagged_nonfirst_judged", st.judged)
		c.Count("flagged_first_in_result_known", st.firstKnown)
		c.Count("flagged_first_in_result_ooo_interleaved", st.firstInterleaved)
		c.Count("hint_unknown", st.unknown)
		c.Count("hint_reset", st.reset)
		c.Count("hint_gauge", st.gauge)
		c.Count("appends_accepted", as.ok)
		c.Count("appends_rejected_too_old", as.tooOld)
		c.Count("appends_rejected_out_of_order", as.ooo)
		c.Count("appends_rejected_out_of_bounds", as.oob)
		c.Count("appends_rejected_other", as.other+as.dup)
		if st.judged >= 20 && afterCompaction && !st.stop {
			c.Nontrivial(hh.Sum64())
		}
		if c.Idx < 3 {
			c.Sample(map[string]any{"db": desc, "series": nSeries, "timeline": n, "flagged_judged": st.judged, "first_in_result_flagged": st.firstKnown,
				"accepted": as.ok, "rejected": as.tooOld + as.ooo + as.oob})
		}
	}
	defer finish()

	// phase A: in-order part without the held-back samples
	if err := appendIdx(r, db, info.V2, sers, idx(0, n1), inOrder, &as); err != nil {
		fail("commit (phase A)", err)
		return
	}
	if !cp("A:head") {
		return
	}
	// phase B: the held-back samples arrive out of order
	if err := appendIdx(r, db, info.V2, sers, shuffled(0, n1), lateOnly, &as); err != nil {
		fail("commit (phase B)", err)
		return
	}
	if !cp("B:head+ooo") {
		return
	}
	if r.IntN(2) == 0 {
		db.ForceHeadMMap()
		if !cp("B2:mmapped") {
			return
		}
	}
	// phase C: compaction
	mode, err := compact(c, r, db, info)
	if err != nil {
		fail("compaction "+mode, err)
		return
	}
	c.Seen("compaction_mode", mode)
	afterCompaction = len(db.Blocks()) > 0
	if overlapping(db) {
		c.Count("checkpoints_with_overlapping_blocks", 1)
	}
	desc = info.Desc + " after " + mode
	if !cp("C:blocks") {
		return
	}
	// phase D: more data on top of the blocks, in order and out of order
	if err := appendIdx(r, db, info.V2, sers, idx(n1, n), inOrder, &as); err != nil {
		fail("commit (phase D)", err)
		return
	}
	if err := appendIdx(r, db, info.V2, sers, shuffled(n1, n), lateOnly, &as); err != nil {
		fail("commit (phase D, out of order)", err)
		return
	}
	if !cp("D:blocks+head+ooo") {
		return
	}
	if r.IntN(2) == 0 {
		mode2, err := compact(c, r, db, info)
		if err != nil {
			fail("second compaction "+mode2, err)
			return
		}
		if overlapping(db) {
			c.Count("checkpoints_with_overlapping_blocks", 1)
		}
		desc = info.Desc + " after " + mode + " and " + mode2
		if !cp("E:blocks") {
			return
		}
	}
	c.Count("blocks_final", int64(len(db.Blocks())))
}
