// Package c09: retention applied on block reload removes only whole expired blocks, oldest
// first, never head data, and removes parents superseded by a completed compaction.
package c09

import (
	"context"
	"encoding/json"
	"fmt"
	"math"
	"math/rand/v2"
	"os"
	"path/filepath"
	"sort"
	"strings"
	"sync"
	"time"

	"github.com/oklog/ulid/v2"

	"github.com/prometheus/prometheus/model/histogram"
	"github.com/prometheus/prometheus/model/labels"
	"github.com/prometheus/prometheus/storage"
	"github.com/prometheus/prometheus/tsdb"
	"github.com/prometheus/prometheus/tsdb/chunkenc"
	"github.com/prometheus/prometheus/tsdb/chunks"

	"verif/internal/core"
	"verif/internal/sched"
	"verif/internal/tsdbx"
)

func init() {
	core.Register(&core.Prop{
		ID:        "C09",
		Title:     "Retention removes only whole expired blocks, oldest first",
		Level:     "exploration",
		Technique: "runtime monitor of tsdb.Open / DB.CompactHead on prepared block directories: directory snapshot taken at the reload hook, reference retention rules (time: exact set; size: any valid newest-first cut) computed from metas and on-disk sizes, compared with the directory and DB.Blocks() afterwards",
		LevelText: "Each case prepares a data directory with a real WAL (samples newer than every block), 1-7 real blocks written by tsdb.CreateBlock (sequential, equal-MaxTime, identical and overlapping ranges, different sizes, random hints incl. partial-view and out-of-order, Deletable flags) and, in a third of the cases, the state left by a compaction that was interrupted before its parents were deleted (child written by the real LeveledCompactor.Compact next to its parents, optionally one parent already gone, optionally a *.tmp-for-deletion / *.tmp-for-creation leftover). The directory is opened with generated RetentionDuration / MaxBytes / MaxPercentage+fake FsSizeFunc (values placed on, one below and one above every boundary of the layout; percentage together with bytes to check that percentage prevails). A second reload is provoked either by appending to the head and DB.CompactHead (new newest block, non-empty WAL) or by closing, adding a block and re-opening. At every reload the hook tsdb.reload.beforeSwap snapshots the directory (metas, file sizes of every block, sizes of wal/, wbl/, chunks_head/). Afterwards: every block with newest.MaxTime-MaxTime >= retention, every Deletable block and every parent named by a block on disk must be gone; the remaining deletions must be a valid size-retention answer (kept blocks = a newest-first prefix by MaxTime, ties in any order, head+kept <= limit and head+kept+next > limit); without size limit nothing else may be deleted; DB.Blocks() equals the directory; no tmp directory survives Open; all WAL samples are still queryable from the head after Open. Held on the observed layouts only.",
		LevelNote: "Sizes are on-disk file sizes measured by the harness at the hook (equal to Block.Size() for well-formed block directories). Two accountings of the size rule are accepted: over all blocks on disk at the reload (what occupies the disk) or over the blocks that are not already removed as Deletable/superseded; an answer valid under either passes. Percentage limits use fake filesystem sizes of the form 400*U and quarter-percent values so that size*pct/100 is exact in float64; fake size 0 (documented fallback to MaxBytes) is not generated. 'Never touches head data' is checked after Open only (after CompactHead the head data legitimately moves to a block that retention may remove). BlockReloadInterval is 1h and compactions are disabled, so only the reloads the case provokes happen. Hook used: tsdb.reload.beforeSwap (observation only).",
		DesignRef: "DESIGN.md §5 C09",
		Rule:      "case = one prepared directory + retention settings + up to two reloads; non-trivial iff a reload that passed all checks saw >=2 blocks and had something to decide (time or size retention active, a Deletable block or superseded parents on disk); distinct by the canonical rendering of the first snapshot (relative MaxTimes, sizes, flags) and the settings",
		Assumptions: []string{
			"tsdb.CreateBlock and LeveledCompactor.Compact produce well-formed blocks (C07)",
			"the background reload/compaction loop does not run within a case (BlockReloadInterval 1h, DisableCompactions)",
		},
		Cases: func(variant string, tier core.Tier) int {
			if variant != "default" {
				return 0
			}
			if tier == core.Thorough {
				return 3000
			}
			return 150
		},
		Run: run,
		MinNontrivial: func(t core.Tier) int {
			if t == core.Thorough {
				return 1500
			}
			return 80
		},
		CaseTimeoutSec: 180,
	})
}

// ---------------------------------------------------------------- helpers

type fsample struct {
	t int64
	v float64
}

func (s fsample) T() int64                      { return s.t }
func (s fsample) ST() int64                     { return 0 }
func (s fsample) F() float64                    { return s.v }
func (s fsample) H() *histogram.Histogram       { return nil }
func (s fsample) FH() *histogram.FloatHistogram { return nil }
func (s fsample) Type() chunkenc.ValueType      { return chunkenc.ValFloat }
func (s fsample) Copy() chunks.Sample           { return s }

// makeBlock writes a real block with samples from mint to maxt-1.
func makeBlock(r *rand.Rand, dir string, mint, maxt int64, tag string) string {
	nSeries := 1 + r.IntN(4)
	nSamples := 2 + r.IntN(60)
	var ss []storage.Series
	for i := 0; i < nSeries; i++ {
		var smp []chunks.Sample
		smp = append(smp, fsample{mint, float64(i)})
		for k := 1; k < nSamples-1 && maxt-1-mint > 1; k++ {
			t := mint + 1 + (maxt-2-mint)*int64(k)/int64(nSamples)
			if t > smp[len(smp)-1].T() && t < maxt-1 {
				smp = append(smp, fsample{t, r.Float64() * 1000})
			}
		}
		if maxt-1 > mint {
			smp = append(smp, fsample{maxt - 1, 1})
		}
		ss = append(ss, storage.NewListSeries(labels.FromStrings("__name__", "blk", "b", tag, "s", fmt.Sprint(i)), smp))
	}
	d, err := tsdb.CreateBlock(ss, dir, 1<<40, tsdbx.NopLogger())
	core.Must(err, "CreateBlock")
	return d
}

func readMeta(bdir string) (*tsdb.BlockMeta, error) {
	b, err := os.ReadFile(filepath.Join(bdir, "meta.json"))
	if err != nil {
		return nil, err
	}
	var m tsdb.BlockMeta
	if err := json.Unmarshal(b, &m); err != nil {
		return nil, err
	}
	return &m, nil
}

func writeMeta(bdir string, m *tsdb.BlockMeta) {
	b, err := json.MarshalIndent(m, "", "\t")
	core.Must(err, "marshal meta")
	core.Must(os.WriteFile(filepath.Join(bdir, "meta.json"), b, 0o666), "write meta.json")
}

func dirSize(d string) int64 {
	var n int64
	filepath.Walk(d, func(_ string, info os.FileInfo, err error) error {
		if err == nil && !info.IsDir() {
			n += info.Size()
		}
		return nil
	})
	return n
}

type blk struct {
	ID        ulid.ULID
	Min, Max  int64
	Size      int64
	Deletable bool
	Parents   []ulid.ULID
	Hints     []string
}

type snapshot struct {
	Blocks   []blk
	HeadSize int64
	Tmp      []string
	Err      string
}

func (s *snapshot) byID(id ulid.ULID) *blk {
	for i := range s.Blocks {
		if s.Blocks[i].ID == id {
			return &s.Blocks[i]
		}
	}
	return nil
}

func takeSnapshot(dir string) snapshot {
	var s snapshot
	es, err := os.ReadDir(dir)
	if err != nil {
		s.Err = err.Error()
		return s
	}
	for _, e := range es {
		if !e.IsDir() {
			continue
		}
		name := e.Name()
		if strings.Contains(name, ".tmp") {
			s.Tmp = append(s.Tmp, name)
			continue
		}
		id, err := ulid.ParseStrict(name)
		if err != nil {
			continue
		}
		m, err := readMeta(filepath.Join(dir, name))
		if err != nil {
			s.Err = fmt.Sprintf("block %s: %v", name, err)
			continue
		}
		b := blk{ID: id, Min: m.MinTime, Max: m.MaxTime, Size: dirSize(filepath.Join(dir, name)), Deletable: m.Compaction.Deletable, Hints: m.Compaction.Hints}
		for _, p := range m.Compaction.Parents {
			b.Parents = append(b.Parents, p.ULID)
		}
		s.Blocks = append(s.Blocks, b)
	}
	s.HeadSize = dirSize(filepath.Join(dir, "wal")) + dirSize(filepath.Join(dir, "wbl")) + dirSize(filepath.Join(dir, "chunks_head"))
	return s
}

type settings struct {
	Retention int64   // ms, 0 = off
	MaxBytes  int64   // 0 = off
	Pct       float64 // 0 = off
	FsSize    uint64
}

// limit returns the effective byte limit (0 = size retention off).
func (o settings) limit() int64 {
	if o.Pct > 0 && o.FsSize > 0 {
		// FsSize = 400*U, Pct = q/4  =>  FsSize*Pct/100 = U*q exactly
		u := int64(o.FsSize / 400)
		q := int64(math.Round(o.Pct * 4))
		return u * q
	}
	if o.MaxBytes > 0 {
		return o.MaxBytes
	}
	return 0
}

func (o settings) String() string {
	return fmt.Sprintf("retention=%dms maxBytes=%d maxPercentage=%v fsSize=%d (limit=%d)", o.Retention, o.MaxBytes, o.Pct, o.FsSize, o.limit())
}

func render(s *snapshot) string {
	bs := append([]blk(nil), s.Blocks...)
	sort.Slice(bs, func(i, j int) bool {
		if bs[i].Max != bs[j].Max {
			return bs[i].Max > bs[j].Max
		}
		return bs[i].ID.Compare(bs[j].ID) < 0
	})
	var sb strings.Builder
	fmt.Fprintf(&sb, "head=%dB;", s.HeadSize)
	for _, b := range bs {
		fmt.Fprintf(&sb, " %s[%d,%d)%dB", b.ID.String()[20:], b.Min, b.Max, b.Size)
		if b.Deletable {
			sb.WriteString("D")
		}
		if len(b.Parents) > 0 {
			sb.WriteString("<-")
			for _, p := range b.Parents {
				sb.WriteString(p.String()[20:] + ",")
			}
		}
	}
	return sb.String()
}

// validSizeAnswer reports whether deleting exactly del (a subset of list) is a valid outcome of
// newest-first size retention over list.
func validSizeAnswer(list []blk, del map[ulid.ULID]bool, head, limit int64) bool {
	var keptSum int64
	keptMin := int64(math.MaxInt64)
	delMax := int64(math.MinInt64)
	nDel := 0
	for _, b := range list {
		if del[b.ID] {
			nDel++
			delMax = max(delMax, b.Max)
		} else {
			keptSum += b.Size
			keptMin = min(keptMin, b.Max)
		}
	}
	if nDel > 0 && nDel < len(list) && keptMin < delMax {
		return false // a deleted block is strictly newer than a kept one
	}
	if nDel < len(list) && head+keptSum > limit {
		return false // kept blocks do not fit
	}
	if nDel == 0 {
		return true
	}
	// some deleted block of the newest deleted MaxTime must be the one that overflowed
	for _, b := range list {
		if del[b.ID] && b.Max == delMax && head+keptSum+b.Size > limit {
			return true
		}
	}
	return false
}

// checkReload compares the directory after a reload with the snapshot taken at the reload.
func checkReload(c *core.Case, which string, snap *snapshot, after *snapshot, o settings) (ok, interesting bool) {
	ok = true
	ctxt := fmt.Sprintf("%s: %s; at reload: %s; afterwards: %s", which, o, render(snap), render(after))
	fail := func(kind, f string, a ...any) {
		ok = false
		c.Violatef(kind, "%s [%s]", fmt.Sprintf(f, a...), ctxt)
	}
	if snap.Err != "" || after.Err != "" {
		c.Inconclusive("%s: directory could not be read: %s %s", which, snap.Err, after.Err)
		return false, false
	}
	gone := map[ulid.ULID]bool{}
	for _, b := range snap.Blocks {
		if after.byID(b.ID) == nil {
			gone[b.ID] = true
		}
	}
	for _, b := range after.Blocks {
		if snap.byID(b.ID) == nil {
			fail("block-appeared-during-reload", "block %s exists after the reload but not at the reload", b.ID)
		}
	}
	if len(snap.Blocks) == 0 {
		return ok, false
	}
	// mandatory deletions.  "Newest block" is read in two ways when the newest block on disk is
	// itself superseded or flagged Deletable: over all blocks on disk (newestAll) or over the
	// blocks that are not removed anyway (newestLive <= newestAll).  Expired under the second
	// reading = must go; expired only under the first = may go.
	mand := map[ulid.ULID]string{}
	mayGo := map[ulid.ULID]bool{}
	superseded := map[ulid.ULID]bool{}
	for _, b := range snap.Blocks {
		for _, p := range b.Parents {
			superseded[p] = true
		}
	}
	newest, newestLive := int64(math.MinInt64), int64(math.MinInt64)
	for _, b := range snap.Blocks {
		newest = max(newest, b.Max)
		if !superseded[b.ID] && !b.Deletable {
			newestLive = max(newestLive, b.Max)
		}
	}
	for _, b := range snap.Blocks {
		switch {
		case superseded[b.ID]:
			mand[b.ID] = "superseded-parent"
		case b.Deletable:
			mand[b.ID] = "deletable-flag"
		case o.Retention > 0 && newestLive-b.Max >= o.Retention:
			mand[b.ID] = "time-retention"
		case o.Retention > 0 && newest-b.Max >= o.Retention:
			mayGo[b.ID] = true
			c.Count("time_retention_ambiguous_newest", 1)
		}
	}
	for id, why := range mand {
		if !gone[id] {
			b := snap.byID(id)
			fail(why+"-block-kept", "block %s [%d,%d) must be removed (%s; newest MaxTime %d) but is still on disk", id, b.Min, b.Max, why, newestLive)
		} else {
			c.Seen("deletion_reason", why)
		}
	}
	// everything else must be explained by size retention
	extra := map[ulid.ULID]bool{}
	for id := range gone {
		if _, m := mand[id]; !m && !mayGo[id] {
			extra[id] = true
		}
	}
	limit := o.limit()
	if limit <= 0 {
		for id := range extra {
			b := snap.byID(id)
			fail("block-deleted-without-reason", "block %s [%d,%d) was deleted although it is within time retention, not superseded, not Deletable, and no size limit is set", id, b.Min, b.Max)
		}
	} else {
		// accounting A: all blocks on disk; accounting B: blocks not removed anyway as Deletable/superseded
		var listA, listB []blk
		for _, b := range snap.Blocks {
			listA = append(listA, b)
			if !superseded[b.ID] && !b.Deletable {
				listB = append(listB, b)
			}
		}
		valid := false
		for _, list := range [][]blk{listA, listB} {
			if len(list) > 16 {
				c.Inconclusive("too many blocks for the brute-force size oracle")
				return false, false
			}
			// S ranges over subsets of list with extra ⊆ S ⊆ gone
			for mask := 0; mask < 1<<len(list) && !valid; mask++ {
				del := map[ulid.ULID]bool{}
				okSub := true
				for i, b := range list {
					if mask&(1<<i) != 0 {
						del[b.ID] = true
						if !gone[b.ID] {
							okSub = false
						}
					}
				}
				for id := range extra {
					if !del[id] {
						okSub = false
					}
				}
				if okSub && validSizeAnswer(list, del, snap.HeadSize, limit) {
					valid = true
				}
			}
		}
		if !valid {
			// classify
			kind := "size-retention-wrong-cut"
			for id := range extra {
				d := snap.byID(id)
				for _, k := range after.Blocks {
					if k.Max < d.Max {
						kind = "newer-block-deleted-before-older"
					}
				}
			}
			if len(extra) == 0 {
				kind = "size-retention-kept-too-much"
			}
			fail(kind, "deleted set is no valid size-retention answer: deleted beyond time/superseded/Deletable = %d blocks, limit %d, head %d", len(extra), limit, snap.HeadSize)
		} else if len(extra) > 0 {
			c.Seen("deletion_reason", "size-retention")
		}
	}
	// explicit order law for retention deletions (time or size)
	for id := range gone {
		if mand[id] == "superseded-parent" || mand[id] == "deletable-flag" {
			continue
		}
		d := snap.byID(id)
		for _, k := range after.Blocks {
			if k.Max < d.Max {
				fail("newer-block-deleted-before-older", "retention deleted %s (MaxTime %d) but kept the older %s (MaxTime %d)", id, d.Max, k.ID, k.Max)
			}
		}
	}
	interesting = len(snap.Blocks) >= 2 && (o.Retention > 0 || limit > 0 || len(superseded) > 0 || len(mand) > 0)
	c.Count("reloads_checked", 1)
	c.Count("blocks_at_reload", int64(len(snap.Blocks)))
	c.Count("blocks_deleted", int64(len(gone)))
	switch {
	case len(gone) == 0:
		c.Seen("reload_outcome", "nothing-deleted")
	case len(after.Blocks) == 0:
		c.Seen("reload_outcome", "everything-deleted")
	default:
		c.Seen("reload_outcome", "some-deleted")
	}
	return ok, interesting
}

// ---------------------------------------------------------------- the case

type headSample struct {
	ls labels.Labels
	t  int64
	v  float64
}

func openOpts(o settings) *tsdb.Options {
	opts := tsdb.DefaultOptions()
	opts.MinBlockDuration = 1 << 40
	opts.MaxBlockDuration = 1 << 40
	opts.NoLockfile = true
	opts.BlockReloadInterval = time.Hour
	opts.RetentionDuration = o.Retention
	opts.MaxBytes = o.MaxBytes
	opts.MaxPercentage = o.Pct
	fs := o.FsSize
	opts.FsSizeFunc = func(string) uint64 { return fs }
	opts.StripeSize = 64
	return opts
}

func pickSettings(r *rand.Rand, s *snapshot) settings {
	var o settings
	bs := append([]blk(nil), s.Blocks...)
	sort.Slice(bs, func(i, j int) bool {
		if bs[i].Max != bs[j].Max {
			return bs[i].Max > bs[j].Max
		}
		return bs[i].ID.Compare(bs[j].ID) < 0
	})
	pickBytes := func() int64 {
		switch r.IntN(8) {
		case 0:
			return 1
		case 1:
			return 1 << 40
		case 2:
			return s.HeadSize + int64(r.IntN(3)) - 1
		}
		// head + cumulative size of a newest-first prefix (random tie order), on/below/above
		perm := append([]blk(nil), bs...)
		for i := 0; i+1 < len(perm); i++ {
			if perm[i].Max == perm[i+1].Max && r.IntN(2) == 0 {
				perm[i], perm[i+1] = perm[i+1], perm[i]
			}
		}
		sum := s.HeadSize
		k := 0
		if len(perm) > 0 {
			k = 1 + r.IntN(len(perm))
		}
		for _, b := range perm[:k] {
			sum += b.Size
		}
		return max(sum+int64(r.IntN(3))-1, 1)
	}
	mode := r.IntN(10)
	if mode <= 4 || mode == 8 { // time
		if len(bs) > 0 {
			d := bs[0].Max - bs[r.IntN(len(bs))].Max
			o.Retention = max(d+int64(r.IntN(3))-1, 0)
			if r.IntN(10) == 0 {
				o.Retention = 1 << 50
			}
			if o.Retention == 0 && r.IntN(2) == 0 {
				o.Retention = 1
			}
		}
	}
	if mode >= 3 && mode <= 6 { // bytes
		o.MaxBytes = pickBytes()
	}
	if mode >= 6 && mode <= 8 { // percentage (with mode 6: together with bytes, percentage prevails)
		target := pickBytes()
		u := target/300 + 1
		q := min(max(target/u, 1), 400)
		o.FsSize = uint64(400 * u)
		o.Pct = float64(q) / 4
		if mode == 6 && r.IntN(2) == 0 {
			// make the byte limit disagree strongly with the percentage limit
			o.MaxBytes = []int64{1, 1 << 40}[r.IntN(2)]
		}
	}
	return o
}

func run(c *core.Case) {
	r := c.Rng
	// tsdb.CreateBlock's BlockWriter puts its scratch head under os.TempDir()
	os.Setenv("TMPDIR", c.TempDir())
	dir := filepath.Join(c.TempDir(), "data")
	core.Must(os.MkdirAll(dir, 0o777), "mkdir data")
	ctx := context.Background()

	// layout of the blocks
	n := 1 + r.IntN(7)
	w := int64(50 + r.IntN(200))
	base := int64(r.IntN(3)-1) * 1000
	type rg struct{ a, b int64 }
	var rgs []rg
	cur := base
	for i := 0; i < n; i++ {
		switch r.IntN(8) {
		case 0: // same MaxTime as the previous block, different MinTime
			if len(rgs) > 0 {
				p := rgs[len(rgs)-1]
				rgs = append(rgs, rg{p.a + r.Int64N(p.b-p.a-1), p.b})
				continue
			}
		case 1: // identical range
			if len(rgs) > 0 {
				rgs = append(rgs, rgs[len(rgs)-1])
				continue
			}
		case 2: // overlapping, later MaxTime
			if len(rgs) > 0 {
				p := rgs[len(rgs)-1]
				rgs = append(rgs, rg{p.a + (p.b-p.a)/2, p.b + w/2})
				cur = p.b + w/2
				continue
			}
		case 3: // gap
			cur += w * int64(1+r.IntN(3))
		}
		ln := w
		if r.IntN(4) == 0 {
			ln = w * int64(2+r.IntN(3))
		}
		rgs = append(rgs, rg{cur, cur + ln})
		cur += ln
	}
	maxBlockT := int64(math.MinInt64)
	for _, x := range rgs {
		maxBlockT = max(maxBlockT, x.b)
	}
	t0 := maxBlockT + int64(r.IntN(50))

	// 1. a real WAL with samples newer than every block
	var walSamples []headSample
	{
		db, err := tsdb.Open(dir, tsdbx.NopLogger(), nil, openOpts(settings{}), nil)
		core.Must(err, "open empty dir for WAL preparation")
		db.DisableCompactions()
		nw := r.IntN(4) * (1 + r.IntN(40))
		for i := 0; i < nw; i++ {
			hs := headSample{ls: labels.FromStrings("__name__", "head", "s", fmt.Sprint(i%3)), t: t0 + int64(i), v: float64(i)}
			app := db.Appender(ctx)
			_, err := app.Append(0, hs.ls, hs.t, hs.v)
			core.Must(err, "append WAL sample")
			core.Must(app.Commit(), "commit WAL sample")
			walSamples = append(walSamples, hs)
		}
		core.Must(db.Close(), "close after WAL preparation")
	}

	// 2. blocks
	var bdirs []string
	for i, x := range rgs {
		bdirs = append(bdirs, makeBlock(r, dir, x.a, x.b, fmt.Sprint(i)))
	}
	// interrupted compaction: child next to its parents
	interrupted := false
	if len(bdirs) >= 2 && r.IntN(3) == 0 {
		interrupted = true
		k := 2 + r.IntN(min(len(bdirs), 3)-1)
		start := r.IntN(len(bdirs) - k + 1)
		parents := append([]string(nil), bdirs[start:start+k]...)
		sort.SliceStable(parents, func(i, j int) bool {
			mi, _ := readMeta(parents[i])
			mj, _ := readMeta(parents[j])
			return mi.MinTime < mj.MinTime
		})
		comp, err := tsdb.NewLeveledCompactor(ctx, nil, tsdbx.NopLogger(), []int64{1 << 40}, nil, nil)
		core.Must(err, "NewLeveledCompactor")
		ids, err := comp.Compact(dir, parents, nil)
		core.Must(err, "Compact for the interrupted-compaction layout")
		if len(ids) == 1 {
			c.Seen("layout", "child-next-to-parents")
			switch r.IntN(4) {
			case 0: // one parent already deleted
				core.Must(os.RemoveAll(parents[0]), "remove parent")
				c.Seen("layout", "one-parent-already-gone")
			case 1: // one parent half deleted
				core.Must(os.Rename(parents[0], parents[0]+".tmp-for-deletion"), "rename parent")
				c.Seen("layout", "parent-tmp-for-deletion")
			}
		}
	}
	if r.IntN(6) == 0 { // interrupted block write
		d := filepath.Join(dir, ulid.MustNew(uint64(1+r.IntN(1000)), nil).String()+".tmp-for-creation")
		core.Must(os.MkdirAll(filepath.Join(d, "chunks"), 0o777), "mkdir tmp-for-creation")
		core.Must(os.WriteFile(filepath.Join(d, "index"), []byte("partial"), 0o666), "write partial index")
		c.Seen("layout", "tmp-for-creation")
	}
	// flags and hints
	for _, bd := range bdirs {
		m, err := readMeta(bd)
		if err != nil {
			continue // parent removed/renamed above
		}
		ch := false
		if r.IntN(9) == 0 {
			m.Compaction.Deletable = true
			ch = true
		}
		switch r.IntN(8) {
		case 0:
			m.Compaction.SetOutOfOrder()
			ch = true
		case 1:
			m.Compaction.SetStaleSeries()
			ch = true
		case 2:
			m.Compaction.SetSelectedSeries()
			ch = true
		}
		if ch {
			writeMeta(bd, m)
		}
	}

	pre := takeSnapshot(dir)
	o := pickSettings(r, &pre)

	// 3. open under test, snapshots at every reload
	var mu sync.Mutex
	var snaps []snapshot
	ctl := sched.Install()
	defer ctl.Uninstall()
	ctl.OnHit(func(site string, _ *sched.Actor) {
		if site == "tsdb.reload.beforeSwap" {
			s := takeSnapshot(dir)
			mu.Lock()
			snaps = append(snaps, s)
			mu.Unlock()
		}
	})
	nSnaps := func() int { mu.Lock(); defer mu.Unlock(); return len(snaps) }
	lastSnap := func() *snapshot { mu.Lock(); defer mu.Unlock(); s := snaps[len(snaps)-1]; return &s }

	key := fmt.Sprintf("%s|%s", o, renderRel(&pre))
	nontrivial := false
	sampleOut := map[string]any{"settings": o.String(), "before_open": render(&pre), "interrupted_compaction": interrupted}

	db, err := tsdb.Open(dir, tsdbx.NopLogger(), nil, openOpts(o), nil)
	if err != nil {
		c.Violatef("open-error", "tsdb.Open failed on a well-formed directory: %v [%s; %s]", err, o, render(&pre))
		return
	}
	db.DisableCompactions()
	closed := false
	defer func() {
		if !closed {
			db.Close()
		}
	}()
	if nSnaps() != 1 {
		c.Inconclusive("expected exactly one reload during Open, saw %d", nSnaps())
		return
	}
	after := takeSnapshot(dir)
	sampleOut["after_open"] = render(&after)
	ok, intr := checkReload(c, "reload at Open", lastSnap(), &after, o)
	if ok && intr {
		nontrivial = true
	}
	checkLoaded(c, db, &after, "after Open")
	if len(after.Tmp) > 0 {
		c.Violatef("tmp-dir-left", "temporary block directories survive Open: %v", after.Tmp)
	}
	// head data untouched
	if len(walSamples) > 0 {
		q, err := db.Querier(math.MinInt64, math.MaxInt64)
		core.Must(err, "Querier")
		d, _, err := tsdbx.DumpQuerier(q, labels.MustNewMatcher(labels.MatchEqual, "__name__", "head"))
		q.Close()
		exp := tsdbx.Expect{}
		for _, hs := range walSamples {
			exp.Add(hs.ls.String(), hs.t, tsdbx.Sample{T: hs.t, Kind: "f", F: hs.v}.ValKey())
		}
		if err != nil {
			c.Violatef("head-data-unreadable", "query of head data after Open failed: %v", err)
		} else if diff := tsdbx.Compare(exp, d, math.MinInt64, math.MaxInt64); diff != "" {
			c.Violatef("head-data-touched", "head (WAL) samples differ after Open with retention %s: %s", o, diff)
		}
		c.Count("head_samples_checked", int64(len(walSamples)))
	}

	// 4. second reload
	switch r.IntN(3) {
	case 0: // append + CompactHead: a new newest block, retention re-evaluated in the live DB
		t1 := t0 + 1000 + int64(r.IntN(2000))
		app := db.Appender(ctx)
		for i := 0; i < 1+r.IntN(30); i++ {
			_, err := app.Append(0, labels.FromStrings("__name__", "head", "s", fmt.Sprint(i%3)), t1+int64(i), 1)
			core.Must(err, "append")
		}
		core.Must(app.Commit(), "commit")
		h := db.Head()
		before := nSnaps()
		if err := db.CompactHead(tsdb.NewRangeHead(h, h.MinTime(), h.MaxTime())); err != nil {
			c.Violatef("compact-head-error", "CompactHead failed: %v", err)
			return
		}
		if nSnaps() != before+1 {
			c.Inconclusive("expected exactly one reload during CompactHead, saw %d", nSnaps()-before)
			return
		}
		after2 := takeSnapshot(dir)
		sampleOut["second_reload"] = "CompactHead: " + render(lastSnap()) + " => " + render(&after2)
		ok, intr := checkReload(c, "reload after CompactHead", lastSnap(), &after2, o)
		if ok && intr {
			nontrivial = true
		}
		checkLoaded(c, db, &after2, "after CompactHead")
		c.Seen("second_reload", "compact-head")
	case 1: // close, add a newer block, re-open with new settings
		core.Must(db.Close(), "close")
		closed = true
		last := after
		a := maxBlockT + 3000 + int64(r.IntN(500))
		makeBlock(r, dir, a, a+w, "late")
		pre2 := takeSnapshot(dir)
		_ = last
		o2 := pickSettings(r, &pre2)
		before := nSnaps()
		db2, err := tsdb.Open(dir, tsdbx.NopLogger(), nil, openOpts(o2), nil)
		if err != nil {
			c.Violatef("open-error", "second tsdb.Open failed: %v [%s; %s]", err, o2, render(&pre2))
			return
		}
		db2.DisableCompactions()
		defer db2.Close()
		if nSnaps() != before+1 {
			c.Inconclusive("expected exactly one reload during the second Open, saw %d", nSnaps()-before)
			return
		}
		after2 := takeSnapshot(dir)
		sampleOut["second_reload"] = "re-open with " + o2.String() + ": " + render(lastSnap()) + " => " + render(&after2)
		ok, intr := checkReload(c, "reload at second Open", lastSnap(), &after2, o2)
		if ok && intr {
			nontrivial = true
		}
		checkLoaded(c, db2, &after2, "after second Open")
		c.Seen("second_reload", "reopen-with-new-block")
	default:
		c.Seen("second_reload", "none")
	}
	if nontrivial && !c.Violated() {
		c.Nontrivial(key)
	}
	switch {
	case o.Pct > 0 && o.MaxBytes > 0:
		c.Seen("settings", "percentage+bytes")
	case o.Pct > 0 && o.Retention > 0:
		c.Seen("settings", "percentage+time")
	case o.Pct > 0:
		c.Seen("settings", "percentage")
	case o.MaxBytes > 0 && o.Retention > 0:
		c.Seen("settings", "bytes+time")
	case o.MaxBytes > 0:
		c.Seen("settings", "bytes")
	case o.Retention > 0:
		c.Seen("settings", "time")
	default:
		c.Seen("settings", "none")
	}
	if c.Idx < 40 && len(pre.Blocks) >= 3 {
		c.Sample(sampleOut)
	}
}

// renderRel renders a snapshot with times relative to the newest MaxTime (distinctness key).
func renderRel(s *snapshot) string {
	newest := int64(math.MinInt64)
	for _, b := range s.Blocks {
		newest = max(newest, b.Max)
	}
	var parts []string
	for _, b := range s.Blocks {
		parts = append(parts, fmt.Sprintf("%d/%d/%d/%v/%d", newest-b.Max, b.Max-b.Min, b.Size, b.Deletable, len(b.Parents)))
	}
	sort.Strings(parts)
	return fmt.Sprintf("h%d %s", s.HeadSize, strings.Join(parts, " "))
}

// checkLoaded: DB.Blocks() must be exactly the block directories on disk.
func checkLoaded(c *core.Case, db *tsdb.DB, after *snapshot, when string) {
	loaded := map[ulid.ULID]bool{}
	for _, b := range db.Blocks() {
		loaded[b.Meta().ULID] = true
	}
	for _, b := range after.Blocks {
		if !loaded[b.ID] {
			c.Violatef("block-on-disk-not-loaded", "%s: block %s is on disk but not in DB.Blocks()", when, b.ID)
		}
		delete(loaded, b.ID)
	}
	for id := range loaded {
		c.Violatef("loaded-block-not-on-disk", "%s: DB.Blocks() contains %s which is no longer on disk", when, id)
	}
}
