// Package c24: persistent blocks round-trip (index + chunks) and detect single-byte damage.
package c24

import (
	"context"
	"encoding/binary"
	"encoding/json"
	"fmt"
	"math"
	"math/rand/v2"
	"os"
	"path/filepath"
	"sort"
	"strings"

	"github.com/prometheus/prometheus/model/histogram"
	"github.com/prometheus/prometheus/model/labels"
	"github.com/prometheus/prometheus/storage"
	"github.com/prometheus/prometheus/tsdb"
	"github.com/prometheus/prometheus/tsdb/chunkenc"
	"github.com/prometheus/prometheus/tsdb/chunks"
	"github.com/prometheus/prometheus/tsdb/index"

	"verif/internal/core"
	"verif/internal/gen"
	"verif/internal/tsdbx"
)

func init() {
	core.Register(&core.Prop{
		ID:        "C24",
		Title:     "Persistent blocks round-trip and detect corruption",
		Level:     "fault_enumeration",
		Technique: "round-trip identity monitor on index.Writer/Reader + chunks.Writer/Reader + OpenBlock queriers, and single-byte damage enumeration over chunk records and series index entries with a 'read must fail' oracle",
		LevelText: "Each case builds one block from generated series (label sets with shared and unique symbols, 0..8 chunks per series of the encodings XOR, XOR2, histogram and float histogram built with the real chunk appenders, chunk segment files of a few hundred bytes up to the default size) through one of three writers: the raw block writers (chunks.Writer + index.Writer + meta.json), tsdb.CreateBlock (BlockWriter), or LeveledCompactor.Compact of two raw blocks. Raw blocks: the index reader must return exactly the written symbols, label names, label values, postings per (name,value) and the all-postings list in label order, every series entry (labels, chunk refs, chunk min/max time), and the chunk reader the written bytes and encoding of every chunk. All blocks: the block querier and chunk querier must return exactly the model's samples, and a second OpenBlock the same dump. Damage: positions are the bytes of chunk records (length, encoding, data, CRC) and of series entries (length, content, CRC), located by the writer's chunk refs and the postings' series refs; in small blocks (at most 3 series with short chunks, every 8th case) and in the first 50 cases of the thorough tier EVERY such byte is altered (one-bit flip and a random other value), elsewhere a random sample; after each single-byte alteration a fresh reader must either fail to open or return an error for that chunk / series entry, and on a sample OpenBlock + a full-range query must fail too. The first cases run again on an -asan build (the readers work on mmap'ed files with unsafe string/slice views). Held on the generated blocks and the enumerated positions/values (2 of the 255 alternative values per position) only.",
		LevelNote: "Trusted: the generator's own model of what it wrote; chunk refs returned by chunks.Writer and series refs returned by the intact index's postings locate the records (entries are parsed with the documented layout: uvarint length, body, CRC32). Reductions: for blocks written by CreateBlock/compaction the chunk bytes are chosen by the writer, so byte identity is checked for raw blocks only and sample identity for the others. Padding between series entries, the TOC, symbol table and postings are not damaged (the statement names chunk records and series entries). An open error counts as detection. Altered length fields are caught by the CRC only with probability 1-2^-32 per position; such a miss would be reported and has to be judged by hand.",
		DesignRef: "DESIGN.md §5 C24",
		Rule:      "case = one block; non-trivial iff it has >= 1 series with >= 1 chunk, all round-trip comparisons ran and >= 10 damage positions were evaluated; distinct by (writer flavour, label sets, chunk encodings/sizes, segment size)",
		Cases: func(variant string, tier core.Tier) int {
			if variant == "asan" {
				if tier == core.Thorough {
					return 300
				}
				return 24
			}
			if variant != "default" {
				return 0
			}
			if tier == core.Thorough {
				return 4000
			}
			return 200
		},
		Variants:       []string{"asan"},
		Run:            run,
		MinNontrivial:  func(t core.Tier) int { return 100 },
		CaseTimeoutSec: 300,
	})
}

// ---------------------------------------------------------------- model

type wchunk struct {
	chk     chunkenc.Chunk
	enc     chunkenc.Encoding
	data    []byte
	mint    int64
	maxt    int64
	ref     chunks.ChunkRef
	samples []tsdbx.Sample
}

type wseries struct {
	lset   labels.Labels
	chunks []*wchunk
}

type wblock struct {
	dir     string
	ulid    string
	series  []*wseries // sorted by labels
	segSize int64
	mint    int64
	maxt    int64
}

func (b *wblock) expect() tsdbx.Expect {
	e := tsdbx.Expect{}
	for _, s := range b.series {
		k := s.lset.String()
		for _, c := range s.chunks {
			for _, smp := range c.samples {
				e.Add(k, smp.T, smp.ValKey())
			}
		}
	}
	return e
}

func (b *wblock) key() string {
	var sb strings.Builder
	fmt.Fprintf(&sb, "%d|", b.segSize)
	for _, s := range b.series {
		sb.WriteString(s.lset.String())
		for _, c := range s.chunks {
			fmt.Fprintf(&sb, "[%d:%d:%d]", c.enc, len(c.data), len(c.samples))
		}
	}
	return sb.String()
}

// ---------------------------------------------------------------- generators

func genLabelSets(r *rand.Rand, n int) []labels.Labels {
	seen := map[string]bool{}
	var out []labels.Labels
	for tries := 0; len(out) < n && tries < 40*n+40; tries++ {
		var ls labels.Labels
		switch r.IntN(5) {
		case 0:
			// unique symbols
			b := labels.NewBuilder(gen.LabelSet(r, 2))
			b.Set(fmt.Sprintf("u%d", r.IntN(1000)), fmt.Sprintf("val-%d-%s", r.IntN(100000), strings.Repeat("x", r.IntN(40))))
			ls = b.Labels()
		case 1:
			// value equal to some label name (symbol shared between names and values)
			b := labels.NewBuilder(gen.LabelSet(r, 2))
			b.Set("job", gen.Pick(r, []string{"job", "instance", "env", "__name__", "a"}))
			ls = b.Labels()
		default:
			ls = gen.LabelSet(r, 4)
		}
		k := ls.String()
		if seen[k] {
			continue
		}
		seen[k] = true
		out = append(out, ls)
	}
	for i := len(out); i < n; i++ {
		out = append(out, labels.FromStrings("__name__", "m", "uniq", fmt.Sprint(i)))
	}
	// a label whose number of distinct values sits on or next to the postings-offset-table
	// sampling boundary of the index reader (every 32nd value plus the last one)
	if n >= 33 && r.IntN(3) == 0 {
		k := 1 + r.IntN(n/32)
		w := 32*k + gen.Pick(r, []int{1, 1, 1, 0, 2, -1})
		if w > n {
			w = 32*k + 1
		}
		if w > n {
			w = n
		}
		for i := 0; i < w; i++ {
			out[i] = labels.NewBuilder(out[i]).Set("wide", fmt.Sprintf("w%05d", i)).Labels()
		}
	}
	sort.Slice(out, func(i, j int) bool { return labels.Compare(out[i], out[j]) < 0 })
	return out
}

func stepT(r *rand.Rand, t int64) int64 {
	switch r.IntN(12) {
	case 0:
		return t + 1
	case 1:
		return t + 1 + r.Int64N(1_000_000)
	default:
		return t + 1 + r.Int64N(30_000)
	}
}

// buildChunks appends n samples of one value kind starting after *t and returns the chunks the
// real appenders produced (histogram appends may cut or recode chunks).
func buildChunks(r *rand.Rand, kind int, t *int64, n int) []*wchunk {
	var out []*wchunk
	finish := func(c chunkenc.Chunk, smp []tsdbx.Sample) {
		if len(smp) == 0 {
			return
		}
		out = append(out, &wchunk{chk: c, enc: c.Encoding(), data: append([]byte(nil), c.Bytes()...), mint: smp[0].T, maxt: smp[len(smp)-1].T, samples: smp})
	}
	switch kind {
	case 0, 1: // XOR, XOR2
		var c chunkenc.Chunk = chunkenc.NewXORChunk()
		if kind == 1 {
			c = chunkenc.NewXOR2Chunk()
		}
		app, err := c.Appender()
		core.Must(err, "chunk appender")
		var smp []tsdbx.Sample
		for i := 0; i < n; i++ {
			*t = stepT(r, *t)
			v := gen.Float(r, true)
			if r.IntN(3) != 0 && len(smp) > 0 {
				v = smp[len(smp)-1].F + float64(r.IntN(10))
			}
			st := int64(0)
			if kind == 1 && r.IntN(2) == 0 {
				st = *t - int64(r.IntN(5000))
			}
			app.Append(st, *t, v)
			smp = append(smp, tsdbx.Sample{T: *t, Kind: "f", F: v})
		}
		finish(c, smp)
	case 2: // integer histograms
		a := gen.NewAbsHist(r, true)
		var c chunkenc.Chunk = chunkenc.NewHistogramChunk()
		app, err := c.Appender()
		core.Must(err, "chunk appender")
		var smp []tsdbx.Sample
		for i := 0; i < n; i++ {
			*t = stepT(r, *t)
			h := a.Int(r)
			nc, recoded, napp, err := app.AppendHistogram(nil, 0, *t, h, false)
			if err != nil {
				break
			}
			app = napp
			switch {
			case nc != nil && recoded:
				c = nc
			case nc != nil:
				finish(c, smp)
				c, smp = nc, nil
			}
			smp = append(smp, tsdbx.Sample{T: *t, Kind: "h", H: h.Copy()})
			a = a.Mutate(r)
		}
		finish(c, smp)
	default: // float histograms
		a := gen.NewAbsHist(r, true)
		var c chunkenc.Chunk = chunkenc.NewFloatHistogramChunk()
		app, err := c.Appender()
		core.Must(err, "chunk appender")
		var smp []tsdbx.Sample
		for i := 0; i < n; i++ {
			*t = stepT(r, *t)
			fh := a.Float(r)
			nc, recoded, napp, err := app.AppendFloatHistogram(nil, 0, *t, fh, false)
			if err != nil {
				break
			}
			app = napp
			switch {
			case nc != nil && recoded:
				c = nc
			case nc != nil:
				finish(c, smp)
				c, smp = nc, nil
			}
			smp = append(smp, tsdbx.Sample{T: *t, Kind: "fh", FH: fh.Copy()})
			a = a.Mutate(r)
		}
		finish(c, smp)
	}
	return out
}

type blockSpec struct {
	nSeries     int
	base        int64
	segSize     int64
	kinds       []int // allowed value kinds
	perSeries   bool  // one value kind per series (needed for the head-based writer)
	maxChunks   int
	allowNone   bool // series without chunks
	smallChunks bool
}

func genModel(r *rand.Rand, sp blockSpec, lsets []labels.Labels) *wblock {
	b := &wblock{segSize: sp.segSize, mint: math.MaxInt64, maxt: math.MinInt64}
	for _, ls := range lsets {
		s := &wseries{lset: ls}
		t := sp.base + r.Int64N(100_000)
		nch := r.IntN(sp.maxChunks + 1)
		if nch == 0 && !sp.allowNone {
			nch = 1
		}
		kind := gen.Pick(r, sp.kinds)
		for i := 0; i < nch; i++ {
			if !sp.perSeries {
				kind = gen.Pick(r, sp.kinds)
			}
			n := 1 + r.IntN(12)
			if r.IntN(6) == 0 {
				n = 60 + r.IntN(100)
			}
			if sp.smallChunks {
				n = 1 + r.IntN(5)
			}
			s.chunks = append(s.chunks, buildChunks(r, kind, &t, n)...)
		}
		for _, c := range s.chunks {
			b.mint = min(b.mint, c.mint)
			b.maxt = max(b.maxt, c.maxt)
		}
		b.series = append(b.series, s)
	}
	if b.mint > b.maxt {
		b.mint, b.maxt = sp.base, sp.base
	}
	return b
}

const crockford = "0123456789ABCDEFGHJKMNPQRSTVWXYZ"

func genULID(r *rand.Rand) string {
	var sb strings.Builder
	sb.WriteByte(crockford[r.IntN(8)])
	for i := 0; i < 25; i++ {
		sb.WriteByte(crockford[r.IntN(32)])
	}
	return sb.String()
}

// ---------------------------------------------------------------- raw writer

type metaJSON struct {
	ULID    string `json:"ulid"`
	MinTime int64  `json:"minTime"`
	MaxTime int64  `json:"maxTime"`
	Stats   struct {
		NumSamples uint64 `json:"numSamples,omitempty"`
		NumSeries  uint64 `json:"numSeries,omitempty"`
		NumChunks  uint64 `json:"numChunks,omitempty"`
	} `json:"stats"`
	Compaction struct {
		Level   int      `json:"level"`
		Sources []string `json:"sources"`
	} `json:"compaction"`
	Version int `json:"version"`
}

// writeRaw writes the model with chunks.Writer + index.Writer + meta.json into parent/<ulid>.
// A failure of the writers on this legal input is reported as a violation (returns false).
func writeRaw(c *core.Case, r *rand.Rand, parent string, b *wblock) bool {
	b.ulid = genULID(r)
	b.dir = filepath.Join(parent, b.ulid)
	core.Must(os.MkdirAll(filepath.Join(b.dir, "chunks"), 0o777), "mkdir block")
	var opts []chunks.WriterOption
	if b.segSize > 0 {
		opts = append(opts, chunks.WithSegmentSize(b.segSize))
	}
	cw, err := chunks.NewWriter(filepath.Join(b.dir, "chunks"), opts...)
	if err != nil {
		c.Violatef("writer-error", "chunks.NewWriter: %v", err)
		return false
	}
	metas := make([][]chunks.Meta, len(b.series))
	for i, s := range b.series {
		ms := make([]chunks.Meta, len(s.chunks))
		for j, ch := range s.chunks {
			ms[j] = chunks.Meta{MinTime: ch.mint, MaxTime: ch.maxt, Chunk: ch.chk}
		}
		// several series per call sometimes would reorder nothing: one call per series
		if len(ms) > 0 {
			if err := cw.WriteChunks(ms...); err != nil {
				c.Violatef("writer-error", "chunks.Writer.WriteChunks(%d chunks): %v", len(ms), err)
				return false
			}
		}
		for j := range ms {
			s.chunks[j].ref = ms[j].Ref
		}
		metas[i] = ms
	}
	if err := cw.Close(); err != nil {
		c.Violatef("writer-error", "chunks.Writer.Close: %v", err)
		return false
	}
	iw, err := index.NewWriter(context.Background(), filepath.Join(b.dir, "index"))
	if err != nil {
		c.Violatef("writer-error", "index.NewWriter: %v", err)
		return false
	}
	for _, sym := range b.symbols() {
		if err := iw.AddSymbol(sym); err != nil {
			c.Violatef("writer-error", "index.Writer.AddSymbol(%q): %v", sym, err)
			return false
		}
	}
	for i, s := range b.series {
		if err := iw.AddSeries(storage.SeriesRef(i), s.lset, metas[i]...); err != nil {
			c.Violatef("writer-error", "index.Writer.AddSeries(%s, %d chunks): %v", s.lset, len(metas[i]), err)
			return false
		}
	}
	if err := iw.Close(); err != nil {
		c.Violatef("writer-error", "index.Writer.Close: %v", err)
		return false
	}
	var m metaJSON
	m.ULID, m.MinTime, m.MaxTime, m.Version = b.ulid, b.mint, b.maxt+1, 1
	m.Compaction.Level, m.Compaction.Sources = 1, []string{b.ulid}
	for _, s := range b.series {
		m.Stats.NumSeries++
		for _, ch := range s.chunks {
			m.Stats.NumChunks++
			m.Stats.NumSamples += uint64(len(ch.samples))
		}
	}
	js, _ := json.MarshalIndent(m, "", "\t")
	core.Must(os.WriteFile(filepath.Join(b.dir, "meta.json"), js, 0o666), "write meta.json")
	return true
}

func (b *wblock) symbols() []string {
	set := map[string]bool{}
	for _, s := range b.series {
		s.lset.Range(func(l labels.Label) { set[l.Name] = true; set[l.Value] = true })
	}
	out := make([]string, 0, len(set))
	for k := range set {
		out = append(out, k)
	}
	sort.Strings(out)
	return out
}

// ---------------------------------------------------------------- low-level round trip

func eqStrings(a, b []string) bool {
	if len(a) != len(b) {
		return false
	}
	for i := range a {
		if a[i] != b[i] {
			return false
		}
	}
	return true
}

func clipList(s []string) []string {
	if len(s) > 12 {
		return append(append([]string(nil), s[:12]...), "…")
	}
	return s
}

// checkRawIndex compares everything the index reader exposes with the model; returns the
// series refs in label order.
func checkRawIndex(c *core.Case, b *wblock) ([]storage.SeriesRef, bool) {
	ctx := context.Background()
	ir, err := index.NewFileReader(filepath.Join(b.dir, "index"), index.DecodePostingsRaw)
	if err != nil {
		c.Violatef("index-roundtrip", "index.NewFileReader on a freshly written index failed: %v", err)
		return nil, false
	}
	defer ir.Close()
	// symbols
	var syms []string
	it := ir.Symbols()
	for it.Next() {
		syms = append(syms, it.At())
	}
	if it.Err() != nil || !eqStrings(syms, b.symbols()) {
		c.Violatef("index-roundtrip", "symbols differ: written %q, read %q (err %v)", clipList(b.symbols()), clipList(syms), it.Err())
		return nil, false
	}
	// label names / values / postings model
	byName := map[string]map[string][]int{}
	for i, s := range b.series {
		s.lset.Range(func(l labels.Label) {
			if byName[l.Name] == nil {
				byName[l.Name] = map[string][]int{}
			}
			byName[l.Name][l.Value] = append(byName[l.Name][l.Value], i)
		})
	}
	var names []string
	for n := range byName {
		names = append(names, n)
	}
	sort.Strings(names)
	gotNames, err := ir.LabelNames(ctx)
	if err != nil || !eqStrings(gotNames, names) {
		c.Violatef("index-roundtrip", "label names differ: written %q, read %q (err %v)", names, gotNames, err)
		return nil, false
	}
	// all postings
	k, v := index.AllPostingsKey()
	p, err := ir.Postings(ctx, k, v)
	if err != nil {
		c.Violatef("index-roundtrip", "Postings(all) failed: %v", err)
		return nil, false
	}
	refs, err := index.ExpandPostings(p)
	if err != nil || len(refs) != len(b.series) {
		c.Violatef("index-roundtrip", "all-postings: %d series written, %d refs read (err %v)", len(b.series), len(refs), err)
		return nil, false
	}
	refIdx := map[storage.SeriesRef]int{}
	var builder labels.ScratchBuilder
	var chks []chunks.Meta
	for i, ref := range refs {
		if i > 0 && refs[i-1] >= ref {
			c.Violatef("index-roundtrip", "all-postings not strictly increasing: %d then %d", refs[i-1], ref)
			return nil, false
		}
		refIdx[ref] = i
		if err := ir.Series(ref, &builder, &chks); err != nil {
			c.Violatef("index-roundtrip", "Series(%d) failed on an intact index: %v", ref, err)
			return nil, false
		}
		got := builder.Labels()
		s := b.series[i]
		if !labels.Equal(got, s.lset) {
			c.Violatef("index-roundtrip", "series %d (ref %d): labels written %s, read %s", i, ref, s.lset, got)
			return nil, false
		}
		if len(chks) != len(s.chunks) {
			c.Violatef("index-roundtrip", "series %s: %d chunks written, %d chunk metas read", s.lset, len(s.chunks), len(chks))
			return nil, false
		}
		for j, m := range chks {
			w := s.chunks[j]
			if m.Ref != w.ref || m.MinTime != w.mint || m.MaxTime != w.maxt {
				c.Violatef("index-roundtrip", "series %s chunk %d: written {ref %d, %d..%d}, read {ref %d, %d..%d}", s.lset, j, w.ref, w.mint, w.maxt, m.Ref, m.MinTime, m.MaxTime)
				return nil, false
			}
		}
	}
	// label values + postings per pair
	for _, n := range names {
		var vals []string
		for v := range byName[n] {
			vals = append(vals, v)
		}
		sort.Strings(vals)
		got, err := ir.SortedLabelValues(ctx, n, nil)
		if err != nil || !eqStrings(got, vals) {
			c.Violatef("index-roundtrip", "label values of %q: written %q, read %q (err %v)", n, clipList(vals), clipList(got), err)
			return nil, false
		}
		got2, err := ir.LabelValues(ctx, n, nil)
		sort.Strings(got2)
		if err != nil || !eqStrings(got2, vals) {
			c.Violatef("index-roundtrip", "LabelValues(%q) (unsorted API): written %q, read %q (err %v)", n, clipList(vals), clipList(got2), err)
			return nil, false
		}
		for _, v := range vals {
			p, err := ir.Postings(ctx, n, v)
			if err != nil {
				c.Violatef("index-roundtrip", "Postings(%q,%q) failed: %v", n, v, err)
				return nil, false
			}
			rs, err := index.ExpandPostings(p)
			want := byName[n][v]
			ok := err == nil && len(rs) == len(want)
			for i := 0; ok && i < len(rs); i++ {
				idx, known := refIdx[rs[i]]
				ok = known && idx == want[i]
			}
			if !ok {
				c.Violatef("index-roundtrip", "Postings(%q,%q): expected series indexes %v, got refs %v (err %v)", n, v, want, rs, err)
				return nil, false
			}
			c.Count("postings_lists_checked", 1)
		}
		// a multi-value lookup and a missing value
		if len(vals) >= 2 {
			p, err := ir.Postings(ctx, n, vals[0], vals[len(vals)-1], vals[len(vals)-1]+"\xffmissing")
			rs, err2 := index.ExpandPostings(ir.SortedPostings(p))
			want := map[int]bool{}
			for _, i := range byName[n][vals[0]] {
				want[i] = true
			}
			for _, i := range byName[n][vals[len(vals)-1]] {
				want[i] = true
			}
			ok := err == nil && err2 == nil && len(rs) == len(want)
			for i := 0; ok && i < len(rs); i++ {
				idx, known := refIdx[rs[i]]
				ok = known && want[idx]
			}
			if !ok {
				c.Violatef("index-roundtrip", "Postings(%q, first, last, missing): expected %d series, got %v (err %v %v)", n, len(want), rs, err, err2)
				return nil, false
			}
		}
	}
	return refs, true
}

func checkRawChunks(c *core.Case, b *wblock) bool {
	cr, err := chunks.NewDirReader(filepath.Join(b.dir, "chunks"), nil)
	if err != nil {
		c.Violatef("chunk-roundtrip", "chunks.NewDirReader on freshly written segments failed: %v", err)
		return false
	}
	defer cr.Close()
	for _, s := range b.series {
		for j, w := range s.chunks {
			chk, iter, err := cr.ChunkOrIterable(chunks.Meta{Ref: w.ref, MinTime: w.mint, MaxTime: w.maxt})
			if err != nil || chk == nil || iter != nil {
				c.Violatef("chunk-roundtrip", "series %s chunk %d (ref %d): ChunkOrIterable: chunk=%v iterable=%v err=%v", s.lset, j, w.ref, chk != nil, iter != nil, err)
				return false
			}
			if chk.Encoding() != w.enc || string(chk.Bytes()) != string(w.data) {
				c.Violatef("chunk-roundtrip", "series %s chunk %d (ref %d): written encoding %d, %d bytes; read encoding %d, %d bytes (bytes equal: %v)", s.lset, j, w.ref, w.enc, len(w.data), chk.Encoding(), len(chk.Bytes()), string(chk.Bytes()) == string(w.data))
				return false
			}
			c.Count("chunks_read_back", 1)
			c.Seen("chunk_encoding", fmt.Sprint(w.enc))
		}
	}
	return true
}

// ---------------------------------------------------------------- block level

func dumpBlock(dir string) (tsdbx.Dump, tsdbx.Dump, error) {
	blk, err := tsdb.OpenBlock(tsdbx.NopLogger(), dir, nil, nil)
	if err != nil {
		return nil, nil, fmt.Errorf("OpenBlock: %w", err)
	}
	defer blk.Close()
	q, err := tsdb.NewBlockQuerier(blk, math.MinInt64, math.MaxInt64)
	if err != nil {
		return nil, nil, fmt.Errorf("NewBlockQuerier: %w", err)
	}
	d, _, err := tsdbx.DumpQuerier(q)
	q.Close()
	if err != nil {
		return nil, nil, fmt.Errorf("querier: %w", err)
	}
	cq, err := tsdb.NewBlockChunkQuerier(blk, math.MinInt64, math.MaxInt64)
	if err != nil {
		return nil, nil, fmt.Errorf("NewBlockChunkQuerier: %w", err)
	}
	cd, _, err := tsdbx.DumpChunkQuerier(cq)
	cq.Close()
	if err != nil {
		return nil, nil, fmt.Errorf("chunk querier: %w", err)
	}
	return d, cd, nil
}

func checkBlockQueries(c *core.Case, what, dir string, e tsdbx.Expect) bool {
	d1, cd1, err := dumpBlock(dir)
	if err != nil {
		c.Violatef("block-query-error", "%s: reading an intact block failed: %v", what, err)
		return false
	}
	if diff := tsdbx.Compare(e, d1, math.MinInt64, math.MaxInt64); diff != "" {
		c.Violatef("block-query-mismatch", "%s: querier vs written samples: %s", what, diff)
		return false
	}
	if diff := tsdbx.Compare(e, cd1, math.MinInt64, math.MaxInt64); diff != "" {
		c.Violatef("block-query-mismatch", "%s: chunk querier vs written samples: %s", what, diff)
		return false
	}
	d2, cd2, err := dumpBlock(dir)
	if err != nil {
		c.Violatef("block-query-error", "%s: second open failed: %v", what, err)
		return false
	}
	if diff := tsdbx.EqualDumps(d1, d2); diff != "" {
		c.Violatef("block-reopen-mismatch", "%s: first vs second open: %s", what, diff)
		return false
	}
	if diff := tsdbx.EqualDumps(cd1, cd2); diff != "" {
		c.Violatef("block-reopen-mismatch", "%s: chunk querier, first vs second open: %s", what, diff)
		return false
	}
	c.Count("samples_compared", int64(e.NumSamples()))
	return true
}

// ---------------------------------------------------------------- damage

type memBS []byte

func (b memBS) Len() int                    { return len(b) }
func (b memBS) Range(start, end int) []byte { return b[start:end] }

type target struct {
	file   string // absolute path
	isIdx  bool
	off    int // start of the record / entry in the file
	length int // total length incl. length field and CRC
	lenLen int // size of the length field
	sref   storage.SeriesRef
	cref   chunks.ChunkRef
	desc   string
}

func (t target) region(rel int) string {
	switch {
	case rel < t.lenLen:
		return "length"
	case rel >= t.length-4:
		return "crc"
	case !t.isIdx && rel == t.lenLen:
		return "encoding"
	default:
		return "body"
	}
}

func chunkFiles(dir string) []string {
	ents, err := os.ReadDir(filepath.Join(dir, "chunks"))
	core.Must(err, "read chunks dir")
	var out []string
	for _, e := range ents {
		out = append(out, filepath.Join(dir, "chunks", e.Name()))
	}
	sort.Strings(out)
	return out
}

// collectTargets parses the intact files: every series entry (via all-postings) and every chunk
// record referenced by them.
func collectTargets(dir string) ([]target, error) {
	idxPath := filepath.Join(dir, "index")
	raw, err := os.ReadFile(idxPath)
	if err != nil {
		return nil, err
	}
	ir, err := index.NewReader(memBS(raw), index.DecodePostingsRaw)
	if err != nil {
		return nil, err
	}
	defer ir.Close()
	k, v := index.AllPostingsKey()
	p, err := ir.Postings(context.Background(), k, v)
	if err != nil {
		return nil, err
	}
	refs, err := index.ExpandPostings(p)
	if err != nil {
		return nil, err
	}
	files := chunkFiles(dir)
	segs := make([][]byte, len(files))
	for i, f := range files {
		segs[i], err = os.ReadFile(f)
		if err != nil {
			return nil, err
		}
	}
	var out []target
	var builder labels.ScratchBuilder
	var chks []chunks.Meta
	for _, ref := range refs {
		off := int(ref) * 16
		l, n := binary.Uvarint(raw[off:])
		if n <= 0 || off+n+int(l)+4 > len(raw) {
			return nil, fmt.Errorf("cannot parse series entry at %d", off)
		}
		if err := ir.Series(ref, &builder, &chks); err != nil {
			return nil, err
		}
		out = append(out, target{file: idxPath, isIdx: true, off: off, length: n + int(l) + 4, lenLen: n, sref: ref, desc: "series entry " + builder.Labels().String()})
		for _, m := range chks {
			si, co := chunks.BlockChunkRef(m.Ref).Unpack()
			if si >= len(segs) {
				return nil, fmt.Errorf("chunk ref %d points to segment %d of %d", m.Ref, si, len(segs))
			}
			l, n := binary.Uvarint(segs[si][co:])
			if n <= 0 || co+n+1+int(l)+4 > len(segs[si]) {
				return nil, fmt.Errorf("cannot parse chunk record at %d/%d", si, co)
			}
			out = append(out, target{file: files[si], off: co, length: n + 1 + int(l) + 4, lenLen: n, cref: m.Ref, sref: ref, desc: fmt.Sprintf("chunk record seg %d off %d of %s", si, co, builder.Labels().String())})
		}
	}
	return out, nil
}

type damager struct {
	c       *core.Case
	r       *rand.Rand
	dir     string
	idxRaw  []byte
	evals   int
	scratch string
	curSrc  string
	fd      *os.File
}

func pokeFile(path string, off int64, val byte) byte {
	f, err := os.OpenFile(path, os.O_RDWR, 0)
	core.Must(err, "open for damage")
	defer f.Close()
	var old [1]byte
	_, err = f.ReadAt(old[:], off)
	core.Must(err, "read byte")
	_, err = f.WriteAt([]byte{val}, off)
	core.Must(err, "write byte")
	return old[0]
}

// one alters byte rel of target t to old^mask and checks that reading the item fails.
func (d *damager) one(t target, rel int, mask byte, blockLevel bool) bool {
	d.evals++
	d.c.Count("damage_positions_evaluated", 1)
	d.c.Seen("damage_region", map[bool]string{true: "series-entry/", false: "chunk-record/"}[t.isIdx]+t.region(rel))
	pos := t.off + rel
	if t.isIdx {
		cp := append([]byte(nil), d.idxRaw...)
		cp[pos] ^= mask
		ir, err := index.NewReader(memBS(cp), index.DecodePostingsRaw)
		if err == nil {
			var builder labels.ScratchBuilder
			var chks []chunks.Meta
			serr := ir.Series(t.sref, &builder, &chks)
			ir.Close()
			if serr == nil {
				d.c.Violatef("series-entry-damage-undetected", "%s: byte %d of %d (%s field) changed %#02x -> %#02x; Series(%d) returned labels %s and %d chunk metas without error", t.desc, rel, t.length, t.region(rel), d.idxRaw[pos], cp[pos], t.sref, builder.Labels(), len(chks))
				return false
			}
			d.c.Count("damage_detected_on_read", 1)
		} else {
			d.c.Count("damage_detected_on_open", 1)
		}
		if !blockLevel {
			return true
		}
	}
	if !t.isIdx {
		// the chunk reader addresses a record by (segment file, offset): read the damaged copy of
		// that one segment file through a fresh chunks.Reader
		fd, oldb := d.segCopy(t), []byte{0}
		_, err := fd.ReadAt(oldb, int64(pos))
		core.Must(err, "read scratch segment")
		_, err = fd.WriteAt([]byte{oldb[0] ^ mask}, int64(pos))
		core.Must(err, "damage scratch segment")
		cr, err := chunks.NewDirReader(d.scratch, nil)
		if err == nil {
			chk, _, rerr := cr.ChunkOrIterable(chunks.Meta{Ref: chunks.ChunkRef(chunks.NewBlockChunkRef(0, uint64(t.off)))})
			if rerr == nil {
				n := -1
				if chk != nil {
					n = chk.NumSamples()
				}
				cr.Close()
				d.c.Violatef("chunk-damage-undetected", "%s: byte %d of %d (%s field) changed %#02x -> %#02x; ChunkOrIterable returned a chunk (%d samples) without error", t.desc, rel, t.length, t.region(rel), oldb[0], oldb[0]^mask, n)
				return false
			}
			cr.Close()
			d.c.Count("damage_detected_on_read", 1)
		} else {
			d.c.Count("damage_detected_on_open", 1)
		}
		_, err = fd.WriteAt(oldb, int64(pos))
		core.Must(err, "restore scratch segment")
	}
	if blockLevel {
		old := pokeFile(t.file, int64(pos), 0)
		pokeFile(t.file, int64(pos), old^mask)
		defer pokeFile(t.file, int64(pos), old)
		d.c.Count("damage_block_level_checks", 1)
		if _, _, err := dumpBlock(d.dir); err == nil {
			d.c.Violatef("block-damage-undetected", "%s: byte %d of %d (%s field) changed %#02x -> %#02x; OpenBlock + full-range querier and chunk querier returned data without any error", t.desc, rel, t.length, t.region(rel), old, old^mask)
			return false
		}
	}
	return true
}

// segCopy keeps a scratch chunks directory holding a copy of exactly one segment file.
func (d *damager) segCopy(t target) *os.File {
	if d.curSrc == t.file && d.fd != nil {
		return d.fd
	}
	if d.fd != nil {
		d.fd.Close()
	}
	if d.scratch == "" {
		d.scratch = filepath.Join(d.c.TempDir(), "chunks")
		core.Must(os.MkdirAll(d.scratch, 0o777), "mkdir scratch")
	}
	b, err := os.ReadFile(t.file)
	core.Must(err, "read segment")
	dst := filepath.Join(d.scratch, "000001")
	core.Must(os.WriteFile(dst, b, 0o666), "copy segment")
	d.fd, err = os.OpenFile(dst, os.O_RDWR, 0)
	core.Must(err, "open scratch segment")
	d.curSrc = t.file
	return d.fd
}

func (d *damager) close() {
	if d.fd != nil {
		d.fd.Close()
		d.fd = nil
	}
}

func (d *damager) run(targets []target, exhaustive bool, nSample int) bool {
	if len(targets) == 0 {
		return true
	}
	r := d.r
	if exhaustive {
		d.c.Count("blocks_enumerated_exhaustively", 1)
		for _, t := range targets {
			for rel := 0; rel < t.length; rel++ {
				if !d.one(t, rel, 1<<uint(r.IntN(8)), false) {
					return false
				}
				if !d.one(t, rel, byte(1+r.IntN(255)), r.IntN(400) == 0) {
					return false
				}
			}
		}
		return true
	}
	for i := 0; i < nSample; i++ {
		t := targets[r.IntN(len(targets))]
		rel := r.IntN(t.length)
		switch r.IntN(4) {
		case 0:
			rel = r.IntN(t.lenLen) // length field
		case 1:
			rel = t.length - 1 - r.IntN(4) // crc
		}
		mask := byte(1 + r.IntN(255))
		if r.IntN(2) == 0 {
			mask = 1 << uint(r.IntN(8))
		}
		if !d.one(t, rel, mask, i%6 == 0) {
			return false
		}
	}
	return true
}

// ---------------------------------------------------------------- head-based writer input

type smp struct {
	t  int64
	f  float64
	h  *histogram.Histogram
	fh *histogram.FloatHistogram
}

func (s smp) T() int64                      { return s.t }
func (s smp) ST() int64                     { return 0 }
func (s smp) F() float64                    { return s.f }
func (s smp) H() *histogram.Histogram       { return s.h }
func (s smp) FH() *histogram.FloatHistogram { return s.fh }
func (s smp) Type() chunkenc.ValueType {
	switch {
	case s.h != nil:
		return chunkenc.ValHistogram
	case s.fh != nil:
		return chunkenc.ValFloatHistogram
	}
	return chunkenc.ValFloat
}
func (s smp) Copy() chunks.Sample {
	c := smp{t: s.t, f: s.f}
	if s.h != nil {
		c.h = s.h.Copy()
	}
	if s.fh != nil {
		c.fh = s.fh.Copy()
	}
	return c
}

func (b *wblock) storageSeries() []storage.Series {
	var out []storage.Series
	for _, s := range b.series {
		var ss []chunks.Sample
		for _, c := range s.chunks {
			for _, x := range c.samples {
				ss = append(ss, smp{t: x.T, f: x.F, h: x.H, fh: x.FH})
			}
		}
		out = append(out, storage.NewListSeries(s.lset, ss))
	}
	return out
}

// ---------------------------------------------------------------- the case

func run(c *core.Case) {
	r := c.Rng
	parent := c.TempDir()
	flavour := "raw"
	switch x := c.Idx % 8; {
	case x == 3 || x == 7:
		flavour = "compact"
	case x == 5:
		flavour = "blockwriter"
	}
	small := c.Idx%8 == 0 && flavour == "raw"
	sp := blockSpec{base: gen.Pick(r, []int64{0, 1_700_000_000_000, -5_000_000, 1000}), kinds: []int{0, 0, 1, 2, 3}, maxChunks: 8, allowNone: true}
	switch {
	case small:
		sp.nSeries = 1 + r.IntN(3)
		sp.maxChunks = 2
		sp.smallChunks = true
	case r.IntN(10) == 0:
		sp.nSeries = 150 + r.IntN(250)
		sp.maxChunks = 2
	default:
		sp.nSeries = 4 + r.IntN(50)
	}
	sp.segSize = gen.Pick(r, []int64{0, 300, 700, 2000, 8000, 40000})
	exhaustiveTier := c.Tier == core.Thorough && c.Idx < 50

	var dir string
	var e tsdbx.Expect
	var key string
	switch flavour {
	case "raw":
		b := genModel(r, sp, genLabelSets(r, sp.nSeries))
		if !writeRaw(c, r, parent, b) {
			return
		}
		if _, ok := checkRawIndex(c, b); !ok {
			return
		}
		if !checkRawChunks(c, b) {
			return
		}
		dir, e, key = b.dir, b.expect(), "raw|"+b.key()
		c.Count("series_written", int64(len(b.series)))
		c.Count("chunk_segment_files", int64(len(chunkFiles(dir))))
		if c.Idx < 3 {
			nch := 0
			for _, s := range b.series {
				nch += len(s.chunks)
			}
			var first []string
			for i := 0; i < len(b.series) && i < 3; i++ {
				first = append(first, b.series[i].lset.String())
			}
			c.Sample(map[string]any{"flavour": flavour, "series": len(b.series), "chunks": nch, "segment_size": sp.segSize, "segment_files": len(chunkFiles(dir)), "symbols": len(b.symbols()), "first_series": first})
		}
	case "compact":
		lsets := genLabelSets(r, sp.nSeries)
		// two blocks with overlapping series sets and disjoint time ranges
		pick := func() []labels.Labels {
			var out []labels.Labels
			for _, ls := range lsets {
				if r.IntN(3) != 0 {
					out = append(out, ls)
				}
			}
			if len(out) == 0 {
				out = lsets[:1]
			}
			return out
		}
		sp.allowNone = false
		a := genModel(r, sp, pick())
		spB := sp
		spB.base = a.maxt + 1 + r.Int64N(1000)
		spB.segSize = gen.Pick(r, []int64{0, 500, 5000})
		bb := genModel(r, spB, pick())
		if !writeRaw(c, r, parent, a) || !writeRaw(c, r, parent, bb) {
			return
		}
		comp, err := tsdb.NewLeveledCompactor(context.Background(), nil, tsdbx.NopLogger(), []int64{1 << 40}, chunkenc.NewPool(), nil)
		core.Must(err, "NewLeveledCompactor")
		ids, err := comp.Compact(parent, []string{a.dir, bb.dir}, nil)
		if err != nil {
			c.Violatef("writer-error", "LeveledCompactor.Compact of two intact raw blocks failed: %v", err)
			return
		}
		if len(ids) != 1 {
			c.Violatef("writer-error", "LeveledCompactor.Compact returned %d blocks for non-empty input", len(ids))
			return
		}
		dir = filepath.Join(parent, ids[0].String())
		e = a.expect()
		for k, m := range bb.expect() {
			for t, vs := range m {
				for v := range vs {
					e.Add(k, t, v)
				}
			}
		}
		key = "compact|" + a.key() + "|" + bb.key()
		c.Count("series_written", int64(len(e)))
	case "blockwriter":
		sp.kinds = []int{0, 0, 2, 3}
		sp.perSeries = true
		sp.allowNone = false
		sp.nSeries = min(sp.nSeries, 60)
		b := genModel(r, sp, genLabelSets(r, sp.nSeries))
		span := b.maxt - b.mint + 1
		chunkRange := gen.Pick(r, []int64{2*span + 2, 10*span + 10, 1 << 40})
		d, err := tsdb.CreateBlock(b.storageSeries(), parent, chunkRange, tsdbx.NopLogger())
		if err != nil {
			// the head may refuse inputs for reasons outside this property; not a verdict
			c.Count("blockwriter_refused_input", 1)
			c.Seen("blockwriter_error", clip(err.Error(), 80))
			return
		}
		dir, e, key = d, b.expect(), "bw|"+b.key()
		c.Count("series_written", int64(len(b.series)))
	}
	c.Seen("writer_flavour", flavour)
	if !checkBlockQueries(c, flavour+" block", dir, e) {
		return
	}
	targets, err := collectTargets(dir)
	if err != nil {
		c.Violatef("index-roundtrip", "%s block: walking the intact index/chunk files failed: %v", flavour, err)
		return
	}
	raw, err := os.ReadFile(filepath.Join(dir, "index"))
	core.Must(err, "read index")
	d := &damager{c: c, r: r, dir: dir, idxRaw: raw}
	defer d.close()
	total := 0
	for _, t := range targets {
		total += t.length
	}
	exhaustive := (small && total <= 1500) || (exhaustiveTier && total <= 6000)
	nSample := 18
	if c.Tier == core.Thorough {
		nSample = 40
	}
	if !d.run(targets, exhaustive, nSample) {
		return
	}
	// the files must be intact again: same dump as before
	if d.evals > 0 && r.IntN(4) == 0 {
		if !checkBlockQueries(c, flavour+" block after restoring the damaged bytes", dir, e) {
			return
		}
	}
	c.Count("blocks", 1)
	c.Count("damage_target_bytes_in_block", int64(total))
	if len(targets) >= 2 && d.evals >= 10 {
		c.Nontrivial(key)
	}
}

func clip(s string, n int) string {
	if len(s) > n {
		return s[:n]
	}
	return s
}
