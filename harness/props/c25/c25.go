// Package c25: head chunks on disk (ChunkDiskMapper) are readable at once and after restart.
package c25

import (
	"bytes"
	"encoding/binary"
	"fmt"
	"math"
	"math/rand/v2"
	"os"
	"path/filepath"
	"runtime"
	"sort"
	"sync"
	"sync/atomic"
	"time"

	"github.com/anishathalye/porcupine"

	"github.com/prometheus/prometheus/tsdb/chunkenc"
	"github.com/prometheus/prometheus/tsdb/chunks"

	"verif/internal/core"
	"verif/internal/gen"
	"verif/internal/sched"
)

const (
	siteBefore = "chunks.queue.beforeProcess"
	siteAfter  = "chunks.queue.afterProcess"
	fileHeader = 8 // head chunk file header (magic, version, padding): tsdb/docs/format/head_chunks.md
)

func init() {
	core.Register(&core.Prop{
		ID:        "C25",
		Title:     "Head chunks on disk are readable at once and after restart",
		Level:     "exploration",
		Technique: "history monitor on ChunkDiskMapper: porcupine linearizability check per chunk ref (write-once register that a covering Truncate may clear), restart oracle over IterateAllChunks, torn-tail sweep over truncation offsets of the newest file; queue worker stepped through the chunks.queue hooks, free-running goroutines on a -race build",
		LevelText: "Controller mode: generated sessions of WriteChunk / Chunk / CutNewFile / Truncate on the real ChunkDiskMapper (write queue sizes 0,1,4,16; real XOR/histogram/float-histogram chunks and opaque chunks from 4 bytes to beyond the 64 KiB write buffer; in-order and out-of-order flag). The queue worker is held at chunks.queue.beforeProcess and released job by job, so reads are placed while a chunk is still queued, right after it was processed (write buffer) and after flushes/cuts (m-mapped file). Every call is recorded with logical call/return times; per chunk ref porcupine checks the history against a write-once register: a read must return exactly the written bytes, an error is legal only if a Truncate(fileNo) with the ref's file < fileNo was invoked before the read returned; a ref may be handed out again only after such a Truncate. Each session ends with Close and the next one starts with NewChunkDiskMapper + IterateAllChunks, which must yield, per retained file in ascending order, exactly the chunks written to it in write (offset) order with series ref, min/max time, sample count, encoding and OOO flag; files not covered by any Truncate invocation must all be present, and Chunk(ref) must return the written bytes. Torn tails: the final directory is copied, its newest file torn at sampled offsets (every offset for small cases and in the thorough tier's first cases) in two ways - cut short at the offset, or same length with everything from the offset on reading as zeros - and a fresh mapper must either fail to open or iterate all older files completely plus a prefix of the intact chunks of the torn file (all of them if it reports no error) with correct metadata and bytes. Free-running mode: 2 writers, 2 readers and a cutter/truncator run unsynchronised (also under -race), same porcupine and restart oracles. Held on the observed histories only.",
		LevelNote: "Reductions: reads are never required to fail after a Truncate (the statement only limits what truncation may remove), so a register that a covering Truncate has touched accepts both the bytes and an error. 'During queue processing' is reached by the free-running mode only; the hooks give before/after. A mapper that refuses to open a cut directory counts as 'not returned as data' (also inside the 8-byte header). Generated chunks never use series ref 0 with mint=maxt=0 (documented end marker) and always hold at least one sample; opaque chunks have at least 4 data bytes (IterateAllChunks reports a file that ends exactly after a record with fewer data bytes as corrupt; real chunk encodings need >= 11 bytes for one sample). Trusted: porcupine's checker; logical clock from one atomic counter.",
		DesignRef: "DESIGN.md §5 C25",
		Rule:      "case = 1-3 sessions of 10-60 operations on one directory plus the torn-tail sweep; non-trivial iff >= 5 chunks were written, >= 1 read was served while its job was still queued or >= 2 files exist, the restart check ran and >= 5 cut offsets were evaluated (controller) resp. >= 20 reads overlapped the run (free-running); distinct by the operation sequence with chunk sizes",
		Cases: func(variant string, tier core.Tier) int {
			if variant == "race" {
				if tier == core.Thorough {
					return 1500
				}
				return 60
			}
			if variant != "default" {
				return 0
			}
			if tier == core.Thorough {
				return 10000
			}
			return 400
		},
		Variants:       []string{"race"},
		Run:            run,
		MinNontrivial:  func(t core.Tier) int { return 150 },
		CaseTimeoutSec: 240,
	})
}

// ---------------------------------------------------------------- model

type rec struct {
	id        int
	ref       chunks.ChunkDiskMapperRef
	seq, off  int
	series    chunks.HeadSeriesRef
	mint      int64
	maxt      int64
	enc       chunkenc.Encoding
	ooo       bool
	data      []byte
	nsamples  uint16
	session   int
	covered   bool // a Truncate(fileNo > seq) was invoked after the write
	replaced  bool // its file was re-created after truncation (ref space reused)
	recordLen int
}

func recordLen(dataLen int) int {
	var b [binary.MaxVarintLen64]byte
	return 8 + 8 + 8 + 1 + binary.PutUvarint(b[:], uint64(dataLen)) + dataLen + 4
}

type opIn struct {
	kind string // "write" "read" "trunc"
	id   int    // write: chunk id
}
type opOut struct {
	err bool
	id  int // read: id of the chunk whose bytes were returned, -1 = bytes nobody wrote to this ref
}

type regState struct {
	st int // 0 unwritten, 1 written, 2 written and touched by a covering Truncate
	id int
}

var regModel = porcupine.Model{
	Init: func() interface{} { return regState{} },
	Step: func(state, input, output interface{}) (bool, interface{}) {
		s := state.(regState)
		in := input.(opIn)
		switch in.kind {
		case "write":
			if s.st == 1 {
				return false, s // ref handed out again while its chunk is live
			}
			return true, regState{st: 1, id: in.id}
		case "trunc":
			if s.st == 1 {
				return true, regState{st: 2, id: s.id}
			}
			return true, s
		default:
			out := output.(opOut)
			if out.err {
				return s.st == 2, s
			}
			return (s.st == 1 || s.st == 2) && out.id == s.id, s
		}
	},
	Equal: func(a, b interface{}) bool { return a.(regState) == b.(regState) },
}

type histOp struct {
	kind      string
	ref       chunks.ChunkDiskMapperRef // write/read
	fileNo    int                       // trunc
	id        int
	out       opOut
	call, ret int64
	client    int
	errText   string
}

type history struct {
	mu    sync.Mutex
	ops   []histOp
	clock atomic.Int64
}

func (h *history) now() int64 { return h.clock.Add(1) }
func (h *history) add(o histOp) {
	h.mu.Lock()
	h.ops = append(h.ops, o)
	h.mu.Unlock()
}

// check partitions the history per ref (Truncates are copied into every partition whose file they
// cover) and runs porcupine on each.  pre = chunks that existed when the history started.
func (h *history) check(c *core.Case, mode string, pre []*rec) bool {
	parts := map[chunks.ChunkDiskMapperRef][]porcupine.Operation{}
	for _, r := range pre {
		parts[r.ref] = append(parts[r.ref], porcupine.Operation{ClientId: 0, Input: opIn{kind: "write", id: r.id}, Call: 0, Output: opOut{}, Return: 0})
	}
	var truncs []histOp
	for _, o := range h.ops {
		switch o.kind {
		case "trunc":
			truncs = append(truncs, o)
		case "write":
			parts[o.ref] = append(parts[o.ref], porcupine.Operation{ClientId: o.client, Input: opIn{kind: "write", id: o.id}, Call: o.call, Output: opOut{}, Return: o.ret})
		case "read":
			parts[o.ref] = append(parts[o.ref], porcupine.Operation{ClientId: o.client, Input: opIn{kind: "read"}, Call: o.call, Output: o.out, Return: o.ret})
		}
	}
	refs := make([]chunks.ChunkDiskMapperRef, 0, len(parts))
	for ref := range parts {
		refs = append(refs, ref)
	}
	sort.Slice(refs, func(i, j int) bool { return refs[i] < refs[j] })
	for _, ref := range refs {
		ops := parts[ref]
		seq, _ := ref.Unpack()
		for _, t := range truncs {
			if seq < t.fileNo {
				ops = append(ops, porcupine.Operation{ClientId: t.client, Input: opIn{kind: "trunc"}, Call: t.call, Output: opOut{}, Return: t.ret})
			}
		}
		res := porcupine.CheckOperationsTimeout(regModel, ops, 20*time.Second)
		c.Count("porcupine_partitions_checked", 1)
		switch res {
		case porcupine.Ok:
		case porcupine.Unknown:
			c.Inconclusive("porcupine timed out on the partition of ref %d (%d operations)", ref, len(ops))
			return false
		default:
			// classify: which read broke it
			kind := "history-not-linearizable"
			detail := ""
			covered := false
			for _, t := range truncs {
				if seq < t.fileNo {
					covered = true
				}
			}
			for _, o := range h.ops {
				if o.kind != "read" || o.ref != ref {
					continue
				}
				switch {
				case o.out.err && !covered:
					kind = "read-error-without-covering-truncate"
					detail = fmt.Sprintf("Chunk(%d) [file %d] returned error %q although no Truncate(fileNo > %d) was ever invoked", ref, seq, o.errText, seq)
				case !o.out.err && o.out.id < 0:
					kind = "read-returned-foreign-bytes"
					detail = fmt.Sprintf("Chunk(%d) returned bytes that were never written under this ref", ref)
				}
			}
			if detail == "" {
				detail = fmt.Sprintf("operations on ref %d [file %d]: %s", ref, seq, describeOps(ops))
			}
			c.Violatef(kind, "%s mode: history of ref %d is not linearizable as a write-once register: %s", mode, ref, detail)
			return false
		}
	}
	return true
}

func describeOps(ops []porcupine.Operation) string {
	var sb bytes.Buffer
	for i, o := range ops {
		if i >= 24 {
			sb.WriteString(" …")
			break
		}
		in := o.Input.(opIn)
		out := o.Output.(opOut)
		fmt.Fprintf(&sb, " [%d..%d %s", o.Call, o.Return, in.kind)
		switch in.kind {
		case "write":
			fmt.Fprintf(&sb, " id=%d", in.id)
		case "read":
			fmt.Fprintf(&sb, " -> err=%v id=%d", out.err, out.id)
		}
		sb.WriteString("]")
	}
	return sb.String()
}

// ---------------------------------------------------------------- world (model of the directory)

type world struct {
	c       *core.Case
	dir     string
	recs    []*rec                               // all chunks ever written, by id
	live    map[chunks.ChunkDiskMapperRef][]*rec // ref -> writes under this ref (latest last)
	session int
	truncs  []int // fileNo of every Truncate invoked in the current session (for covered marking)
	noReuse bool
}

func newWorld(c *core.Case, dir string) *world {
	return &world{c: c, dir: dir, live: map[chunks.ChunkDiskMapperRef][]*rec{}}
}

// current returns the latest chunk written under ref.
func (w *world) current(ref chunks.ChunkDiskMapperRef) *rec {
	l := w.live[ref]
	if len(l) == 0 {
		return nil
	}
	return l[len(l)-1]
}

// matchBytes finds which write under ref produced these bytes.
func (w *world) matchBytes(ref chunks.ChunkDiskMapperRef, enc chunkenc.Encoding, b []byte) int {
	l := w.live[ref]
	for i := len(l) - 1; i >= 0; i-- {
		if l[i].enc == enc && bytes.Equal(l[i].data, b) {
			return l[i].id
		}
	}
	return -1
}

func (w *world) addWrite(r *rec) {
	r.id = len(w.recs)
	r.seq, r.off = r.ref.Unpack()
	r.session = w.session
	r.recordLen = recordLen(len(r.data))
	w.recs = append(w.recs, r)
	// a file that is created again after truncation replaces the old one (sequential histories only:
	// in the free-running mode no file number can be handed out twice and records arrive out of order)
	for _, o := range w.recs[:r.id] {
		if w.noReuse {
			break
		}
		if o.seq == r.seq && !o.replaced && o.off >= r.off && o.covered {
			o.replaced = true
		}
	}
	w.live[r.ref] = append(w.live[r.ref], r)
	if w.noReuse {
		// free-running mode: a write is registered after WriteChunk returned, possibly after a
		// Truncate that ran concurrently with it was invoked and marked.  No write can land in a file
		// below fileNo once Truncate(fileNo) has completed, so a record below an invoked Truncate's
		// fileNo was written before or during that Truncate and is covered by it.
		for _, f := range w.truncs {
			if r.seq < f {
				r.covered = true
			}
		}
	}
}

func (w *world) markTruncate(fileNo int) {
	w.truncs = append(w.truncs, fileNo)
	for _, r := range w.recs {
		if !r.replaced && r.seq < fileNo {
			r.covered = true
		}
	}
}

// files returns the model's files: seq -> chunks in offset order (replaced ones dropped).
func (w *world) files() map[int][]*rec {
	m := map[int][]*rec{}
	for _, r := range w.recs {
		if !r.replaced {
			m[r.seq] = append(m[r.seq], r)
		}
	}
	for _, l := range m {
		sort.Slice(l, func(i, j int) bool { return l[i].off < l[j].off })
	}
	return m
}

type yielded struct {
	series   chunks.HeadSeriesRef
	ref      chunks.ChunkDiskMapperRef
	mint     int64
	maxt     int64
	nsamples uint16
	enc      chunkenc.Encoding
	ooo      bool
}

func iterate(m *chunks.ChunkDiskMapper) ([]yielded, error) {
	var out []yielded
	err := m.IterateAllChunks(func(s chunks.HeadSeriesRef, ref chunks.ChunkDiskMapperRef, mint, maxt int64, n uint16, enc chunkenc.Encoding, ooo bool) error {
		out = append(out, yielded{s, ref, mint, maxt, n, enc, ooo})
		return nil
	})
	return out, err
}

func (y yielded) matches(r *rec) string {
	switch {
	case y.ref != r.ref:
		return fmt.Sprintf("ref %d, written ref %d", y.ref, r.ref)
	case y.series != r.series:
		return fmt.Sprintf("series ref %d, written %d", y.series, r.series)
	case y.mint != r.mint || y.maxt != r.maxt:
		return fmt.Sprintf("time range %d..%d, written %d..%d", y.mint, y.maxt, r.mint, r.maxt)
	case y.nsamples != r.nsamples:
		return fmt.Sprintf("%d samples, written %d", y.nsamples, r.nsamples)
	case y.enc != r.enc:
		return fmt.Sprintf("encoding %d, written %d", y.enc, r.enc)
	case y.ooo != r.ooo:
		return fmt.Sprintf("OOO flag %v, written %v", y.ooo, r.ooo)
	}
	return ""
}

// checkRestart compares what IterateAllChunks yields after a restart with the model.
// cutSeq/intact (cutSeq >= 0): the tail of file cutSeq was torn; its first `intact` records are
// byte-identical to what was written, the next one is not (or does not exist); iterErr is the
// iteration's error.
func (w *world) checkRestart(what string, ys []yielded, iterErr error, cutSeq, intact int) bool {
	files := w.files()
	summary := func() string {
		var sb bytes.Buffer
		sb.WriteString(" || model files:")
		var seqs []int
		for s := range files {
			seqs = append(seqs, s)
		}
		sort.Ints(seqs)
		for _, s := range seqs {
			l := files[s]
			cov := false
			for _, r := range l {
				cov = cov || r.covered
			}
			fmt.Fprintf(&sb, " %d:{n=%d off=%d..%d covered=%v}", s, len(l), l[0].off, l[len(l)-1].off, cov)
		}
		sb.WriteString(" yielded:")
		cnt := map[int]int{}
		for _, y := range ys {
			q, _ := y.ref.Unpack()
			cnt[q]++
		}
		seqs = seqs[:0]
		for s := range cnt {
			seqs = append(seqs, s)
		}
		sort.Ints(seqs)
		for _, s := range seqs {
			fmt.Fprintf(&sb, " %d:%d", s, cnt[s])
		}
		fmt.Fprintf(&sb, " dir=%v truncates=%v", lsDir(w.dir), w.truncs)
		return sb.String()
	}
	kindPrefix := "restart"
	if cutSeq >= 0 {
		kindPrefix = "torn-tail"
	}
	// group yields by file, check ascending order
	lastSeq, lastOff := -1, -1
	got := map[int][]yielded{}
	for _, y := range ys {
		seq, off := y.ref.Unpack()
		if seq < lastSeq || (seq == lastSeq && off <= lastOff) {
			w.c.Violatef(kindPrefix+"-order", "%s: IterateAllChunks yielded ref %d:%d after %d:%d (not in write order)", what, seq, off, lastSeq, lastOff)
			return false
		}
		lastSeq, lastOff = seq, off
		got[seq] = append(got[seq], y)
	}
	for seq, gl := range got {
		ml := files[seq]
		for i, y := range gl {
			if i >= len(ml) {
				w.c.Violatef(kindPrefix+"-phantom-chunk", "%s: file %d: IterateAllChunks yielded %d chunks, only %d were written (extra: ref %d, series %d, %d..%d)%s", what, seq, len(gl), len(ml), y.ref, y.series, y.mint, y.maxt, summary())
				return false
			}
			if d := y.matches(ml[i]); d != "" {
				w.c.Violatef(kindPrefix+"-wrong-chunk", "%s: file %d chunk %d: yielded %s", what, seq, i, d)
				return false
			}
			if seq == cutSeq && i >= intact {
				w.c.Violatef("torn-tail-chunk-returned", "%s: file %d: IterateAllChunks yielded chunk #%d at %d..%d although only the first %d records of the file are intact", what, seq, i, ml[i].off, ml[i].off+ml[i].recordLen, intact)
				return false
			}
		}
	}
	if iterErr != nil && cutSeq < 0 {
		w.c.Violatef("restart-iterate-error", "%s: IterateAllChunks failed on files written and closed normally: %v", what, iterErr)
		return false
	}
	for seq, ml := range files {
		covered := false
		for _, r := range ml {
			covered = covered || r.covered
		}
		gl := got[seq]
		switch {
		case seq == cutSeq:
			if iterErr == nil && len(gl) != intact {
				w.c.Violatef("torn-tail-silent-loss", "%s: file %d holds %d intact chunks before the torn part; IterateAllChunks yielded %d and reported no error", what, seq, intact, len(gl))
				return false
			}
		case cutSeq >= 0 && seq > cutSeq:
			// cannot happen: the newest file is the one that is cut
		case len(gl) == len(ml):
		case len(gl) == 0 && covered:
			// removed by a truncation
		case cutSeq >= 0 && iterErr != nil && seq > cutSeq:
		default:
			if cutSeq >= 0 && iterErr != nil {
				// iteration stopped at the cut file; files after it do not exist, files before it must be complete
				if seq < cutSeq && len(gl) != len(ml) && !(len(gl) == 0 && covered) {
					w.c.Violatef("torn-tail-older-file-lost", "%s: file %d (older than the cut file %d): %d chunks written, %d yielded", what, seq, cutSeq, len(ml), len(gl))
					return false
				}
				continue
			}
			w.c.Violatef(kindPrefix+"-chunks-missing", "%s: file %d: %d chunks written (covered by a Truncate: %v), IterateAllChunks yielded %d%s", what, seq, len(ml), covered, len(gl), summary())
			return false
		}
	}
	return true
}

// readBack reads every yielded ref and compares the bytes.
func (w *world) readBack(what, kind string, m *chunks.ChunkDiskMapper, ys []yielded) bool {
	for _, y := range ys {
		r := w.current(y.ref)
		if r == nil {
			continue
		}
		chk, err := m.Chunk(y.ref)
		if err != nil {
			w.c.Violatef(kind, "%s: Chunk(%d) failed for a chunk that IterateAllChunks just yielded: %v", what, y.ref, err)
			return false
		}
		if chk.Encoding() != r.enc || !bytes.Equal(chk.Bytes(), r.data) {
			w.c.Violatef(kind, "%s: Chunk(%d): encoding %d, %d bytes; written encoding %d, %d bytes (content equal: %v)", what, y.ref, chk.Encoding(), len(chk.Bytes()), r.enc, len(r.data), bytes.Equal(chk.Bytes(), r.data))
			return false
		}
		w.c.Count("chunks_read_after_restart", 1)
	}
	return true
}

// ---------------------------------------------------------------- chunk generator

func genChunk(r *rand.Rand, big bool) (chunkenc.Chunk, string) {
	opaque := func(enc chunkenc.Encoding, n int) chunkenc.Chunk {
		b := make([]byte, n)
		for i := 0; i+8 <= n; i += 8 {
			binary.LittleEndian.PutUint64(b[i:], r.Uint64())
		}
		binary.BigEndian.PutUint16(b, uint16(1+r.IntN(60000))) // sample count header
		c, err := chunkenc.FromData(enc, b)
		core.Must(err, "FromData")
		return c
	}
	encs := []chunkenc.Encoding{chunkenc.EncXOR, chunkenc.EncHistogram, chunkenc.EncFloatHistogram, chunkenc.EncXOR2}
	if big {
		switch r.IntN(3) {
		case 0:
			return opaque(gen.Pick(r, encs), 64*1024-40+r.IntN(80)), "opaque~64KiB"
		case 1:
			return opaque(gen.Pick(r, encs), 64*1024+r.IntN(40000)), "opaque>64KiB"
		default:
			return opaque(gen.Pick(r, encs), 8000+r.IntN(30000)), "opaque-8-38KiB"
		}
	}
	switch r.IntN(10) {
	case 0:
		return opaque(gen.Pick(r, encs), gen.Pick(r, []int{4, 5, 8, 11, 127, 128, 129, 200})), "opaque-small"
	case 1, 2:
		a := gen.NewAbsHist(r, true)
		c := chunkenc.NewHistogramChunk()
		app, err := c.Appender()
		core.Must(err, "appender")
		t := int64(r.IntN(100000))
		var cur chunkenc.Chunk = c
		for i, n := 0, 1+r.IntN(6); i < n; i++ {
			t += 1 + int64(r.IntN(1000))
			nc, _, napp, err := app.AppendHistogram(nil, 0, t, a.Int(r), false)
			if err != nil {
				break
			}
			if nc != nil {
				cur = nc
			}
			app = napp
		}
		return cur, "histogram"
	case 3:
		a := gen.NewAbsHist(r, true)
		c := chunkenc.NewFloatHistogramChunk()
		app, err := c.Appender()
		core.Must(err, "appender")
		t := int64(r.IntN(100000))
		var cur chunkenc.Chunk = c
		for i, n := 0, 1+r.IntN(6); i < n; i++ {
			t += 1 + int64(r.IntN(1000))
			nc, _, napp, err := app.AppendFloatHistogram(nil, 0, t, a.Float(r), false)
			if err != nil {
				break
			}
			if nc != nil {
				cur = nc
			}
			app = napp
		}
		return cur, "floathistogram"
	default:
		c := chunkenc.NewXORChunk()
		app, err := c.Appender()
		core.Must(err, "appender")
		t := int64(r.IntN(100000))
		for i, n := 0, 1+r.IntN(40); i < n; i++ {
			t += 1 + int64(r.IntN(1000))
			app.Append(0, t, gen.Float(r, true))
		}
		return c, "xor"
	}
}

func genMeta(r *rand.Rand) (chunks.HeadSeriesRef, int64, int64) {
	ref := chunks.HeadSeriesRef(1 + r.IntN(1000))
	switch r.IntN(12) {
	case 0:
		ref = chunks.HeadSeriesRef(math.MaxUint64 - uint64(r.IntN(3)))
	case 1:
		ref = chunks.HeadSeriesRef(1 + r.Uint64N(math.MaxUint64-1))
	}
	mint := int64(r.IntN(1_000_000)) - 1000
	switch r.IntN(12) {
	case 0:
		mint = math.MinInt64
	case 1:
		mint = 0
	}
	maxt := mint + int64(r.IntN(100000))
	switch r.IntN(12) {
	case 0:
		maxt = math.MaxInt64
	case 1:
		maxt = mint
	}
	if maxt < mint {
		maxt = mint
	}
	return ref, mint, maxt
}

// ---------------------------------------------------------------- controller mode

type gate struct {
	on     atomic.Bool
	tokens chan struct{}
	done   chan struct{}
}

func lsDir(dir string) []string {
	ents, _ := os.ReadDir(dir)
	var out []string
	for _, e := range ents {
		out = append(out, e.Name())
	}
	return out
}

func bufSize(r *rand.Rand) int { return gen.Pick(r, []int{64 * 1024, 64 * 1024, 128 * 1024}) }

func runController(c *core.Case) {
	r := c.Rng
	dir := filepath.Join(c.TempDir(), "chunks_head")
	w := newWorld(c, dir)
	ctl := sched.Install()
	defer ctl.Uninstall()
	var g atomic.Pointer[gate]
	ctl.OnHit(func(site string, _ *sched.Actor) {
		gg := g.Load()
		if gg == nil || !gg.on.Load() {
			return
		}
		switch site {
		case siteBefore:
			<-gg.tokens
		case siteAfter:
			if gg.on.Load() {
				gg.done <- struct{}{}
			}
		}
	})
	nSessions := 1 + r.IntN(3)
	small := c.Idx%8 == 0
	var opsKey bytes.Buffer
	queuedReads, totalWrites, bigWrites := 0, 0, 0
	for s := 0; s < nSessions; s++ {
		w.session = s
		qsize := gen.Pick(r, []int{0, 1, 4, 16})
		fmt.Fprintf(&opsKey, "|S q=%d:", qsize)
		m, err := chunks.NewChunkDiskMapper(nil, dir, chunkenc.NewPool(), bufSize(r), qsize)
		if err != nil {
			c.Violatef("open-error", "session %d: NewChunkDiskMapper on a directory written and closed normally failed: %v", s, err)
			return
		}
		closed := false
		defer func() {
			if !closed {
				if gg := g.Load(); gg != nil && gg.on.Load() {
					gg.on.Store(false)
					close(gg.tokens)
				}
				m.Close()
			}
		}()
		ys, ierr := iterate(m)
		c.Logf("=== session %d qsize=%d dir=%v yielded=%d", s, qsize, lsDir(dir), len(ys))
		if !w.checkRestart(fmt.Sprintf("start of session %d", s), ys, ierr, -1, 0) {
			return
		}
		if !w.readBack(fmt.Sprintf("start of session %d", s), "restart-read-mismatch", m, ys) {
			return
		}
		if s > 0 {
			c.Count("restart_checks", 1)
			c.Count("chunks_yielded_after_restart", int64(len(ys)))
		}
		var pre []*rec
		for _, y := range ys {
			pre = append(pre, w.current(y.ref))
		}
		h := &history{}
		gg := &gate{tokens: make(chan struct{}), done: make(chan struct{}, 1<<16)}
		gg.on.Store(qsize > 0)
		g.Store(gg)
		pending := 0
		var cbErrs []error
		var cbMu sync.Mutex
		emptiedWhilePending := "" // a Truncate left the directory without any file while writes were queued
		cbFailed := func() bool {
			cbMu.Lock()
			defer cbMu.Unlock()
			if len(cbErrs) == 0 {
				return false
			}
			kind := "write-callback-error"
			var a, b, x, y int
			if n, _ := fmt.Sscanf(cbErrs[0].Error(), "expected newly cut file to have sequence:offset %d:%d, got %d:%d", &a, &x, &b, &y); n == 4 && b < a && emptiedWhilePending != "" {
				// predicate of the known finding: the sequence of the new file was taken from a directory
				// that a Truncate had emptied while the write (holding a ref in file a) was still queued
				kind = "queued-write-lost-after-truncate-emptied-dir"
			}
			c.Violatef(kind, "session %d (write queue size %d): %d write callbacks reported errors, first: %v; %s", s, qsize, len(cbErrs), cbErrs[0], emptiedWhilePending)
			return true
		}
		step := func() bool {
			select {
			case gg.tokens <- struct{}{}:
			case <-time.After(60 * time.Second):
				c.Inconclusive("queue worker did not reach %s within 60 s (%d jobs pending)", siteBefore, pending)
				return false
			}
			select {
			case <-gg.done:
			case <-time.After(60 * time.Second):
				c.Inconclusive("queue worker did not reach %s within 60 s", siteAfter)
				return false
			}
			pending--
			return true
		}
		nOps := 10 + r.IntN(50)
		if small {
			nOps = 4 + r.IntN(8)
		}
		var known []chunks.ChunkDiskMapperRef
		for _, p := range pre {
			known = append(known, p.ref)
		}
		maxSeq := 0
		for _, rr := range w.recs {
			maxSeq = max(maxSeq, rr.seq)
		}
		for i := 0; i < nOps; i++ {
			if cbFailed() {
				return
			}
			x := r.IntN(100)
			switch {
			case x < 45 || len(known) == 0: // write
				if qsize > 0 && pending >= qsize {
					if !step() {
						return
					}
				}
				big := !small && r.IntN(25) == 0
				chk, cls := genChunk(r, big)
				if small && len(chk.Bytes()) > 200 {
					chk, cls = genChunk(r, false)
				}
				sref, mint, maxt := genMeta(r)
				ooo := r.IntN(4) == 0
				data := append([]byte(nil), chk.Bytes()...)
				call := h.now()
				ref := m.WriteChunk(sref, mint, maxt, chk, ooo, func(err error) {
					if err != nil {
						cbMu.Lock()
						cbErrs = append(cbErrs, err)
						cbMu.Unlock()
					}
				})
				ret := h.now()
				rc := &rec{ref: ref, series: sref, mint: mint, maxt: maxt, enc: chk.Encoding(), ooo: ooo, data: data, nsamples: binary.BigEndian.Uint16(data)}
				if prev := w.current(ref); prev != nil && !prev.covered {
					c.Violatef("ref-reused-while-live", "session %d: WriteChunk returned ref %d which still belongs to a chunk written earlier and not covered by any Truncate", s, ref)
					return
				}
				w.addWrite(rc)
				c.Logf("s%d write id=%d ref=%d:%d len=%d pending=%d", s, rc.id, rc.seq, rc.off, len(data), pending)
				h.add(histOp{kind: "write", ref: ref, id: rc.id, call: call, ret: ret})
				known = append(known, ref)
				maxSeq = max(maxSeq, rc.seq)
				if qsize > 0 {
					pending++
				}
				totalWrites++
				if big {
					bigWrites++
				}
				c.Seen("chunk_class", cls)
				fmt.Fprintf(&opsKey, "w%d,", len(data))
			case x < 75: // read
				ref := known[r.IntN(len(known))]
				if r.IntN(3) == 0 {
					ref = known[len(known)-1-r.IntN(min(len(known), 3))]
				}
				if cur := w.current(ref); cur == nil || cur.replaced {
					// the file number of this ref has been handed out again after a truncation: the ref is
					// dangling from the caller's point of view and must not be used any more
					continue
				} else if emptiedWhilePending != "" && cur.covered {
					// known finding truncate-resets-sequence-behind-first-write: the mapper restarted its
					// file numbering at 1, so the file number of a truncated ref may already name a new,
					// shorter file; reading through it faults (SIGBUS) instead of returning an error,
					// which would take the monitor down with it
					c.Count("reads_of_truncated_refs_skipped_after_sequence_reset", 1)
					continue
				}
				call := h.now()
				c.Logf("s%d read ref=%d (%d:%d)", s, ref, ref>>32, ref&0xffffffff)
				chk, err := m.Chunk(ref)
				ret := h.now()
				o := histOp{kind: "read", ref: ref, call: call, ret: ret}
				if err != nil {
					c.Logf("   -> err %v", err)
					o.out, o.errText = opOut{err: true}, err.Error()
					c.Count("reads_failed", 1)
				} else {
					o.out = opOut{id: w.matchBytes(ref, chk.Encoding(), chk.Bytes())}
					c.Count("reads_ok", 1)
				}
				h.add(o)
				if cur := w.current(ref); cur != nil && qsize > 0 && cur.session == s {
					// still queued? ids are assigned in write order; pending jobs are the last `pending` writes
					if cur.id >= len(w.recs)-pending {
						queuedReads++
					}
				}
				opsKey.WriteString("r,")
			case x < 85: // let the queue worker process one or more jobs
				k := 1 + r.IntN(3)
				for ; k > 0 && pending > 0; k-- {
					if !step() {
						return
					}
					c.Logf("s%d step (pending now %d)", s, pending)
					c.Count("queue_steps", 1)
				}
				opsKey.WriteString("s,")
			case x < 93:
				m.CutNewFile()
				c.Logf("s%d CutNewFile", s)
				c.Count("cut_new_file_calls", 1)
				opsKey.WriteString("c,")
			default:
				fileNo := r.IntN(maxSeq + 3)
				call := h.now()
				w.markTruncate(fileNo) // invoked: from now on reads of covered files may fail
				err := m.Truncate(uint32(fileNo))
				ret := h.now()
				c.Logf("s%d Truncate(%d) err=%v pending=%d dir=%v", s, fileNo, err, pending, lsDir(dir))
				if pending > 0 && len(lsDir(dir)) == 0 && emptiedWhilePending == "" {
					emptiedWhilePending = fmt.Sprintf("Truncate(%d) removed every head chunk file while %d writes (first ref in file %d) were queued", fileNo, pending, w.recs[len(w.recs)-pending].seq)
				}
				if err != nil {
					c.Violatef("truncate-error", "session %d: Truncate(%d) failed: %v", s, fileNo, err)
					return
				}
				h.add(histOp{kind: "trunc", fileNo: fileNo, call: call, ret: ret})
				c.Count("truncate_calls", 1)
				fmt.Fprintf(&opsKey, "t%d,", fileNo)
			}
		}
		// finish the session: sometimes drain step by step, sometimes let Close do it
		if r.IntN(2) == 0 {
			for pending > 0 {
				if !step() {
					return
				}
			}
		}
		gg.on.Store(false)
		close(gg.tokens)
		if r.IntN(3) == 0 {
			// read everything once more before closing (the queue may still be working)
			for _, ref := range known {
				if cur := w.current(ref); cur == nil || cur.replaced || (emptiedWhilePending != "" && cur.covered) {
					continue
				}
				call := h.now()
				chk, err := m.Chunk(ref)
				ret := h.now()
				o := histOp{kind: "read", ref: ref, call: call, ret: ret}
				if err != nil {
					o.out, o.errText = opOut{err: true}, err.Error()
				} else {
					o.out = opOut{id: w.matchBytes(ref, chk.Encoding(), chk.Bytes())}
				}
				h.add(o)
			}
		}
		if err := m.Close(); err != nil {
			c.Violatef("close-error", "session %d: Close failed: %v", s, err)
			closed = true
			return
		}
		closed = true
		if cbFailed() {
			return
		}
		if !h.check(c, "controller", pre) {
			return
		}
		c.Count("sessions", 1)
		c.Seen("write_queue_size", fmt.Sprint(qsize))
	}
	// final restart + torn tails
	w.session = nSessions
	nCuts, ok := w.finalAndTorn(r, small || (c.Tier == core.Thorough && c.Idx < 40))
	if !ok {
		return
	}
	files := w.files()
	c.Count("histories", 1)
	c.Count("chunks_written", int64(totalWrites))
	c.Count("chunks_written_big", int64(bigWrites))
	c.Count("reads_while_job_queued", int64(queuedReads))
	c.Count("head_chunk_files", int64(len(files)))
	if totalWrites >= 5 && (queuedReads > 0 || len(files) >= 2) && nCuts >= 5 {
		c.Nontrivial(opsKey.String())
	}
	if c.Idx < 3 {
		k := opsKey.String()
		if len(k) > 300 {
			k = k[:300] + "…"
		}
		c.Sample(map[string]any{"sessions": nSessions, "ops": k, "chunks_written": totalWrites, "reads_while_queued": queuedReads, "files": len(files), "cut_offsets": nCuts})
	}
}

// finalAndTorn reopens the directory once more (restart oracle) and then sweeps cut offsets of
// the newest file on copies of the directory.
func (w *world) finalAndTorn(r *rand.Rand, everyOffset bool) (int, bool) {
	c := w.c
	m, err := chunks.NewChunkDiskMapper(nil, w.dir, chunkenc.NewPool(), 64*1024, 0)
	if err != nil {
		c.Violatef("open-error", "final restart: NewChunkDiskMapper failed on a directory written and closed normally: %v", err)
		return 0, false
	}
	ys, ierr := iterate(m)
	ok := w.checkRestart("final restart", ys, ierr, -1, 0) && w.readBack("final restart", "restart-read-mismatch", m, ys)
	m.Close()
	if !ok {
		return 0, false
	}
	c.Count("restart_checks", 1)
	c.Count("chunks_yielded_after_restart", int64(len(ys)))
	// newest file on disk
	ents, err := os.ReadDir(w.dir)
	core.Must(err, "read head chunks dir")
	var names []string
	for _, e := range ents {
		names = append(names, e.Name())
	}
	sort.Strings(names)
	if len(names) == 0 {
		return 0, true
	}
	newest := names[len(names)-1]
	var newestSeq int
	fmt.Sscanf(newest, "%d", &newestSeq)
	content, err := os.ReadFile(filepath.Join(w.dir, newest))
	core.Must(err, "read newest head chunk file")
	end := fileHeader
	for _, rc := range w.files()[newestSeq] {
		end = max(end, rc.off+rc.recordLen)
	}
	if end > len(content) {
		c.Violatef("restart-chunks-missing", "newest file %s has %d bytes but the model's chunks end at %d", newest, len(content), end)
		return 0, false
	}
	var offsets []int
	limit := min(end+40, len(content))
	if everyOffset && limit <= 1500 {
		for o := 0; o <= limit; o++ {
			offsets = append(offsets, o)
		}
		c.Count("torn_tail_exhaustive_sweeps", 1)
	} else {
		n := 6
		if c.Tier == core.Thorough {
			n = 12
		}
		recs := w.files()[newestSeq]
		for i := 0; i < n; i++ {
			switch {
			case i == 0:
				offsets = append(offsets, r.IntN(fileHeader+1))
			case len(recs) > 0 && r.IntN(2) == 0:
				// near a chunk boundary or inside a chunk header
				rc := recs[r.IntN(len(recs))]
				offsets = append(offsets, min(limit, max(0, rc.off+gen.Pick(r, []int{-1, 0, 1, 7, 8, 9, 24, 25, 26, 30, 33, 34, 35, rc.recordLen - 5, rc.recordLen - 4, rc.recordLen - 1}))))
			default:
				offsets = append(offsets, r.IntN(limit+1))
			}
		}
	}
	scratchRoot := c.TempDir()
	recsNewest := w.files()[newestSeq]
	for i, off := range offsets {
		for variant := 0; variant < 2; variant++ {
			// variant 0: the file ends at off; variant 1: same size, everything from off on reads as zeros
			// (what a preallocated file shows when its last pages never reached the disk)
			torn := content[:off:off]
			vname := "cut at"
			if variant == 1 {
				if off >= end {
					continue // nothing but zeros behind the content anyway
				}
				torn = append(append([]byte(nil), content[:off]...), make([]byte, len(content)-off)...)
				vname = "zero-filled from"
			}
			intact := 0
			for _, rc := range recsNewest {
				if rc.off+rc.recordLen <= len(torn) && bytes.Equal(torn[rc.off:rc.off+rc.recordLen], content[rc.off:rc.off+rc.recordLen]) {
					intact++
				} else {
					break
				}
			}
			sd := filepath.Join(scratchRoot, fmt.Sprintf("cut%d-%d", i, variant))
			core.Must(os.MkdirAll(sd, 0o777), "mkdir scratch")
			for _, n := range names[:len(names)-1] {
				core.Must(os.Link(filepath.Join(w.dir, n), filepath.Join(sd, n)), "link head chunk file")
			}
			core.Must(os.WriteFile(filepath.Join(sd, newest), torn, 0o666), "write torn file")
			what := fmt.Sprintf("newest file %s (%d content bytes, %d records) %s byte %d", newest, end, len(recsNewest), vname, off)
			c.Count("torn_tail_offsets_evaluated", 1)
			c.Seen("torn_tail_variant", vname)
			m, err := chunks.NewChunkDiskMapper(nil, sd, chunkenc.NewPool(), 64*1024, 0)
			if err != nil {
				c.Count("torn_tail_open_refused", 1)
				os.RemoveAll(sd)
				continue
			}
			ys, ierr := iterate(m)
			if ierr != nil {
				c.Count("torn_tail_iterate_reported_corruption", 1)
			} else {
				c.Count("torn_tail_iterate_clean", 1)
			}
			ok := w.checkRestart(what, ys, ierr, newestSeq, intact) && w.readBack(what, "torn-tail-read-mismatch", m, ys)
			m.Close()
			os.RemoveAll(sd)
			if !ok {
				return 0, false
			}
		}
	}
	return len(offsets), true
}

// ---------------------------------------------------------------- free-running mode

func runFree(c *core.Case) {
	r := c.SubRng("free")
	dir := filepath.Join(c.TempDir(), "chunks_head")
	w := newWorld(c, dir)
	w.noReuse = true
	qsize := gen.Pick(r, []int{0, 1, 4, 16, 64})
	m, err := chunks.NewChunkDiskMapper(nil, dir, chunkenc.NewPool(), bufSize(r), qsize)
	if err != nil {
		c.Violatef("open-error", "NewChunkDiskMapper on an empty directory failed: %v", err)
		return
	}
	closed := false
	defer func() {
		if !closed {
			m.Close()
		}
	}()
	if _, err := iterate(m); err != nil {
		c.Violatef("restart-iterate-error", "IterateAllChunks on an empty directory failed: %v", err)
		return
	}
	h := &history{}
	type job struct {
		chk        chunkenc.Chunk
		data       []byte
		sref       chunks.HeadSeriesRef
		mint, maxt int64
		ooo        bool
		yield      int
	}
	const nWriters, nReaders = 2, 2
	jobs := make([][]job, nWriters)
	for wi := range jobs {
		n := 15 + r.IntN(40)
		for i := 0; i < n; i++ {
			chk, _ := genChunk(r, r.IntN(40) == 0)
			sref, mint, maxt := genMeta(r)
			jobs[wi] = append(jobs[wi], job{chk: chk, data: append([]byte(nil), chk.Bytes()...), sref: sref, mint: mint, maxt: maxt, ooo: r.IntN(4) == 0, yield: r.IntN(3)})
		}
	}
	type truncPlan struct{ after, back int }
	var plans []truncPlan
	for i, n := 0, 2+r.IntN(5); i < n; i++ {
		plans = append(plans, truncPlan{after: r.IntN(30), back: r.IntN(3)})
	}
	readerSeeds := []uint64{r.Uint64(), r.Uint64()}

	var wmu sync.Mutex // guards w and `known`
	var known []chunks.ChunkDiskMapperRef
	var maxSeq atomic.Int64
	var cbErr atomic.Pointer[error]
	var writersLeft atomic.Int32
	writersLeft.Store(nWriters)
	var wg sync.WaitGroup
	var reuse atomic.Pointer[string]
	var fileExists atomic.Bool // the first chunk has been written: a current file exists from now on
	for wi := 0; wi < nWriters; wi++ {
		wg.Add(1)
		go func(wi int) {
			defer wg.Done()
			defer writersLeft.Add(-1)
			for _, j := range jobs[wi] {
				for y := 0; y < j.yield; y++ {
					runtime.Gosched()
				}
				call := h.now()
				ref := m.WriteChunk(j.sref, j.mint, j.maxt, j.chk, j.ooo, func(err error) {
					if err != nil {
						cbErr.CompareAndSwap(nil, &err)
					} else {
						fileExists.Store(true)
					}
				})
				ret := h.now()
				rc := &rec{ref: ref, series: j.sref, mint: j.mint, maxt: j.maxt, enc: j.chk.Encoding(), ooo: j.ooo, data: j.data, nsamples: binary.BigEndian.Uint16(j.data)}
				wmu.Lock()
				if prev := w.current(ref); prev != nil {
					s := fmt.Sprintf("WriteChunk returned ref %d twice within one run (no restart, current file is never truncated)", ref)
					reuse.CompareAndSwap(nil, &s)
				}
				w.addWrite(rc)
				h.add(histOp{kind: "write", ref: ref, id: rc.id, call: call, ret: ret, client: wi})
				known = append(known, ref)
				wmu.Unlock()
				if int64(rc.seq) > maxSeq.Load() {
					maxSeq.Store(int64(rc.seq))
				}
			}
		}(wi)
	}
	var overlapped atomic.Int64
	for ri := 0; ri < nReaders; ri++ {
		wg.Add(1)
		go func(ri int) {
			defer wg.Done()
			rr := rand.New(rand.NewPCG(readerSeeds[ri], 5))
			for n := 0; n < 4000; n++ {
				if cbErr.Load() != nil {
					return // the mapper reported a failed write: refs handed out since then are not backed by data
				}
				last := writersLeft.Load() == 0
				wmu.Lock()
				if len(known) == 0 {
					wmu.Unlock()
					if last {
						return
					}
					runtime.Gosched()
					continue
				}
				ref := known[rr.IntN(len(known))]
				if rr.IntN(2) == 0 {
					ref = known[len(known)-1-rr.IntN(min(len(known), 4))]
				}
				wmu.Unlock()
				call := h.now()
				chk, err := m.Chunk(ref)
				ret := h.now()
				o := histOp{kind: "read", ref: ref, call: call, ret: ret, client: nWriters + ri}
				if err != nil {
					o.out, o.errText = opOut{err: true}, err.Error()
				} else {
					enc, b := chk.Encoding(), chk.Bytes()
					wmu.Lock()
					o.out = opOut{id: w.matchBytes(ref, enc, b)}
					wmu.Unlock()
				}
				h.add(o)
				if !last {
					overlapped.Add(1)
				}
				if last && n > 50 {
					return
				}
				if rr.IntN(4) == 0 {
					runtime.Gosched()
				}
			}
		}(ri)
	}
	wg.Add(1)
	go func() {
		defer wg.Done()
		// Truncate on a mapper that has no file yet is exercised separately (probeFreshTruncate)
		for !fileExists.Load() && writersLeft.Load() > 0 {
			runtime.Gosched()
		}
		for _, p := range plans {
			for i := 0; i < p.after*20 && writersLeft.Load() > 0; i++ {
				runtime.Gosched()
			}
			m.CutNewFile()
			for i := 0; i < 50 && writersLeft.Load() > 0; i++ {
				runtime.Gosched()
			}
			fileNo := int(maxSeq.Load()) - p.back
			if fileNo < 0 {
				fileNo = 0
			}
			call := h.now()
			wmu.Lock()
			w.markTruncate(fileNo)
			wmu.Unlock()
			err := m.Truncate(uint32(fileNo))
			ret := h.now()
			if err != nil {
				cbErr.CompareAndSwap(nil, &err)
			}
			h.add(histOp{kind: "trunc", fileNo: fileNo, call: call, ret: ret, client: nWriters + nReaders})
		}
	}()
	done := make(chan struct{})
	go func() { wg.Wait(); close(done) }()
	select {
	case <-done:
	case <-time.After(150 * time.Second):
		c.Inconclusive("free-running goroutines did not finish within 150 s")
		closed = true // do not touch the mapper any more
		return
	}
	if err := m.Close(); err != nil {
		c.Violatef("close-error", "free-running: Close failed: %v", err)
		closed = true
		return
	}
	closed = true
	if e := cbErr.Load(); e != nil {
		c.Violatef("write-callback-error", "free-running: a write callback or Truncate reported: %v", *e)
		return
	}
	if s := reuse.Load(); s != nil {
		c.Violatef("ref-reused-while-live", "free-running: %s", *s)
		return
	}
	if !h.check(c, "free-running", nil) {
		return
	}
	w.session = 1
	m2, err := chunks.NewChunkDiskMapper(nil, dir, chunkenc.NewPool(), 64*1024, 0)
	if err != nil {
		c.Violatef("open-error", "free-running: NewChunkDiskMapper after a normal Close failed: %v", err)
		return
	}
	ys, ierr := iterate(m2)
	ok := w.checkRestart("free-running: restart", ys, ierr, -1, 0) && w.readBack("free-running: restart", "restart-read-mismatch", m2, ys)
	m2.Close()
	if !ok {
		return
	}
	nReads := 0
	for _, o := range h.ops {
		if o.kind == "read" {
			nReads++
		}
	}
	c.Count("free_histories", 1)
	c.Count("free_chunks_written", int64(len(w.recs)))
	c.Count("free_reads", int64(nReads))
	c.Count("free_reads_overlapping_writers", overlapped.Load())
	c.Count("free_truncates", int64(len(plans)))
	c.Seen("free_write_queue_size", fmt.Sprint(qsize))
	if c.Variant == "race" && overlapped.Load() >= 20 {
		c.Nontrivial(fmt.Sprintf("free q=%d w=%d/%d t=%v", qsize, len(jobs[0]), len(jobs[1]), plans))
	}
}

// probeFreshTruncate: Truncate(0) (which may remove nothing) runs concurrently with the very first
// WriteChunk of a fresh mapper; afterwards a new file is cut.  Both chunks must be written and
// readable.  No read is attempted after a reported write failure.
func probeFreshTruncate(c *core.Case) {
	r := c.SubRng("probe")
	reps := 3
	for rep := 0; rep < reps; rep++ {
		dir := filepath.Join(c.TempDir(), "chunks_head")
		qsize := gen.Pick(r, []int{0, 0, 4})
		m, err := chunks.NewChunkDiskMapper(nil, dir, chunkenc.NewPool(), 64*1024, qsize)
		if err != nil {
			c.Violatef("open-error", "NewChunkDiskMapper on an empty directory failed: %v", err)
			return
		}
		if _, err := iterate(m); err != nil {
			m.Close()
			c.Violatef("restart-iterate-error", "IterateAllChunks on an empty directory failed: %v", err)
			return
		}
		var errs [2]atomic.Pointer[error]
		var cbs sync.WaitGroup
		cbs.Add(2)
		chk1, _ := genChunk(r, false)
		chk2, _ := genChunk(r, false)
		d1, d2 := append([]byte(nil), chk1.Bytes()...), append([]byte(nil), chk2.Bytes()...)
		spin := r.IntN(4)
		var ref1 chunks.ChunkDiskMapperRef
		var terr error
		var wg sync.WaitGroup
		wg.Add(2)
		go func() {
			defer wg.Done()
			ref1 = m.WriteChunk(7, 10, 20, chk1, false, func(err error) {
				if err != nil {
					errs[0].Store(&err)
				}
				cbs.Done()
			})
		}()
		go func() {
			defer wg.Done()
			for i := 0; i < spin; i++ {
				runtime.Gosched()
			}
			terr = m.Truncate(0)
		}()
		wg.Wait()
		m.CutNewFile()
		ref2 := m.WriteChunk(8, 30, 40, chk2, false, func(err error) {
			if err != nil {
				errs[1].Store(&err)
			}
			cbs.Done()
		})
		cbs.Wait()
		c.Count("fresh_truncate_probes", 1)
		fail := func(kind, format string, args ...any) {
			m.Close()
			c.Violatef(kind, format, args...)
		}
		if terr != nil {
			fail("truncate-error", "Truncate(0) on a fresh mapper failed: %v", terr)
			return
		}
		for i := range errs {
			if e := errs[i].Load(); e != nil {
				kind := "write-callback-error"
				var a, b, x, y int
				if n, _ := fmt.Sscanf((*e).Error(), "expected newly cut file to have sequence:offset %d:%d, got %d:%d", &a, &x, &b, &y); n == 4 && b > a {
					// predicate of the known finding: the mapper's idea of the file sequence fell behind the
					// directory although the only Truncate call was Truncate(0), concurrent with the first write
					kind = "truncate-resets-sequence-behind-first-write"
				}
				fail(kind, "fresh mapper (write queue size %d): WriteChunk #1 ran concurrently with Truncate(0), then CutNewFile + WriteChunk #2 (refs %d, %d): callback of write #%d reported: %v", qsize, ref1, ref2, i+1, *e)
				return
			}
		}
		for i, x := range []struct {
			ref chunks.ChunkDiskMapperRef
			d   []byte
		}{{ref1, d1}, {ref2, d2}} {
			chk, err := m.Chunk(x.ref)
			if err != nil || !bytes.Equal(chk.Bytes(), x.d) {
				fail("read-error-without-covering-truncate", "fresh mapper: Chunk(%d) of write #%d after Truncate(0): err=%v", x.ref, i+1, err)
				return
			}
		}
		if err := m.Close(); err != nil {
			c.Violatef("close-error", "Close failed: %v", err)
			return
		}
	}
}

func run(c *core.Case) {
	if c.Variant == "race" {
		runFree(c)
		if !c.Violated() {
			probeFreshTruncate(c)
		}
		return
	}
	runController(c)
	if !c.Violated() && c.Idx%4 == 1 {
		runFree(c)
		if !c.Violated() {
			probeFreshTruncate(c)
		}
	}
}
