// Package c10: float chunks (XOR, XOR2 with start timestamps) return exactly what was appended
// (round-trip identity monitor with appender re-opening and a Seek reference model).
package c10

import (
	"fmt"
	"hash/fnv"
	"math"
	"math/rand/v2"

	"github.com/prometheus/prometheus/model/value"
	"github.com/prometheus/prometheus/tsdb/chunkenc"

	"verif/internal/core"
	"verif/internal/gen"
)

const (
	// KindXORReopen is the narrow class of the known defect (DESIGN.md §10 item 16): the chunk is
	// EncXOR, appending resumed at least once on a non-empty chunk reloaded from its bytes and at
	// least one sample was appended afterwards, the first wrong observation is not before that
	// resume point, and a twin chunk that received the same samples without ever being re-opened
	// round-trips the whole sequence correctly.
	//
	// Minimal reproducer: NewXORChunk; Append(0,1000,1); Append(0,2000,1) (stream now ends
	// mid-byte); rc := FromData(EncXOR, copy(Bytes())); rc.Appender(); Append(0,3000,3); iterating rc
	// yields (3000,1) instead of (3000,3).  Cause: tsdb/chunkenc/xor.go (*XORChunk).Appender()
	// rebuilds t/v/tDelta/leading/trailing from an iterator but leaves bstream.count at 0 (set by
	// FromData / bstream.Reset), so the next write starts a fresh byte.  Proposed one-line repair,
	// mirroring xor2.go: `c.b.count = it.br.valid` after the it.Err() check in that function.
	KindXORReopen = "xor-appender-reopened-from-bytes"
)

func init() {
	core.Register(&core.Prop{
		ID:        "C10",
		Title:     "Float chunks return exactly what was appended",
		Level:     "exploration",
		Technique: "round-trip identity on (st,t,bits(v)) triples through the real XOR/XOR2 appenders and iterators, with a forward-only Seek reference model and a never-re-opened twin chunk for attribution",
		LevelText: "Generated sample sequences (1..3000 samples, up to the 65535-sample capacity in the thorough tier) with timestamps inside ±2^62 whose deltas and delta-of-deltas are biased to the 3/6/9/12/13/14/17/18/20/25/56/62/63-bit bucket edges, hostile float bit patterns (NaN payloads, stale markers, signed zeros, infinities, chosen XOR leading/trailing windows) and start-timestamp patterns none/constant/late(at 1,2,126..129)/jitter/steps/arbitrary are appended to real XORChunk/XOR2Chunk objects; the appender is re-opened at random cut points from the serialized bytes (FromData, Pool.Get with recycled objects, shared or copied bytes). Oracle: a full Next pass over the live chunk and over a chunk reloaded from its bytes returns exactly the appended (t, value bits) and, for XOR2, st; NumSamples equals the number appended; random Next/Seek walks agree with a model in which Seek(x) stays if the current sample has t>=x and otherwise lands on the first later sample with t>=x. A sweep enumerates every delta-of-delta of the packed ranges (quick: ±8400 and ±200 around ±2^16/2^17/2^19/2^20 and the large edges; thorough: all of ±(2^20+300)) in 5-sample chunks with value same/changed and, for XOR2, ST inactive/constant/changing, with and without a re-open in front of the probed sample. Held on the observed sequences only.",
		LevelNote: "Reductions: Seek/Next are not exercised after the iterator reported exhaustion (behaviour there is not part of the statement); AtST is compared for XOR2 only (XOR does not store it); iterators are never used concurrently with an appender. A violation on an EncXOR chunk after a resume is attributed to the known re-open defect only when the never-re-opened twin is correct; all other XOR failures keep their own kinds.",
		DesignRef: "DESIGN.md §5 C10",
		Rule:      "case = one generated sequence for one encoding (or one slice of the delta-of-delta sweep); non-trivial iff at least 3 samples were appended (so a delta-of-delta was encoded) and the full read-back comparison was executed; distinct by encoding, length, cut points and a hash of all (st,t,value bits)",
		Assumptions: []string{
			"timestamps strictly increasing within ±2^62 as the statement requires; at most 65535 samples per chunk",
		},
		Cases: func(variant string, tier core.Tier) int {
			if variant != "default" {
				return 0
			}
			if tier == core.Thorough {
				return 1000000
			}
			return 20000
		},
		Run:            run,
		MinNontrivial:  func(t core.Tier) int { return 5000 },
		CaseTimeoutSec: 120,
	})
}

type smp struct {
	st, t int64
	v     float64
}

const lim = int64(1) << 62

// ---------------------------------------------------------------- generators

var edgeBits = []uint{3, 6, 9, 12, 13, 14, 16, 17, 18, 19, 20, 25, 31, 32, 55, 56, 61, 62}

func edgeValue(r *rand.Rand) int64 {
	k := edgeBits[r.IntN(len(edgeBits))]
	var v int64
	if r.IntN(2) == 0 {
		v = int64(1) << (k - 1)
	} else {
		v = int64(1) << k
	}
	if r.IntN(2) == 0 {
		v = -v
	}
	return v + int64(r.IntN(5)) - 2
}

// genTimestamps returns up to n strictly increasing timestamps within [-2^62, 2^62].
func genTimestamps(r *rand.Rand, n int) ([]int64, string) {
	var t int64
	switch r.IntN(8) {
	case 0:
		t = 0
	case 1:
		t = -lim
	case 2:
		t = -lim + int64(r.IntN(1000))
	case 3:
		t = lim - int64(r.IntN(1<<20)) - int64(n)
	case 4:
		t = 1_700_000_000_000 + int64(r.IntN(1<<30))
	case 5:
		t = int64(r.IntN(2001)) - 1000
	case 6:
		t = r.Int64N(lim) - lim/2
	default:
		t = -int64(r.IntN(1 << 40))
	}
	mode := []string{"regular", "jitter", "edges", "wild", "mixed", "mixed"}[r.IntN(6)]
	var delta uint64
	switch r.IntN(6) {
	case 0:
		delta = 1
	case 1:
		delta = 15000
	case 2:
		delta = 60000
	case 3:
		delta = 1 + r.Uint64N(1<<uint(1+r.IntN(40)))
	case 4:
		delta = uint64(1) << uint(r.IntN(50))
	default:
		delta = 1000
	}
	out := make([]int64, 0, n)
	out = append(out, t)
	for len(out) < n {
		room := uint64(lim - t) // true value is in [0, 2^63]; the wrapped subtraction is exact as uint64
		if room == 0 {
			break
		}
		var dod int64
		m := mode
		if m == "mixed" {
			m = []string{"regular", "jitter", "edges", "wild"}[r.IntN(4)]
		}
		if len(out) == 1 {
			dod = 0 // the first delta is the drawn one
		} else {
			switch m {
			case "regular":
				if r.IntN(20) == 0 {
					dod = int64(r.IntN(21)) - 10
				}
			case "jitter":
				w := uint(1 + r.IntN(14))
				dod = r.Int64N(1<<w) - (1 << (w - 1))
			case "edges":
				if r.IntN(3) == 0 {
					dod = 0
				} else {
					dod = edgeValue(r)
				}
			case "wild":
				switch r.IntN(4) {
				case 0:
					// jump to (almost) the end of the allowed range: deltas up to 2^63
					dod = int64(room - uint64(r.IntN(3)) - delta)
				case 1:
					w := uint(1 + r.IntN(62))
					dod = r.Int64N(1<<w) - (1 << (w - 1))
				case 2:
					dod = -int64(delta) + 1 + int64(r.IntN(3)) // back to a tiny delta
				default:
					dod = int64(r.Uint64())
				}
			}
		}
		nd := delta + uint64(dod)
		if nd < 1 || nd > room {
			nd = delta - uint64(dod)
		}
		if nd < 1 || nd > room {
			nd = 1 + uint64(r.IntN(3))
			if nd > room {
				nd = 1
			}
		}
		delta = nd
		t += int64(nd) // wraps correctly for nd = 2^63
		out = append(out, t)
	}
	return out, mode
}

func maskWithWindow(r *rand.Rand) uint64 {
	ls := []int{0, 1, 5, 11, 12, 30, 31, 32, 33, 40, 52, 63}
	l := ls[r.IntN(len(ls))]
	tr := r.IntN(64 - l)
	width := 64 - l - tr
	var m uint64
	if width == 64 {
		m = r.Uint64()
	} else {
		m = r.Uint64() & ((uint64(1) << uint(width)) - 1)
	}
	m |= 1
	m |= uint64(1) << uint(width-1)
	return m << uint(tr)
}

func genValues(r *rand.Rand, n int) ([]float64, string) {
	mode := []string{"const", "counter", "gauge", "hostile", "bits", "toggle", "stale-mix", "mixed", "mixed"}[r.IntN(9)]
	out := make([]float64, n)
	stale := math.Float64frombits(value.StaleNaN)
	cur := gen.Float(r, false)
	if r.IntN(2) == 0 {
		cur = float64(r.IntN(1000))
	}
	other := gen.Float(r, true)
	staleEvery := 0
	if mode == "stale-mix" || (mode == "mixed" && r.IntN(2) == 0) || r.IntN(6) == 0 {
		staleEvery = 1 + r.IntN(6)
	}
	for i := range out {
		m := mode
		if m == "mixed" || m == "stale-mix" {
			m = []string{"const", "counter", "gauge", "hostile", "bits", "toggle"}[r.IntN(6)]
		}
		switch m {
		case "const":
		case "counter":
			cur += float64(r.IntN(4))
		case "gauge":
			cur = math.Float64frombits(math.Float64bits(cur) ^ uint64(r.IntN(1<<uint(1+r.IntN(12)))))
		case "hostile":
			cur = gen.Float(r, true)
		case "bits":
			cur = math.Float64frombits(math.Float64bits(cur) ^ maskWithWindow(r))
		case "toggle":
			cur, other = other, cur
		}
		out[i] = cur
		if staleEvery > 0 && r.IntN(staleEvery+1) == 0 {
			out[i] = stale
			if value.IsStaleNaN(cur) {
				cur = 0
			}
		}
	}
	return out, mode
}

var stJitters = []int64{0, 1, 2, 3, 4, 5, 30, 31, 32, 33, 255, 256, 257, 2047, 2048, 2049, 131071, 131072, 131073, 1 << 24, 1<<24 + 1, 1 << 55, 1<<55 + 1, 1 << 60}

func arbitraryST(r *rand.Rand) int64 {
	switch r.IntN(6) {
	case 0:
		return math.MinInt64
	case 1:
		return math.MaxInt64
	case 2:
		return int64(r.IntN(5)) - 2
	default:
		return int64(r.Uint64())
	}
}

// genSTs draws the start timestamps for the given timestamps.
func genSTs(r *rand.Rand, ts []int64) ([]int64, string) {
	n := len(ts)
	out := make([]int64, n)
	pat := []string{"none", "const", "late", "jitter", "steps", "arbitrary", "late", "jitter"}[r.IntN(8)]
	fill := func(from int, p string) {
		base := int64(r.IntN(100000))
		c := ts[0] - base
		if r.IntN(4) == 0 {
			c = arbitraryST(r)
		}
		if c == 0 {
			c = 1
		}
		jm := stJitters[r.IntN(len(stJitters))]
		stepEvery := 1 + r.IntN(40)
		cur := c
		for i := from; i < n; i++ {
			switch p {
			case "const":
				out[i] = c
			case "jitter":
				prev := ts[0]
				if i > 0 {
					prev = ts[i-1]
				}
				j := int64(0)
				if r.IntN(3) != 0 && jm > 0 {
					j = jm + int64(r.IntN(3)) - 1
					if r.IntN(2) == 0 {
						j = -j
					}
					if r.IntN(3) == 0 {
						j = r.Int64N(2*jm+1) - jm
					}
				}
				out[i] = prev - base + j
			case "steps":
				if i == from || r.IntN(stepEvery) == 0 {
					cur = ts[i] - int64(r.IntN(1000))
				}
				out[i] = cur
			case "arbitrary":
				if r.IntN(3) == 0 && i > 0 {
					out[i] = out[i-1]
				} else {
					out[i] = arbitraryST(r)
				}
			}
		}
	}
	switch pat {
	case "none":
	case "late":
		k := []int{1, 2, 3, 125, 126, 127, 128, 129, 130}[r.IntN(9)]
		if r.IntN(4) == 0 {
			k = r.IntN(n + 1)
		}
		if k > n {
			k = n
		}
		if r.IntN(2) == 0 { // constant (known) ST first, then a change at k
			c := ts[0] - 1 - int64(r.IntN(1000))
			if c == 0 {
				c = -1
			}
			for i := 0; i < k; i++ {
				out[i] = c
			}
			pat = "late-after-const"
		}
		fill(k, []string{"const", "jitter", "steps", "arbitrary"}[r.IntN(4)])
	default:
		fill(0, pat)
	}
	return out, pat
}

func genLen(r *rand.Rand, tier core.Tier) int {
	switch x := r.IntN(100); {
	case x < 2:
		return 1
	case x < 5:
		return 2
	case x < 20:
		return 3 + r.IntN(8)
	case x < 60:
		return 10 + r.IntN(125) // crosses the 127/128 ST header boundary
	default:
		if tier == core.Thorough && r.IntN(800) == 0 {
			return 65535 - r.IntN(2)*r.IntN(100)
		}
		if r.IntN(2500) == 0 {
			return 65535
		}
		return 130 + r.IntN(2871)
	}
}

// ---------------------------------------------------------------- building and checking

type cutMode int

const (
	cutFromDataCopy cutMode = iota
	cutFromDataShared
	cutPoolGet
	cutPoolRecycle
	numCutModes
)

type builder struct {
	enc  chunkenc.Encoding
	pool chunkenc.Pool
}

func (b *builder) reload(r *rand.Rand, ch chunkenc.Chunk) (chunkenc.Chunk, error) {
	raw := ch.Bytes()
	switch cutMode(r.IntN(int(numCutModes))) {
	case cutFromDataShared:
		return chunkenc.FromData(b.enc, raw)
	case cutPoolGet:
		cp := make([]byte, len(raw), len(raw)+r.IntN(3)*40)
		copy(cp, raw)
		return b.pool.Get(b.enc, cp)
	case cutPoolRecycle:
		cp := make([]byte, len(raw))
		copy(cp, raw)
		if err := b.pool.Put(ch); err != nil {
			return nil, err
		}
		return b.pool.Get(b.enc, cp)
	default:
		cp := make([]byte, len(raw), len(raw)+r.IntN(3)*40)
		copy(cp, raw)
		return chunkenc.FromData(b.enc, cp)
	}
}

// build appends all samples, re-opening the appender from the serialized bytes at the cut
// positions (cut k = before appending sample k; k == len(samples) = after the last one).
// firstDirty is the smallest cut >= 1 that is followed by at least one append (-1 if none).
func (b *builder) build(r *rand.Rand, samples []smp, cuts map[int]bool) (ch chunkenc.Chunk, firstDirty int, fail string) {
	firstDirty = -1
	ch, err := chunkenc.NewEmptyChunk(b.enc)
	core.Must(err, "NewEmptyChunk")
	app, err := ch.Appender()
	if err != nil {
		return ch, firstDirty, fmt.Sprintf("Appender() on an empty chunk failed: %v", err)
	}
	for i := 0; i <= len(samples); i++ {
		if cuts[i] {
			nch, err := b.reload(r, ch)
			if err != nil {
				return ch, firstDirty, fmt.Sprintf("reloading the chunk from its bytes after %d samples failed: %v", i, err)
			}
			ch = nch
			app, err = ch.Appender()
			if err != nil {
				return ch, firstDirty, fmt.Sprintf("Appender() on the chunk reloaded after %d samples failed: %v", i, err)
			}
			if i >= 1 && i < len(samples) && firstDirty < 0 {
				firstDirty = i
			}
		}
		if i < len(samples) {
			app.Append(samples[i].st, samples[i].t, samples[i].v)
		}
	}
	return ch, firstDirty, ""
}

func (s smp) render(withST bool) string {
	if withST {
		return fmt.Sprintf("(st=%d t=%d v=%016x)", s.st, s.t, math.Float64bits(s.v))
	}
	return fmt.Sprintf("(t=%d v=%016x)", s.t, math.Float64bits(s.v))
}

func at(it chunkenc.Iterator) smp {
	t, v := it.At()
	return smp{st: it.AtST(), t: t, v: v}
}

func same(a, b smp, withST bool) bool {
	return a.t == b.t && math.Float64bits(a.v) == math.Float64bits(b.v) && (!withST || a.st == b.st)
}

// checkFull iterates with Next only.  It returns "" or a description and the index of the first
// wrong observation.
func checkFull(ch chunkenc.Chunk, want []smp, withST bool, reuse chunkenc.Iterator) (string, int, chunkenc.Iterator) {
	if n := ch.NumSamples(); n != len(want) {
		return fmt.Sprintf("NumSamples()=%d, appended %d", n, len(want)), min(n, len(want)), reuse
	}
	it := ch.Iterator(reuse)
	for i, w := range want {
		vt := it.Next()
		if vt != chunkenc.ValFloat {
			return fmt.Sprintf("Next() #%d returned %v (err=%v), expected sample %s", i, vt, it.Err(), w.render(withST)), i, it
		}
		g := at(it)
		if !same(g, w, withST) || it.AtT() != w.t {
			return fmt.Sprintf("sample #%d: got %s AtT=%d, appended %s", i, g.render(withST), it.AtT(), w.render(withST)), i, it
		}
	}
	if vt := it.Next(); vt != chunkenc.ValNone {
		return fmt.Sprintf("Next() after the last of %d samples returned %v", len(want), vt), len(want), it
	}
	if err := it.Err(); err != nil {
		return fmt.Sprintf("Err()=%v after a complete iteration", err), len(want), it
	}
	return "", -1, it
}

// checkWalk runs a random Next/Seek walk against the forward-only reference cursor.
func checkWalk(r *rand.Rand, ch chunkenc.Chunk, want []smp, withST bool, reuse chunkenc.Iterator, seeks *int64) (string, chunkenc.Iterator) {
	it := ch.Iterator(reuse)
	pos := -1
	n := len(want)
	trace := ""
	steps := 4 + r.IntN(12)
	for s := 0; s < steps; s++ {
		if r.IntN(3) == 0 {
			vt := it.Next()
			trace += " Next"
			if pos+1 >= n {
				if vt != chunkenc.ValNone {
					return fmt.Sprintf("walk%s: Next() past the last sample returned %v", trace, vt), it
				}
				return "", it
			}
			pos++
			if vt != chunkenc.ValFloat {
				return fmt.Sprintf("walk%s: Next() returned %v (err=%v), expected sample #%d %s", trace, vt, it.Err(), pos, want[pos].render(withST)), it
			}
		} else {
			var x int64
			switch r.IntN(10) {
			case 0:
				x = math.MinInt64
			case 1:
				x = math.MaxInt64
			case 2:
				if pos >= 0 {
					x = want[pos].t - int64(r.IntN(2))
				}
			default:
				j := r.IntN(n)
				if pos >= 0 && r.IntN(4) != 0 {
					j = pos + r.IntN(n-pos)
					if r.IntN(2) == 0 {
						j = min(n-1, pos+r.IntN(4))
					}
				}
				x = want[j].t + int64(r.IntN(3)) - 1
			}
			*seeks++
			vt := it.Seek(x)
			trace += fmt.Sprintf(" Seek(%d)", x)
			if pos < 0 || want[pos].t < x {
				np := -1
				for j := pos + 1; j < n; j++ {
					if want[j].t >= x {
						np = j
						break
					}
				}
				if np < 0 {
					if vt != chunkenc.ValNone {
						return fmt.Sprintf("walk%s: Seek returned %v at %s although no sample has t>=%d (last t=%d)", trace, vt, at(it).render(withST), x, want[n-1].t), it
					}
					return "", it
				}
				pos = np
			}
			if vt != chunkenc.ValFloat {
				return fmt.Sprintf("walk%s: Seek returned %v (err=%v), expected to land on #%d %s", trace, vt, it.Err(), pos, want[pos].render(withST)), it
			}
		}
		g := at(it)
		if !same(g, want[pos], withST) || it.AtT() != want[pos].t {
			return fmt.Sprintf("walk%s: at %s AtT=%d, expected #%d %s", trace, g.render(withST), it.AtT(), pos, want[pos].render(withST)), it
		}
	}
	return "", it
}

type outcome struct {
	ok     bool
	kind   string // violation kind when !ok
	seeks  int64
	reopen int
}

// roundTrip builds the chunk (with cuts), checks it, and classifies a failure.
func roundTrip(c *core.Case, r *rand.Rand, b *builder, samples []smp, cuts map[int]bool, walks int, what string) outcome {
	withST := b.enc == chunkenc.EncXOR2
	var out outcome
	out.reopen = len(cuts)

	var (
		fail      string
		failIdx   = -1
		kind      = "roundtrip-mismatch"
		firstDirt = -1
	)
	body := func() {
		ch, fd, f := b.build(r, samples, cuts)
		firstDirt = fd
		if f != "" {
			fail, kind = f, "reopen-appender-error"
			return
		}
		var it chunkenc.Iterator
		if r.IntN(3) == 0 { // hand a used iterator of the other encoding for re-use
			other := chunkenc.EncXOR
			if b.enc == chunkenc.EncXOR {
				other = chunkenc.EncXOR2
			}
			oc, _ := chunkenc.NewEmptyChunk(other)
			it = oc.Iterator(nil)
		}
		fail, failIdx, it = checkFull(ch, samples, withST, it)
		if fail != "" {
			return
		}
		// the serialized form, reloaded, must read the same
		cp := append([]byte(nil), ch.Bytes()...)
		rc, err := chunkenc.FromData(b.enc, cp)
		core.Must(err, "FromData")
		if f, i, _ := checkFull(rc, samples, withST, nil); f != "" {
			fail, failIdx = "chunk reloaded from Bytes(): "+f, i
			return
		}
		for w := 0; w < walks && len(samples) > 0; w++ {
			var reuse chunkenc.Iterator
			if r.IntN(2) == 0 {
				reuse = it
			}
			target := ch
			if r.IntN(3) == 0 {
				target = rc
			}
			f, nit := checkWalk(r, target, samples, withST, reuse, &out.seeks)
			it = nit
			if f != "" {
				fail, kind = f, "seek-mismatch"
				return
			}
		}
	}
	if b.enc == chunkenc.EncXOR && hasDirtyCut(cuts, len(samples)) {
		// A chunk corrupted by the known re-open defect may make the decoder misbehave in
		// arbitrary ways; keep such a failure inside the attribution logic below.
		func() {
			defer func() {
				if p := recover(); p != nil {
					if _, isHarness := p.(core.HarnessError); isHarness {
						panic(p)
					}
					fail = fmt.Sprintf("panic while building/reading the re-opened chunk: %v", p)
				}
			}()
			body()
		}()
	} else {
		body()
	}
	if fail == "" {
		out.ok = true
		return out
	}
	// attribution: does a never-re-opened twin handle the same samples?
	if len(cuts) > 0 {
		tch, _, tf := b.build(r, samples, nil)
		twinOK := tf == ""
		if twinOK {
			f, _, _ := checkFull(tch, samples, withST, nil)
			twinOK = f == ""
		}
		switch {
		case twinOK && b.enc == chunkenc.EncXOR && firstDirt >= 1 && (failIdx < 0 || failIdx >= firstDirt):
			kind = KindXORReopen
		case twinOK && kind == "roundtrip-mismatch":
			kind = "reopen-mismatch"
		}
		fail += fmt.Sprintf(" [never-re-opened twin correct: %v; first resume on a non-empty chunk before sample #%d]", twinOK, firstDirt)
	}
	out.kind = kind
	c.Violatef(kind, "%s enc=%v n=%d cuts=%v: %s\nsamples (first 12): %s", what, b.enc, len(samples), sortedCuts(cuts), fail, renderSome(samples, withST, 12))
	return out
}

func hasDirtyCut(cuts map[int]bool, n int) bool {
	for k := range cuts {
		if k >= 1 && k < n {
			return true
		}
	}
	return false
}

func sortedCuts(cuts map[int]bool) []int {
	var out []int
	for k := range cuts {
		out = append(out, k)
	}
	for i := 1; i < len(out); i++ {
		for j := i; j > 0 && out[j] < out[j-1]; j-- {
			out[j], out[j-1] = out[j-1], out[j]
		}
	}
	return out
}

func renderSome(s []smp, withST bool, k int) string {
	out := ""
	for i := 0; i < len(s) && i < k; i++ {
		out += s[i].render(withST) + " "
	}
	return out
}

func hashSamples(s []smp) uint64 {
	h := fnv.New64a()
	var b [24]byte
	for _, x := range s {
		for i := 0; i < 8; i++ {
			b[i] = byte(uint64(x.st) >> (8 * i))
			b[8+i] = byte(uint64(x.t) >> (8 * i))
			b[16+i] = byte(math.Float64bits(x.v) >> (8 * i))
		}
		h.Write(b[:])
	}
	return h.Sum64()
}

// dodClass names the bucket a delta-of-delta falls into according to the documented ranges
// (coverage statistics only; not used by the oracle).
func dodClass(enc chunkenc.Encoding, dod int64) string {
	abs := func(w uint) (int64, int64) { return -(int64(1) << (w - 1)), int64(1)<<(w-1) - 1 }
	if dod == 0 {
		return "0"
	}
	widths := []uint{14, 17, 20}
	if enc == chunkenc.EncXOR2 {
		widths = []uint{13, 20}
	}
	for _, w := range widths {
		lo, hi := abs(w)
		if dod >= lo-1 && dod <= hi+1 {
			if dod <= lo+2 || dod >= hi-2 {
				return fmt.Sprintf("%d-edge", w)
			}
			return fmt.Sprint(w)
		}
	}
	return "64"
}

// ---------------------------------------------------------------- sweep

func sweepCases(t core.Tier) int {
	if t == core.Thorough {
		return 256
	}
	return 32
}

type rng64 struct{ lo, hi int64 }

func sweepRanges(t core.Tier) []rng64 {
	var rs []rng64
	if t == core.Thorough {
		rs = append(rs, rng64{-(1 << 20) - 300, 1<<20 + 300})
	} else {
		rs = append(rs, rng64{-8400, 8400})
		for _, k := range []uint{16, 17, 19, 20} {
			rs = append(rs, rng64{-(1 << k) - 200, -(1 << k) + 200}, rng64{1<<k - 200, 1<<k + 200})
		}
	}
	for _, k := range []uint{24, 25, 31, 32, 55, 56, 61, 62} {
		rs = append(rs, rng64{-(1 << k) - 40, -(1 << k) + 40}, rng64{1<<k - 40, 1<<k + 40})
	}
	rs = append(rs, rng64{math.MinInt64 + 1, math.MinInt64 + 40}, rng64{math.MaxInt64 - 40, math.MaxInt64})
	return rs
}

// sweepSeq builds deltas D, D+dod, D (dod back), D (dod 0) from the lowest allowed timestamp.
func sweepSeq(r *rand.Rand, dod int64) []int64 {
	d := uint64(1 + r.IntN(3))
	if dod < 0 {
		d += uint64(-dod) // D+dod >= 1
	}
	t := -lim + int64(r.IntN(3))
	ts := []int64{t}
	for _, nd := range []uint64{d, d + uint64(dod), d, d} {
		room := uint64(lim - t)
		if nd < 1 || nd > room {
			break
		}
		t += int64(nd)
		ts = append(ts, t)
	}
	return ts
}

func runSweep(c *core.Case) {
	r := c.Rng
	S := int64(sweepCases(c.Tier))
	pool := chunkenc.NewPool()
	var nChunks, nDods int64
	otherFails := 0
	idx := int64(0)
	for _, rg := range sweepRanges(c.Tier) {
		for dod := rg.lo; ; dod++ {
			mine := idx%S == int64(c.Idx)
			idx++
			if mine {
				nDods++
				ts := sweepSeq(r, dod)
				if len(ts) >= 3 {
					for _, enc := range []chunkenc.Encoding{chunkenc.EncXOR, chunkenc.EncXOR2} {
						b := &builder{enc: enc, pool: pool}
						stModes := 1
						if enc == chunkenc.EncXOR2 {
							stModes = 3
						}
						for vm := 0; vm < 2; vm++ {
							for sm := 0; sm < stModes; sm++ {
								samples := make([]smp, len(ts))
								base := float64(r.IntN(100))
								for i, t := range ts {
									samples[i].t = t
									samples[i].v = base
									if vm == 1 {
										samples[i].v = base + float64(i*(1+r.IntN(3)))
									}
									switch sm {
									case 1: // active ST, constant offset to the previous timestamp
										if i == 0 {
											samples[i].st = t - 7
										} else {
											samples[i].st = ts[i-1] - 7
										}
									case 2: // active ST with changing offsets
										if i == 0 {
											samples[i].st = t - 7
										} else {
											samples[i].st = ts[i-1] - int64(r.IntN(600))
										}
									}
								}
								var cuts map[int]bool
								if r.IntN(4) == 0 {
									cuts = map[int]bool{2: true}
								}
								o := roundTrip(c, r, b, samples, cuts, 0, fmt.Sprintf("sweep dod=%d", dod))
								nChunks++
								c.Seen("dod_class_"+enc.String(), dodClass(enc, dod))
								if !o.ok {
									// keep sweeping past the known re-open defect (the recorder keeps
									// the first 8 witnesses); stop after a few failures of other kinds
									if o.kind == KindXORReopen {
										c.Count("sweep_chunks_hit_by_known_xor_reopen_defect", 1)
									} else if otherFails++; otherFails >= 4 {
										c.Count("sweep_chunks", nChunks)
										c.Count("sweep_dods", nDods)
										return
									}
								}
							}
						}
					}
				}
			}
			if dod == rg.hi {
				break
			}
		}
	}
	c.Count("sweep_chunks", nChunks)
	c.Count("sweep_dods", nDods)
	c.Nontrivial("sweep", c.Tier, c.Idx)
	if c.Idx == 0 {
		c.Sample(map[string]any{"mode": "dod sweep slice", "slice": c.Idx, "of": S, "dods": nDods, "chunks": nChunks})
	}
}

// ---------------------------------------------------------------- main case

func run(c *core.Case) {
	if c.Idx < sweepCases(c.Tier) {
		runSweep(c)
		return
	}
	r := c.Rng
	enc := chunkenc.EncXOR2
	if r.IntN(5) < 2 {
		enc = chunkenc.EncXOR
	}
	n := genLen(r, c.Tier)
	ts, tsMode := genTimestamps(r, n)
	n = len(ts)
	vs, vMode := genValues(r, n)
	sts, stPat := genSTs(r, ts)
	samples := make([]smp, n)
	for i := range samples {
		samples[i] = smp{st: sts[i], t: ts[i], v: vs[i]}
	}
	cuts := map[int]bool{}
	if r.IntN(4) != 0 {
		k := 1 + r.IntN(3)
		for i := 0; i < k; i++ {
			switch r.IntN(6) {
			case 0:
				cuts[0] = true
			case 1:
				cuts[n] = true
			case 2:
				cuts[min(n, []int{1, 2, 126, 127, 128, 129}[r.IntN(6)])] = true
			default:
				cuts[r.IntN(n+1)] = true
			}
		}
	}
	b := &builder{enc: enc, pool: chunkenc.NewPool()}
	walks := 3
	if c.Tier == core.Thorough {
		walks = 5
	}
	o := roundTrip(c, r, b, samples, cuts, walks, "sequence")

	c.Count("sequences_"+enc.String(), 1)
	c.Count("samples_appended", int64(n))
	c.Count("appender_reopenings", int64(o.reopen))
	c.Count("seeks", o.seeks)
	c.Seen("timestamp_mode", tsMode)
	c.Seen("value_mode", vMode)
	if enc == chunkenc.EncXOR2 {
		c.Seen("st_pattern", stPat)
	}
	for i := 2; i < n && i < 400; i++ {
		dod := int64(uint64(ts[i]-ts[i-1]) - uint64(ts[i-1]-ts[i-2]))
		c.Seen("dod_class_"+enc.String(), dodClass(enc, dod))
	}
	switch {
	case n == 65535:
		c.Seen("length_class", "capacity(65535)")
	case n > 128:
		c.Seen("length_class", ">128")
	case n >= 3:
		c.Seen("length_class", "3..128")
	default:
		c.Seen("length_class", "<3")
	}
	if n >= 3 && (o.ok || c.Violated()) {
		c.Nontrivial(enc, n, sortedCuts(cuts), hashSamples(samples))
	}
	if c.Idx < sweepCases(c.Tier)+3 {
		c.Sample(map[string]any{
			"encoding": enc.String(), "samples": n, "timestamp_mode": tsMode, "value_mode": vMode, "st_pattern": stPat,
			"reopen_before_sample": sortedCuts(cuts), "first": renderSome(samples, enc == chunkenc.EncXOR2, 4), "seeks": o.seeks,
		})
	}
}
