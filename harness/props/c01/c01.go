// Package c01: queries return exactly the committed, undeleted samples (reference-model monitor
// over generated single-threaded histories against a real tsdb.DB).
package c01

import (
	"fmt"
	"strings"

	"verif/internal/core"
	"verif/internal/tsdbhist"
)

func init() {
	core.Register(&core.Prop{
		ID:        "C01",
		Title:     "Queries return exactly the committed, undeleted samples",
		Level:     "exploration",
		Technique: "reference-model runtime monitor over generated operation histories on a real tsdb.DB",
		LevelText: "Generated histories (append in-order/out-of-order floats and native histograms through Appender or AppenderV2, commit/rollback, Delete, Compact, CompactHead on aligned/whole/arbitrary prefixes, CompactOOOHead, CompactStaleHead, CleanTombstones, ForceHeadMMap, clean restart with/without memory snapshot) run against a real DB under a generated option matrix (block range, OOO window/cap, samples per chunk, XOR/XOR2+ST, histogram ST encoding, isolation on/off, overlapping compaction on/off, negative and boundary timestamps). After state-changing steps the sample querier and the chunk querier (decoded) over the full range, a random range and a block-boundary range must return per series exactly the model's timestamps, strictly increasing, with a value equal to one of the values stored at that timestamp. Held on the observed histories only.",
		LevelNote: "The model takes Append's return value as the admission decision (≤1 sample per series per transaction, single thread, so commit-time re-checks equal append-time checks; admission rules themselves are C02). Samples that were out-of-order when appended and later covered by a Delete are allowed-not-required (known finding: Head.Delete ignores out-of-order data). Background compaction is disabled; maintenance is called explicitly. Retention disabled.",
		DesignRef: "DESIGN.md §5 C01",
		Rule:      "case = one generated history of 20–120 ops; non-trivial iff it has ≥1 successful commit, ≥1 compaction or restart, ≥1 block existed at some point and the final full-range query returned ≥1 sample; distinct by (config, op list) hash",
		Cases: func(variant string, tier core.Tier) int {
			if variant != "default" {
				return 0
			}
			if tier == core.Thorough {
				return 6000
			}
			return 320
		},
		Run:            run,
		MinNontrivial:  func(t core.Tier) int { return 60 },
		CaseTimeoutSec: 300,
	})
}

func run(c *core.Case) {
	r := c.Rng
	cfg := tsdbhist.GenConfig(r)
	e, err := tsdbhist.NewExec(c.TempDir(), cfg)
	core.Must(err, "open fresh db")
	defer e.Close()
	g := tsdbhist.NewGen(r, cfg)
	nops := 20 + r.IntN(101)
	checks := 0
	for i := 0; i < nops; i++ {
		op := g.Next()
		c.Logf("op %d: %s", i, op)
		if c.Verbose && (op.Kind == "restart" || op.Kind == "compactHead" || op.Kind == "compact" || op.Kind == "mmap") {
			c.Logf("  disk before: %s", tsdbhist.DiskSummary(e.Dir))
			c.Logf("  refs before: %v", e.DB.Head().VerifSeriesRefs())
			c.Logf("  recount before: %+v", e.DB.Head().VerifRecount())
			c.Logf("  state before: %s", e.Diagnose())
		}
		if err := e.Apply(op); err != nil {
			c.Violatef(classifyOpErr(err), "config {%s}\nstep %d (%s) failed: %v\nhistory: %s", cfg, i, op, err, tail(e.History()))
			return
		}
		if e.DB == nil {
			return
		}
		if c.Verbose && op.Kind == "restart" {
			c.Logf("  refs after: %v", e.DB.Head().VerifSeriesRefs())
			c.Logf("  recount after: %+v", e.DB.Head().VerifRecount())
		}
		if c.Verbose {
			if diff := e.Check(nil); diff != "" {
				c.Logf("  FIRST DIFF after op %d: %s\n%s", i, diff, e.Diagnose())
			}
		}
		doCheck := op.Kind != "append" && op.Kind != "mmap" || r.IntN(3) == 0 || i == nops-1
		if op.Kind == "mmap" {
			doCheck = true
		}
		if doCheck {
			checks++
			if diff := e.Check(r); diff != "" {
				c.Violatef(classify(diff), "config {%s}\nafter step %d (%s): %s\nhistory: %s\nstate:\n%s", cfg, i, op, diff, tail(e.History()), e.Diagnose())
				return
			}
		}
	}
	c.Count("ops", int64(nops))
	c.Count("query_checks", int64(checks))
	c.Count("samples_accepted", int64(e.Accepted))
	c.Count("samples_rejected", int64(e.Rejected))
	c.Count("ooo_samples_accepted", int64(e.OOOAccepted))
	c.Count("commits", int64(e.Commits))
	c.Count("rollbacks", int64(e.Rollbacks))
	c.Count("deletes", int64(e.Deletes))
	c.Count("compactions", int64(e.Compactions))
	c.Count("restarts", int64(e.Restarts))
	c.Count("zombie_samples_observed", int64(e.ZombiesObserved))
	for k, n := range e.ErrClasses {
		for i := 0; i < n && i < 1; i++ {
			c.Seen("append_result_class", k)
		}
	}
	for _, s := range e.Steps {
		c.Seen("op_kind", strings.SplitN(strings.SplitN(s, "[", 2)[0], " ", 2)[0])
	}
	if e.ZombiesObserved > 0 {
		c.Violatef("delete-ignores-ooo-head-samples", "config {%s}: %d samples that were out-of-order at append time and lie in a range deleted with DB.Delete were still returned\nhistory: %s", cfg, e.ZombiesObserved, tail(e.History()))
	}
	c.Count("resurrected_samples_observed", int64(e.Resurrected))
	if e.Resurrected > 0 {
		c.Violatef("deleted-sample-replayed-from-wal-after-its-block-was-dropped", "config {%s}: %d query results contained a sample that had been deleted with DB.Delete, whose tombstoned block was then removed (CleanTombstones/compaction of a fully deleted block) and which a later restart replayed from the WAL (no block covers its timestamp any more)\nhistory: %s", cfg, e.Resurrected, tail(e.History()))
	}
	c.Count("inorder_lost_behind_ooo_merge", int64(e.LostBehindOOOMerge))
	if e.LostBehindOOOMerge > 0 {
		c.Violatef("inorder-sample-lost-on-restart-behind-merged-ooo-block", "config {%s}: %d query results after a restart lacked an acknowledged in-order sample whose timestamp lies in the range of an out-of-order block that had been merged with in-order blocks into a block without the from-out-of-order hint (WAL replay is cut at that block's MaxTime although the head had not been compacted that far)\nhistory: %s", cfg, e.LostBehindOOOMerge, tail(e.History()))
	}
	c.Count("wbl_orphans_missing", int64(e.OrphansMissing))
	if e.OrphansMissing > 0 {
		c.Violatef("ooo-sample-lost-wbl-ref-unknown-after-wal-truncation", "config {%s}: %d query results lacked an acknowledged out-of-order sample that lived only in the WBL across restart → WAL truncation → restart (the WBL record's series ref is no longer known after the duplicate series record was dropped from the WAL)\nhistory: %s", cfg, e.OrphansMissing, tail(e.History()))
	}
	c.Count("ghost_samples_missing", int64(e.GhostsMissing))
	if e.GhostsMissing > 0 {
		c.Violatef("ooo-append-hidden-by-earlier-delete", "config {%s}: %d query results lacked a sample that was appended out-of-order AFTER a DB.Delete covering its timestamp (the head's old tombstone hides it)\nhistory: %s", cfg, e.GhostsMissing, tail(e.History()))
	}
	if e.Commits > 0 && (e.Compactions > 0 || e.Restarts > 0) && e.BlocksSeen > 0 && e.Model.NumSamples() > 0 {
		c.Nontrivial(cfg.String(), e.History())
	}
	if c.Idx < 2 {
		c.Sample(map[string]any{"config": cfg.String(), "history": tail(e.History()), "model_samples": e.Model.NumSamples(), "blocks_seen": e.BlocksSeen})
	}
}

func tail(s string) string {
	if len(s) > 3500 {
		return "… " + s[len(s)-3500:]
	}
	return s
}

func classify(diff string) string {
	switch {
	case strings.Contains(diff, "missing sample"):
		return "missing-sample"
	case strings.Contains(diff, "unexpected sample"):
		return "unexpected-sample"
	case strings.Contains(diff, "wrong value"):
		return "wrong-value"
	case strings.Contains(diff, "not strictly increasing"):
		return "duplicate-or-disorder"
	}
	return "query-error"
}

func classifyOpErr(err error) string {
	return "operation-failed:" + strings.SplitN(fmt.Sprint(err), ":", 2)[0]
}
